(* C11 - re-entrant iteration (Model.foreach_re) under the guard "no consumer call removes the element the iteration is
   currently positioned on" (neither by Delete of its key nor by Clear).  Proved for every state satisfying SInv (hence every
   reachable state) and every finite consumer script, forward and reverse:
   * every entry shown is an entry of the map at the moment it is shown (a key removed before it is reached and not
     re-inserted is never visited);
   * forward iteration that is not stopped by the consumer visits every key of the final map, in particular every key
     inserted during the iteration that is still there when the walk reaches the tail;
   * reverse iteration only shows entries whose key was in the map when the iteration started (it never visits an element
     inserted during the iteration).
   Proof: induction over the walk. live o a = the dictionary maps the key stored at address a to a (a is an element of
   the live chain). A consumer call that does not touch the key of the current element keeps it live, the next pointer of
   a live element is live, elements never become live again (Ext), addresses grow along the live chain (Mono). *)
From Coq Require Import NArith List Bool Lia PeanoNat.
From Verif.C11_Set Require Import Model Refine Iter.
Import ListNotations.
Open Scope N_scope.

(* ---------- live elements ---------- *)

Definition live (o : omap) (a : nat) : Prop := dget (dict o) (nkey (nd (mem o) a)) = Some a.

Lemma find_addr_self m l : NoDup (map fst (absl m l)) -> forall a, In a l -> find_addr m l (nkey (nd m a)) = Some a.
Proof.
  induction l as [|b r IH]; cbn [find_addr absl map]; intros ND a H; [inversion H|].
  inversion ND as [|? ? NI ND']; subst.
  destruct H as [->|H]. rewrite N.eqb_refl; auto.
  destruct (nkey (nd m a) =? nkey (nd m b)) eqn:E; [|apply IH; auto].
  apply N.eqb_eq in E. exfalso. apply NI. change (fst (kv (nd m b))) with (nkey (nd m b)). rewrite <- E.
  unfold absl. rewrite map_map. apply in_map_iff. exists a. auto.
Qed.

Lemma live_in o l a : InvL o l -> live o a -> In a l.
Proof. intros I H. unfold live in H. rewrite (i_dict _ _ I) in H. eapply find_addr_in; eauto. Qed.

Lemma in_live o l a : InvL o l -> In a l -> live o a.
Proof. intros I H. unfold live. rewrite (i_dict _ _ I). apply find_addr_self; auto. apply I. Qed.

Lemma live_bound o a : Inv o -> live o a -> (a < length (mem o))%nat.
Proof. intros [l I] H. eapply seg_bound. apply (i_seg _ _ I). eapply live_in; eauto. Qed.

Lemma live_get o a : Inv o -> live o a -> om_get o (nkey (nd (mem o) a)) = Some (nval (nd (mem o) a)).
Proof. intros I H. unfold om_get. rewrite H. rewrite nth_error_nd by (apply live_bound; auto). reflexivity. Qed.

Lemma has_live o k : Inv o -> om_has o k = true -> exists x, live o x /\ nkey (nd (mem o) x) = k.
Proof.
  intros [l I] H. unfold om_has in H. destruct (dget (dict o) k) as [x|] eqn:D; [|discriminate].
  exists x. pose proof D as D'. rewrite (i_dict _ _ I) in D'. destruct (find_addr_split _ _ _ _ D') as (l1 & l2 & _ & K & _).
  split; auto. unfold live. rewrite K. exact D.
Qed.

Lemma live_has o x : live o x -> om_has o (nkey (nd (mem o) x)) = true.
Proof. unfold live, om_has. intros ->. reflexivity. Qed.

Lemma get_has o k v : om_get o k = Some v -> om_has o k = true.
Proof. unfold om_get, om_has. destruct (dget (dict o) k); auto. discriminate. Qed.

Lemma live_next fw o a b : Inv o -> live o a -> nxof fw (nd (mem o) a) = Some b -> live o b.
Proof.
  intros [l I] H E. pose proof (live_in _ _ _ I H) as Ha. destruct fw; cbn [nxof] in E.
  - destruct (chain_next _ _ _ _ I Ha E) as [Hb _]. eapply in_live; eauto.
  - destruct (chain_prev _ _ _ _ I Ha E) as [Hb _]. eapply in_live; eauto.
Qed.

(* ---------- the live chain is sorted by address ---------- *)

Lemma seg_cons m p a r n :
  seg m p (a :: r) n = ((a < length m)%nat /\ nprev (nd m a) = p /\ nnext (nd m a) = hd_or r n /\ seg m (Some a) r n).
Proof. reflexivity. Qed.

Lemma seg_after m : Mono m -> forall l p n a, seg m p (a :: l) n -> forall x, In x l -> (a < x)%nat.
Proof.
  intros M. induction l as [|c r IH]; intros p n a S x Hx; [inversion Hx|].
  rewrite seg_cons in S. destruct S as (La & _ & Sn & S'). cbn [hd_or] in Sn.
  destruct (M a La) as [M1 _]. specialize (M1 _ Sn).
  destruct Hx as [->|Hx]; [lia|]. specialize (IH _ _ _ S' x Hx). lia.
Qed.

Lemma chain_gt o a x : SInv o -> live o a -> live o x -> (a < x)%nat ->
  exists c, nnext (nd (mem o) a) = Some c /\ (a < c)%nat /\ (c <= x)%nat.
Proof.
  intros [[l I] M] Ha Hx L. pose proof (live_in _ _ _ I Ha) as Ia. pose proof (live_in _ _ _ I Hx) as Ix.
  pose proof (i_seg _ _ I) as S.
  destruct (in_split _ _ Ia) as (l1 & l2 & E). subst l.
  apply in_app_or in Ix. destruct Ix as [Ix|[Ix|Ix]].
  - exfalso. destruct (in_split _ _ Ix) as (u & w & E). subst l1.
    rewrite <- app_assoc in S. cbn [app] in S. apply seg_app in S. destruct S as [_ S].
    assert (x < a)%nat. { eapply seg_after; eauto. apply in_or_app; right; left; auto. } lia.
  - lia.
  - apply seg_app in S. destruct S as [_ S]. pose proof S as S0. rewrite seg_cons in S. destruct S as (_ & _ & Sn & S').
    destruct l2 as [|c r]; [inversion Ix|]. cbn [hd_or] in Sn. exists c. split; auto.
    assert (a < c)%nat. { eapply seg_after; eauto. left; auto. }
    split; auto. destruct Ix as [->|Ix]; [lia|]. pose proof (seg_after _ M _ _ _ _ S' x Ix). lia.
Qed.

Lemma head_live o h : Inv o -> head o = Some h -> live o h.
Proof.
  intros [l I] H. rewrite (i_head _ _ I) in H. destruct l; cbn [hd_or] in H; [discriminate|]. inversion H; subst.
  eapply in_live; eauto. left; auto.
Qed.

Lemma tail_live o t : Inv o -> tail o = Some t -> live o t.
Proof. intros [l I] H. destruct (inv_tail _ _ _ I H) as [Hl _]. eapply in_live; eauto. Qed.

Lemma head_least o x : SInv o -> live o x -> exists h, head o = Some h /\ (h <= x)%nat.
Proof.
  intros [[l I] M] Hx. pose proof (live_in _ _ _ I Hx) as Ix. pose proof (i_seg _ _ I) as S.
  rewrite (i_head _ _ I). destruct l as [|h r]; [inversion Ix|]. exists h. split; auto.
  destruct Ix as [->|Ix]; [lia|]. pose proof (seg_after _ M _ _ _ _ S x Ix). lia.
Qed.

(* ---------- what every mutation keeps: the store only grows, keys stay at their address, removed elements stay removed ---------- *)

Record Ext (o o' : omap) : Prop := {
  e_len : (length (mem o) <= length (mem o'))%nat;
  e_key : forall a, (a < length (mem o))%nat -> nkey (nd (mem o') a) = nkey (nd (mem o) a);
  e_live : forall a, (a < length (mem o))%nat -> live o' a -> live o a }.

Lemma ext_refl o : Ext o o.
Proof. constructor; auto. Qed.

Lemma ext_trans o o1 o2 : Ext o o1 -> Ext o1 o2 -> Ext o o2.
Proof.
  intros A B. pose proof (e_len _ _ A). pose proof (e_len _ _ B). constructor.
  - lia.
  - intros a L. rewrite (e_key _ _ B) by lia. apply A; auto.
  - intros a L H1. apply (e_live _ _ A); auto. apply (e_live _ _ B); auto. lia.
Qed.

Lemma dget_set_other o k v k' : k' <> k -> dget (dict (fst (om_set o k v))) k' = dget (dict o) k'.
Proof.
  intros Ne. apply N.eqb_neq in Ne. unfold om_set. destruct (dget (dict o) k); cbn [fst dict]; auto.
  destruct (head o), (tail o); cbn [fst dict]; rewrite dget_dset, Ne; auto.
Qed.

Lemma dget_set_keep o k v k' a : dget (dict o) k' = Some a -> dget (dict (fst (om_set o k v))) k' = Some a.
Proof.
  intros H. destruct (N.eq_dec k' k) as [->|Ne]; [|rewrite dget_set_other; auto].
  unfold om_set. rewrite H. cbn [fst dict]. auto.
Qed.

Lemma dget_set_some o k v k' x : dget (dict (fst (om_set o k v))) k' = Some x -> (x < length (mem o))%nat ->
  dget (dict o) k' = Some x.
Proof.
  unfold om_set. destruct (dget (dict o) k) eqn:D; cbn [fst dict]; auto.
  destruct (head o), (tail o); cbn [fst dict]; rewrite dget_dset; destruct (k' =? k); auto; intros H L; inversion H; lia.
Qed.

Lemma dget_del_other o k k' : k' <> k -> dget (dict (fst (om_delete o k))) k' = dget (dict o) k'.
Proof.
  intros Ne. apply N.eqb_neq in Ne. unfold om_delete. destruct (dget (dict o) k) as [d|]; cbn [fst]; auto.
  destruct (nth_error (mem o) d); cbn [fst dict]; auto. rewrite dget_ddel, Ne. auto.
Qed.

Lemma dget_del_some o k k' x : dget (dict (fst (om_delete o k))) k' = Some x -> dget (dict o) k' = Some x.
Proof.
  unfold om_delete. destruct (dget (dict o) k) as [d|]; cbn [fst]; auto.
  destruct (nth_error (mem o) d); cbn [fst dict]; auto. rewrite dget_ddel. destruct (k' =? k); [discriminate|auto].
Qed.

Lemma pres_any o m : SInv o -> Pres (fun _ => false) o (run_mop o m).
Proof. intros S. apply pres_mop; auto. intros k H; discriminate. destruct m; simpl; auto. Qed.

Lemma ext_mop o m : SInv o -> Ext o (run_mop o m).
Proof.
  intros S. pose proof (pres_any o m S) as A. constructor. apply A. apply A.
  intros a L H. unfold live in *. rewrite (p_key _ _ _ A a L) in H.
  destruct m as [k v|k|]; cbn [run_mop] in H.
  - eapply dget_set_some; eauto.
  - eapply dget_del_some; eauto.
  - cbn in H. discriminate.
Qed.

Lemma ext_mops ops : forall o, SInv o -> Ext o (run_mops o ops).
Proof.
  unfold run_mops. induction ops as [|m r IH]; cbn [fold_left]; intros o S. apply ext_refl.
  eapply ext_trans. apply ext_mop; auto. apply IH. apply sinv_mop; auto.
Qed.

Lemma ext_foreach_re next sc : forall o cur, SInv o -> Ext o (fst (fst (foreach_re next o cur sc))).
Proof.
  induction sc as [|[ops cont] rest IH]; intros o cur S; cbn [foreach_re fst]. apply ext_refl.
  destruct cur as [a|]; cbn [fst]; [|apply ext_refl].
  destruct (nth_error (mem o) a) as [n|]; cbn [fst]; [|apply ext_refl].
  destruct cont; cbn [fst]; [|apply ext_mops; auto].
  specialize (IH (run_mops o ops) (ptr_of next (mem (run_mops o ops)) a) (sinv_mops ops o S)).
  destruct (foreach_re next (run_mops o ops) (ptr_of next (mem (run_mops o ops)) a) rest) as [[o2 vis] b]. cbn [fst] in *.
  eapply ext_trans. apply ext_mops; auto. exact IH.
Qed.

(* a consumer mutation that does not touch the key of a live element keeps it live *)
Lemma live_mop o m a : SInv o -> live o a -> touches (nkey (nd (mem o) a)) m = false -> live (run_mop o m) a.
Proof.
  intros S H T. pose proof (ext_mop o m S) as E. pose proof (live_bound o a (proj1 S) H) as L.
  unfold live in *. rewrite (e_key _ _ E a L).
  destruct m as [k v|k|]; cbn [run_mop touches] in *.
  - apply dget_set_keep; auto.
  - rewrite dget_del_other; auto. apply N.eqb_neq; auto.
  - discriminate.
Qed.

Definition keeps (k : N) (ops : list mop) : bool := forallb (fun m => negb (touches k m)) ops.

Lemma live_mops ops : forall o a, SInv o -> live o a -> keeps (nkey (nd (mem o) a)) ops = true -> live (run_mops o ops) a.
Proof.
  unfold run_mops, keeps. induction ops as [|m r IH]; cbn [fold_left forallb]; intros o a S H K; auto.
  apply andb_prop in K. destruct K as [K1 K2]. apply negb_true_iff in K1.
  apply IH. apply sinv_mop; auto. apply live_mop; auto.
  rewrite (e_key _ _ (ext_mop o m S) a (live_bound o a (proj1 S) H)). exact K2.
Qed.

(* ---------- the guard and the state at the moment of the i-th consumer call ---------- *)

(* keys = the keys shown, in order: the i-th consumer call (which is shown the i-th key) neither deletes that key nor clears *)
Fixpoint cur_kept (sc : list (list mop * bool)) (keys : list N) : bool :=
  match sc, keys with
  | (ops, _) :: r, k :: ks => keeps k ops && cur_kept r ks
  | _, _ => true
  end.

(* the map when the i-th entry is shown: the first i consumer calls have run (after the end of the script: all of them) *)
Definition state_at (o : omap) (sc : list (list mop * bool)) (i : nat) : omap := run_mops o (flat_map fst (firstn i sc)).

Lemma state_at_0 o sc : state_at o sc 0 = o.
Proof. reflexivity. Qed.

Lemma state_at_nil o i : state_at o [] i = o.
Proof. destruct i; reflexivity. Qed.

Lemma state_at_S o ops c rest i : state_at o ((ops, c) :: rest) (S i) = state_at (run_mops o ops) rest i.
Proof. unfold state_at, run_mops. cbn [firstn flat_map fst]. apply fold_left_app. Qed.

Lemma sinv_state_at o sc i : SInv o -> SInv (state_at o sc i).
Proof. intros S. apply sinv_mops; auto. Qed.

(* ---------- every entry shown is live when it is shown ---------- *)

Definition ordered (fw : bool) (a x : nat) : Prop := if fw then (a <= x)%nat else (x <= a)%nat.

Lemma mono_ordered fw m a c : Mono m -> (a < length m)%nat -> nxof fw (nd m a) = Some c -> ordered fw a c.
Proof.
  intros M L E. destruct (M a L) as [M1 M2]. destruct fw; cbn [nxof ordered] in *.
  - apply M1 in E. lia.
  - apply M2 in E. lia.
Qed.

Lemma ordered_trans fw a b c : ordered fw a b -> ordered fw b c -> ordered fw a c.
Proof. destruct fw; cbn [ordered]; lia. Qed.

Lemma ordered_refl fw a : ordered fw a a.
Proof. destruct fw; cbn [ordered]; lia. Qed.

Lemma walk_shown fw o : SInv o -> forall fuel cur, (forall a, cur = Some a -> live o a) ->
  forall i k v, nth_error (walk (nxof fw) (mem o) fuel cur) i = Some (k, v) ->
  exists x, live o x /\ nkey (nd (mem o) x) = k /\ nval (nd (mem o) x) = v /\ (forall a, cur = Some a -> ordered fw a x).
Proof.
  intros [I M]. induction fuel as [|f IH]; intros cur C i k v H.
  - cbn [walk] in H. destruct i; discriminate.
  - destruct cur as [a|]; [|cbn [walk] in H; destruct i; discriminate].
    pose proof (C a eq_refl) as La. pose proof (live_bound o a I La) as Lb.
    cbn [walk] in H. rewrite (nth_error_nd _ _ Lb) in H.
    destruct i as [|i]; cbn [nth_error] in H.
    + inversion H; subst. exists a. repeat split; auto. intros a' E; inversion E; subst. apply ordered_refl.
    + destruct (nxof fw (nd (mem o) a)) as [c|] eqn:Nc.
      * destruct (IH (Some c)) with (i := i) (k := k) (v := v) as (x & X1 & X2 & X3 & X4); auto.
        { intros c' E; inversion E; subst. eapply live_next; eauto. }
        exists x. repeat split; auto. intros a' E; inversion E; subst.
        eapply ordered_trans. eapply mono_ordered; eauto. apply X4; auto.
      * destruct f; cbn [walk] in H; destruct i; discriminate.
Qed.

Lemma foreach_re_none next o sc : snd (fst (foreach_re next o None sc)) = [].
Proof. destruct sc as [|[ops c] r]; cbn [foreach_re fst snd]; auto. destruct (length (mem o)); auto. Qed.

Lemma guarded_shown fw sc : forall o cur, SInv o -> (forall a, cur = Some a -> live o a) ->
  cur_kept sc (map fst (snd (fst (foreach_re (nxof fw) o cur sc)))) = true ->
  forall i k v, nth_error (snd (fst (foreach_re (nxof fw) o cur sc))) i = Some (k, v) ->
  exists x, live (state_at o sc i) x /\ nkey (nd (mem (state_at o sc i)) x) = k /\ nval (nd (mem (state_at o sc i)) x) = v
            /\ (forall a, cur = Some a -> ordered fw a x).
Proof.
  induction sc as [|[ops cont] rest IH]; intros o cur S C G i k v H.
  - cbn [foreach_re fst snd] in H. rewrite state_at_nil. eapply walk_shown; eauto.
  - destruct cur as [a|]; [|rewrite foreach_re_none in H; destruct i; discriminate].
    pose proof (C a eq_refl) as La. pose proof (live_bound o a (proj1 S) La) as Lb.
    cbn [foreach_re] in G, H. rewrite (nth_error_nd _ _ Lb) in G, H.
    pose proof (sinv_mops ops o S) as S1. pose proof (ext_mops ops o S) as E1.
    set (o1 := run_mops o ops) in *.
    assert (Lb1 : (a < length (mem o1))%nat) by (pose proof (e_len _ _ E1); lia).
    destruct cont.
    + unfold ptr_of in G, H. rewrite (nth_error_nd _ _ Lb1) in G, H.
      specialize (IH o1 (nxof fw (nd (mem o1) a)) S1).
      pose proof (foreach_re_none (nxof fw) o1 rest) as RN.
      destruct (foreach_re (nxof fw) o1 (nxof fw (nd (mem o1) a)) rest) as [[o2 vis] b] eqn:R.
      cbn [fst snd map cur_kept] in G, H, IH. apply andb_prop in G. destruct G as [G1 G2].
      assert (La1 : live o1 a) by (apply live_mops; auto).
      destruct i as [|i]; cbn [nth_error] in H.
      * inversion H; subst. exists a. rewrite state_at_0. repeat split; auto.
        intros a' E; inversion E; subst. apply ordered_refl.
      * rewrite state_at_S. fold o1.
        destruct (IH) with (i := i) (k := k) (v := v) as (x & X1 & X2 & X3 & X4); auto.
        { intros c E. eapply live_next; eauto. apply S1. }
        exists x. repeat split; auto. intros a' E; inversion E; subst a'.
        destruct (nxof fw (nd (mem o1) a)) as [c|] eqn:Nc.
        -- eapply ordered_trans. eapply mono_ordered; eauto. apply S1. apply X4; auto.
        -- rewrite R in RN. cbn [fst snd] in RN. subst vis. destruct i; discriminate.
    + cbn [fst snd map] in G, H. destruct i as [|i]; cbn [nth_error] in H; [|destruct i; discriminate].
      inversion H; subst. exists a. rewrite state_at_0. repeat split; auto.
      intros a' E; inversion E; subst. apply ordered_refl.
Qed.

(* ---------- forward: every element that is live at the end and lies behind the position is shown ---------- *)

Definition behind (o : omap) (cur : option nat) (x : nat) : Prop :=
  match cur with Some a => (a <= x)%nat | None => (length (mem o) <= x)%nat end.

Lemma kw_all_behind o : SInv o -> forall n a x, (length (mem o) - a < n)%nat -> live o a -> live o x -> (a <= x)%nat ->
  In (nkey (nd (mem o) x)) (kw true (mem o) (Some a)).
Proof.
  intros S. pose proof S as [I M]. induction n as [|n IH]; intros a x Hn La Lx Le; [lia|].
  pose proof (live_bound o a I La) as Lb. rewrite (kw_step true (mem o) a M Lb).
  destruct (Nat.eq_dec a x) as [->|Ne]; [left; auto|right].
  assert (Lt : (a < x)%nat) by lia.
  destruct (chain_gt o a x S La Lx Lt) as (c & Nc & C1 & C2).
  cbn [nxof]. rewrite Nc. apply IH; auto. lia. apply (live_next true o a c I La Nc).
Qed.

Lemma guarded_all_behind sc : forall o cur, SInv o -> (forall a, cur = Some a -> live o a) ->
  cur_kept sc (map fst (snd (fst (foreach_re nnext o cur sc)))) = true ->
  snd (foreach_re nnext o cur sc) = true ->
  forall x, live (fst (fst (foreach_re nnext o cur sc))) x -> behind o cur x ->
  In (nkey (nd (mem (fst (fst (foreach_re nnext o cur sc)))) x)) (map fst (snd (fst (foreach_re nnext o cur sc)))).
Proof.
  induction sc as [|[ops cont] rest IH]; intros o cur S C G B x Lx Bx.
  - cbn [foreach_re fst snd] in *. destruct cur as [a|]; cbn [behind] in Bx.
    + change nnext with (nxof true). rewrite kw_walk. apply (kw_all_behind o S (Datatypes.S (length (mem o) - a))); auto.
    + pose proof (live_bound o x (proj1 S) Lx). lia.
  - destruct cur as [a|].
    2:{ cbn [foreach_re fst snd behind] in *. pose proof (live_bound o x (proj1 S) Lx). lia. }
    pose proof (C a eq_refl) as La. pose proof (live_bound o a (proj1 S) La) as Lb.
    pose proof (ext_foreach_re nnext ((ops, cont) :: rest) o (Some a) S) as EF.
    cbn [foreach_re] in G, B, Lx, EF |- *. rewrite (nth_error_nd _ _ Lb) in G, B, Lx, EF |- *.
    pose proof (sinv_mops ops o S) as S1. pose proof (ext_mops ops o S) as E1.
    set (o1 := run_mops o ops) in *.
    assert (Lb1 : (a < length (mem o1))%nat) by (pose proof (e_len _ _ E1); lia).
    destruct cont; [|cbn [snd] in B; discriminate].
    unfold ptr_of in G, B, Lx, EF |- *. rewrite (nth_error_nd _ _ Lb1) in G, B, Lx, EF |- *.
    specialize (IH o1 (nnext (nd (mem o1) a)) S1).
    pose proof (ext_foreach_re nnext rest o1 (nnext (nd (mem o1) a)) S1) as E2.
    destruct (foreach_re nnext o1 (nnext (nd (mem o1) a)) rest) as [[o2 vis] b] eqn:R.
    cbn [fst snd map cur_kept] in *. apply andb_prop in G. destruct G as [G1 G2].
    assert (La1 : live o1 a) by (apply live_mops; auto).
    cbn [behind] in Bx. destruct (Nat.eq_dec a x) as [->|Ne].
    + left. symmetry. apply (e_key _ _ EF); auto.
    + right. apply IH; auto.
      * intros c E. eapply (live_next true); eauto. apply S1.
      * destruct (Nat.lt_ge_cases x (length (mem o1))) as [Lx1|Lx1].
        -- assert (Lo1 : live o1 x) by (apply (e_live _ _ E2); auto).
           assert (Lt : (a < x)%nat) by lia.
           destruct (chain_gt o1 a x S1 La1 Lo1 Lt) as (c & Nc & C1 & C2). rewrite Nc. cbn [behind]. auto.
        -- destruct (nnext (nd (mem o1) a)) as [c|] eqn:Nc; cbn [behind]; auto.
           pose proof (next_bound true (mem o1) a c (proj2 S1) Lb1 Nc). lia.
Qed.

(* ---------- the theorems ---------- *)

Definition shown_f (o : omap) (sc : list (list mop * bool)) : list (N * N) := snd (fst (om_foreach_re o sc)).
Definition shown_r (o : omap) (sc : list (list mop * bool)) : list (N * N) := snd (fst (om_foreachrev_re o sc)).

(* guard: no consumer call removes the element it is shown; then every entry shown is an entry of the map at that moment *)
Theorem foreach_re_shown_live o sc : SInv o -> cur_kept sc (map fst (shown_f o sc)) = true ->
  forall i k v, nth_error (shown_f o sc) i = Some (k, v) -> om_get (state_at o sc i) k = Some v.
Proof.
  intros S G i k v H. unfold shown_f, om_foreach_re in *.
  destruct (guarded_shown true sc o (head o) S) with (i := i) (k := k) (v := v) as (x & X1 & X2 & X3 & _); auto.
  - intros a E. apply head_live; auto. apply S.
  - rewrite <- X2, <- X3. apply live_get; auto. apply sinv_state_at; auto.
Qed.

Theorem foreachrev_re_shown_live o sc : SInv o -> cur_kept sc (map fst (shown_r o sc)) = true ->
  forall i k v, nth_error (shown_r o sc) i = Some (k, v) -> om_get (state_at o sc i) k = Some v.
Proof.
  intros S G i k v H. unfold shown_r, om_foreachrev_re in *.
  destruct (guarded_shown false sc o (tail o) S) with (i := i) (k := k) (v := v) as (x & X1 & X2 & X3 & _); auto.
  - intros a E. apply tail_live; auto. apply S.
  - rewrite <- X2, <- X3. apply live_get; auto. apply sinv_state_at; auto.
Qed.

(* forward, not stopped by the consumer: every key of the final map has been shown *)
Theorem foreach_re_final_shown o sc : SInv o -> cur_kept sc (map fst (shown_f o sc)) = true ->
  snd (om_foreach_re o sc) = true ->
  forall k, om_has (fst (fst (om_foreach_re o sc))) k = true -> In k (map fst (shown_f o sc)).
Proof.
  intros S G B k H. unfold shown_f, om_foreach_re in *.
  pose proof (sinv_foreach_re nnext sc o (head o) S) as SF. pose proof (ext_foreach_re nnext sc o (head o) S) as EF.
  destruct (has_live _ k (proj1 SF) H) as (x & Lx & Kx). rewrite <- Kx.
  apply guarded_all_behind; auto.
  - intros a E. apply head_live; auto. apply S.
  - destruct (Nat.lt_ge_cases x (length (mem o))) as [L|L].
    + destruct (head_least o x S) as (h & -> & Hh). apply (e_live _ _ EF); auto. exact Hh.
    + destruct (head o) as [h|] eqn:Eh; cbn [behind]; auto.
      pose proof (live_bound o h (proj1 S) (head_live o h (proj1 S) Eh)). lia.
Qed.

Lemma firstn_split {A} (l : list A) : forall j i, (j <= i)%nat -> firstn i l = firstn j l ++ firstn (i - j) (skipn j l).
Proof.
  induction l as [|a r IH]; intros j i L.
  - rewrite skipn_nil, !firstn_nil. reflexivity.
  - destruct j. rewrite Nat.sub_0_r. reflexivity.
    destruct i; [lia|]. cbn [firstn skipn app Nat.sub]. f_equal. apply IH. lia.
Qed.

Lemma state_at_split o sc j i : (j <= i)%nat ->
  state_at o sc i = run_mops (state_at o sc j) (flat_map fst (firstn (i - j) (skipn j sc))).
Proof.
  intros L. unfold state_at, run_mops. rewrite (firstn_split sc j i L), flat_map_app, fold_left_app. reflexivity.
Qed.

(* reverse: the element shown existed when the iteration started and was in the map ever since: its key is in the map at the
   start and at every consumer call up to the moment it is shown (an element inserted during the iteration is never shown) *)
Theorem foreachrev_re_old_only o sc : SInv o -> cur_kept sc (map fst (shown_r o sc)) = true ->
  forall i k v, nth_error (shown_r o sc) i = Some (k, v) -> forall j, (j <= i)%nat -> om_has (state_at o sc j) k = true.
Proof.
  intros S G i k v H j Lj. unfold shown_r, om_foreachrev_re in *.
  destruct (guarded_shown false sc o (tail o) S) with (i := i) (k := k) (v := v) as (x & X1 & X2 & X3 & X4); auto.
  - intros a E. apply tail_live; auto. apply S.
  - destruct (tail o) as [t|] eqn:Et.
    2:{ rewrite foreach_re_none in H. destruct i; discriminate. }
    specialize (X4 t eq_refl). cbn [ordered] in X4.
    pose proof (live_bound o t (proj1 S) (tail_live o t (proj1 S) Et)) as Lt.
    pose proof (ext_mops (flat_map fst (firstn j sc)) o S) as E0. fold (state_at o sc j) in E0.
    pose proof (ext_mops (flat_map fst (firstn (i - j) (skipn j sc))) (state_at o sc j) (sinv_state_at o sc j S)) as E.
    rewrite <- (state_at_split o sc j i Lj) in E.
    assert (Lx : (x < length (mem (state_at o sc j)))%nat) by (pose proof (e_len _ _ E0); lia).
    pose proof (e_live _ _ E x Lx X1) as Lo. rewrite (e_key _ _ E x Lx) in X2. rewrite <- X2. apply live_has; auto.
Qed.

(* ---------- the reading "a removed key is not visited": removed by call i and never inserted by the script ---------- *)

Lemma has_after_del o k : Inv o -> om_has (fst (om_delete o k)) k = false.
Proof.
  intros [l I]. unfold om_has at 1. unfold om_delete. destruct (dget (dict o) k) as [d|] eqn:D; cbn [fst].
  - assert (L : (d < length (mem o))%nat).
    { eapply seg_bound. apply (i_seg _ _ I). rewrite (i_dict _ _ I) in D. eapply find_addr_in; eauto. }
    rewrite (nth_error_nd _ _ L). cbn [fst dict]. rewrite dget_ddel, N.eqb_refl. auto.
  - rewrite D. auto.
Qed.

Definition sets (k : N) (m : mop) : bool := match m with MSet k' _ => k =? k' | _ => false end.

Lemma has_false_mop o k m : om_has o k = false -> sets k m = false -> om_has (run_mop o m) k = false.
Proof.
  intros H Sm. unfold om_has in *. destruct m as [k' v|k'|]; cbn [run_mop sets] in *.
  - rewrite dget_set_other; auto. apply N.eqb_neq; auto.
  - destruct (dget (dict (fst (om_delete o k'))) k) eqn:D; auto. apply dget_del_some in D. rewrite D in H. discriminate.
  - reflexivity.
Qed.

Lemma has_false_mops l : forall o k, om_has o k = false -> existsb (sets k) l = false -> om_has (run_mops o l) k = false.
Proof.
  unfold run_mops. induction l as [|m r IH]; cbn [fold_left existsb]; intros o k H E; auto.
  apply orb_false_elim in E. destruct E as [E1 E2]. apply IH; auto. apply has_false_mop; auto.
Qed.

Lemma existsb_false_in {A} (f : A -> bool) l : (forall x, In x l -> f x = false) -> existsb f l = false.
Proof. induction l; cbn [existsb]; intros H; auto. rewrite H by (left; auto). rewrite IHl; auto. intros; apply H; right; auto. Qed.

Lemma nth_error_firstn_lt {A} (l : list A) : forall i j, (i < j)%nat -> nth_error (firstn j l) i = nth_error l i.
Proof.
  induction l as [|a r IH]; intros i j L.
  - destruct j; destruct i; reflexivity.
  - destruct j; [lia|]. destruct i; cbn [firstn nth_error]; auto. apply IH. lia.
Qed.

Lemma in_skipn_nth {A} (l : list A) x : forall n, In x (skipn n l) -> exists j, (n <= j)%nat /\ nth_error l j = Some x.
Proof.
  induction l as [|a r IH]; intros n H.
  - destruct n; inversion H.
  - destruct n; cbn [skipn] in H.
    + apply In_nth_error in H. destruct H as [j Hj]. exists j. split; auto. lia.
    + destruct (IH n H) as (j & L & Hj). exists (S j). split; auto. lia.
Qed.

Lemma existsb_false_elim {A} (f : A -> bool) l x : existsb f l = false -> In x l -> f x = false.
Proof.
  intros E H. destruct (f x) eqn:F; auto. rewrite <- E. symmetry. apply existsb_exists. exists x. auto.
Qed.

Lemma removed_not_live o sc k i ops b j : SInv o ->
  (forall e, In e sc -> existsb (sets k) (fst e) = false) ->
  nth_error sc i = Some (ops, b) -> In (MDel k) ops -> (i < j)%nat -> om_has (state_at o sc j) k = false.
Proof.
  intros S NS Hi Hd L. unfold state_at.
  assert (Hin : In (MDel k) (flat_map fst (firstn j sc))).
  { apply in_flat_map. exists (ops, b). split; auto. apply nth_error_In with (n := i). rewrite nth_error_firstn_lt; auto. }
  destruct (in_split _ _ Hin) as (pre & post & E). rewrite E.
  unfold run_mops. rewrite fold_left_app. cbn [fold_left]. fold (run_mops o pre).
  fold (run_mops (run_mop (run_mops o pre) (MDel k)) post).
  apply has_false_mops.
  - cbn [run_mop]. apply has_after_del. apply (sinv_mops pre o S).
  - apply existsb_false_in. intros m Hm.
    assert (Hm' : In m (flat_map fst (firstn j sc))) by (rewrite E; apply in_or_app; right; right; auto).
    apply in_flat_map in Hm'. destruct Hm' as (e & He & Hme).
    assert (He' : In e sc) by (rewrite <- (firstn_skipn j sc); apply in_or_app; left; auto).
    eapply existsb_false_elim; eauto.
Qed.

(* a key deleted by the i-th consumer call and never inserted by the script is not shown after the i-th entry *)
Theorem foreach_re_removed_not_shown o sc k i ops b : SInv o -> cur_kept sc (map fst (shown_f o sc)) = true ->
  (forall e, In e sc -> existsb (sets k) (fst e) = false) ->
  nth_error sc i = Some (ops, b) -> In (MDel k) ops -> ~ In k (skipn (S i) (map fst (shown_f o sc))).
Proof.
  intros S G NS Hi Hd H. apply in_skipn_nth in H. destruct H as (j & L & Hj).
  rewrite nth_error_map in Hj. destruct (nth_error (shown_f o sc) j) as [[k' v]|] eqn:Ej; [|discriminate].
  cbn in Hj. inversion Hj; subst k'.
  pose proof (foreach_re_shown_live o sc S G j k v Ej) as Hg. apply get_has in Hg.
  rewrite (removed_not_live o sc k i ops b j S NS Hi Hd) in Hg by lia. discriminate.
Qed.

Theorem foreachrev_re_removed_not_shown o sc k i ops b : SInv o -> cur_kept sc (map fst (shown_r o sc)) = true ->
  (forall e, In e sc -> existsb (sets k) (fst e) = false) ->
  nth_error sc i = Some (ops, b) -> In (MDel k) ops -> ~ In k (skipn (S i) (map fst (shown_r o sc))).
Proof.
  intros S G NS Hi Hd H. apply in_skipn_nth in H. destruct H as (j & L & Hj).
  rewrite nth_error_map in Hj. destruct (nth_error (shown_r o sc) j) as [[k' v]|] eqn:Ej; [|discriminate].
  cbn in Hj. inversion Hj; subst k'.
  pose proof (foreachrev_re_shown_live o sc S G j k v Ej) as Hg. apply get_has in Hg.
  rewrite (removed_not_live o sc k i ops b j S NS Hi Hd) in Hg by lia. discriminate.
Qed.

(* ---------- the two statements of Properties/C11.v, for every state satisfying SInv ---------- *)

Theorem iter_removed_not_visited o sc : SInv o ->
  (cur_kept sc (map fst (snd (fst (om_foreach_re o sc)))) = true ->
     (forall i k v, nth_error (snd (fst (om_foreach_re o sc))) i = Some (k, v) -> om_get (state_at o sc i) k = Some v) /\
     (forall k i ops b, (forall e, In e sc -> existsb (sets k) (fst e) = false) ->
        nth_error sc i = Some (ops, b) -> In (MDel k) ops -> ~ In k (skipn (S i) (map fst (snd (fst (om_foreach_re o sc))))))) /\
  (cur_kept sc (map fst (snd (fst (om_foreachrev_re o sc)))) = true ->
     (forall i k v, nth_error (snd (fst (om_foreachrev_re o sc))) i = Some (k, v) -> om_get (state_at o sc i) k = Some v) /\
     (forall k i ops b, (forall e, In e sc -> existsb (sets k) (fst e) = false) ->
        nth_error sc i = Some (ops, b) -> In (MDel k) ops -> ~ In k (skipn (S i) (map fst (snd (fst (om_foreachrev_re o sc))))))).
Proof.
  intros S. split; intros G; split.
  - exact (foreach_re_shown_live o sc S G).
  - intros k i ops b. exact (foreach_re_removed_not_shown o sc k i ops b S G).
  - exact (foreachrev_re_shown_live o sc S G).
  - intros k i ops b. exact (foreachrev_re_removed_not_shown o sc k i ops b S G).
Qed.

Theorem iter_inserted_visited o sc : SInv o ->
  (cur_kept sc (map fst (snd (fst (om_foreach_re o sc)))) = true -> snd (om_foreach_re o sc) = true ->
     forall k, om_has (fst (fst (om_foreach_re o sc))) k = true -> In k (map fst (snd (fst (om_foreach_re o sc))))) /\
  (cur_kept sc (map fst (snd (fst (om_foreachrev_re o sc)))) = true ->
     forall i k v, nth_error (snd (fst (om_foreachrev_re o sc))) i = Some (k, v) ->
     forall j, (j <= i)%nat -> om_has (state_at o sc j) k = true).
Proof.
  intros S. split.
  - exact (foreach_re_final_shown o sc S).
  - exact (foreachrev_re_old_only o sc S).
Qed.
