(* C11 - iteration whose consumer mutates the map (re-entrant ForEach / ForEachReverse, Model.foreach_re).
   The code keeps a pointer to the current element, calls the consumer, and reads current.next (prev) afterwards;
   removed elements keep their pointers. Main theorem: for every script of consumer mutations (Set / Delete / Clear,
   any number per call), every key that is live during the whole iteration is visited exactly once and these visits
   come in first-insertion order (reverse order for ForEachReverse).
   Proof idea: addresses grow along next pointers in the whole store (also through removed elements), so the walk from
   any element is well defined; a Delete only short-cuts the removed element out of every such walk, a Set only
   appends a new element at the end of a walk, a Clear does not touch the store. *)
From Coq Require Import NArith List Bool Lia PeanoNat.
From Verif.C11_Set Require Import Model Refine.
Import ListNotations.
Open Scope N_scope.

(* ---------- walks over an abstract pointer graph: address -> (key, next) ---------- *)

Definition graph := nat -> option (N * option nat).

Fixpoint gwalk (G : graph) (fuel : nat) (cur : option nat) : list N :=
  match fuel, cur with
  | S f, Some a => match G a with Some (k, nx) => k :: gwalk G f nx | None => [] end
  | _, _ => []
  end.

Definition gof (nx : node -> option nat) (m : list node) : graph :=
  fun a => option_map (fun n => (nkey n, nx n)) (nth_error m a).

Lemma walk_gwalk nx m : forall f c, map fst (walk nx m f c) = gwalk (gof nx m) f c.
Proof.
  induction f; intros [a|]; simpl; auto. unfold gof. destruct (nth_error m a); simpl; auto. f_equal; auto.
Qed.

Definition decr (G : graph) (rk : nat -> nat) := forall a k b, G a = Some (k, Some b) -> (rk b < rk a)%nat.

Lemma gwalk_none G f : gwalk G f None = [].
Proof. destruct f; auto. Qed.

Lemma gwalk_fuel G rk : decr G rk -> forall n a f1 f2, (rk a < n)%nat -> (rk a < f1)%nat -> (rk a < f2)%nat ->
  gwalk G f1 (Some a) = gwalk G f2 (Some a).
Proof.
  intros D. induction n; intros a f1 f2 Hn H1 H2; [lia|].
  destruct f1; [lia|]. destruct f2; [lia|]. simpl.
  destruct (G a) as [[k [b|]]|] eqn:E; auto.
  - f_equal. pose proof (D _ _ _ E). apply IHn; lia.
  - rewrite !gwalk_none; auto.
Qed.

Lemma gwalk_region G G' n : (forall a, (a < n)%nat -> G' a = G a) ->
  (forall a k b, (a < n)%nat -> G a = Some (k, Some b) -> (b < n)%nat) ->
  forall f c, (c < n)%nat -> gwalk G' f (Some c) = gwalk G f (Some c).
Proof.
  intros E C. induction f; intros c Hc; simpl; auto.
  rewrite (E c Hc). destruct (G c) as [[k [b|]]|] eqn:Ec; auto.
  - f_equal. apply IHf. eapply C; eauto.
  - rewrite !gwalk_none; auto.
Qed.

Lemma gwalk_ext G G' : (forall a, G' a = G a) -> forall f c, gwalk G' f c = gwalk G f c.
Proof.
  intros E. induction f; intros [c|]; simpl; auto. rewrite E. destruct (G c) as [[k nx]|]; auto. f_equal; auto.
Qed.

Section Filtered.
Variable P : N -> bool.

(* a pointer p -> d is redirected to the successor of d (Delete of d): walks lose at most d *)
Lemma gwalk_redirect G G' rk p kp d kd x :
  decr G rk -> (forall a, a <> p -> G' a = G a) ->
  G p = Some (kp, Some d) -> G d = Some (kd, x) -> G' p = Some (kp, x) -> P kd = false ->
  forall n c f f', (rk c < n)%nat -> (rk c < f)%nat -> (rk c < f')%nat ->
  filter P (gwalk G' f' (Some c)) = filter P (gwalk G f (Some c)).
Proof.
  intros D E Gp Gd G'p Pk. induction n; intros c f f' Hn Hf Hf'; [lia|].
  destruct f; [lia|]. destruct f'; [lia|].
  destruct (Nat.eq_dec c p) as [->|Ne].
  - cbn [gwalk]. rewrite Gp, G'p. pose proof (D _ _ _ Gp) as R1.
    destruct f; [lia|]. cbn [gwalk]. rewrite Gd. cbn [filter]. rewrite Pk.
    destruct x as [x|].
    + pose proof (D _ _ _ Gd) as R2. rewrite (IHn x f f') by lia. reflexivity.
    + rewrite !gwalk_none. reflexivity.
  - cbn [gwalk]. rewrite (E c Ne). destruct (G c) as [[k [b|]]|] eqn:Ec; auto.
    + pose proof (D _ _ _ Ec). cbn [filter]. rewrite (IHn b f f') by lia. reflexivity.
    + rewrite !gwalk_none; auto.
Qed.

(* a new element nw is linked behind the last element t (Set of a new key): walks gain at most nw *)
Lemma gwalk_append G G' rk rk' t kt nw knew :
  decr G rk -> decr G' rk' -> (forall a, a <> t -> a <> nw -> G' a = G a) ->
  G t = Some (kt, None) -> G' t = Some (kt, Some nw) -> G nw = None -> G' nw = Some (knew, None) -> P knew = false ->
  forall n c f f', (rk c < n)%nat -> (rk c < f)%nat -> (rk' c < f')%nat ->
  filter P (gwalk G' f' (Some c)) = filter P (gwalk G f (Some c)).
Proof.
  intros D D' E Gt G't Gn G'n Pk. induction n; intros c f f' Hn Hf Hf'; [lia|].
  destruct f; [lia|]. destruct f'; [lia|].
  destruct (Nat.eq_dec c t) as [->|Nt].
  - cbn [gwalk]. rewrite Gt, G't. pose proof (D' _ _ _ G't) as R1.
    destruct f'; [lia|]. cbn [gwalk]. rewrite G'n. rewrite !gwalk_none. cbn [filter]. rewrite Pk. reflexivity.
  - destruct (Nat.eq_dec c nw) as [->|Nn].
    + cbn [gwalk]. rewrite Gn, G'n. rewrite gwalk_none. cbn [filter]. rewrite Pk. reflexivity.
    + cbn [gwalk]. pose proof (E c Nt Nn) as Ec'. rewrite Ec'. destruct (G c) as [[k [b|]]|] eqn:Ec; auto.
      * pose proof (D _ _ _ Ec). pose proof (D' _ _ _ Ec'). cbn [filter]. rewrite (IHn b f f') by lia. reflexivity.
      * rewrite !gwalk_none; auto.
Qed.

End Filtered.

(* ---------- the store ---------- *)

Lemma nth_error_upd m : forall a f b,
  nth_error (upd m a f) b = if Nat.eqb a b then option_map f (nth_error m a) else nth_error m b.
Proof.
  induction m as [|x r IH]; intros a f b.
  - destruct a, b; simpl; auto; destruct (Nat.eqb a b); auto.
  - destruct a, b; simpl; auto.
Qed.

Lemma gof_upd_other nx m a f b : a <> b -> gof nx (upd m a f) b = gof nx m b.
Proof. intros H. unfold gof. rewrite nth_error_upd. apply Nat.eqb_neq in H. rewrite H. auto. Qed.

Lemma gof_upd_keep nx m a f : (forall x, nkey (f x) = nkey x /\ nx (f x) = nx x) -> forall b, gof nx (upd m a f) b = gof nx m b.
Proof.
  intros K b. unfold gof. rewrite nth_error_upd. destruct (Nat.eqb a b) eqn:E; auto.
  apply Nat.eqb_eq in E. subst b. destruct (nth_error m a); simpl; auto. destruct (K n) as [-> ->]. auto.
Qed.

Lemma gof_upd_same nx m a f n : nth_error m a = Some n -> gof nx (upd m a f) a = Some (nkey (f n), nx (f n)).
Proof. intros H. unfold gof. rewrite nth_error_upd, Nat.eqb_refl, H. auto. Qed.

Lemma gof_nd nx m a : (a < length m)%nat -> gof nx m a = Some (nkey (nd m a), nx (nd m a)).
Proof. intros H. unfold gof. rewrite nth_error_nd; auto. Qed.

Lemma gof_out nx m a : (length m <= a)%nat -> gof nx m a = None.
Proof. intros H. unfold gof. apply nth_error_None in H. rewrite H. auto. Qed.

Lemma gof_app_old nx m x a : (a < length m)%nat -> gof nx (m ++ x) a = gof nx m a.
Proof. intros H. unfold gof. rewrite nth_error_app1; auto. Qed.

Lemma gof_app_new nx m x : gof nx (m ++ [x]) (length m) = Some (nkey x, nx x).
Proof. unfold gof. rewrite nth_error_app2, Nat.sub_diag; auto. Qed.

(* addresses grow along next and fall along prev, for every element of the store (live or removed) *)
Definition Mono (m : list node) := forall a, (a < length m)%nat ->
  (forall y, nnext (nd m a) = Some y -> (a < y < length m)%nat) /\ (forall y, nprev (nd m a) = Some y -> (y < a)%nat).

Definition nxof (fw : bool) : node -> option nat := if fw then nnext else nprev.
Definition rk (fw : bool) (m : list node) (a : nat) : nat := if fw then (length m - 1 - a)%nat else a.

Lemma decr_dir fw m : Mono m -> decr (gof (nxof fw) m) (rk fw m).
Proof.
  intros M a k b E. unfold gof in E. destruct (nth_error m a) as [n|] eqn:N; simpl in E; [|discriminate].
  assert (L : (a < length m)%nat) by (apply nth_error_Some; congruence).
  rewrite nth_error_nd in N by auto. inversion N; subst n. inversion E as [[E1 E2]].
  destruct (M a L) as [M1 M2]. destruct fw; simpl in *.
  - specialize (M1 _ E2). lia.
  - specialize (M2 _ E2). lia.
Qed.

Lemma rk_fuel fw m a : (a < length m)%nat -> (rk fw m a < length m)%nat.
Proof. destruct fw; simpl; lia. Qed.

Lemma next_bound fw m a b : Mono m -> (a < length m)%nat -> nxof fw (nd m a) = Some b -> (b < length m)%nat.
Proof. intros M L H. destruct (M a L) as [M1 M2]. destruct fw; simpl in H. apply M1 in H; lia. apply M2 in H; lia. Qed.

(* keys walked from c with the fuel the model uses *)
Definition kw (fw : bool) (m : list node) (c : option nat) : list N := gwalk (gof (nxof fw) m) (length m) c.

Lemma kw_walk fw m c : map fst (walk (nxof fw) m (length m) c) = kw fw m c.
Proof. apply walk_gwalk. Qed.

Lemma gwalk_S G f a : gwalk G (S f) (Some a) = match G a with Some (k, nx) => k :: gwalk G f nx | None => [] end.
Proof. reflexivity. Qed.

Lemma kw_step fw m a : Mono m -> (a < length m)%nat ->
  kw fw m (Some a) = nkey (nd m a) :: kw fw m (nxof fw (nd m a)).
Proof.
  intros M L. pose proof (rk_fuel fw m a L) as R2. unfold kw. destruct (length m) as [|f] eqn:EL; [lia|]. rewrite (gwalk_S _ f a).
  rewrite gof_nd by lia. f_equal. destruct (nxof fw (nd m a)) as [b|] eqn:Nb; [|rewrite !gwalk_none; auto].
  pose proof (decr_dir fw m M) as D. assert (G : gof (nxof fw) m a = Some (nkey (nd m a), Some b)) by (rewrite gof_nd by lia; congruence).
  pose proof (D _ _ _ G) as R.
  apply (gwalk_fuel _ _ D (S (rk fw m b))); lia.
Qed.

Lemma set_next_fields x n : nkey (set_next x n) = nkey n /\ nval (set_next x n) = nval n /\ nprev (set_next x n) = nprev n /\ nnext (set_next x n) = x.
Proof. destruct n; simpl; auto. Qed.
Lemma set_prev_fields x n : nkey (set_prev x n) = nkey n /\ nval (set_prev x n) = nval n /\ nprev (set_prev x n) = x /\ nnext (set_prev x n) = nnext n.
Proof. destruct n; simpl; auto. Qed.
Lemma set_val_fields v n : nkey (set_val v n) = nkey n /\ nprev (set_val v n) = nprev n /\ nnext (set_val v n) = nnext n.
Proof. destruct n; simpl; auto. Qed.

Lemma nd_upd m a f b : nd (upd m a f) b = if Nat.eqb a b then (if Nat.ltb a (length m) then f (nd m a) else nd m a) else nd m b.
Proof.
  destruct (Nat.eqb a b) eqn:E.
  - apply Nat.eqb_eq in E. subst b. destruct (Nat.ltb a (length m)) eqn:L.
    + apply Nat.ltb_lt in L. apply nd_upd_same; auto.
    + apply Nat.ltb_ge in L. unfold nd. rewrite !nth_overflow; auto. rewrite length_upd; auto.
  - apply Nat.eqb_neq in E. apply nd_upd_other; auto.
Qed.

Lemma mono_upd_ptr m a f : (forall x, nprev (f x) = nprev x /\ nnext (f x) = nnext x) -> Mono m -> Mono (upd m a f).
Proof.
  intros K M b L. rewrite length_upd in *. rewrite nd_upd. destruct (Nat.eqb a b) eqn:E; [|apply M; auto].
  apply Nat.eqb_eq in E. subst b. destruct (Nat.ltb a (length m)); [|apply M; auto].
  destruct (K (nd m a)) as [-> ->]. apply M; auto.
Qed.

Lemma mono_set_next m p x : Mono m -> (forall y, x = Some y -> (p < y < length m)%nat) -> Mono (upd m p (set_next x)).
Proof.
  intros M H b L. rewrite length_upd in *. rewrite nd_upd. destruct (Nat.eqb p b) eqn:E; [|apply M; auto].
  apply Nat.eqb_eq in E. subst b. destruct (Nat.ltb p (length m)); [|apply M; auto].
  destruct (set_next_fields x (nd m p)) as (_ & _ & -> & ->). split; auto. apply M; auto.
Qed.

Lemma mono_set_prev m a q : Mono m -> (forall y, q = Some y -> (y < a)%nat) -> Mono (upd m a (set_prev q)).
Proof.
  intros M H b L. rewrite length_upd in *. rewrite nd_upd. destruct (Nat.eqb a b) eqn:E; [|apply M; auto].
  apply Nat.eqb_eq in E. subst b. destruct (Nat.ltb a (length m)); [|apply M; auto].
  destruct (set_prev_fields q (nd m a)) as (_ & _ & -> & ->). split; auto. apply M; auto.
Qed.

Lemma mono_app m x : Mono m -> nnext x = None -> (forall y, nprev x = Some y -> (y < length m)%nat) -> Mono (m ++ [x]).
Proof.
  intros M N1 N2 b L. rewrite app_length in *. simpl in L.
  destruct (Nat.eq_dec b (length m)) as [->|Ne].
  - rewrite nd_app_new. rewrite N1. split; [discriminate|auto].
  - assert (Lb : (b < length m)%nat) by lia. rewrite nd_app1 by auto. destruct (M b Lb) as [M1 M2]. split; auto.
    intros y Hy. apply M1 in Hy. simpl. lia.
Qed.

Lemma gof_app_new' nx m x a : a = length m -> gof nx (m ++ [x]) a = Some (nkey x, nx x).
Proof. intros ->. apply gof_app_new. Qed.

Lemma gof_edge nx m a k b : gof nx m a = Some (k, Some b) -> (a < length m)%nat /\ nx (nd m a) = Some b.
Proof.
  unfold gof. intros E. destruct (nth_error m a) as [n|] eqn:N; simpl in E; [|discriminate].
  assert (L : (a < length m)%nat) by (apply nth_error_Some; congruence).
  rewrite nth_error_nd in N by auto. inversion N; subst n. inversion E. auto.
Qed.

(* ---------- facts about the live chain ---------- *)

Lemma inv_tail o l t : InvL o l -> tail o = Some t -> In t l /\ nnext (nd (mem o) t) = None.
Proof.
  intros I H. rewrite (i_tail _ _ I) in H. pose proof (i_seg _ _ I) as S. revert H S.
  destruct l as [|t' l' _] using rev_ind; intros H S.
  - discriminate.
  - rewrite last_or_app in H. simpl in H. inversion H; subst t'. split. apply in_or_app; right; left; auto.
    apply seg_app in S. destruct S as [_ S2]. simpl in S2. tauto.
Qed.

Lemma chain_prev o l d p : InvL o l -> In d l -> nprev (nd (mem o) d) = Some p -> In p l /\ nnext (nd (mem o) p) = Some d.
Proof.
  intros I Hd Hp. pose proof (i_seg _ _ I) as S. apply in_split in Hd. destruct Hd as (l1 & l2 & ->).
  apply seg_app in S. destruct S as [S1 S2]. cbn [seg] in S2. destruct S2 as (_ & S22 & _).
  rewrite S22 in Hp. clear S22. revert Hp S1. destruct l1 as [|p' l1' _] using rev_ind; intros Hp S1.
  - discriminate.
  - rewrite last_or_app in Hp. simpl in Hp. inversion Hp; subst p'. split.
    + apply in_or_app; left; apply in_or_app; right; left; auto.
    + apply seg_app in S1. destruct S1 as [_ S12]. simpl in S12. destruct S12 as (_ & _ & S & _). exact S.
Qed.

Lemma chain_next o l d x : InvL o l -> In d l -> nnext (nd (mem o) d) = Some x -> In x l /\ nprev (nd (mem o) x) = Some d.
Proof.
  intros I Hd Hx. pose proof (i_seg _ _ I) as S. apply in_split in Hd. destruct Hd as (l1 & l2 & ->).
  apply seg_app in S. destruct S as [_ S2]. cbn [seg] in S2. destruct S2 as (_ & _ & S23 & S24).
  rewrite S23 in Hx. destruct l2 as [|x' r]; simpl in Hx; [discriminate|]. inversion Hx; subst x'. split.
  - apply in_or_app; right; right; left; auto.
  - simpl in S24. tauto.
Qed.

(* ---------- walks after appending / linking a new element ---------- *)

Lemma kw_region fw m m' c : Mono m -> (c < length m)%nat -> (length m <= length m')%nat ->
  (forall a, (a < length m)%nat -> gof (nxof fw) m' a = gof (nxof fw) m a) ->
  kw fw m' (Some c) = kw fw m (Some c).
Proof.
  intros M L LL E. unfold kw.
  rewrite (gwalk_region (gof (nxof fw) m) (gof (nxof fw) m') (length m)); auto.
  - pose proof (decr_dir fw m M) as D. pose proof (rk_fuel fw m c L).
    apply (gwalk_fuel _ _ D (S (rk fw m c))); lia.
  - intros a k b La G. apply gof_edge in G. destruct G as [_ G]. eapply next_bound; eauto.
Qed.

Lemma mono_link m t x : Mono m -> (t < length m)%nat -> nnext x = None -> nprev x = Some t ->
  Mono (upd m t (set_next (Some (length m))) ++ [x]).
Proof.
  intros M Lt N1 N2 b L. rewrite app_length, length_upd in *. simpl in L.
  destruct (Nat.eq_dec b (length m)) as [->|Ne].
  - assert (X : nd (upd m t (set_next (Some (length m))) ++ [x]) (length m) = x).
    { rewrite <- (length_upd m t (set_next (Some (length m)))) at 2. apply nd_app_new. }
    rewrite X, N1, N2. split; [discriminate|]. intros y Hy; inversion Hy; subst; auto.
  - assert (Lb : (b < length m)%nat) by lia. rewrite nd_app1 by (rewrite length_upd; auto). rewrite nd_upd.
    destruct (M b Lb) as [M1 M2]. destruct (Nat.eqb t b) eqn:E.
    + apply Nat.eqb_eq in E. subst b. apply Nat.ltb_lt in Lt. rewrite Lt.
      destruct (set_next_fields (Some (length m)) (nd m t)) as (_ & _ & -> & ->). split; auto.
      intros y Hy; inversion Hy; subst. simpl. lia.
    + split; auto. intros y Hy. apply M1 in Hy. simpl. lia.
Qed.

(* ---------- one consumer mutation preserves the filtered walks ---------- *)

Definition SInv (o : omap) := Inv o /\ Mono (mem o).

Section Pres.
Variable P : N -> bool.

Definition Pkeys (o : omap) := forall k, P k = true -> om_has o k = true.

Record Pres (o o' : omap) : Prop := {
  p_sinv : SInv o';
  p_len : (length (mem o) <= length (mem o'))%nat;
  p_key : forall a, (a < length (mem o))%nat -> nkey (nd (mem o') a) = nkey (nd (mem o) a);
  p_has : Pkeys o';
  p_kw : forall fw c, (c < length (mem o))%nat ->
         filter P (kw fw (mem o') (Some c)) = filter P (kw fw (mem o) (Some c)) }.

Lemma pres_refl o : SInv o -> Pkeys o -> Pres o o.
Proof. intros S K. constructor; auto. Qed.

Lemma pres_trans o o1 o2 : Pres o o1 -> Pres o1 o2 -> Pres o o2.
Proof.
  intros A B. constructor.
  - apply B.
  - pose proof (p_len _ _ A). pose proof (p_len _ _ B). lia.
  - intros a L. rewrite (p_key _ _ B) by (pose proof (p_len _ _ A); lia). apply A; auto.
  - apply B.
  - intros fw c L. rewrite (p_kw _ _ B) by (pose proof (p_len _ _ A); lia). apply A; auto.
Qed.

Lemma nxof_set_val fw v x : nkey (set_val v x) = nkey x /\ nxof fw (set_val v x) = nxof fw x.
Proof. destruct x, fw; simpl; auto. Qed.

Lemma pres_set o k v : SInv o -> Pkeys o -> Pres o (fst (om_set o k v)).
Proof.
  intros [I M] K. pose proof (proj1 (set_spec o k v I)) as I'. destruct I as [l I].
  assert (HK : forall k', P k' = true -> om_has (fst (om_set o k v)) k' = true).
  { intros k' Pk. specialize (K k' Pk). unfold om_has, om_set in *. destruct (dget (dict o) k) eqn:D; cbn [fst dict]; auto.
    destruct (head o), (tail o); cbn [fst dict]; rewrite dget_dset; destruct (k' =? k); auto. }
  revert I' HK. unfold om_set. destruct (dget (dict o) k) as [a|] eqn:D; cbn [fst].
  - (* the key exists: only the value changes *)
    intros I' HK. constructor; cbn [mem]; auto.
    + split; auto. cbn [mem]. apply mono_upd_ptr; auto.
    + rewrite length_upd; auto.
    + intros b L. rewrite nd_upd. destruct (Nat.eqb a b) eqn:E; auto. apply Nat.eqb_eq in E; subst b.
      destruct (Nat.ltb a (length (mem o))); auto.
    + intros fw c L. unfold kw. rewrite length_upd. f_equal. apply gwalk_ext. apply gof_upd_keep. apply nxof_set_val.
  - (* a new element *)
    assert (Pk : P k = false).
    { destruct (P k) eqn:Pk; auto. specialize (K k Pk). unfold om_has in K. rewrite D in K. discriminate. }
    destruct (head o) as [h|] eqn:Hh; [destruct (tail o) as [t|] eqn:Ht|]; cbn [fst]; intros I' HK.
    + destruct (inv_tail _ _ _ I Ht) as [Tl Tn]. pose proof (seg_bound _ _ _ _ (i_seg _ _ I) _ Tl) as Lt.
      assert (M' : Mono (upd (mem o) t (set_next (Some (length (mem o)))) ++ [mkNode k v (Some t) None])) by (apply mono_link; auto).
      constructor; cbn [mem]; auto.
      * split; auto.
      * rewrite app_length, length_upd. lia.
      * intros b L. rewrite nd_app1 by (rewrite length_upd; auto). rewrite nd_upd. destruct (Nat.eqb t b) eqn:E; auto.
        apply Nat.eqb_eq in E; subst b. destruct (Nat.ltb t (length (mem o))); auto.
      * intros fw c L. destruct fw.
        -- unfold kw. rewrite app_length, length_upd. cbn [length].
           apply (gwalk_append P (gof nnext (mem o)) _ (rk true (mem o)) (rk true (upd (mem o) t (set_next (Some (length (mem o)))) ++ [mkNode k v (Some t) None]))
                    t (nkey (nd (mem o) t)) (length (mem o)) k) with (n := S (rk true (mem o) c)).
           ++ apply (decr_dir true); auto.
           ++ apply (decr_dir true); auto.
           ++ intros a N1 N2. destruct (Nat.lt_ge_cases a (length (mem o))).
              ** cbn [nxof]. rewrite gof_app_old by (rewrite length_upd; auto). apply gof_upd_other; auto.
              ** cbn [nxof]. rewrite !gof_out; auto. rewrite app_length, length_upd. simpl. lia.
           ++ cbn [nxof]. rewrite gof_nd by auto. rewrite Tn. auto.
           ++ cbn [nxof]. rewrite gof_app_old by (rewrite length_upd; auto).
              rewrite (gof_upd_same _ _ _ _ (nd (mem o) t)) by (apply nth_error_nd; auto).
              destruct (set_next_fields (Some (length (mem o))) (nd (mem o) t)) as (-> & _ & _ & ->). auto.
           ++ apply gof_out; auto.
           ++ cbn [nxof]. apply gof_app_new'. rewrite length_upd; auto.
           ++ auto.
           ++ lia.
           ++ apply (rk_fuel true); auto.
           ++ cbn [rk]. rewrite app_length, length_upd. simpl. lia.
        -- f_equal. apply kw_region; auto.
           ++ rewrite app_length, length_upd. lia.
           ++ intros a La. rewrite gof_app_old by (rewrite length_upd; auto). apply gof_upd_keep.
              intros x. destruct x; simpl; auto.
    + constructor; cbn [mem]; auto.
      * split; auto. cbn [mem]. apply mono_app; auto. simpl. discriminate.
      * rewrite app_length. lia.
      * intros b L. rewrite nd_app1; auto.
      * intros fw c L. f_equal. apply kw_region; auto. rewrite app_length; lia. intros a La. apply gof_app_old; auto.
    + constructor; cbn [mem]; auto.
      * split; auto. cbn [mem]. apply mono_app; auto. simpl. discriminate.
      * rewrite app_length. lia.
      * intros b L. rewrite nd_app1; auto.
      * intros fw c L. f_equal. apply kw_region; auto. rewrite app_length; lia. intros a La. apply gof_app_old; auto.
Qed.

Lemma pres_clear o : (forall k, P k = false) -> SInv o -> Pres o (om_clear o).
Proof.
  intros F [I M]. constructor; cbn [mem om_clear]; auto.
  - split. apply clear_spec. exact M.
  - intros k Pk. rewrite F in Pk. discriminate.
Qed.

Lemma pres_del o k : SInv o -> Pkeys o -> P k = false -> Pres o (fst (om_delete o k)).
Proof.
  intros [I M] K Pk. pose proof (proj1 (delete_spec o k I)) as I'. destruct I as [l I].
  assert (HK : Pkeys (fst (om_delete o k))).
  { intros k' Pk'. specialize (K k' Pk'). unfold om_has, om_delete in *. destruct (dget (dict o) k) eqn:D; cbn [fst dict]; auto.
    destruct (nth_error (mem o) n); cbn [fst dict]; auto. rewrite dget_ddel.
    destruct (k' =? k) eqn:E; auto. apply N.eqb_eq in E. subst k'. congruence. }
  revert I' HK. unfold om_delete. destruct (dget (dict o) k) as [d|] eqn:D; cbn [fst]; [|intros; apply pres_refl; auto; split; auto; exists l; auto].
  destruct (nth_error (mem o) d) as [n|] eqn:Nd; cbn [fst]; [|intros; apply pres_refl; auto; split; auto; exists l; auto].
  rewrite (i_dict _ _ I) in D. pose proof (find_addr_in _ _ _ _ D) as Dl.
  destruct (find_addr_split _ _ _ _ D) as (_ & _ & _ & Kd & _).
  pose proof (seg_bound _ _ _ _ (i_seg _ _ I) _ Dl) as Ld.
  rewrite nth_error_nd in Nd by auto. inversion Nd; subst n. clear Nd.
  destruct (M d Ld) as [Md1 Md2].
  set (m := mem o) in *.
  set (m1 := match nprev (nd m d) with Some p => upd m p (set_next (nnext (nd m d))) | None => m end).
  set (m2 := match nnext (nd m d) with Some x => upd m1 x (set_prev (nprev (nd m d))) | None => m1 end).
  assert (L1 : length m1 = length m). { unfold m1. destruct (nprev (nd m d)); auto. apply length_upd. }
  assert (L2 : length m2 = length m). { unfold m2. destruct (nnext (nd m d)); auto. rewrite length_upd; auto. }
  assert (M1 : Mono m1).
  { unfold m1. destruct (nprev (nd m d)) as [p|] eqn:Ep; auto. apply mono_set_next; auto.
    intros y Hy. specialize (Md1 _ Hy). specialize (Md2 _ eq_refl). lia. }
  assert (M2 : Mono m2).
  { unfold m2. destruct (nnext (nd m d)) as [x|] eqn:Ex; auto. apply mono_set_prev; auto.
    intros y Hy. specialize (Md1 _ eq_refl). specialize (Md2 _ Hy). lia. }
  (* forward graph: only prev(d).next changes; reverse graph: only next(d).prev changes *)
  assert (F21 : forall a, gof nnext m2 a = gof nnext m1 a).
  { intros a. unfold m2. destruct (nnext (nd m d)); auto. apply gof_upd_keep. intros x; destruct x; simpl; auto. }
  assert (R10 : forall a, gof nprev m1 a = gof nprev m a).
  { intros a. unfold m1. destruct (nprev (nd m d)); auto. apply gof_upd_keep. intros x; destruct x; simpl; auto. }
  intros I' HK. constructor; cbn [mem]; auto.
  - split; auto.
  - fold m. lia.
  - fold m. intros b Lb. unfold m2, m1.
    destruct (nnext (nd m d)) as [x|]; destruct (nprev (nd m d)) as [p|]; rewrite !nkey_kv;
      rewrite ?(nd_upd_kv _ _ _ _ (kv_set_prev _)), ?(nd_upd_kv _ _ _ _ (kv_set_next _)); auto.
  - fold m. intros fw c Lc. destruct fw.
    + (* forward *)
      transitivity (filter P (kw true m1 (Some c))).
      { f_equal. unfold kw. rewrite L2, L1. apply gwalk_ext. exact F21. }
      unfold m1. destruct (nprev (nd m d)) as [p|] eqn:Ep; auto.
      destruct (chain_prev _ _ _ _ I Dl Ep) as [Pl Pn]. fold m in Pn.
      pose proof (seg_bound _ _ _ _ (i_seg _ _ I) _ Pl) as Lp. fold m in Lp.
      unfold kw. rewrite length_upd.
      apply (gwalk_redirect P (gof nnext m) _ (rk true m) p (nkey (nd m p)) d k (nnext (nd m d))) with (n := S (rk true m c)).
      * apply (decr_dir true); auto.
      * intros a Na. apply gof_upd_other; auto.
      * cbn [nxof]. rewrite gof_nd by auto. rewrite Pn. auto.
      * cbn [nxof]. rewrite gof_nd by auto. rewrite Kd. auto.
      * cbn [nxof]. rewrite (gof_upd_same _ _ _ _ (nd m p)) by (apply nth_error_nd; auto).
        destruct (nd m p); simpl; auto.
      * auto.
      * lia.
      * apply (rk_fuel true); auto.
      * apply (rk_fuel true); auto.
    + (* reverse *)
      transitivity (filter P (kw false m1 (Some c))).
      2:{ f_equal. unfold kw. rewrite L1. apply gwalk_ext. exact R10. }
      unfold m2. destruct (nnext (nd m d)) as [x|] eqn:Ex; auto.
      destruct (chain_next _ _ _ _ I Dl Ex) as [Xl Xp]. fold m in Xp.
      pose proof (seg_bound _ _ _ _ (i_seg _ _ I) _ Xl) as Lx. fold m in Lx.
      assert (Nx : nth_error m1 x = Some (nd m1 x)) by (apply nth_error_nd; lia).
      assert (G1x : gof nprev m1 x = Some (nkey (nd m1 x), Some d)).
      { pose proof (R10 x) as E. rewrite (gof_nd _ m x) in E by auto. rewrite Xp in E.
        rewrite (gof_nd _ m1 x) in E by lia. inversion E as [[E1 E2]]. rewrite gof_nd by lia. rewrite E2. auto. }
      unfold kw. rewrite length_upd.
      apply (gwalk_redirect P (gof nprev m1) _ (rk false m1) x (nkey (nd m1 x)) d k (nprev (nd m d))) with (n := S (rk false m1 c)).
      * apply (decr_dir false); auto.
      * intros a Na. apply gof_upd_other; auto.
      * exact G1x.
      * rewrite R10. cbn [nxof]. rewrite gof_nd by auto. rewrite Kd. auto.
      * cbn [nxof]. rewrite (gof_upd_same _ _ _ _ (nd m1 x)) by auto.
        destruct (nd m1 x); simpl; auto.
      * auto.
      * lia.
      * apply (rk_fuel false); lia.
      * apply (rk_fuel false); lia.
Qed.

End Pres.

(* ---------- the iteration ---------- *)

Definition touches (k : N) (m : mop) : bool :=
  match m with MSet _ _ => false | MDel k' => k =? k' | MClear => true end.

(* no consumer call of the script removes k (Delete k or Clear) *)
Definition untouched (sc : list (list mop * bool)) (k : N) : bool :=
  negb (existsb (fun e => existsb (touches k) (fst e)) sc).

Section Main.
Variable P : N -> bool.

Definition quiet (m : mop) : Prop :=
  match m with MSet _ _ => True | MDel k => P k = false | MClear => forall k, P k = false end.

Lemma pres_mop o m : SInv o -> Pkeys P o -> quiet m -> Pres P o (run_mop o m).
Proof. destruct m; simpl; intros. apply pres_set; auto. apply pres_del; auto. apply pres_clear; auto. Qed.

Lemma pres_mops ops : forall o, SInv o -> Pkeys P o -> Forall quiet ops -> Pres P o (run_mops o ops).
Proof.
  unfold run_mops. induction ops as [|m r IH]; simpl; intros o S K F. apply pres_refl; auto.
  inversion F; subst. pose proof (pres_mop o m S K H1) as A. eapply pres_trans; [exact A|]. apply IH; auto; apply A.
Qed.

Lemma foreach_re_filtered fw sc : forall o cur, SInv o -> Pkeys P o -> Forall (fun e => Forall quiet (fst e)) sc ->
  exists rest, filter P (kw fw (mem o) cur) = filter P (map fst (snd (fst (foreach_re (nxof fw) o cur sc)))) ++ rest
     /\ (snd (foreach_re (nxof fw) o cur sc) = true -> rest = []).
Proof.
  induction sc as [|[ops cont] rest IH]; intros o cur S K Q.
  - cbn [foreach_re fst snd]. exists []. rewrite kw_walk, app_nil_r. auto.
  - cbn [foreach_re]. destruct cur as [a|].
    2:{ exists []. cbn [fst snd]. unfold kw. rewrite gwalk_none. auto. }
    destruct (nth_error (mem o) a) as [n|] eqn:Na.
    2:{ exists []. cbn [fst snd]. unfold kw. destruct (length (mem o)); simpl; auto. unfold gof. rewrite Na. auto. }
    assert (La : (a < length (mem o))%nat) by (apply nth_error_Some; congruence).
    rewrite nth_error_nd in Na by auto. inversion Na; subst n. clear Na.
    inversion Q as [|? ? Q1 Q2]; subst. cbn [fst] in Q1.
    pose proof (pres_mops ops o S K Q1) as A. set (o1 := run_mops o ops) in *.
    destruct S as [I M].
    rewrite <- (p_kw _ _ _ A fw a La).
    destruct (p_sinv _ _ _ A) as [I1 M1].
    assert (La1 : (a < length (mem o1))%nat) by (pose proof (p_len _ _ _ A); lia).
    rewrite (kw_step fw (mem o1) a M1 La1). rewrite (p_key _ _ _ A a La).
    destruct cont.
    + unfold ptr_of. rewrite (nth_error_nd (mem o1) a La1).
      destruct (IH o1 (nxof fw (nd (mem o1) a)) (p_sinv _ _ _ A) (p_has _ _ _ A) Q2) as (r & E & B).
      destruct (foreach_re (nxof fw) o1 (nxof fw (nd (mem o1) a)) rest) as [[o2 vis] b]. cbn [fst snd] in *.
      exists r. split; auto. cbn [map fst filter]. destruct (P (nkey (nd (mem o) a))); rewrite E; auto.
    + cbn [fst snd]. exists (filter P (kw fw (mem o1) (nxof fw (nd (mem o1) a)))). split; [|discriminate].
      cbn [map fst filter]. destruct (P (nkey (nd (mem o) a))); auto.
Qed.

End Main.

(* keys that are in the map when the iteration starts and are not removed by any consumer call *)
Definition livekey (o : omap) (sc : list (list mop * bool)) (k : N) : bool :=
  untouched sc k && inb k (map fst (om_list o)).

Lemma quiet_script o sc : Forall (fun e => Forall (quiet (livekey o sc)) (fst e)) sc.
Proof.
  apply Forall_forall. intros e He. apply Forall_forall. intros m Hm.
  assert (T : forall k, touches k m = true -> livekey o sc k = false).
  { intros k Tk. unfold livekey, untouched. replace (existsb (fun e0 => existsb (touches k) (fst e0)) sc) with true; auto.
    symmetry. apply existsb_exists. exists e. split; auto. apply existsb_exists. exists m. auto. }
  destruct m as [k v|k|]; simpl; auto.
  - apply T. simpl. apply N.eqb_refl.
Qed.

Lemma inb_In k l : inb k l = true <-> In k l.
Proof.
  unfold inb. rewrite existsb_exists. split.
  - intros (x & Hx & E). apply N.eqb_eq in E. subst; auto.
  - intros H. exists k. split; auto. apply N.eqb_refl.
Qed.

Lemma pkeys_live o sc : Inv o -> Pkeys (livekey o sc) o.
Proof.
  intros I k Hk. unfold livekey in Hk. apply andb_prop in Hk. destruct Hk as [_ Hk]. apply inb_In in Hk.
  rewrite has_spec' by auto. destruct (l_get (om_list o) k) eqn:E; auto. apply l_get_none_keys in E. tauto.
Qed.

Lemma filter_live_start o sc l : (forall k, In k l -> In k (map fst (om_list o))) ->
  filter (livekey o sc) l = filter (untouched sc) l.
Proof.
  intros H. apply filter_ext_in. intros k Hk. unfold livekey. replace (inb k (map fst (om_list o))) with true.
  apply andb_true_r. symmetry. apply inb_In. auto.
Qed.

(* ForEach: the visits of keys that are live during the whole iteration = those keys in first-insertion order
   (a prefix of them when the consumer stops the iteration) *)
Theorem foreach_re_live o sc : SInv o ->
  exists rest,
    filter (untouched sc) (map fst (om_list o)) =
      filter (livekey o sc) (map fst (snd (fst (om_foreach_re o sc)))) ++ rest
    /\ (snd (om_foreach_re o sc) = true -> rest = []).
Proof.
  intros S. pose proof S as [I M].
  destruct (foreach_re_filtered (livekey o sc) true sc o (head o) S (pkeys_live o sc I) (quiet_script o sc)) as (r & E & B).
  rewrite <- kw_walk in E. cbn [nxof] in E, B. fold (om_list o) in E. unfold om_foreach_re.
  exists r. split; auto. rewrite <- E.
  symmetry. apply filter_live_start. auto.
Qed.

Theorem foreachrev_re_live o sc : SInv o ->
  exists rest,
    filter (untouched sc) (rev (map fst (om_list o))) =
      filter (livekey o sc) (map fst (snd (fst (om_foreachrev_re o sc)))) ++ rest
    /\ (snd (om_foreachrev_re o sc) = true -> rest = []).
Proof.
  intros S. pose proof S as [I M].
  destruct (foreach_re_filtered (livekey o sc) false sc o (tail o) S (pkeys_live o sc I) (quiet_script o sc)) as (r & E & B).
  rewrite <- kw_walk in E. cbn [nxof] in E, B. fold (om_rlist o) in E. unfold om_foreachrev_re.
  exists r. split; auto. rewrite <- E. rewrite (om_rlist_rev o I), map_rev.
  symmetry. apply filter_live_start. intros k Hk. apply in_rev; auto.
Qed.

(* ---------- every operation keeps the strong invariant (addresses grow along next in the whole store) ---------- *)

Lemma sinv_set o k v : SInv o -> SInv (fst (om_set o k v)).
Proof. intros S. apply (pres_set (fun _ => false)); auto. intros k' H; discriminate. Qed.

Lemma sinv_del o k : SInv o -> SInv (fst (om_delete o k)).
Proof. intros S. apply (pres_del (fun _ => false)); auto. intros k' H; discriminate. Qed.

Lemma sinv_clear o : SInv o -> SInv (om_clear o).
Proof. intros [I M]. split. apply clear_spec. exact M. Qed.

Lemma sinv_empty : SInv om_empty.
Proof. split. apply empty_spec. intros a L. simpl in L. lia. Qed.

Lemma sinv_mop o m : SInv o -> SInv (run_mop o m).
Proof. destruct m; simpl; intros. apply sinv_set; auto. apply sinv_del; auto. apply sinv_clear; auto. Qed.

Lemma sinv_mops l : forall o, SInv o -> SInv (run_mops o l).
Proof. unfold run_mops. induction l as [|m r IH]; simpl; auto. intros o S. apply IH, sinv_mop, S. Qed.

Lemma sinv_foreach_re next sc : forall o cur, SInv o -> SInv (fst (fst (foreach_re next o cur sc))).
Proof.
  induction sc as [|[ops cont] rest IH]; intros o cur I; cbn [foreach_re fst]; auto.
  destruct cur as [a|]; cbn [fst]; auto.
  destruct (nth_error (mem o) a) as [n|]; cbn [fst]; auto.
  destruct cont; cbn [fst]; [|apply sinv_mops; auto].
  specialize (IH (run_mops o ops) (ptr_of next (mem (run_mops o ops)) a) (sinv_mops ops o I)).
  destruct (foreach_re next (run_mops o ops) (ptr_of next (mem (run_mops o ops)) a) rest) as [[o2 vis] b]; exact IH.
Qed.

Lemma sinv_fold_set l : forall s, SInv s -> SInv (fold_left (fun s e => fst (om_set s e 0)) l s).
Proof. induction l; simpl; auto. intros s S. apply IHl, sinv_set, S. Qed.

Lemma sinv_addall l : forall s acc, SInv s -> SInv (fst (fold_left addall_step l (s, acc))).
Proof.
  induction l as [|e r IH]; cbn [fold_left]; auto. intros s acc S.
  assert (X : exists acc', addall_step (s, acc) e = (fst (om_set s e 0), acc')).
  { unfold addall_step, s_add. destruct (om_set s e 0) as [s' [p|]]; cbn [fst]; eauto. }
  destruct X as [acc' ->]. apply IH. apply sinv_set; auto.
Qed.

Lemma sinv_deleteall l : forall s acc, SInv s -> SInv (fst (fold_left deleteall_step l (s, acc))).
Proof.
  induction l as [|e r IH]; cbn [fold_left]; auto. intros s acc S.
  assert (X : exists acc', deleteall_step (s, acc) e = (fst (om_delete s e), acc')).
  { unfold deleteall_step. destruct (om_delete s e) as [s' [|]]; cbn [fst]; eauto. }
  destruct X as [acc' ->]. apply IH. apply sinv_del; auto.
Qed.

Lemma sinv_apply s a d : SInv s -> SInv (fst (fst (s_apply s a d))).
Proof.
  intros S. unfold s_apply, s_addall, s_deleteall.
  pose proof (sinv_addall a s om_empty S) as S1. destruct (fold_left addall_step a (s, om_empty)) as [s1 x]. cbn [fst] in S1.
  pose proof (sinv_deleteall d s1 om_empty S1) as S2. destruct (fold_left deleteall_step d (s1, om_empty)) as [s2 y]. exact S2.
Qed.

Lemma sinv_dec_entries n : forall s b read, SInv s -> SInv (fst (dec_entries s n b read)).
Proof.
  induction n; intros s b read S; simpl; auto.
  destruct (dec_u32 b) as [[k r]|]; simpl; auto. apply IHn. apply sinv_set; auto.
Qed.

(* ---------- exactly once ---------- *)

Lemma count_filter (f : N -> bool) l k : f k = true ->
  count_occ N.eq_dec (filter f l) k = count_occ N.eq_dec l k.
Proof.
  intros Fk. induction l as [|a r IH]; simpl; auto. destruct (f a) eqn:Fa; simpl.
  - destruct (N.eq_dec a k); auto.
  - destruct (N.eq_dec a k) as [->|]; auto. congruence.
Qed.

Lemma once_from_filter (live U : N -> bool) V K0 k :
  filter live V = filter U K0 -> NoDup K0 -> In k K0 -> U k = true -> live k = true ->
  count_occ N.eq_dec V k = 1%nat.
Proof.
  intros E ND Hk Uk Lk. rewrite <- (count_filter live V k Lk), E, (count_filter U K0 k Uk).
  apply NoDup_count_occ'; auto.
Qed.

Theorem foreach_re_once o sc k : SInv o -> snd (om_foreach_re o sc) = true -> livekey o sc k = true ->
  count_occ N.eq_dec (map fst (snd (fst (om_foreach_re o sc)))) k = 1%nat.
Proof.
  intros S B L. destruct (foreach_re_live o sc S) as (r & E & R). rewrite (R B), app_nil_r in E.
  unfold livekey in L. apply andb_prop in L. destruct L as [U I]. apply inb_In in I.
  apply (once_from_filter (livekey o sc) (untouched sc) _ (map fst (om_list o))); auto.
  - apply keys_nodup. apply S.
  - unfold livekey. rewrite U. apply inb_In in I. rewrite I. auto.
Qed.

Theorem foreachrev_re_once o sc k : SInv o -> snd (om_foreachrev_re o sc) = true -> livekey o sc k = true ->
  count_occ N.eq_dec (map fst (snd (fst (om_foreachrev_re o sc)))) k = 1%nat.
Proof.
  intros S B L. destruct (foreachrev_re_live o sc S) as (r & E & R). rewrite (R B), app_nil_r in E.
  unfold livekey in L. apply andb_prop in L. destruct L as [U I]. apply inb_In in I.
  apply (once_from_filter (livekey o sc) (untouched sc) _ (rev (map fst (om_list o)))); auto.
  - apply NoDup_rev. apply keys_nodup. apply S.
  - apply -> in_rev. exact I.
  - unfold livekey. rewrite U. apply inb_In in I. rewrite I. auto.
Qed.
