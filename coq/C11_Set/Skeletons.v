(* C11 - lock skeletons of every method of ds.Set / OrderedMap (with the ShrinkingMap dictionary inlined), written
   by hand from the code as data, checked by `chk`, and the instance of the hierarchy theorem.
   Ranks: 0 = set.applyMutex, 1 = OrderedMap.mutex, 2 = ShrinkingMap.mutex (the dictionary).
   Objects private to the calling goroutine (argument sets, result sets, the cloned map) are omitted: their locks are
   never contended. Callbacks are assumed not to call writer methods of the same set. *)
From Coq Require Import List Bool Lia PeanoNat.
From Verif.C11_Set Require Import Locks.
Import ListNotations.

Definition sseq (l : list skel) : skel := fold_right SSeq SSkip l.
Definition salt (l : list skel) : skel := fold_right SAlt SSkip l.
Definition A := 0. Definition M := 1. Definition D := 2.
Definition rl l := SAct (RLock l). Definition ru l := SAct (RUnlock l).
Definition wl l := SAct (Lock l). Definition wu l := SAct (Unlock l).

(* shrinkingmap *)
Definition dGet := sseq [rl D; ru D].
Definition dSet := sseq [wl D; wu D].
Definition dDelete := sseq [wl D; wu D].

(* orderedmap.go *)
Definition omHas := sseq [rl M; dGet; ru M].
Definition omGet := omHas.
Definition omPeek := sseq [rl M; ru M].                                   (* Head Tail Size IsEmpty *)
Definition omSet := sseq [wl M; dGet; SAlt SSkip dSet; wu M].
Definition omForEach (consumer : skel) := sseq [omPeek; SStar (sseq [consumer; omPeek])].   (* lock re-taken per step *)
Definition omClear := sseq [wl M; wu M].
Definition omDelete := sseq [omGet; SAlt SSkip (sseq [wl M; dGet; SAlt SSkip dDelete; wu M])].
Definition omClone := sseq [rl M; ru M].                                  (* the clone is private *)
Definition omEncode := sseq [omPeek; omForEach SSkip].
Definition omDecode := SStar omSet.

(* set_impl.go *)
Definition sAdd := sseq [rl A; omSet; ru A].
Definition sAddAll := sseq [rl A; SStar omSet; ru A].
Definition sDelete := sseq [rl A; omDelete; ru A].
Definition sDeleteAll := sseq [rl A; SStar omDelete; ru A].                 (* after fix c86f6c5 *)
Definition sDeleteAll_pinned := sseq [rl A; SStar sDelete; ru A].           (* pinned: calls s.Delete *)
Definition sApplyBody := sseq [SStar omSet; SStar omDelete].
Definition sApply := sseq [wl A; sApplyBody; wu A].
Definition readOnlyUse := SStar (salt [omHas; omPeek; omForEach SSkip]).    (* what a factory may do with the view *)
Definition sCompute := sseq [wl A; readOnlyUse; sApplyBody; wu A].
Definition sReplace := sseq [wl A; omForEach SSkip; omClear; SStar omSet; SStar omHas; wu A].
Definition sHasAll := SStar omHas.
Definition sEquals := sseq [omPeek; SStar omHas].
Definition sIs := sseq [omPeek; omHas].
Definition sIterate := omForEach SSkip.       (* ForEach Range Filter Intersect Any ToSlice Iterator Clone String *)

Definition methods : list skel :=
  [sAdd; sAddAll; sDelete; sDeleteAll; sApply; sCompute; sReplace; omHas; sHasAll; sEquals; sIs; sIterate; omPeek;
   omClear; omEncode; omDecode; omSet; omGet; omDelete; omClone; omForEach SSkip].

(* a goroutine performs any sequence of method calls *)
Definition goroutine : skel := SStar (salt methods).
Definition goroutine_pinned : skel := SStar (salt (sDeleteAll_pinned :: methods)).

Lemma methods_respect_hierarchy : chk [] goroutine = Some [].
Proof. vm_compute. reflexivity. Qed.

Theorem set_no_deadlock (progs : list (list act)) :
  Forall (paths goroutine) progs -> forall sched, stuck (run (map init progs) sched) = false.
Proof.
  intros F. apply hierarchy_no_deadlock. rewrite Forall_forall in *. intros p Hp.
  eapply chk_sound. apply methods_respect_hierarchy. auto.
Qed.

(* Apply / Compute / Replace bodies run between Lock A and Unlock A; Add/AddAll/Delete/DeleteAll between RLock A and
   RUnlock A: in no reachable state two goroutines are inside such write-locked bodies, or one inside a body and another
   inside an RLock-A section. *)
Theorem set_atomic_sections (progs : list (list act)) sched :
  let s := run (map init progs) sched in
  count (writes A) s <= 1 /\ (1 <= count (writes A) s -> count (reads A) s = 0).
Proof. apply mutual_exclusion. Qed.

(* ---------- D11b: the pinned DeleteAll ---------- *)

Lemma pinned_deleteall_rejected : chk [] sDeleteAll_pinned = None.
Proof. vm_compute. reflexivity. Qed.

(* DeleteAll on one element that is absent (Delete's pre-check fails) || Apply of empty mutations *)
Definition d11b_t0 : list act :=
  [RLock A; RLock A; RLock M; RLock D; RUnlock D; RUnlock M; RUnlock A; RUnlock A].
Definition d11b_t1 : list act := [Lock A; Unlock A].

Lemma paths_seq_nil a p : paths a p -> paths (SSeq a SSkip) p.
Proof. intros H. rewrite <- (app_nil_r p). constructor; auto. constructor. Qed.

Lemma d11b_t0_path : paths goroutine_pinned d11b_t0.
Proof.
  unfold goroutine_pinned. rewrite <- (app_nil_r d11b_t0). apply PStarS; [|apply PStar0].
  apply PAltL. unfold sDeleteAll_pinned, sseq; simpl fold_right.
  apply (PSeq _ _ [RLock A] [RLock A; RLock M; RLock D; RUnlock D; RUnlock M; RUnlock A; RUnlock A]). apply PAct.
  apply (PSeq _ _ [RLock A; RLock M; RLock D; RUnlock D; RUnlock M; RUnlock A] [RUnlock A]).
  2: { apply paths_seq_nil. apply PAct. }
  rewrite <- (app_nil_r [RLock A; RLock M; RLock D; RUnlock D; RUnlock M; RUnlock A]). apply PStarS; [|apply PStar0].
  unfold sDelete, sseq; simpl fold_right.
  apply (PSeq _ _ [RLock A] [RLock M; RLock D; RUnlock D; RUnlock M; RUnlock A]). apply PAct.
  apply (PSeq _ _ [RLock M; RLock D; RUnlock D; RUnlock M] [RUnlock A]).
  2: { apply paths_seq_nil. apply PAct. }
  unfold omDelete, sseq; simpl fold_right.
  apply (PSeq _ _ [RLock M; RLock D; RUnlock D; RUnlock M] []).
  2: { apply paths_seq_nil. apply PAltL. constructor. }
  unfold omGet, omHas, sseq; simpl fold_right.
  apply (PSeq _ _ [RLock M] [RLock D; RUnlock D; RUnlock M]). apply PAct.
  apply (PSeq _ _ [RLock D; RUnlock D] [RUnlock M]).
  2: { apply paths_seq_nil. apply PAct. }
  unfold dGet, sseq; simpl fold_right.
  apply (PSeq _ _ [RLock D] [RUnlock D]). apply PAct. apply paths_seq_nil. apply PAct.
Qed.

Lemma d11b_t1_path : paths goroutine_pinned d11b_t1.
Proof.
  unfold goroutine_pinned. rewrite <- (app_nil_r d11b_t1). apply PStarS; [|apply PStar0].
  apply PAltR. unfold methods, salt; simpl fold_right.
  do 4 apply PAltR. apply PAltL. unfold sApply, sseq; simpl fold_right.
  apply (PSeq _ _ [Lock A] [Unlock A]). apply PAct.
  apply (PSeq _ _ [] [Unlock A]).
  - unfold sApplyBody, sseq; simpl fold_right. apply (PSeq _ _ [] []). apply PStar0.
    apply (PSeq _ _ [] []). apply PStar0. constructor.
  - apply paths_seq_nil. apply PAct.
Qed.

(* goroutine 0 takes the read lock, goroutine 1 announces itself as writer: now 0 cannot re-enter and 1 cannot enter *)
Theorem pinned_deleteall_deadlocks :
  exists progs sched, Forall (paths goroutine_pinned) progs /\ stuck (run (map init progs) sched) = true.
Proof.
  exists [d11b_t0; d11b_t1], [0; 1]. split.
  - repeat constructor. apply d11b_t0_path. apply d11b_t1_path.
  - vm_compute. reflexivity.
Qed.

(* non-vacuity: a real interleaving of the repaired DeleteAll and Apply runs to completion *)
Example fixed_deleteall_runs :
  let t0 := [RLock A; RLock M; RLock D; RUnlock D; RUnlock M; RUnlock A] in
  finished (run (map init [t0; d11b_t1]) [0; 1; 0; 1; 0; 0; 0; 0; 1; 1; 1]) = true.
Proof. vm_compute. reflexivity. Qed.
