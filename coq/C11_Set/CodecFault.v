(* C11 - the codec of SerializableOrderedMap[K,V] / Set[K] with failing entry codecs (CodecModel.v):
   Encode reports an error exactly when the encoding of some key or value fails (never truncated bytes with a nil
   error), otherwise its output is count ++ (key ++ value)*, and Decode of that output restores contents and order and
   consumes all bytes; Decode of an input whose entries cannot all be decoded reports an error.
   For ALL maps and ALL codecs (fault scripts) ek ev dk dv. *)
From Coq Require Import NArith List Bool Lia.
From Verif.C11_Set Require Import Model CodecModel Refine SetBasics ArithCodec.
Import ListNotations. Open Scope N_scope.

(* the first api.Encode call that fails, in iteration order (key before value), entries numbered from i *)
Fixpoint first_fault (ek ev : N -> option (list N)) (i : nat) (l : list (N * N)) : option cerr :=
  match l with
  | [] => None
  | kv :: r =>
      match ek (fst kv), ev (snd kv) with
      | None, _ => Some (CEKey i)
      | Some _, None => Some (CEVal i)
      | Some _, Some _ => first_fault ek ev (S i) r
      end
  end.

Definition entry_code (ek ev : N -> option (list N)) (kv : N * N) : list N := bytes_of (ek (fst kv)) ++ bytes_of (ev (snd kv)).

(* once an error is recorded, the rest of the iteration changes nothing *)
Lemma enc_fold_sticky ek ev l : forall s i e, serr s = Some e ->
  fst (fold_left (enc_entry ek ev) l (s, i)) = s.
Proof.
  induction l as [|kv l IH]; intros s i e He; [reflexivity|].
  cbn [fold_left]. unfold enc_entry at 2.
  assert (A : forall x, ser_abort s x = s) by (intros x; unfold ser_abort; rewrite He; reflexivity).
  assert (W : forall b, ser_write s b = s) by (intros b; unfold ser_write; rewrite He; reflexivity).
  destruct (ek (fst kv)); destruct (ev (snd kv)); cbn [bytes_of]; rewrite ?A, ?W, ?A, ?W; eapply IH; eauto.
Qed.

(* one call of the consumer on a serializer without error *)
Lemma enc_entry_ok ek ev buf i kv :
  enc_entry ek ev (mkSer buf None, i) kv =
    match ek (fst kv), ev (snd kv) with
    | Some kb, Some vb => (mkSer ((buf ++ kb) ++ vb) None, S i)
    | Some kb, None => (mkSer (buf ++ kb) (Some (CEVal i)), S i)
    | None, _ => (mkSer buf (Some (CEKey i)), S i)
    end.
Proof.
  unfold enc_entry. destruct (ek (fst kv)) as [kb|]; destruct (ev (snd kv)) as [vb|]; reflexivity.
Qed.

Lemma enc_fold ek ev l : forall buf i,
  let s' := fst (fold_left (enc_entry ek ev) l (mkSer buf None, i)) in
  serr s' = first_fault ek ev i l /\
  (first_fault ek ev i l = None -> sbuf s' = buf ++ flat_map (entry_code ek ev) l).
Proof.
  induction l as [|kv l IH]; intros buf i; cbn zeta.
  - cbn. split; [reflexivity|]. intros _. rewrite app_nil_r. reflexivity.
  - cbn [fold_left first_fault flat_map]. rewrite enc_entry_ok.
    destruct (ek (fst kv)) as [kb|] eqn:Ek; [destruct (ev (snd kv)) as [vb|] eqn:Ev|].
    + specialize (IH ((buf ++ kb) ++ vb) (S i)). cbn zeta in IH. destruct IH as [H1 H2].
      split; [exact H1|]. intros Hn. rewrite (H2 Hn). unfold entry_code at 2. rewrite Ek, Ev.
      cbn [bytes_of]. rewrite <- !app_assoc. reflexivity.
    + rewrite (enc_fold_sticky ek ev l _ (S i) (CEVal i)) by reflexivity.
      cbn [serr]. split; [reflexivity|discriminate].
    + rewrite (enc_fold_sticky ek ev l _ (S i) (CEKey i)) by reflexivity.
      cbn [serr]. split; [reflexivity|discriminate].
Qed.

Lemma first_fault_none ek ev l : forall i,
  first_fault ek ev i l = None <-> (forall kv, In kv l -> ek (fst kv) <> None /\ ev (snd kv) <> None).
Proof.
  induction l as [|kv l IH]; intros i; cbn [first_fault In].
  - split; [intros _ ? []|reflexivity].
  - destruct (ek (fst kv)) eqn:Ek; [destruct (ev (snd kv)) eqn:Ev|].
    + rewrite IH. split.
      * intros H x [<-|Hx]; [rewrite Ek, Ev; split; discriminate|auto].
      * intros H x Hx. apply H. auto.
    + split; [discriminate|]. intros H. destruct (H kv (or_introl eq_refl)) as [_ C]. congruence.
    + split; [discriminate|]. intros H. destruct (H kv (or_introl eq_refl)) as [C _]. congruence.
Qed.

(* the error names an entry that really fails, and no earlier call fails *)
Lemma first_fault_some ek ev l : forall i e, first_fault ek ev i l = Some e ->
  exists j kv, nth_error l j = Some kv /\
    ((e = CEKey (i + j) /\ ek (fst kv) = None) \/ (e = CEVal (i + j) /\ ek (fst kv) <> None /\ ev (snd kv) = None)) /\
    first_fault ek ev i (firstn j l) = None.
Proof.
  induction l as [|kv l IH]; intros i e; cbn [first_fault]; [discriminate|].
  destruct (ek (fst kv)) eqn:Ek; [destruct (ev (snd kv)) eqn:Ev|].
  - intros H. destruct (IH _ _ H) as (j & kv' & Hn & Hc & Hp).
    exists (S j), kv'. split; [exact Hn|]. replace (i + S j)%nat with (S i + j)%nat by lia. split; [exact Hc|].
    cbn [firstn first_fault]. rewrite Ek, Ev. exact Hp.
  - intros [= <-]. exists 0%nat, kv. replace (i + 0)%nat with i by lia. split; [reflexivity|]. split; [|reflexivity].
    right. split; [reflexivity|]. split; [congruence|exact Ev].
  - intros [= <-]. exists 0%nat, kv. replace (i + 0)%nat with i by lia. split; [reflexivity|]. split; [|reflexivity].
    left. split; [reflexivity|exact Ek].
Qed.

(* ---- Encode is faithful to the entry codecs: an error iff some entry fails (the first one, in iteration order);
        otherwise exactly count ++ (key ++ value)*  ---- *)
Theorem codec_encode_error_faithful : forall (ek ev : N -> option (list N)) (o : omap),
  som_encode ek ev o =
    match first_fault ek ev 0 (om_list o) with
    | Some e => EncErr e
    | None => EncOk (enc_u32 (N.of_nat (om_size o)) ++ flat_map (entry_code ek ev) (om_list o))
    end.
Proof.
  intros ek ev o. unfold som_encode.
  change (ser_write ser_new (enc_u32 (N.of_nat (om_size o)))) with (mkSer (enc_u32 (N.of_nat (om_size o))) None).
  destruct (enc_fold ek ev (om_list o) (enc_u32 (N.of_nat (om_size o))) 0%nat) as [H1 H2].
  unfold ser_serialize. rewrite H1.
  destruct (first_fault ek ev 0 (om_list o)); [reflexivity|]. rewrite H2; reflexivity.
Qed.

Corollary codec_encode_error_iff : forall ek ev o,
  (exists e, som_encode ek ev o = EncErr e) <->
  (exists kv, In kv (om_list o) /\ (ek (fst kv) = None \/ ev (snd kv) = None)).
Proof.
  intros ek ev o. rewrite codec_encode_error_faithful.
  destruct (first_fault ek ev 0 (om_list o)) as [e|] eqn:F.
  - split; [intros _|intros _; eauto].
    destruct (first_fault_some _ _ _ _ _ F) as (j & kv & Hn & Hc & _).
    exists kv. split; [eapply nth_error_In; eauto|]. destruct Hc as [[_ H]|[_ [_ H]]]; auto.
  - split; [intros [e H]; discriminate|].
    intros (kv & Hin & Hc). destruct (proj1 (first_fault_none ek ev _ 0%nat) F kv Hin) as [A B].
    destruct Hc; contradiction.
Qed.

Corollary codec_encode_ok_all_encodable : forall ek ev o b, som_encode ek ev o = EncOk b ->
  (forall kv, In kv (om_list o) -> ek (fst kv) <> None /\ ev (snd kv) <> None) /\
  b = enc_u32 (N.of_nat (om_size o)) ++ flat_map (entry_code ek ev) (om_list o).
Proof.
  intros ek ev o b. rewrite codec_encode_error_faithful.
  destruct (first_fault ek ev 0 (om_list o)) eqn:F; [discriminate|]. intros [= <-].
  split; [apply (first_fault_none ek ev _ 0%nat); exact F|reflexivity].
Qed.

(* ---- Decode ---- *)

(* decoders that invert the encoders on what the encoders accept *)
Definition inverts (e : N -> option (list N)) (d : list N -> option (N * list N)) : Prop :=
  forall x b r, e x = Some b -> d (b ++ r) = Some (x, r).

Lemma gdec_entries_enc ek ev dk dv : inverts ek dk -> inverts ev dv ->
  forall l s r, Inv s -> first_fault ek ev 0 l = None ->
  let res := gdec_entries dk dv s (length l) (flat_map (entry_code ek ev) l ++ r) in
  snd res = Some r /\ Inv (fst res) /\
  om_list (fst res) = fold_left (fun acc kv => l_set acc (fst kv) (snd kv)) l (om_list s).
Proof.
  intros Hk Hv. induction l as [|kv l IH]; intros s r I F; cbn zeta.
  - cbn. auto.
  - cbn [length flat_map gdec_entries fold_left].
    change (entry_code ek ev kv) with (bytes_of (ek (fst kv)) ++ bytes_of (ev (snd kv))).
    assert (F' := F). cbn [first_fault] in F'.
    destruct (ek (fst kv)) as [kb|] eqn:Ek; [|discriminate].
    destruct (ev (snd kv)) as [vb|] eqn:Ev; [|discriminate].
    cbn [bytes_of]. rewrite <- !app_assoc. rewrite (Hk _ _ _ Ek). rewrite (Hv _ _ _ Ev).
    destruct (set_spec s (fst kv) (snd kv) I) as (I' & L' & _).
    assert (F1 : first_fault ek ev 0 l = None).
    { apply (first_fault_none ek ev l 0%nat). apply (first_fault_none ek ev l 1%nat). exact F'. }
    specialize (IH (fst (om_set s (fst kv) (snd kv))) r I' F1). cbn zeta in IH.
    rewrite L' in IH. exact IH.
Qed.

Lemma fold_l_set_fresh l : forall p, NoDup (map fst (p ++ l)) ->
  fold_left (fun acc kv => l_set acc (fst kv) (snd kv)) l p = p ++ l.
Proof.
  induction l as [|[k v] l IH]; intros p ND.
  - cbn. rewrite app_nil_r. reflexivity.
  - cbn [fold_left fst snd].
    assert (Nk : ~ In k (map fst p)).
    { rewrite map_app in ND. cbn [map fst] in ND. apply NoDup_remove_2 in ND. intros H. apply ND. apply in_or_app. auto. }
    rewrite l_set_absent by (apply l_get_none_keys; exact Nk).
    rewrite IH; rewrite <- app_assoc; [reflexivity|exact ND].
Qed.

(* round trip: when Encode succeeds, Decode of its output into an empty map restores the entries in order and
   consumes every byte; trailing bytes are left alone *)
Theorem codec_roundtrip_generic : forall ek ev dk dv, inverts ek dk -> inverts ev dv ->
  forall o b r, Inv o -> N.of_nat (om_size o) < 4294967296 -> som_encode ek ev o = EncOk b ->
  let '(s', n) := som_decode dk dv om_empty (b ++ r) in
  n = Some (length b) /\ Inv s' /\ om_list s' = om_list o.
Proof.
  intros ek ev dk dv Hk Hv o b r I Sz E.
  rewrite codec_encode_error_faithful in E.
  destruct (first_fault ek ev 0 (om_list o)) eqn:F; [discriminate|].
  assert (Eb : b = enc_u32 (N.of_nat (om_size o)) ++ flat_map (entry_code ek ev) (om_list o)) by congruence.
  clear E. subst b.
  unfold som_decode. rewrite <- app_assoc. rewrite dec_enc_u32 by exact Sz.
  rewrite Nat2N.id, (size_spec o I).
  destruct empty_spec as [I0 L0].
  pose proof (gdec_entries_enc ek ev dk dv Hk Hv (om_list o) om_empty r I0 F) as H. cbn zeta in H.
  destruct (gdec_entries dk dv om_empty (length (om_list o)) (flat_map (entry_code ek ev) (om_list o) ++ r)) as [s' rest].
  cbn [fst snd] in H. destruct H as (H1 & H2 & H3). subst rest. cbn [option_map].
  split; [|split; [exact H2|]].
  - f_equal. rewrite !app_length. lia.
  - rewrite H3, L0. apply (fold_l_set_fresh (om_list o) []). cbn [app]. apply keys_nodup. exact I.
Qed.

(* what Decode does on ANY input: it reports success exactly when the count and every announced entry can be decoded,
   one after the other (parse), and then the receiver has got exactly those entries, Set in order, and bytesRead is what
   was consumed; otherwise it reports an error - a half-filled receiver is never reported as success *)
Fixpoint parse (dk dv : list N -> option (N * list N)) (n : nat) (b : list N) : option (list (N * N) * list N) :=
  match n with
  | O => Some ([], b)
  | S n' =>
      match dk b with
      | None => None
      | Some (k, r1) =>
          match dv r1 with
          | None => None
          | Some (v, r2) =>
              match parse dk dv n' r2 with
              | Some (kvs, r) => Some ((k, v) :: kvs, r)
              | None => None
              end
          end
      end
  end.

Definition set_all (s : omap) (kvs : list (N * N)) : omap := fold_left (fun o kv => fst (om_set o (fst kv) (snd kv))) kvs s.

Lemma gdec_entries_parse dk dv : forall n s b,
  match parse dk dv n b with
  | Some (kvs, r) => gdec_entries dk dv s n b = (set_all s kvs, Some r) /\ length kvs = n
  | None => snd (gdec_entries dk dv s n b) = None
  end.
Proof.
  induction n as [|n IH]; intros s b; cbn [parse gdec_entries].
  - split; reflexivity.
  - destruct (dk b) as [[k r1]|]; [|reflexivity].
    destruct (dv r1) as [[v r2]|]; [|reflexivity].
    specialize (IH (fst (om_set s k v)) r2).
    destruct (parse dk dv n r2) as [[kvs r]|].
    + destruct IH as [H1 H2]. rewrite H1. split; [reflexivity|cbn [length]; congruence].
    + exact IH.
Qed.

Theorem codec_decode_success_iff_parse : forall dk dv s b,
  match dec_u32 b with
  | None => snd (som_decode dk dv s b) = None
  | Some (cnt, rest) =>
      match parse dk dv (N.to_nat cnt) rest with
      | Some (kvs, r) =>
          som_decode dk dv s b = (set_all s kvs, Some (length b - length r)%nat) /\ length kvs = N.to_nat cnt
      | None => snd (som_decode dk dv s b) = None
      end
  end.
Proof.
  intros dk dv s b. unfold som_decode.
  destruct (dec_u32 b) as [[cnt rest]|]; [|reflexivity].
  pose proof (gdec_entries_parse dk dv (N.to_nat cnt) s rest) as H.
  destruct (parse dk dv (N.to_nat cnt) rest) as [[kvs r]|].
  - destruct H as [H1 H2]. rewrite H1. split; [reflexivity|exact H2].
  - destruct (gdec_entries dk dv s (N.to_nat cnt) rest) as [s' [x|]]; [discriminate H|reflexivity].
Qed.

(* non-vacuity: a table codec in which value 1 and key 7 cannot be encoded *)
Example codec_fault_example :
  let kt := [(5, Some [5]); (6, Some [6]); (7, None)] in
  let vt := [(0, Some [9; 9]); (1, None)] in
  (som_encode (tenc kt) (tenc vt) (om_of_entries [(5, 0); (6, 0)]),
   som_encode (tenc kt) (tenc vt) (om_of_entries [(5, 0); (6, 1)]),
   som_encode (tenc kt) (tenc vt) (om_of_entries [(5, 1); (7, 1)]),
   som_encode (tenc kt) (tenc vt) (om_of_entries [(5, 0); (7, 1); (6, 1)])) =
  (EncOk [2; 0; 0; 0; 5; 9; 9; 6; 9; 9], EncErr (CEVal 1), EncErr (CEVal 0), EncErr (CEKey 1)).
Proof. vm_compute. reflexivity. Qed.

Example codec_fault_decode_example :
  let kt := [(5, Some [5]); (6, Some [6]); (7, None)] in
  let vt := [(0, Some [9; 9]); (1, None)] in
  (let '(s, r) := som_decode (tdec kt) (tdec vt) om_empty [2; 0; 0; 0; 5; 9; 9; 6; 9; 9] in (om_list s, r),
   let '(s, r) := som_decode (tdec kt) (tdec vt) om_empty [2; 0; 0; 0; 5; 9; 9; 6; 9] in (om_list s, r)) =
  (([(5, 0); (6, 0)], Some 10%nat), ([(5, 0)], None)).
Proof. vm_compute. reflexivity. Qed.

(* the table decoder inverts the table encoder when the codes are prefix-free (so the correspondence codecs satisfy the
   hypotheses of the round trip) *)
Lemma strip_prefix_app p r : strip_prefix p (p ++ r) = Some r.
Proof. induction p as [|x p IH]; cbn; [reflexivity|]. rewrite N.eqb_refl. exact IH. Qed.

(* ---- truncated input: every proper prefix of a successful encoding makes Decode report an error ---- *)

(* a decoder that rejects every proper prefix of a code (serix codes of one type are prefix-free and self-delimiting) *)
Definition rejects_truncated (e : N -> option (list N)) (d : list N -> option (N * list N)) : Prop :=
  forall x b p q, e x = Some b -> b = p ++ q -> q <> [] -> d p = None.

Lemma gdec_entries_truncated ek ev dk dv :
  inverts ek dk -> inverts ev dv -> rejects_truncated ek dk -> rejects_truncated ev dv ->
  forall l p q s, first_fault ek ev 0 l = None -> flat_map (entry_code ek ev) l = p ++ q -> q <> [] ->
  snd (gdec_entries dk dv s (length l) p) = None.
Proof.
  intros Hk Hv Tk Tv. induction l as [|kv l IH]; intros p q s F E Q.
  - cbn in E. symmetry in E. apply app_eq_nil in E. destruct E as [_ ->]. contradiction.
  - cbn [length gdec_entries flat_map] in *.
    assert (F' := F). cbn [first_fault] in F'.
    change (entry_code ek ev kv) with (bytes_of (ek (fst kv)) ++ bytes_of (ev (snd kv))) in E.
    destruct (ek (fst kv)) as [kb|] eqn:Ek; [|discriminate].
    destruct (ev (snd kv)) as [vb|] eqn:Ev; [|discriminate].
    cbn [bytes_of] in E.
    assert (F1 : first_fault ek ev 0 l = None).
    { apply (first_fault_none ek ev l 0%nat). apply (first_fault_none ek ev l 1%nat). exact F'. }
    rewrite <- app_assoc in E.
    apply app_eq_app in E. destruct E as [t [[E1 E2]|[E1 E2]]].
    + (* kb = p ++ t *)
      destruct t as [|x t].
      * rewrite app_nil_r in E1. subst p. cbn [app] in E2.
        (* the cut is exactly behind the key *)
        rewrite <- (app_nil_r kb). rewrite (Hk _ _ _ Ek).
        destruct vb as [|y vb].
        -- rewrite <- (app_nil_l []) at 1. rewrite (Hv _ [] [] Ev).
           cbn [app] in E2. apply (IH [] q); auto.
        -- rewrite (Tv _ _ [] (y :: vb) Ev eq_refl) by discriminate. reflexivity.
      * rewrite (Tk _ _ p (x :: t) Ek E1) by discriminate. reflexivity.
    + (* p = kb ++ t, vb ++ rest = t ++ q *)
      subst p. rewrite (Hk _ _ _ Ek).
      apply app_eq_app in E2. destruct E2 as [u [[E3 E4]|[E3 E4]]].
      * (* vb = t ++ u *)
        destruct u as [|x u].
        -- rewrite app_nil_r in E3. subst t. cbn [app] in E4.
           rewrite <- (app_nil_r vb). rewrite (Hv _ _ _ Ev). apply (IH [] q); auto.
        -- rewrite (Tv _ _ t (x :: u) Ev E3) by discriminate. reflexivity.
      * subst t. rewrite (Hv _ _ _ Ev). apply (IH u q); auto.
Qed.

Lemma dec_u32_short p : (length p < 4)%nat -> dec_u32 p = None.
Proof. destruct p as [|a [|b [|c [|d p]]]]; cbn; intros; try reflexivity; lia. Qed.

Theorem codec_decode_truncated_fails : forall ek ev dk dv,
  inverts ek dk -> inverts ev dv -> rejects_truncated ek dk -> rejects_truncated ev dv ->
  forall o b, Inv o -> N.of_nat (om_size o) < 4294967296 -> som_encode ek ev o = EncOk b ->
  forall p q s, b = p ++ q -> q <> [] -> snd (som_decode dk dv s p) = None.
Proof.
  intros ek ev dk dv Hk Hv Tk Tv o b I Sz E p q s Eb Q.
  rewrite codec_encode_error_faithful in E.
  destruct (first_fault ek ev 0 (om_list o)) eqn:F; [discriminate|].
  assert (Eb' : enc_u32 (N.of_nat (om_size o)) ++ flat_map (entry_code ek ev) (om_list o) = p ++ q) by congruence.
  clear E Eb. unfold som_decode.
  apply app_eq_app in Eb'. destruct Eb' as [t [[E1 E2]|[E1 E2]]].
  - destruct t as [|x t].
    + rewrite app_nil_r in E1. subst p. cbn [app] in E2.
      rewrite <- (app_nil_r (enc_u32 _)). rewrite dec_enc_u32 by exact Sz.
      rewrite Nat2N.id, (size_spec o I).
      pose proof (gdec_entries_truncated ek ev dk dv Hk Hv Tk Tv (om_list o) [] q s F (eq_sym E2) Q) as H.
      destruct (gdec_entries dk dv s (length (om_list o)) []) as [s' rest]. cbn [snd] in *. subst rest. reflexivity.
    + rewrite dec_u32_short; [reflexivity|].
      apply (f_equal (@length N)) in E1. rewrite app_length in E1. cbn [length enc_u32] in E1. lia.
  - subst p. rewrite dec_enc_u32 by exact Sz.
    rewrite Nat2N.id, (size_spec o I).
    pose proof (gdec_entries_truncated ek ev dk dv Hk Hv Tk Tv (om_list o) t q s F E2 Q) as H.
    destruct (gdec_entries dk dv s (length (om_list o)) t) as [s' rest]. cbn [snd] in *. subst rest. reflexivity.
Qed.

(* non-vacuity of the hypotheses: a one-byte codec in which numbers >= 256 cannot be encoded *)
Definition e_byte (x : N) : option (list N) := if x <? 256 then Some [x] else None.
Definition d_byte (b : list N) : option (N * list N) := match b with x :: r => Some (x, r) | [] => None end.

Lemma e_byte_inverts : inverts e_byte d_byte.
Proof.
  intros x b r. unfold e_byte. destruct (x <? 256); [|discriminate]. intros [= <-]. reflexivity.
Qed.

Lemma e_byte_rejects_truncated : rejects_truncated e_byte d_byte.
Proof.
  intros x b p q. unfold e_byte. destruct (x <? 256); [|discriminate]. intros [= <-] E Q.
  destruct p as [|y p]; [reflexivity|].
  cbn [app] in E. injection E as _ E. symmetry in E. apply app_eq_nil in E. destruct E as [_ ->]. contradiction.
Qed.

Example codec_byte_example :
  (som_encode e_byte e_byte (om_of_entries [(1, 2); (3, 4)]),
   som_encode e_byte e_byte (om_of_entries [(1, 2); (3, 256); (5, 6)]),
   let '(s, r) := som_decode d_byte d_byte om_empty [2; 0; 0; 0; 1; 2; 3; 4] in (om_list s, r),
   let '(s, r) := som_decode d_byte d_byte om_empty [2; 0; 0; 0; 1; 2; 3] in (om_list s, r)) =
  (EncOk [2; 0; 0; 0; 1; 2; 3; 4], EncErr (CEVal 1), ([(1, 2); (3, 4)], Some 8%nat), ([(1, 2)], None)).
Proof. vm_compute. reflexivity. Qed.
