(* C16 - WorkerPool conserves tasks and always shuts down. Statements only.
   Model: Verif.C16_Pool.Model (interleaving system; `pinned` = code as pinned, `repaired` = code after the fix: commits). *)
From Coq Require Import List ZArith Bool Permutation.
From Verif.C16_Pool Require Import Model Inv Proofs Runs Refute Live Term Measure Group GroupProofs Options OptionsProofs Waiters WaitersProofs WaitersLive GroupConc GroupConcProofs.
Import ListNotations.

(* Every variant (pinned and repaired), every worker count >= 1, cancel on/off, every task program (nested submits), every
   set of external threads with arbitrary Submit/Shutdown/Start/Wait scripts, EVERY schedule: each accepted task is run,
   cancelled or still in flight (with multiplicities), and the pending counter is accepted - finished. *)
Theorem C16_conservation : forall c, 1 <= nw c -> forall scripts sch, let s := run c sch (init c scripts) in
  (forall i, cnt i (acc s) = cnt i (ran s) + cnt i (canc s) + inflight i s) /\
  pending s = (Z.of_nat (length (acc s)) - Z.of_nat (length (ran s)) - Z.of_nat (length (canc s)))%Z.
Proof. exact conservation. Qed.

(* ... so once nothing is in flight, accepted = run + cancelled (exactly once each) and the counter is back at zero, *)
Theorem C16_conservation_quiescent : forall c, 1 <= nw c -> forall scripts sch, let s := run c sch (init c scripts) in
  (forall i, inflight i s = 0) -> Permutation (acc s) (ran s ++ canc s) /\ pending s = 0%Z.
Proof. exact conservation_quiescent. Qed.

(* ... tasks are cancelled only with WithCancelPendingTasksOnShutdown, *)
Theorem C16_cancel_only_if_enabled : forall c scripts sch, cancel c = false -> canc (run c sch (init c scripts)) = [].
Proof. exact cancel_only_if_enabled. Qed.

(* ... and nothing runs or is cancelled while all workers are gone (after ShutdownComplete, until the next Start). *)
Theorem C16_no_run_after_complete : forall c s x s', all_dead s = true -> step c s x = Some s' -> ran s' = ran s /\ canc s' = canc s.
Proof. exact no_run_after_complete. Qed.

(* A Start restarts only a pool whose workers are all gone (exclusion of concurrent Starts), every variant. *)
Theorem C16_start_exclusive : forall c, 1 <= nw c -> forall scripts sch j e, let s := run c sch (init c scripts) in
  nth_error (exts s) j = Some e -> epc_ e = EStGo -> all_dead s = true.
Proof. exact start_exclusive. Qed.

(* Shutdown termination, full statement: in the repaired model (= the code in /repo) no reachable stuck state - for any
   worker count, task program, scripts and schedule - has a stopped pool with a live worker or dispatcher, or anything in
   flight, or an operation that has not returned other than a ShutdownComplete.Wait on a running pool. *)
Definition C16_shutdown_terminates_full_statement : Prop :=
  forall n cn p scripts sch, 1 <= n -> let c := repaired n cn p in let s := run c sch (init c scripts) in
  stuckb c s = true ->
  (forall i, inflight i s = 0) /\ (running s = false -> all_dead s = true /\ disp s = DDead) /\
  (forall e, In e (exts s) -> (epc_ e = EIdle /\ ops e = []) \/ (running s = true /\ epc_ e = EIdle /\ exists r, ops e = OWaitShutdown :: r)).

Theorem C16_shutdown_terminates : C16_shutdown_terminates_full_statement.
Proof. unfold C16_shutdown_terminates_full_statement. intros n cn p scripts sch H. exact (shutdown_terminates n cn p H scripts sch). Qed.

(* Progress form: in every reachable state of the repaired model in which the pool is stopped (Shutdown took effect) and
   the shutdown is not complete - a worker is alive, or the dispatcher is, or the pending counter is not zero - some thread
   has an enabled step: ShutdownComplete.Wait / WaitIsZero can not hang on a deadlock. *)
Theorem C16_shutdown_progress : forall n cn p, 1 <= n -> forall scripts sch,
  let c := repaired n cn p in let s := run c sch (init c scripts) in
  running s = false -> (all_dead s = false \/ disp s <> DDead \/ pending s <> 0%Z) ->
  exists t, In t (threads s) /\ enabledb c s t = true.
Proof. exact shutdown_progress. Qed.

(* non-vacuity: a run with nested submits, a concurrent submitter, Shutdown and both waits reaches a stuck state, which is
   final as the theorem says (cancel-on-shutdown: 1 is cancelled); 115 steps into the same schedule the pool is stopped,
   two workers and the dispatcher are alive, pending = 1 - the hypotheses of the progress theorem hold there. *)
Definition cT := repaired 2 true [[1; 2]; []; []].
Definition scriptsT := [[OStart; OSubmit 0; OSubmit 2; OShutdown; OWaitShutdown]; [OSubmit 1; OWaitZero]].
Definition schT := concat (repeat [(TE 0, 0); (TD, 0); (TW 0, 1); (TW 1, 0); (TE 1, 0)] 40).
Example C16_shutdown_terminates_nonvacuous :
  let s := run cT schT (init cT scriptsT) in
  stuckb cT s = true /\ running s = false /\ all_dead s = true /\ acc s = [0; 2; 1] /\ ran s = [2; 0] /\ canc s = [1] /\
  exts s = [mkExt EIdle []; mkExt EIdle []].
Proof. vm_compute. repeat split; reflexivity. Qed.
Example C16_shutdown_progress_nonvacuous :
  let s := run cT (firstn 115 schT) (init cT scriptsT) in
  running s = false /\ all_dead s = false /\ disp s = DWaitZ /\ pending s = 1%Z /\ stuckb cT s = false.
Proof. vm_compute. repeat split; reflexivity. Qed.

(* No livelock either: from every reachable state of the repaired model in which the pool is stopped and no Start call is
   pending or in progress (`nostart`), every continuation - whatever the scheduler does, fair or not - takes at most `mu s`
   steps (an explicit natural-number measure that every step of every thread strictly decreases), and when it can not be
   extended the shutdown is complete: ShutdownComplete is open, the pending counter is zero, every operation has returned. *)
Theorem C16_shutdown_completes : forall n cn p, 1 <= n -> forall scripts sch1, let c := repaired n cn p in
  let s := run c sch1 (init c scripts) in
  running s = false -> nostart s = true ->
  forall sch2, let s2 := run c sch2 s in
    steps_taken c sch2 s <= mu n cn p s /\
    (stuckb c s2 = true ->
       all_dead s2 = true /\ disp s2 = DDead /\ pending s2 = 0%Z /\ (forall i, inflight i s2 = 0) /\
       forall e, In e (exts s2) -> epc_ e = EIdle /\ ops e = []).
Proof. exact shutdown_completes. Qed.

Example C16_shutdown_completes_nonvacuous :
  let s := run cT (firstn 105 schT) (init cT scriptsT) in
  running s = false /\ nostart s = true /\ all_dead s = false /\ mu 2 true [[1; 2]; []; []] s = 30 /\
  steps_taken cT (skipn 105 schT) s = 17 /\ stuckb cT (run cT (skipn 105 schT) s) = true.
Proof. vm_compute. repeat split; reflexivity. Qed.

(* PARTIAL (what the model does not say): steps are atomic model steps - that each of them terminates in the code (mutex
   fairness of the Go runtime, user tasks returning) is an assumption; with a Start pending the pool is restarted and tasks
   that re-submit themselves may keep it busy forever, which is not a shutdown hang (only the absence of stuck states is
   proved for that case). *)

(* Group aggregation (runtime/workerpool/group.go; model Group.v): for EVERY history of NewGroup / CreateGroup / CreatePool
   (nested groups, replaced pools) and pool-counter changes (Update by any delta, Set to any value), in the resulting
   forest the PendingChildrenCounter of every group g
   - is the number of direct children (pools and sub-groups) whose counter is not zero,
   - is zero iff every pool below g, at any depth, has a zero PendingTasksCounter,
   - so WaitChildren() returns exactly when all pools below are idle, and WaitParents() - which waits on Root(), the
     top-most ancestor - exactly when all pools of the whole tree are idle. *)
Theorem C16_group : forall ops f g, grun [] ops = Some f -> is_kind KGroup f g = true ->
  gval f g = Z.of_nat (count_childnz g f) /\
  (gval f g = 0%Z <-> forall i, is_kind KPool f i = true -> below f i g -> gval f i = 0%Z) /\
  wait_children_returns f g = pools_idle_below f g /\
  (let r := root_of f g in
   is_kind KGroup f r = true /\ parent_of f r = None /\ (r = g \/ below f g r) /\
   wait_parents_returns f g = pools_idle_below f r /\ (wait_parents_returns f g = true -> wait_children_returns f g = true)).
Proof.
  intros ops f g H K. split; [|split; [|split]].
  - exact (group_counts_children ops f g H K).
  - exact (group_aggregates ops f g H K).
  - exact (wait_children_spec ops f g H K).
  - exact (wait_parents_spec ops f g H K).
Qed.

(* non-vacuity: three levels (group 0 > group 1 > group 4), pools 2 (under 1), 3 (under 0), 5 (under 4); pool 3 went back to
   zero, pools 2 and 5 are busy: counters 1 / 2 / 1, nobody's wait returns; after both are set to 0 everything is idle *)
Definition histG := [GNewGroup; GCreateGroup 0; GCreatePool 1; GCreatePool 0; GUpdate 2 1; GUpdate 3 1; GUpdate 2 1; GUpdate 3 (-1);
                     GCreateGroup 1; GCreatePool 4; GSet 5 3]%Z.
Example C16_group_nonvacuous :
  (exists f, grun [] histG = Some f /\ map nval f = [1; 2; 2; 0; 1; 3]%Z /\ is_kind KGroup f 4 = true /\
             wait_children_returns f 0 = false /\ wait_parents_returns f 4 = false /\ root_of f 4 = 0) /\
  (exists f, grun [] (histG ++ [GSet 5 0; GUpdate 2 (-2)])%Z = Some f /\ map nval f = [0; 0; 0; 0; 0; 0]%Z /\
             wait_children_returns f 0 = true /\ wait_parents_returns f 4 = true).
Proof. split; eexists; vm_compute; repeat split; reflexivity. Qed.

(* Group waits against CONCURRENT counter changes (round 4; model GroupConc.v: every level of a chain pool -> group -> ... ->
   root is its own step - Lock the counter, write, call the subscriber, which updates the parent while the child's valueMutex
   is still held; unlocks inner-most first on return - any number of threads with any programs of Update/Set calls on pool
   counters (Submit = +1, task completion = -1), observers reading any counter whose valueMutex is free at any moment).
   For EVERY schedule and every reachable state s:
   - the linearised forest `absf s` (counters written by chains still on their way up put back) is exactly the result of the
     ATOMIC model of Group.v on the history followed by the linearisation `lin` of the schedule (one `GSet pool value` per chain,
     at the step in which the chain reaches its top - between the call and its return), so C16_group applies to it;
   - every counter that an observer can read (valueMutex free) shows its linearised value;
   - hence: when an observer (WaitChildren / WaitParents / Group.Shutdown = WaitIsZero, IsZero-style Get) reads ZERO from group
     g, every pool below g, at any depth, is idle in the linearised forest, and has pending = 0 in the raw state as well
     unless an Update/Set call on that pool is still on its way up (a Submit that has not returned yet: the task is not accepted). *)
Theorem C16_group_wait_sound : forall ops0 f0 progs sched s g,
  grun [] ops0 = Some f0 -> crun false (cinit f0 progs) sched = Some s ->
  is_kind KGroup (cf s) g = true -> reads_zero s g = true ->
  grun [] (ops0 ++ lin false (cinit f0 progs) sched) = Some (absf s) /\
  (forall i, is_kind KPool (cf s) i = true -> below (cf s) i g ->
     gval (absf s) i = 0%Z /\ (in_flight s i = false -> gval (cf s) i = 0%Z)) /\
  (forall j, held s j = false -> gval (cf s) j = gval (absf s) j).
Proof. exact group_wait_sound. Qed.

(* the refinement itself, from any state satisfying the invariant (any number of chains in progress) *)
Theorem C16_group_chains_linearise : forall sched s0 s, CInv s0 -> crun false s0 sched = Some s ->
  CInv s /\ grun (absf s0) (lin false s0 sched) = Some (absf s).
Proof. exact conc_refines. Qed.

(* the variant that releases the valueMutex BEFORE calling the subscribers (class of seed C16-m10) is refuted: root 0 > group 1
   > pool 2, two submitters; thread 0 publishes pool 0 -> 1 and is delayed before Increase() of group 1; thread 1's Submit
   (1 -> 2, no subscriber call) has RETURNED (thread state TDown [] with an empty program); nobody holds anything, no chain
   through the pool is in flight in the sense above, the pool shows 2 pending tasks - and observers read zero from the root
   and from group 1: WaitChildren returns. *)
Theorem C16_group_wait_refuted_unlock_first :
  exists s, grun [] [GNewGroup; GCreateGroup 0; GCreatePool 1] = Some refF0 /\
    crun true (cinit refF0 refProgs) refSched = Some s /\
    is_kind KGroup (cf s) 0 = true /\ reads_zero s 0 = true /\ reads_zero s 1 = true /\
    is_kind KPool (cf s) 2 = true /\ below (cf s) 2 0 /\
    in_flight s 2 = false /\ held s 2 = false /\ gval (cf s) 2 = 2%Z /\
    nth_error (thrs s) 1 = Some (mkThr (TDown []) []).
Proof. exact group_wait_refuted_unlock_first. Qed.

(* non-vacuity of C16_group_wait_sound: in the middle of thread 0's chain (pool and group 1 written, both held) the root is
   readable and zero, the chain is in flight, the linearised forest is all zero and nothing is linearised yet; and the
   refuting schedule is not even enabled on the code as it is (thread 1 blocks on the pool's valueMutex). *)
Example C16_group_wait_sound_nonvacuous :
  (exists s, crun false (cinit refF0 refProgs) [0; 0; 0] = Some s /\ map nval (cf s) = [0; 1; 1]%Z /\ reads_zero s 0 = true /\
    in_flight s 2 = true /\ map nval (absf s) = [0; 0; 0]%Z /\ lin false (cinit refF0 refProgs) [0; 0; 0] = []) /\
    crun false (cinit refF0 refProgs) refSched = None.
Proof. split. exact group_wait_sound_nonvacuous. exact (proj1 group_wait_sound_same_schedule). Qed.

(* Option surface (workerpool.go: WithWorkerCount, WithPanicOnSubmitAfterShutdown, WithCancelPendingTasksOnShutdown; model
   Options.v).  The parameters `nw` and `cancel` of the pool theorems above are the EFFECTIVE option values: New applies the
   options in order over its defaults, Group.CreatePool puts the group's default (cancel-on-shutdown) in front of the
   caller's options.  So a pool created through a group with the explicit option WithCancelPendingTasksOnShutdown(v) - after
   anything, with no later cancel option - has the effective flag v (the caller's option wins over the group's default);
   without one it has the group's default. *)
Theorem C16_group_pool_options : forall ncpu pre v post, (forall b, ~ In (PCancel b) post) ->
  pc_cancel (pool_cfg true ncpu (pre ++ PCancel v :: post)) = v.
Proof. exact group_pool_options. Qed.

Theorem C16_group_pool_default : forall ncpu caller, (forall b, ~ In (PCancel b) caller) -> pc_cancel (pool_cfg true ncpu caller) = true.
Proof. exact group_pool_default. Qed.

(* every field, both constructors: the last occurrence in the caller's list, else the default *)
Theorem C16_pool_options_resolved : forall via ncpu caller, let pc := pool_cfg via ncpu caller in
  pc_cancel pc = match last_cancel caller with Some v => v | None => via end /\
  pc_workers pc = match last_workers caller with Some n => n | None => 2 * ncpu end /\
  pc_panic pc = match last_panic caller with Some v => v | None => false end.
Proof. exact pool_cfg_resolved. Qed.

(* WithWorkerCount(n) gives the model configuration with nw = n - and with it (Model.v, step EShSend) a shutdown-signal
   channel of capacity n - for every n, in particular above the default 2*NumCPU: the termination theorems above are for
   every n >= 1 and so apply to it. *)
Theorem C16_pool_workers_option : forall via ncpu pre n post p, (forall k, ~ In (PWorkers k) post) ->
  nw (to_cfg (pool_cfg via ncpu (pre ++ PWorkers n :: post)) p) = n.
Proof. exact pool_workers_option. Qed.

(* so a group pool with cancel-on-shutdown explicitly disabled never cancels, under every schedule, and once nothing is in
   flight (in particular after a Shutdown with a backlog has completed) every accepted task has been RUN exactly once *)
Theorem C16_group_pool_runs_backlog : forall ncpu pre post p, (forall b, ~ In (PCancel b) post) ->
  let c := to_cfg (pool_cfg true ncpu (pre ++ PCancel false :: post)) p in
  1 <= nw c -> forall scripts sch, let s := run c sch (init c scripts) in
  canc s = [] /\ ((forall i, inflight i s = 0) -> Permutation (acc s) (ran s) /\ pending s = 0%Z).
Proof. exact group_pool_runs_backlog. Qed.

(* non-vacuity: a group pool asked for with (cancel true, 33 workers, cancel false, panic) on a 16-CPU machine; the same
   without a cancel option; New with nothing; and a run of the first pool (1 worker variant) that shuts down with a backlog *)
Example C16_group_pool_options_nonvacuous :
  pool_cfg true 16 [PCancel true; PWorkers 33; PCancel false; PPanic true] = mkPcfg 33 true false /\
  pool_cfg true 16 [PWorkers 3] = mkPcfg 3 false true /\ pool_cfg false 16 [] = mkPcfg 32 false false /\
  (let c := to_cfg (pool_cfg true 16 ([PCancel true; PWorkers 1] ++ PCancel false :: [PPanic true])) [[]; []; []] in
   let s := run c (concat (repeat [(TE 0, 0); (TD, 0); (TW 0, 1)] 40)) (init c [[OStart; OSubmit 0; OSubmit 1; OSubmit 2; OShutdown; OWaitShutdown]]) in
   nw c = 1 /\ (forall i, inflight i s = 0) /\ acc s = [0; 1; 2] /\ ran s = [0; 1; 2] /\ canc s = [] /\ all_dead s = true).
Proof. vm_compute. repeat split; try reflexivity. Qed.

(* External waiters (round 2; model Waiters.v).  The pool's Queue and PendingTasksCounter are public: any number of user
   goroutines may block in Queue.WaitSizeIsAbove / WaitSizeIsBelow / WaitIsEmpty and PendingTasksCounter.WaitIsAbove /
   WaitIsBelow / WaitIsZero; the first shares the condition variable elementAdded with the dispatcher.  With Broadcast in
   Stack.Push (the code; xrun false) and ANY list of waiters of any kinds and thresholds, for every schedule of pool
   threads and waiters: conservation as above, *)
Theorem C16_waiters_conservation : forall c, 1 <= nw c -> forall scripts kinds sch,
  let s := base (xrun false c sch (xinit c scripts kinds)) in
  (forall i, cnt i (acc s) = cnt i (ran s) + cnt i (canc s) + inflight i s) /\
  pending s = (Z.of_nat (length (acc s)) - Z.of_nat (length (ran s)) - Z.of_nat (length (canc s)))%Z.
Proof. exact wx_conservation. Qed.

(* ... and every reachable state in which neither a pool thread nor a waiter has an enabled step is final: nothing accepted
   is left in flight and the counter is zero (every accepted task was run or cancelled), a stopped pool has terminated,
   and no waiter is starved: every waiter that has not returned has a condition that is false in that state (no lost
   wake-up for the waiters either; invariant of the parked waiters in WaitersLive.v). *)
Theorem C16_waiters_shutdown_terminates : forall n cn p, 1 <= n -> forall scripts kinds sch, let c := repaired n cn p in
  let x := xrun false c sch (xinit c scripts kinds) in let s := base x in
  xstuckb false c x = true ->
  ((forall i, inflight i s = 0) /\ pending s = 0%Z /\ (running s = false -> all_dead s = true /\ disp s = DDead) /\
   (forall e, In e (exts s) -> (epc_ e = EIdle /\ ops e = []) \/ (running s = true /\ epc_ e = EIdle /\ exists r, ops e = OWaitShutdown :: r))) /\
  (forall w, In w (wts x) -> starved x w = false).
Proof.
  intros n cn p H scripts kinds sch c x s S. split.
  - exact (wx_shutdown_terminates n cn p H scripts kinds sch S).
  - exact (no_starved_waiter n cn p H scripts kinds sch S).
Qed.

(* (progress form: WaitersProofs.wx_shutdown_progress - while the counter is not zero, or the pool is stopped and not
   terminated, some pool thread or waiter has an enabled step) *)

(* With Signal instead of Broadcast in Stack.Push (xrun true) the property is FALSE: a monitor in WaitSizeIsAbove(5), the
   dispatcher parked behind it, Submit(7): nobody has an enabled step, the pool is running and idle, task 7 is accepted,
   counted and queued, never run; WaitIsZero hangs.  Second witness: the order of the demonstration (dispatcher first; the
   first Submit is served, the second lost).  Replayed on the code with that change: harness scripts w-monitor-*. *)
Theorem C16_refuted_signal_wakeup :
  let x := xrun true cS schS (xinit cS scriptsS kindsS) in let s := base x in
  xstuckb true cS x = true /\ running s = true /\ disp s = DParked /\ acc s = [7] /\ ran s = [] /\ canc s = [] /\
  queue s = [7] /\ pending s = 1%Z /\ parkA x = [PD; PW 0] /\ map epc_ (exts s) = [EIdle; EIdle] /\ map ops (exts s) = [[]; [OWaitZero]].
Proof. exact refuted_signal_wakeup. Qed.

Theorem C16_refuted_signal_wakeup_second :
  let x := xrun true cS schS2 (xinit cS scriptsS2 kindsS) in let s := base x in
  xstuckb true cS x = true /\ running s = true /\ acc s = [7; 8] /\ ran s = [7] /\ queue s = [8] /\ pending s = 1%Z /\
  parkA x = [PD; PW 0].
Proof. exact refuted_signal_wakeup_second. Qed.

(* non-vacuity: the same schedules with Broadcast end in a state without enabled steps (hypothesis of the termination
   theorem) in which everything ran, WaitIsZero returned and the monitor sleeps on a condition that is false *)
Example C16_waiters_nonvacuous :
  (let x := xrun false cS schS (xinit cS scriptsS kindsS) in let s := base x in
   xstuckb false cS x = true /\ ran s = [7] /\ queue s = [] /\ pending s = 0%Z /\ map ops (exts s) = [[]; []] /\
   wts x = [mkW (QAbove 5) WParked] /\ existsb (starved x) (wts x) = false) /\
  (let x := xrun false cS schS2 (xinit cS scriptsS2 kindsS) in let s := base x in
   xstuckb false cS x = true /\ ran s = [7; 8] /\ pending s = 0%Z /\ map ops (exts s) = [[]; []]).
Proof. exact broadcast_wakeup_ok. Qed.

(* The pinned code violates it: explicit schedules ending in stuck states (replayed on the pinned code with the verif hooks). *)
Theorem C16_refuted_submit_race :
  let s := run cA schA (init cA scriptsA) in
  stuckb cA s = true /\ running s = false /\ all_dead s = false /\ disp s = DWaitZ /\ pending s = 1%Z /\ queue s = [7].
Proof. exact refuted_submit_race. Qed.

Theorem C16_refuted_submit_race_lost_task :
  let s := run cA schA2 (init cA scriptsA2) in
  stuckb cA s = true /\ all_dead s = true /\ acc s = [7] /\ ran s = [] /\ canc s = [] /\ pending s = 1%Z.
Proof. exact refuted_submit_race_lost_task. Qed.

Theorem C16_refuted_lost_wakeup :
  let s := run cA schB (init cA scriptsB) in
  stuckb cA s = true /\ running s = false /\ all_dead s = false /\ disp s = DParked /\ exts s = [mkExt EIdle []; mkExt EIdle []].
Proof. exact refuted_lost_wakeup. Qed.

Theorem C16_refuted_start_holds_lock :
  let s := run cC schC (init cC scriptsC) in
  stuckb cC s = true /\ all_dead s = false /\ map epc_ (exts s) = [EStWait] /\ pending s = 1%Z.
Proof. exact refuted_start_holds_lock. Qed.

Theorem C16_refuted_stale_signal :
  let s := run cD schD (init cD scriptsD) in running s = true /\ acc s = [5] /\ ran s = [] /\ canc s = [5].
Proof. exact refuted_stale_signal. Qed.

Theorem C16_refuted_naive_repair :
  let s := run cN schN (init cN scriptsN) in
  stuckb cN s = true /\ disp s = DIn /\ map epc_ (exts s) = [EIdle; ESub 7 SPush; EShAcq].
Proof. exact refuted_naive_repair. Qed.

(* non-vacuity: the same race schedules on the repaired model are not stuck, and a full run is quiescent *)
Example C16_repaired_not_stuck : let c := repaired 1 false [] in
  stuckb c (run c schA (init c scriptsA)) = false /\ stuckb c (run c schB (init c scriptsB)) = false.
Proof. split; [exact repaired_submit_race | exact repaired_lost_wakeup]. Qed.

Print Assumptions C16_conservation.
Print Assumptions C16_conservation_quiescent.
Print Assumptions C16_cancel_only_if_enabled.
Print Assumptions C16_no_run_after_complete.
Print Assumptions C16_start_exclusive.
Print Assumptions C16_shutdown_terminates.
Print Assumptions C16_shutdown_progress.
Print Assumptions C16_shutdown_completes.
Print Assumptions C16_group.
Print Assumptions C16_group_wait_sound.
Print Assumptions C16_group_chains_linearise.
Print Assumptions C16_group_wait_refuted_unlock_first.
Print Assumptions C16_group_pool_options.
Print Assumptions C16_group_pool_default.
Print Assumptions C16_pool_options_resolved.
Print Assumptions C16_pool_workers_option.
Print Assumptions C16_group_pool_runs_backlog.
Print Assumptions C16_refuted_submit_race.
Print Assumptions C16_refuted_lost_wakeup.
Print Assumptions C16_waiters_conservation.
Print Assumptions C16_waiters_shutdown_terminates.
Print Assumptions C16_refuted_signal_wakeup.
Print Assumptions C16_refuted_signal_wakeup_second.
Print Assumptions C16_refuted_submit_race_lost_task.
Print Assumptions C16_refuted_start_holds_lock.
Print Assumptions C16_refuted_stale_signal.
Print Assumptions C16_refuted_naive_repair.
