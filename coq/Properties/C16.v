(* C16 - WorkerPool conserves tasks and always shuts down. Statements only.
   Model: Verif.C16_Pool.Model (interleaving system; `pinned` = code as pinned, `repaired` = code after the fix: commits). *)
From Coq Require Import List ZArith Bool Permutation.
From Verif.C16_Pool Require Import Model Inv Proofs Runs Refute.
Import ListNotations.

(* Every variant (pinned and repaired), every worker count >= 1, cancel on/off, every task program (nested submits), every
   set of external threads with arbitrary Submit/Shutdown/Start/Wait scripts, EVERY schedule: each accepted task is run,
   cancelled or still in flight (with multiplicities), and the pending counter is accepted - finished. *)
Theorem C16_conservation : forall c, 1 <= nw c -> forall scripts sch, let s := run c sch (init c scripts) in
  (forall i, cnt i (acc s) = cnt i (ran s) + cnt i (canc s) + inflight i s) /\
  pending s = (Z.of_nat (length (acc s)) - Z.of_nat (length (ran s)) - Z.of_nat (length (canc s)))%Z.
Proof. exact conservation. Qed.

(* ... so once nothing is in flight, accepted = run + cancelled (exactly once each) and the counter is back at zero, *)
Theorem C16_conservation_quiescent : forall c, 1 <= nw c -> forall scripts sch, let s := run c sch (init c scripts) in
  (forall i, inflight i s = 0) -> Permutation (acc s) (ran s ++ canc s) /\ pending s = 0%Z.
Proof. exact conservation_quiescent. Qed.

(* ... tasks are cancelled only with WithCancelPendingTasksOnShutdown, *)
Theorem C16_cancel_only_if_enabled : forall c scripts sch, cancel c = false -> canc (run c sch (init c scripts)) = [].
Proof. exact cancel_only_if_enabled. Qed.

(* ... and nothing runs or is cancelled while all workers are gone (after ShutdownComplete, until the next Start). *)
Theorem C16_no_run_after_complete : forall c s x s', all_dead s = true -> step c s x = Some s' -> ran s' = ran s /\ canc s' = canc s.
Proof. exact no_run_after_complete. Qed.

(* A Start restarts only a pool whose workers are all gone (exclusion of concurrent Starts), every variant. *)
Theorem C16_start_exclusive : forall c, 1 <= nw c -> forall scripts sch j e, let s := run c sch (init c scripts) in
  nth_error (exts s) j = Some e -> epc_ e = EStGo -> all_dead s = true.
Proof. exact start_exclusive. Qed.

(* Shutdown termination, full statement (NOT proved in general; see notes/C16.md): in the repaired model no reachable stuck
   state has a stopped pool with a live worker or dispatcher, or an operation other than a ShutdownComplete.Wait on a
   running pool that has not returned. *)
Definition C16_shutdown_terminates_full_statement : Prop :=
  forall n cn p scripts sch, 1 <= n -> let c := repaired n cn p in let s := run c sch (init c scripts) in
  stuckb c s = true ->
  (forall i, inflight i s = 0) /\ (running s = false -> all_dead s = true /\ disp s = DDead) /\
  (forall e, In e (exts s) -> (epc_ e = EIdle /\ ops e = []) \/ (running s = true /\ epc_ e = EIdle /\ exists r, ops e = OWaitShutdown :: r)).

(* The pinned code violates it: explicit schedules ending in stuck states (replayed on the pinned code with the verif hooks). *)
Theorem C16_refuted_submit_race :
  let s := run cA schA (init cA scriptsA) in
  stuckb cA s = true /\ running s = false /\ all_dead s = false /\ disp s = DWaitZ /\ pending s = 1%Z /\ queue s = [7].
Proof. exact refuted_submit_race. Qed.

Theorem C16_refuted_submit_race_lost_task :
  let s := run cA schA2 (init cA scriptsA2) in
  stuckb cA s = true /\ all_dead s = true /\ acc s = [7] /\ ran s = [] /\ canc s = [] /\ pending s = 1%Z.
Proof. exact refuted_submit_race_lost_task. Qed.

Theorem C16_refuted_lost_wakeup :
  let s := run cA schB (init cA scriptsB) in
  stuckb cA s = true /\ running s = false /\ all_dead s = false /\ disp s = DParked /\ exts s = [mkExt EIdle []; mkExt EIdle []].
Proof. exact refuted_lost_wakeup. Qed.

Theorem C16_refuted_start_holds_lock :
  let s := run cC schC (init cC scriptsC) in
  stuckb cC s = true /\ all_dead s = false /\ map epc_ (exts s) = [EStWait] /\ pending s = 1%Z.
Proof. exact refuted_start_holds_lock. Qed.

Theorem C16_refuted_stale_signal :
  let s := run cD schD (init cD scriptsD) in running s = true /\ acc s = [5] /\ ran s = [] /\ canc s = [5].
Proof. exact refuted_stale_signal. Qed.

Theorem C16_refuted_naive_repair :
  let s := run cN schN (init cN scriptsN) in
  stuckb cN s = true /\ disp s = DIn /\ map epc_ (exts s) = [EIdle; ESub 7 SPush; EShAcq].
Proof. exact refuted_naive_repair. Qed.

(* non-vacuity: the same race schedules on the repaired model are not stuck, and a full run is quiescent *)
Example C16_repaired_not_stuck : let c := repaired 1 false [] in
  stuckb c (run c schA (init c scriptsA)) = false /\ stuckb c (run c schB (init c scriptsB)) = false.
Proof. split; [exact repaired_submit_race | exact repaired_lost_wakeup]. Qed.

Print Assumptions C16_conservation.
Print Assumptions C16_conservation_quiescent.
Print Assumptions C16_cancel_only_if_enabled.
Print Assumptions C16_no_run_after_complete.
Print Assumptions C16_start_exclusive.
Print Assumptions C16_refuted_submit_race.
Print Assumptions C16_refuted_lost_wakeup.
