(* C16 - WorkerPool conserves tasks and always shuts down. Statements only. *)
From Coq Require Import List ZArith Bool.
From Verif.C16_Pool Require Import Model Refute.
Import ListNotations.

Theorem C16_refuted_submit_race :
  let s := run cA schA (init cA scriptsA) in
  stuckb cA s = true /\ running s = false /\ all_dead s = false /\ disp s = DWaitZ /\ pending s = 1%Z /\ queue s = [7].
Proof. exact refuted_submit_race. Qed.

Theorem C16_refuted_lost_wakeup :
  let s := run cA schB (init cA scriptsB) in
  stuckb cA s = true /\ running s = false /\ all_dead s = false /\ disp s = DParked /\ exts s = [mkExt EIdle []; mkExt EIdle []].
Proof. exact refuted_lost_wakeup. Qed.

Print Assumptions C16_refuted_submit_race.
Print Assumptions C16_refuted_lost_wakeup.
