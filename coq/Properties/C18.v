(* C18 - timed queue / executors. Statements only. *)
From Coq Require Import NArith List Bool.
From Verif.C18_Timed Require Import Model Proofs.
Import ListNotations.
