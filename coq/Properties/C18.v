(* C18 - timed Queue / Executor / TaskExecutor: never early, at most once, cancel honoured. Statements only.
   The model (C18_Timed/Model.v) mirrors runtime/timed after the repairs d167a95, 3715404, 3675c1d; [init w m md rc bc]
   = w workers, size bound m (0 = none), wrapper mode md, Poll re-checks the cancel channel (rc), Shutdown always
   broadcasts (bc).  [run s labels] executes an arbitrary schedule of client calls, clock ticks and worker steps. *)
From Coq Require Import NArith List Bool Relations.
From Verif.C18_Timed Require Import Model Heap Micro Proofs Witness Progress TaskExec Fair Window Wake Burst Split.
Import ListNotations.

(* For every configuration (also the pinned variants) and every schedule: a value is never delivered before its
   scheduled time, unless a Shutdown with IgnorePendingTimeouts was called before (stamps of the logical clock). *)
Theorem C18_never_early : forall w m md rc bc (ls : list label),
  never_early (log (run (init w m md rc bc) ls)) = true.
Proof. exact never_early_run. Qed.

(* ... and every element is delivered at most once. *)
Theorem C18_at_most_once : forall w m md rc bc (ls : list label),
  at_most_once (log (run (init w m md rc bc) ls)) = true.
Proof. exact at_most_once_run. Qed.

(* Repaired Poll (rc = true): in every schedule a delivery of e is never stamped after the completion of a Cancel
   of e (guard band 0) ... *)
Theorem C18_cancel_honoured : forall w m md bc (ls : list label),
  cancel_honoured 0 (log (run (init w m md true bc) ls)) = true.
Proof. exact cancel_honoured_run. Qed.

(* ... and in log order: once Cancel(e) has completed (its channel is closed), no continuation of the schedule
   ever delivers e. *)
Theorem C18_cancelled_never_delivered : forall w m md bc ls1 ls2 e,
  let s := run (init w m md true bc) ls1 in
  memb e (closed s) = true ->
  exists l, log (run s ls2) = l ++ log s /\ forall a, ~ In (EDeliver e a) l.
Proof.
  intros w m md bc ls1 ls2 e s C.
  apply cancel_then_never_delivered; auto.
  - apply run_recheck.
  - apply run_micro.
Qed.

(* every completed Cancel closes the channel (so the premise above holds from then on) *)
Theorem C18_cancel_closes : forall w m md rc bc ls e r a,
  let s := run (init w m md rc bc) ls in In (ECancel e r a) (log s) -> memb e (closed s) = true.
Proof. intros w m md rc bc ls e r a s H. apply (i_can s (inv_run w m md rc bc ls) e r a H). Qed.

(* D18c: the pinned Poll (no re-check) delivers an element whose Cancel completed before the select was entered. *)
Theorem C18_refuted_cancel_late :
  exists ls, cancel_honoured 0 (log (run (init 1 0 IfOwn false true) ls)) = false.
Proof. exists (d18c 1). exact (proj2 refuted_cancel_late_pinned). Qed.

(* The window between a select of Poll and the return of the value (worker state [WChosen x]: the select has taken the
   timer case, or the ctx case with IgnorePendingTimeouts; the cancel channel has not been re-checked yet).  All the
   theorems above quantify over schedules that run client calls inside this window; explicitly: for ALL schedules ls1
   that bring worker i into the window with element x (repaired Poll), a Cancel() of x that completes there leaves the
   worker in the window (close(cancel) wakes nobody), the worker's next step - whatever the choice - is the skip, and no
   continuation ls2 ever delivers x. *)
Theorem C18_cancel_in_window : forall w m md bc ls1 ls2 i x c,
  let s := run (init w m md true bc) ls1 in
  nth_error (workers s) i = Some (WChosen x) ->
  let s' := step s (LCancel (eid x)) in
  nth_error (workers s') i = Some (WChosen x) /\
  (let s'' := step s' (LWorker i c) in
   log s'' = ESkip (eid x) :: log s' /\ nth_error (workers s'') i = Some WIdle) /\
  exists l, log (run s' ls2) = l ++ log s' /\ forall a, ~ In (EDeliver (eid x) a) l.
Proof. exact cancel_in_window_run. Qed.

(* non-vacuity: a schedule reaches the window; without the re-check on the return path (rc = false) the element is
   delivered (stamp 11) after its Cancel completed (stamp 10); with it, it is skipped *)
Theorem C18_refuted_cancel_in_window :
  exists ls, let s1 := run (init 1 0 IfOwn false true) (firstn 4 ls) in
  workers s1 = [WChosen (mkE 0 5%N None)] /\
  nth 4 ls (LTick 0) = LCancel 0 /\
  cancel_honoured 0 (log (run (init 1 0 IfOwn false true) ls)) = false.
Proof.
  exists cancel_in_window. destruct refuted_cancel_in_window_pinned as (A & B & C).
  split; [exact A|]. split; [reflexivity|]. rewrite B in C. rewrite B. exact C.
Qed.

Example C18_cancel_in_window_nonvacuous :
  let s1 := run (init 1 0 IfOwn true true) (firstn 4 cancel_in_window) in
  let s := run (init 1 0 IfOwn true true) cancel_in_window in
  workers s1 = [WChosen (mkE 0 5%N None)] /\
  log s = [ESkip 0; ECancel 0 false 10%N; EAdd 0 5%N None 0%N] /\ workers s = [WIdle] /\ delivered (log s) = [].
Proof. exact regression_cancel_in_window_repaired. Qed.

(* the step of the model out of the window is guarded by "x is due, or Shutdown with IgnorePendingTimeouts was called";
   in every reachable state of every configuration the guard is true: the step is exactly Poll's re-check + return *)
Theorem C18_window_guard_always_true : forall w m md rc bc ls i x,
  let s := run (init w m md rc bc) ls in
  nth_error (workers s) i = Some (WChosen x) -> is_due s x || (shut s && fignore s) = true.
Proof. intros w m md rc bc ls i x s H. exact (chosen_ok_run w m md rc bc ls i x H). Qed.

(* "No reachable stuck state with an undelivered, uncancelled, undropped element": in every reachable state of the
   repaired code with at least one worker, if an element is pending (in the heap or held by a worker that has not
   decided yet), some worker can take a step, possibly after the clock has advanced. *)
Theorem C18_eventually_once_progress : forall w m md rc bc ls,
  0 < w -> let s := run (init w m md rc bc) ls in
  pend s <> [] -> exists d i ws, nth_error (workers s) i = Some ws /\ can_step (step s (LTick d)) ws = true.
Proof. exact progress_run. Qed.

(* "Eventually exactly once", as termination under fairness (all configurations, >= 1 worker).  After any history ls of
   client calls, take ANY infinite schedule f of clock ticks and worker steps that is fair ([fair w s f], Fair.v: no
   further client call; each of the w workers is scheduled again and again; the clock eventually passes every bound,
   hence every due time).  Then after finitely many steps nothing is queued or held, every worker waits or has exited,
   and every accepted element has been delivered, cancelled, dropped by the size bound or discarded by the
   CancelPendingElements flag ([all_delivered]); with C18_at_most_once: delivered exactly once unless cancelled/dropped. *)
Theorem C18_eventually_once_fair : forall w m md rc bc ls (f : sched), 0 < w ->
  let s := run (init w m md rc bc) ls in
  fair w s f ->
  exists n, let s' := run s (prefix f n) in
    waiting s' = [] /\ pend s' = [] /\ (forall x, In x (workers s') -> x = WWait \/ x = WExit) /\
    all_delivered (log s') = true.
Proof. exact fair_delivery. Qed.

(* the variant behind it, for ANY state: [mu] = 9 per heap element + the rank of every worker state never increases on
   a tick, and a worker step either changes nothing at all or strictly decreases it *)
Theorem C18_measure_decreases : forall s l, internal l = true ->
  mu (step s l) <= mu s /\ (forall w c, l = LWorker w c -> step s l = s \/ mu (step s l) < mu s).
Proof. exact measure_decreases. Qed.

(* non-vacuity: the round-robin schedule (tick; worker 0; tick; worker 1; ...) is fair from every state, and on a
   concrete state with two dropped, one cancelled, one popped and one queued element it delivers the remaining two *)
Example C18_fair_nonvacuous :
  (forall w s, 0 < w -> fair w s (round_robin w 0)) /\
  mu fair_demo = 18 /\ all_delivered (log fair_demo) = false /\
  (let s' := run fair_demo (prefix (round_robin 2 0) 30) in
   waiting s' = [] /\ workers s' = [WWait; WWait] /\ delivered (log s') = [(0, 8%N); (1, 5%N)] /\
   all_delivered (log s') = true /\ mu s' = 0).
Proof. exact fair_nonvacuous. Qed.

(* D18d: the pinned Shutdown (broadcast only when the heap is empty) leaves a worker asleep for ever. *)
Theorem C18_refuted_shutdown_sleeper :
  exists ls, let s := run (init 2 0 IfOwn true false) ls in
  workers s = [WExit; WWait] /\ heap s = [] /\ shut s = true.
Proof. exists d18d. destruct refuted_shutdown_sleeper_pinned as (A & B & C & _). auto. Qed.

(* ---------- wake-ups: several waiting workers, bursts of Adds, consumers that do not come back ----------
   "No lost wake-up" (all configurations, all schedules): Queue.Add sends one Signal per call, so in every reachable state
   every queued element has its own awake worker in front of heapMutex ([cidle] counts WIdle), unless no worker sleeps. *)
Theorem C18_no_lost_wakeup : forall w m md rc bc (ls : list label),
  let s := run (init w m md rc bc) ls in
  length (heap s) <= cidle (workers s) \/ cwait (workers s) = 0.
Proof. exact no_lost_wakeup_run. Qed.

(* hence an element in the heap is never stranded next to a sleeping worker: some worker is awake and its next step -
   whatever the others do, in particular when the worker woken first never comes back - pops the head *)
Theorem C18_never_stranded : forall w m md rc bc (ls : list label),
  let s := run (init w m md rc bc) ls in
  heap s <> [] -> In WWait (workers s) ->
  exists i, nth_error (workers s) i = Some WIdle /\
    forall c, exists e h', hpop (heap s) = Some (e, h') /\
      heap (step s (LWorker i c)) = h' /\ nth_error (workers (step s (LWorker i c))) i = Some (WPopped e).
Proof. exact never_stranded_run. Qed.

(* a burst of j Adds (any times, any identifiers) while at least j workers wait wakes j distinct workers: ANY state *)
Theorem C18_burst_wakes : forall (adds : list (N * option nat)) s,
  shut s = false -> length adds <= cwait (workers s) ->
  let s' := run s (map (fun a => LAdd (fst a) (snd a)) adds) in
  cidle (workers s) + length adds <= cidle (workers s') /\ cwait (workers s') + length adds = cwait (workers s).
Proof. exact burst_wakes. Qed.

(* Refuted variant "Signal only when the heap was empty before the push" ([run_lazy], Wake.v): two waiting workers, two
   Adds back to back, worker 0 takes element 0 and its callback does not return (or: the consumer polls once).  Element
   1 stays in the heap for ever while worker 1 sleeps: on EVERY continuation of clock ticks and steps of worker 1 it is
   never delivered.  On the model of the code the same schedule has worker 1 awake and delivers it ([C18_burst_nonvacuous]). *)
Theorem C18_refuted_signal_only_when_empty :
  exists ls, let s := run_lazy (init 2 0 IfOwn true true) ls in
  heap s = [mkE 1 5%N None] /\ workers s = [WRun (mkE 0 5%N None); WWait] /\ shut s = false /\
  all_delivered (log s) = false /\
  forall ls2, Forall others_only ls2 ->
    heap (run_lazy s ls2) = [mkE 1 5%N None] /\ delivered (log (run_lazy s ls2)) = [(0, 10%N)] /\
    all_delivered (log (run_lazy s ls2)) = false.
Proof. exists burst2. exact refuted_signal_only_when_empty. Qed.

Example C18_burst_nonvacuous :
  let s := run (init 2 0 IfOwn true true) burst2 in
  workers s = [WRun (mkE 0 5%N None); WIdle] /\
  (let s' := run s [LWorker 1 0; LWorker 1 0; LWorker 1 0; LWorker 1 0] in
   Forall others_only [LWorker 1 0; LWorker 1 0; LWorker 1 0; LWorker 1 0] /\
   heap s' = [] /\ delivered (log s') = [(1, 10%N); (0, 10%N)] /\ all_delivered (log s') = true).
Proof. exact regression_burst2. Qed.

(* "Eventually exactly once" when callbacks block for ever / consumers poll once (all configurations, >= 1 worker): B = the
   elements whose callback never returns; a worker in [WRun e], e in B, is stuck and never stepped again ([fairB], Burst.v:
   every other worker keeps being scheduled, the clock passes every bound).  On EVERY such schedule, after finitely many
   steps every worker waits, has exited or is stuck, and if some worker waits then the heap is empty, nothing is held and
   every accepted element has been delivered, cancelled, dropped or discarded: the later elements of a burst do not
   depend on the first woken worker coming back.  (With B = [] this is C18_eventually_once_fair for a waiting worker.) *)
Theorem C18_eventually_once_blocked : forall B w m md rc bc ls (f : sched), 0 < w ->
  let s := run (init w m md rc bc) ls in
  fairB B w s f ->
  exists n, let s' := run s (prefix f n) in
    (forall x, In x (workers s') -> x = WWait \/ x = WExit \/ stuck B x = true) /\
    (In WWait (workers s') -> heap s' = [] /\ waiting s' = [] /\ all_delivered (log s') = true).
Proof. exact fairB_delivery. Qed.

(* non-vacuity of the premise: every fair schedule is fairB [] (round robin: from every state); and a schedule with a
   really stuck worker: worker 1 runs the callback of element 0 for ever, worker 0 and the clock alternate *)
Example C18_blocked_nonvacuous :
  (forall w s, 0 < w -> fairB [] w s (round_robin w 0)) /\
  (let s := run (init 2 0 IfOwn true true) burst2' in
   workers s = [WIdle; WRun (mkE 0 5%N None)] /\ heap s = [mkE 1 5%N None] /\ fairB [0] 2 s (round_robin 1 0)).
Proof. exact blocked_nonvacuous. Qed.

(* ---------- TaskExecutor (repaired wrapper IfOwn; every worker count w, size bound m, Poll variant rc, Shutdown variant bc) ----------
   [dead s] = ghost set of the tasks that were replaced by ExecuteAt(id) or removed by a Cancel(id) = true;
   [pending_task s k e] (TaskExec.v) = task e of identifier k is queued (in the heap or held by a worker whose wrapper has
   not decided yet) and not dead.  [te_guard s0 ls] holds when no label of the schedule produces one of the three
   patterns of the finding taskexecutor-stale-identifier, checked in the state where the label is executed ([te_ok]):
   an Add whose size bound drops an element, an effective Shutdown with CancelPendingElements, a Cancel() through the
   returned *ScheduledTask of a task that the map still tracks.
   (1) ALL schedules, no guard: a dead task never starts - not in the schedule so far, not in any continuation
       (so the task replaced by a re-schedule and the task removed by Cancel(id) = true never run; take ls := ls ++ [l]).
   For ALL guarded schedules, in the reached state s:
   (2) the map tracks e for k  <->  e is the pending task of k ("a tracked task is really pending", and conversely);
   (3) at most one pending task per identifier;
   (4) Cancel(k) returns true iff a pending task of k exists; that task becomes dead (hence never starts, by (1)),
       k has no pending task afterwards, the other identifiers keep theirs;
   (5) an accepted re-schedule of k makes the new task (nxt s) the pending task of k, the previously pending one is a
       different task and dead (never starts, by (1)), the other identifiers keep theirs. *)
Theorem C18_task_executor : forall w m rc bc ls,
  let s0 := init w m IfOwn rc bc in let s := run s0 ls in
  (forall e ls2, In e (dead s) -> ~ In e (started (log (run s ls2)))) /\
  (te_guard s0 ls = true ->
    (forall k e, tget k (tmap s) = Some e <-> pending_task s k e) /\
    (forall k e1 e2, pending_task s k e1 -> pending_task s k e2 -> e1 = e2) /\
    (forall k, let s' := step s (LTCancel k) in
       exists r, hd EReject (log s') = ETCancel k r /\
         (r = true <-> exists e, pending_task s k e) /\
         (forall e, pending_task s k e -> In e (dead s')) /\
         (forall e, ~ pending_task s' k e) /\
         (forall k' e, k' <> k -> (pending_task s' k' e <-> pending_task s k' e))) /\
    (forall t k, shut s = false -> te_ok s (LAdd t (Some k)) = true ->
       let s' := step s (LAdd t (Some k)) in
       pending_task s' k (nxt s) /\
       (forall e, pending_task s k e -> e < nxt s /\ In e (dead s')) /\
       (forall k' e, k' <> k -> (pending_task s' k' e <-> pending_task s k' e)))).
Proof. exact task_executor_all. Qed.

(* non-vacuity of the guard and of every clause: bound 2 never exceeded, task 0 of identifier 1 is replaced by task 2
   while a worker holds it (it is skipped later), Cancel(2) = true then false, task 2 starts; a second Shutdown with
   CancelPendingElements is a no-op and passes the guard *)
Example C18_task_executor_nonvacuous :
  let s0 := init 1 2 IfOwn true true in
  te_guard s0 te_demo = true /\
  (let s := run s0 (firstn 4 te_demo) in
     dead s = [0] /\ tmap s = [(1, 2); (2, 1)] /\ pending_task s 1 2 /\ pending_task s 2 1 /\ ~ pending_task s 1 0) /\
  (let s := run s0 te_demo in dead s = [1; 0] /\ started (log s) = [2] /\ log s = te_demo_log) /\
  te_guard s0 [LAdd 5%N (Some 1); LShutdown false true; LShutdown true true] = true.
Proof. exact te_demo_guarded. Qed.

(* finding taskexecutor-stale-identifier: the guard is exact. Each of the three excluded patterns alone (all labels
   before it pass the guard) leaves identifier 1 in the map with no pending task, and Cancel(1) returns true. *)
Theorem C18_refuted_stale_identifier :
  stale_case 1 stale_bound /\ stale_case 0 stale_direct /\ stale_case 0 stale_discard.
Proof. exact refuted_stale_identifier. Qed.

(* step-local fact about the wrapper (any state, not only reachable ones) *)
Theorem C18_task_executor_start_local : forall s w c e k,
  mode s = IfOwn -> nth_error (workers s) w = Some (WDeliv e) -> ekey e = Some k ->
  hd EReject (log (worker_step s w c)) = EStart (eid e) -> tget k (tmap s) = Some (eid e).
Proof. exact start_requires_tracked. Qed.

(* D18a: the pinned wrapper. Cancel(1) = false while task 1 of identifier 1 is pending and untracked; it then runs. *)
Theorem C18_refuted_wrapper :
  exists ls1 ls2, let s := run (init 1 0 Unconditional true true) ls1 in
  hd EReject (log s) = ETCancel 1 false /\ heap s = [mkE 1 100%N (Some 1)] /\ tget 1 (tmap s) = None /\
  started (log (run s ls2)) = [1; 0].
Proof. exists d18a_prefix, d18a_suffix. exact refuted_wrapper_pinned. Qed.

(* finding taskexecutor-stale-identifier: with a size bound, Cancel(id) = true for a task that was already dropped *)
Theorem C18_refuted_cancel_true_after_drop :
  exists ls, log (run (init 0 1 IfOwn true true) ls) =
  [ETCancel 1 true; ECancel 1 false 0%N; EDrop 1; EAdd 1 20%N (Some 1) 0%N; EAdd 0 10%N (Some 0) 0%N].
Proof. exists stale. exact refuted_cancel_true_after_drop. Qed.

(* ATOMICITY ASSUMPTION of C18_task_executor: ExecuteAt(id), Cancel(id) and the wrapper's clean-up are single steps of
   the model because the code holds queuedElementsMutex across each whole read-modify-write of the identifier map and
   the queue (tied to the code by the free-running "race" family of the correspondence check, not by a proof).
   The assumption is necessary: Cancel(1) cut into look-up / element.Cancel() / Delete(1) ([tc_lookup], [tc_cancel],
   [tc_delete]; composed without interruption they are [tcancel_step]: [split_cancel_seq]) with an atomic ExecuteAt(1)
   of another goroutine between the look-up and the rest: Cancel(1) reports true, the re-scheduled task 1 is pending
   (queued, not dead) but untracked - clause (2) fails -, a later Cancel(1) returns false although a pending task
   exists - clause (4) fails -, the task stays in the heap (Size() = 1) and when its time has come the wrapper skips it:
   it never runs although nothing cancelled or replaced it - clause (5) fails.  The state is outside the invariant of
   ALL schedules of atomic steps. *)
Theorem C18_refuted_split_cancel :
  tc_lookup split_s1 1 = Some 0 /\
  pending_task split_s2 1 1 /\
  hd EReject (log split_s3) = ETCancel 1 true /\
  pending_task split_s3 1 1 /\ tget 1 (tmap split_s3) = None /\
  heap split_s3 = [mkE 1 200%N (Some 1)] /\ dead split_s3 = [0; 0] /\
  hd EReject (log (step split_s3 (LTCancel 1))) = ETCancel 1 false /\
  (let s4 := run split_s3 split_rest in
   started (log s4) = [] /\ hd EReject (log s4) = ESkipRun 1 /\ heap s4 = [] /\ workers s4 = [WIdle]) /\
  ~ TInv true split_s3.
Proof. exact refuted_split_cancel. Qed.

(* ... and two split Cancel(1) that both look up the only task before either deletes the identifier both return true
   (with atomic steps the second returns false) *)
Theorem C18_refuted_split_cancel_twice :
  tc_lookup split_s1 1 = Some 0 /\ nxt split_two = 1 /\ count_tcancel_true 1 (log split_two) = 2 /\
  count_tcancel_true 1 (log (run split_s1 [LTCancel 1; LTCancel 1])) = 1.
Proof. exact refuted_split_cancel_twice. Qed.

Example C18_split_cancel_is_atomic_step : forall s k,
  tcancel_step s k = match tc_lookup s k with
                     | None => emit s (ETCancel k false)
                     | Some e => tc_delete (tc_cancel s e) k e
                     end.
Proof. exact split_cancel_seq. Qed.

(* non-vacuity: a schedule with deliveries, a cancel, a drop-free run; the predicates are not trivially true *)
Example C18_nonvacuous :
  let l := log (run (init 2 0 IfOwn true true)
     [LAdd 5%N None; LAdd 3%N (Some 0); LAdd 9%N None; LWorker 0 0; LWorker 1 0; LCancel 2; LWorker 0 0; LWorker 1 0;
      LTick 6%N; LWorker 0 0; LWorker 1 0; LWorker 0 0; LWorker 1 0]) in
  delivered l = [(0, 6%N); (1, 6%N)] /\ never_early l = true /\ cancel_at 2 l = Some 0%N /\
  never_early (EDeliver 7 1%N :: EAdd 7 5%N None 0%N :: l) = false /\
  at_most_once (EDeliver 0 7%N :: l) = false.
Proof. vm_compute. repeat split; reflexivity. Qed.

Example C18_progress_nonvacuous :
  let s := run (init 1 0 IfOwn true true) [LAdd 5%N None; LWorker 0 0; LWorker 0 0] in
  pend s = [mkE 0 5%N None] /\ workers s = [WParked (mkE 0 5%N None)] /\ can_step s (WParked (mkE 0 5%N None)) = false.
Proof. vm_compute. repeat split; reflexivity. Qed.

Print Assumptions C18_never_early.
Print Assumptions C18_at_most_once.
Print Assumptions C18_cancel_honoured.
Print Assumptions C18_cancelled_never_delivered.
Print Assumptions C18_cancel_closes.
Print Assumptions C18_refuted_cancel_late.
Print Assumptions C18_cancel_in_window.
Print Assumptions C18_refuted_cancel_in_window.
Print Assumptions C18_window_guard_always_true.
Print Assumptions C18_eventually_once_progress.
Print Assumptions C18_eventually_once_fair.
Print Assumptions C18_measure_decreases.
Print Assumptions C18_refuted_shutdown_sleeper.
Print Assumptions C18_no_lost_wakeup.
Print Assumptions C18_never_stranded.
Print Assumptions C18_burst_wakes.
Print Assumptions C18_refuted_signal_only_when_empty.
Print Assumptions C18_eventually_once_blocked.
Print Assumptions C18_task_executor.
Print Assumptions C18_refuted_stale_identifier.
Print Assumptions C18_task_executor_start_local.
Print Assumptions C18_refuted_wrapper.
Print Assumptions C18_refuted_cancel_true_after_drop.
Print Assumptions C18_refuted_split_cancel.
Print Assumptions C18_refuted_split_cancel_twice.
