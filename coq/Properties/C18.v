(* C18 - timed Queue / Executor / TaskExecutor: never early, at most once, cancel honoured. Statements only.
   The model (C18_Timed/Model.v) mirrors runtime/timed after the repairs d167a95, 3715404, 3675c1d; [init w m md rc bc]
   = w workers, size bound m (0 = none), wrapper mode md, Poll re-checks the cancel channel (rc), Shutdown always
   broadcasts (bc).  [run s labels] executes an arbitrary schedule of client calls, clock ticks and worker steps. *)
From Coq Require Import NArith List Bool Relations.
From Verif.C18_Timed Require Import Model Heap Micro Proofs Witness Progress.
Import ListNotations.

(* For every configuration (also the pinned variants) and every schedule: a value is never delivered before its
   scheduled time, unless a Shutdown with IgnorePendingTimeouts was called before (stamps of the logical clock). *)
Theorem C18_never_early : forall w m md rc bc (ls : list label),
  never_early (log (run (init w m md rc bc) ls)) = true.
Proof. exact never_early_run. Qed.

(* ... and every element is delivered at most once. *)
Theorem C18_at_most_once : forall w m md rc bc (ls : list label),
  at_most_once (log (run (init w m md rc bc) ls)) = true.
Proof. exact at_most_once_run. Qed.

(* Repaired Poll (rc = true): in every schedule a delivery of e is never stamped after the completion of a Cancel
   of e (guard band 0) ... *)
Theorem C18_cancel_honoured : forall w m md bc (ls : list label),
  cancel_honoured 0 (log (run (init w m md true bc) ls)) = true.
Proof. exact cancel_honoured_run. Qed.

(* ... and in log order: once Cancel(e) has completed (its channel is closed), no continuation of the schedule
   ever delivers e. *)
Theorem C18_cancelled_never_delivered : forall w m md bc ls1 ls2 e,
  let s := run (init w m md true bc) ls1 in
  memb e (closed s) = true ->
  exists l, log (run s ls2) = l ++ log s /\ forall a, ~ In (EDeliver e a) l.
Proof.
  intros w m md bc ls1 ls2 e s C.
  apply cancel_then_never_delivered; auto.
  - apply run_recheck.
  - apply run_micro.
Qed.

(* every completed Cancel closes the channel (so the premise above holds from then on) *)
Theorem C18_cancel_closes : forall w m md rc bc ls e r a,
  let s := run (init w m md rc bc) ls in In (ECancel e r a) (log s) -> memb e (closed s) = true.
Proof. intros w m md rc bc ls e r a s H. apply (i_can s (inv_run w m md rc bc ls) e r a H). Qed.

(* D18c: the pinned Poll (no re-check) delivers an element whose Cancel completed before the select was entered. *)
Theorem C18_refuted_cancel_late :
  exists ls, cancel_honoured 0 (log (run (init 1 0 IfOwn false true) ls)) = false.
Proof. exists (d18c 1). exact (proj2 refuted_cancel_late_pinned). Qed.

(* "No reachable stuck state with an undelivered, uncancelled, undropped element": in every reachable state of the
   repaired code with at least one worker, if an element is pending (in the heap or held by a worker that has not
   decided yet), some worker can take a step, possibly after the clock has advanced. *)
Theorem C18_eventually_once_progress : forall w m md rc bc ls,
  0 < w -> let s := run (init w m md rc bc) ls in
  pend s <> [] -> exists d i ws, nth_error (workers s) i = Some ws /\ can_step (step s (LTick d)) ws = true.
Proof. exact progress_run. Qed.

(* D18d: the pinned Shutdown (broadcast only when the heap is empty) leaves a worker asleep for ever. *)
Theorem C18_refuted_shutdown_sleeper :
  exists ls, let s := run (init 2 0 IfOwn true false) ls in
  workers s = [WExit; WWait] /\ heap s = [] /\ shut s = true.
Proof. exists d18d. destruct refuted_shutdown_sleeper_pinned as (A & B & C & _). auto. Qed.

(* TaskExecutor, step-local (any state): Cancel(id) returns true exactly when the map tracks a task for id; it
   then untracks id and marks the task dead ... *)
Theorem C18_task_executor_cancel_partial : forall s k,
  let s' := tcancel_step s k in
  hd EReject (log s') = ETCancel k (match tget k (tmap s) with Some _ => true | None => false end) /\
  tget k (tmap s') = None /\ (forall e, tget k (tmap s) = Some e -> In e (dead s')).
Proof. exact tcancel_result. Qed.

(* ... re-scheduling replaces: the map (a function: at most one tracked task per identifier) then holds the new
   task and the old one is dead ... *)
Theorem C18_task_executor_replace_partial : forall s t k, shut s = false ->
  exists id, tget k (tmap (add_step s t (Some k))) = Some id /\
             (forall e, tget k (tmap s) = Some e -> e <> id -> In e (dead (add_step s t (Some k)))).
Proof. exact add_replaces. Qed.

(* ... and the repaired wrapper starts the callback of a task only if the map tracks exactly this task. *)
Theorem C18_task_executor_start_partial : forall s w c e k,
  mode s = IfOwn -> nth_error (workers s) w = Some (WDeliv e) -> ekey e = Some k ->
  hd EReject (log (worker_step s w c)) = EStart (eid e) -> tget k (tmap s) = Some (eid e).
Proof. exact start_requires_tracked. Qed.

(* The full inductive statement (not proved; see notes/C18.md): *)
Definition C18_task_executor_full_statement : Prop :=
  forall w ls, let s := run (init w 0 IfOwn true true) ls in
  (forall e, In e (dead s) -> ~ In e (started (log s))) /\
  (forall k e, tget k (tmap s) = Some e -> fcancel s = false ->
     exists x, In x (pend s) /\ eid x = e /\ ekey x = Some k).

(* D18a: the pinned wrapper. Cancel(1) = false while task 1 of identifier 1 is pending and untracked; it then runs. *)
Theorem C18_refuted_wrapper :
  exists ls1 ls2, let s := run (init 1 0 Unconditional true true) ls1 in
  hd EReject (log s) = ETCancel 1 false /\ heap s = [mkE 1 100%N (Some 1)] /\ tget 1 (tmap s) = None /\
  started (log (run s ls2)) = [1; 0].
Proof. exists d18a_prefix, d18a_suffix. exact refuted_wrapper_pinned. Qed.

(* finding taskexecutor-stale-identifier: with a size bound, Cancel(id) = true for a task that was already dropped *)
Theorem C18_refuted_cancel_true_after_drop :
  exists ls, log (run (init 0 1 IfOwn true true) ls) =
  [ETCancel 1 true; ECancel 1 false 0%N; EDrop 1; EAdd 1 20%N (Some 1) 0%N; EAdd 0 10%N (Some 0) 0%N].
Proof. exists stale. exact refuted_cancel_true_after_drop. Qed.

(* non-vacuity: a schedule with deliveries, a cancel, a drop-free run; the predicates are not trivially true *)
Example C18_nonvacuous :
  let l := log (run (init 2 0 IfOwn true true)
     [LAdd 5%N None; LAdd 3%N (Some 0); LAdd 9%N None; LWorker 0 0; LWorker 1 0; LCancel 2; LWorker 0 0; LWorker 1 0;
      LTick 6%N; LWorker 0 0; LWorker 1 0; LWorker 0 0; LWorker 1 0]) in
  delivered l = [(0, 6%N); (1, 6%N)] /\ never_early l = true /\ cancel_at 2 l = Some 0%N /\
  never_early (EDeliver 7 1%N :: EAdd 7 5%N None 0%N :: l) = false /\
  at_most_once (EDeliver 0 7%N :: l) = false.
Proof. vm_compute. repeat split; reflexivity. Qed.

Example C18_progress_nonvacuous :
  let s := run (init 1 0 IfOwn true true) [LAdd 5%N None; LWorker 0 0; LWorker 0 0] in
  pend s = [mkE 0 5%N None] /\ workers s = [WParked (mkE 0 5%N None)] /\ can_step s (WParked (mkE 0 5%N None)) = false.
Proof. vm_compute. repeat split; reflexivity. Qed.

Print Assumptions C18_never_early.
Print Assumptions C18_at_most_once.
Print Assumptions C18_cancel_honoured.
Print Assumptions C18_cancelled_never_delivered.
Print Assumptions C18_cancel_closes.
Print Assumptions C18_refuted_cancel_late.
Print Assumptions C18_eventually_once_progress.
Print Assumptions C18_refuted_shutdown_sleeper.
Print Assumptions C18_task_executor_cancel_partial.
Print Assumptions C18_task_executor_replace_partial.
Print Assumptions C18_task_executor_start_partial.
Print Assumptions C18_refuted_wrapper.
Print Assumptions C18_refuted_cancel_true_after_drop.
