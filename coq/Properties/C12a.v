(* C12 (part a) - remaining containers are equivalent to their abstract models. Statements only.
   ShrinkingMap, RandomMap, PriorityQueue (+ generalheap, timed.PriorityQueue), Queue, RingBuffer, Stack. *)
From Coq Require Import List ZArith Bool Arith Permutation Sorted.
From Verif.C12a_Containers Require Import ListAux SMap SMapProofs RMap RMapProofs Heap HeapIndex HeapProofs HeapOrder Ring RingProofs Corr.
Import ListNotations.

Section C12a.
Variables (K V P T : Type) (keqb : K -> K -> bool) (kzero : K) (cmp : P -> P -> Z) (pzero : P) (vzero : V) (zero : T).
Hypothesis keqb_spec : forall a b, keqb a b = true <-> a = b.       (* K is Go-comparable: == decides equality *)

(* ShrinkingMap: for every option setting (ratio, count) and every operation history, all outputs and the final
   contents equal those of a plain map that has no options, no deletion counter and never shrinks. *)
Theorem C12_shrinkingmap_shrink_unobservable : forall (o : SMap.opts) (h : list (SMap.ev K V)),
  snd (SMap.run keqb o SMap.new h) = snd (SMap.prun keqb [] h) /\
  SMap.m (fst (SMap.run keqb o SMap.new h)) = fst (SMap.prun keqb [] h).
Proof. exact (shrink_unobservable K V keqb keqb_spec). Qed.

(* ShrinkingMap.GetOrCreate creates once: for every option setting, every state and every sequential order of
   GetOrCreate calls for one key, the first call decides the value (the stored one, or its constructor's result when the
   key is missing), every call returns it, and created = true is reported by the first call only and only when the key
   was missing. Sequential histories; atomicity of the method under concurrent callers is tied to the code by the
   harness (forced interleavings), not proved. *)
Theorem C12_shrinkingmap_getorcreate_creates_once : forall (o : SMap.opts) (s : SMap.st K V) k v0 (vs : list V),
  let w := match SMap.find keqb k (SMap.m s) with Some x => x | None => v0 end in
  let created := match SMap.find keqb k (SMap.m s) with Some _ => false | None => true end in
  let r := SMap.run keqb o s (map (SMap.EGetOrCreate k) (v0 :: vs)) in
  snd r = SMap.OVal w created :: map (fun _ => SMap.OVal w false) vs /\ SMap.find keqb k (SMap.m (fst r)) = Some w.
Proof. exact (getorcreate_creates_once K V keqb keqb_spec). Qed.

(* RandomMap: dense keys with exact back-indices in every reachable state, for every option setting. *)
Theorem C12_randommap_invariant : forall (o : SMap.opts) (h : list (rev K V)),
  rinv K V keqb kzero (fst (rrun keqb kzero o rnew h)).
Proof. exact (rm_reachable_inv K V keqb kzero keqb_spec). Qed.

(* every index the PRNG can return (i < size) yields a member; an empty map yields nothing *)
Theorem C12_randommap_random_key_member : forall o (s : rst K V) i, rinv K V keqb kzero s -> i < rsize s ->
  exists k v j, snd (rstep keqb kzero o s (RRandomKey i)) = ROKey (Some k) /\ SMap.find keqb k (SMap.m (raw s)) = Some (v, j).
Proof. exact (random_key_member K V keqb kzero). Qed.

Theorem C12_randommap_random_entry_member : forall o (s : rst K V) i, rinv K V keqb kzero s -> i < rsize s ->
  exists k v j, snd (rstep keqb kzero o s (RRandomEntry i)) = ROGet (Some v) /\ SMap.find keqb k (SMap.m (raw s)) = Some (v, j).
Proof. exact (random_entry_member K V keqb kzero). Qed.

Theorem C12_randommap_random_pick_empty : forall o (s : rst K V) i, rinv K V keqb kzero s -> rsize s = 0 ->
  snd (rstep keqb kzero o s (RRandomKey i)) = ROKey None /\ snd (rstep keqb kzero o s (RRandomEntry i)) = ROGet None.
Proof. exact (random_pick_empty K V keqb kzero). Qed.

(* RandomUniqueEntries(count): min(count, size) entries of pairwise distinct keys, each a current entry,
   for every permutation rand.Perm can return *)
Theorem C12_randommap_random_unique_entries : forall o (s : rst K V) count perm, rinv K V keqb kzero s ->
  Permutation perm (seq 0 (length (keys s))) ->
  exists kvs, picks_ok K V keqb s (Z.to_nat count) kvs /\
    (snd (rstep keqb kzero o s (RRandomUniqueEntries count perm)) = ROValsSeq (map snd kvs) \/
     snd (rstep keqb kzero o s (RRandomUniqueEntries count perm)) = ROValsSet (map snd kvs)).
Proof. exact (random_unique_entries K V keqb kzero keqb_spec). Qed.

(* Set / Delete act on the projected contents exactly like a plain map *)
Theorem C12_randommap_set_plain : forall (s : rst K V) k v,
  rentries (rset keqb k v s) = SMap.put keqb k v (rentries s).
Proof. exact (rm_set_plain K V keqb). Qed.

Theorem C12_randommap_delete_plain : forall o (s : rst K V) k, rinv K V keqb kzero s ->
  rentries (fst (rdelete keqb kzero o k s)) = SMap.del keqb k (rentries s) /\
  snd (rdelete keqb kzero o k s) = match SMap.find keqb k (rentries s) with Some v => Some (v, true) | None => None end.
Proof. exact (rm_delete_plain K V keqb kzero keqb_spec). Qed.

(* PriorityQueue / generalheap (any comparator): index fields are exact in every reachable state *)
Theorem C12_pq_index_invariant : forall h : list (hev P V), idx_ok P V (fst (hrun cmp pzero vzero hnew h)).
Proof. exact (heap_reachable_idx_ok P V cmp pzero vzero). Qed.

Theorem C12_pq_push_contents : forall (s : hst P V) p v, idx_ok P V s ->
  Permutation (length (prios s) :: arr s) (arr (fst (hstep cmp pzero vzero s (HPush p v)))) /\
  prio pzero (fst (hstep cmp pzero vzero s (HPush p v))) (length (prios s)) = p /\
  val vzero (fst (hstep cmp pzero vzero s (HPush p v))) (length (prios s)) = v.
Proof. exact (push_contents P V cmp pzero vzero). Qed.

(* Any comparator (no ordering premise): Pop returns the root, which is what Peek shows, and removes exactly that element. *)
Theorem C12_pq_pop_root : forall (s : hst P V), idx_ok P V s -> arr s <> [] ->
  snd (hstep cmp pzero vzero s HPop) = HOVal (Some (val vzero s (at_ s 0))) /\
  snd (hstep cmp pzero vzero s HPeek) = HOVal (Some (val vzero s (at_ s 0))) /\
  Permutation (arr s) (at_ s 0 :: arr (fst (hstep cmp pzero vzero s HPop))) /\
  ix P V (fst (hstep cmp pzero vzero s HPop)) (at_ s 0) = (-1)%Z.
Proof. exact (pop_contents P V cmp pzero vzero). Qed.

(* ---- heap ORDER, for a comparator that is a strict weak order (CompareTo < 0 asymmetric and negatively transitive) ---- *)
(* every reachable state (all histories of Push / removal handles / Peek / Pop / PopUntil / PopAll / Size / IsEmpty):
   exact index fields AND key(parent) <= key(child) on the whole slice *)
Theorem C12_pq_heap_invariant : strict_weak_order P cmp -> forall h : list (hev P V),
  hinv P V cmp pzero (fst (hrun cmp pzero vzero hnew h)).
Proof. exact (heap_reachable_hinv P V cmp pzero vzero). Qed.

(* the invariant is inductive: every single operation preserves it from ANY state satisfying it *)
Theorem C12_pq_heap_invariant_step : strict_weak_order P cmp -> forall (s : hst P V) e,
  hinv P V cmp pzero s -> hinv P V cmp pzero (fst (hstep cmp pzero vzero s e)).
Proof. exact (hstep_hinv P V cmp pzero vzero). Qed.

(* the statement that was open in the first delivery: in every reachable state no element is smaller than the root *)
Definition C12_pq_pop_min_full_statement : Prop := pop_min_full_statement P V cmp pzero vzero.
Theorem C12_pq_pop_min_full : C12_pq_pop_min_full_statement.
Proof. exact (pop_min_full P V cmp pzero vzero). Qed.

(* Pop and Peek return a minimum of the current contents; Pop removes exactly that element and keeps the invariant *)
Theorem C12_pq_pop_min : strict_weak_order P cmp -> forall (s : hst P V), hinv P V cmp pzero s -> arr s <> [] ->
  let m := at_ s 0 in
  snd (hstep cmp pzero vzero s HPop) = HOVal (Some (val vzero s m)) /\
  snd (hstep cmp pzero vzero s HPeek) = HOVal (Some (val vzero s m)) /\
  In m (arr s) /\
  (forall x, In x (arr s) -> plt P cmp (prio pzero s x) (prio pzero s m) = false) /\
  Permutation (arr s) (m :: arr (fst (hstep cmp pzero vzero s HPop))) /\
  hinv P V cmp pzero (fst (hstep cmp pzero vzero s HPop)).
Proof. exact (pop_min P V cmp pzero vzero). Qed.

(* PopAll empties the queue and returns all of its elements in priority order *)
Theorem C12_pq_popall_sorted : strict_weak_order P cmp -> forall (s : hst P V), hinv P V cmp pzero s ->
  exists ids, hstep cmp pzero vzero s HPopAll = (fst (hstep cmp pzero vzero s HPopAll), HOVals (map (val vzero s) ids)) /\
    arr (fst (hstep cmp pzero vzero s HPopAll)) = [] /\
    Permutation (arr s) ids /\
    StronglySorted (fun a b => plt P cmp (prio pzero s b) (prio pzero s a) = false) ids.
Proof. exact (popall_sorted P V cmp pzero vzero). Qed.

(* PopUntil(p), for a comparator that also honours the three-way contract (a > b iff b < a): returns in priority
   order exactly the elements whose key compares <= p; every element that stays compares > p *)
Theorem C12_pq_popuntil_exact : strict_weak_order P cmp -> cmp_consistent P cmp -> forall (s : hst P V) p,
  hinv P V cmp pzero s ->
  let s' := fst (hstep cmp pzero vzero s (HPopUntil p)) in
  exists ids, snd (hstep cmp pzero vzero s (HPopUntil p)) = HOVals (map (val vzero s) ids) /\
    Permutation (arr s) (ids ++ arr s') /\
    StronglySorted (fun a b => plt P cmp (prio pzero s b) (prio pzero s a) = false) ids /\
    (forall x, In x ids -> (cmp (prio pzero s x) p <= 0)%Z) /\
    (forall y, In y (arr s') -> (0 < cmp (prio pzero s y) p)%Z) /\
    (forall x, In x (arr s) -> (In x ids <-> (cmp (prio pzero s x) p <= 0)%Z)) /\
    hinv P V cmp pzero s'.
Proof. exact (popuntil_exact P V cmp pzero vzero). Qed.

Theorem C12_pq_popall_contents : forall (s : hst P V) lim, idx_ok P V s ->
  let r := pop_loop cmp pzero (S (length (arr s))) lim s [] in Permutation (arr s) (snd r ++ arr (fst r)).
Proof. exact (pop_loop_contents P V cmp pzero). Qed.

(* removal handles: exactly their element; idempotent; dead handles do nothing *)
Theorem C12_pq_remove_exact : forall (s : hst P V) id, idx_ok P V s -> In id (arr s) ->
  let s' := fst (hstep cmp pzero vzero s (HRemove id)) in
  Permutation (arr s) (id :: arr s') /\ ~ In id (arr s') /\ fst (hstep cmp pzero vzero s' (HRemove id)) = s'.
Proof. exact (remove_exact P V cmp pzero vzero). Qed.

Theorem C12_pq_remove_dead_noop : forall (s : hst P V) id, idx_ok P V s -> ~ In id (arr s) ->
  hstep cmp pzero vzero s (HRemove id) = (s, HOUnit).
Proof. exact (remove_dead_noop P V cmp pzero vzero). Qed.

(* Queue: ring arithmetic refines the bounded FIFO (Offer drops, ForceOffer evicts the oldest), capacity >= 1 *)
Theorem C12_queue_refines : forall cap (h : list (qev T)), 0 < cap ->
  snd (qrun zero (qnew zero cap) h) = snd (qspec_run cap [] h).
Proof. exact (queue_refines T zero). Qed.

(* RingBuffer: ToSlice lists the last `capacity` added elements, newest first, capacity >= 1 *)
Theorem C12_ringbuffer_refines : forall cap (h : list (rbev T)), 0 < cap ->
  snd (rbrun zero (rbnew zero cap) h) = snd (rbspec_run cap [] h).
Proof. exact (ring_refines T zero). Qed.

(* Stack (simple; the thread-safe one adds a mutex): LIFO *)
Theorem C12_stack_refines : forall h : list (sev T), snd (srun zero [] h) = snd (sspec_run [] h).
Proof. exact (stack_refines T zero). Qed.

End C12a.

(* non-vacuity: the guarded statements have non-trivial instances *)
(* three callers for the missing key 0 after a deletion made the map shrink: one creation, one value for all *)
Example C12a_getorcreate_three_callers :
  snd (SMap.run Nat.eqb (SMap.mkOpts 1 2 1) (fst (SMap.run Nat.eqb (SMap.mkOpts 1 2 1) SMap.new [SMap.ESet 0 5%Z; SMap.EDelete 0 None]))
         (map (SMap.EGetOrCreate 0) [101%Z; 102%Z; 103%Z]))
  = [SMap.OVal 101%Z true; SMap.OVal 101%Z false; SMap.OVal 101%Z false].
Proof. vm_compute. reflexivity. Qed.

Example C12a_nonvacuous_queue :
  snd (qrun 0%Z (qnew 0%Z 2) [QOffer 1%Z; QOffer 2%Z; QOffer 3%Z; QForceOffer 4%Z; QPoll; QPoll; QPoll]) =
  [QOBool true; QOBool true; QOBool false; QOOpt (Some 1%Z); QOOpt (Some 2%Z); QOOpt (Some 4%Z); QOOpt None].
Proof. vm_compute. reflexivity. Qed.
Example C12a_nonvacuous_ring :
  snd (rbrun 0%Z (rbnew 0%Z 2) [RBAdd 1%Z; RBAdd 2%Z; RBAdd 3%Z; RBToSlice]) =
  [RBOBool true; RBOBool true; RBOBool true; RBOList [3%Z; 2%Z]].
Proof. vm_compute. reflexivity. Qed.
Example C12a_nonvacuous_rinv :
  exists s : rst nat Z, rinv nat Z Nat.eqb 0 s /\ rsize s = 2 /\ keys s = [2; 1].
Proof.
  exists (fst (rrun Nat.eqb 0 (mkOpts 1 2 2) rnew [RSet 0 10%Z; RSet 1 11%Z; RSet 2 12%Z; RDelete 0])).
  split; [apply rm_reachable_inv; exact Nat.eqb_eq|]. vm_compute. auto.
Qed.
Example C12a_nonvacuous_idx_ok :
  let cmpz := fun a b : Z => match Z.compare a b with Lt => (-1)%Z | Eq => 0%Z | Gt => 1%Z end in
  exists s : hst Z Z, idx_ok Z Z s /\ arr s = [3; 0; 2] /\ In 2 (arr s).
Proof.
  intros cmpz.
  exists (fst (hrun cmpz 0%Z 0%Z hnew [HPush 5%Z 0%Z; HPush 3%Z 1%Z; HPush 4%Z 2%Z; HPush 1%Z 3%Z; HRemove 1])).
  split; [apply heap_reachable_idx_ok|]. vm_compute. auto.
Qed.

(* non-vacuity of the ordering theorems: the comparators in use satisfy both premises, and a reachable state with
   ties, a removed middle element and three levels satisfies hinv; PopUntil splits it, PopAll sorts it *)
Example C12a_nonvacuous_swo : forall mo, strict_weak_order Z (cmp_of mo) /\ cmp_consistent Z (cmp_of mo).
Proof. intros mo. split; [apply cmp_of_strict_weak_order | apply cmp_of_consistent]. Qed.
Definition C12a_order_hist : list (hev Z Z) :=
  [HPush 5%Z 0%Z; HPush 3%Z 1%Z; HPush 4%Z 2%Z; HPush 1%Z 3%Z; HPush 3%Z 4%Z; HPush 0%Z 5%Z; HPush 2%Z 6%Z; HRemove 1; HPop].
Example C12a_nonvacuous_hinv :
  let s := fst (hrun (cmp_of CmpAsc) 0%Z 0%Z hnew C12a_order_hist) in
  hinv Z Z (cmp_of CmpAsc) 0%Z s /\ arr s = [3; 6; 2; 0; 4] /\
  snd (hstep (cmp_of CmpAsc) 0%Z 0%Z s (HPopUntil 3%Z)) = HOVals [3%Z; 6%Z; 4%Z] /\
  snd (hstep (cmp_of CmpAsc) 0%Z 0%Z s HPopAll) = HOVals [3%Z; 6%Z; 4%Z; 2%Z; 0%Z].
Proof.
  intros s. split; [apply C12_pq_heap_invariant; apply cmp_of_strict_weak_order|]. vm_compute. auto.
Qed.

Print Assumptions C12_shrinkingmap_shrink_unobservable.
Print Assumptions C12_shrinkingmap_getorcreate_creates_once.
Print Assumptions C12_randommap_invariant.
Print Assumptions C12_randommap_random_key_member.
Print Assumptions C12_randommap_random_entry_member.
Print Assumptions C12_randommap_random_pick_empty.
Print Assumptions C12_randommap_random_unique_entries.
Print Assumptions C12_randommap_set_plain.
Print Assumptions C12_randommap_delete_plain.
Print Assumptions C12_pq_index_invariant.
Print Assumptions C12_pq_push_contents.
Print Assumptions C12_pq_pop_root.
Print Assumptions C12_pq_heap_invariant.
Print Assumptions C12_pq_heap_invariant_step.
Print Assumptions C12_pq_pop_min_full.
Print Assumptions C12_pq_pop_min.
Print Assumptions C12_pq_popall_sorted.
Print Assumptions C12_pq_popuntil_exact.
Print Assumptions C12_pq_popall_contents.
Print Assumptions C12_pq_remove_exact.
Print Assumptions C12_pq_remove_dead_noop.
Print Assumptions C12_queue_refines.
Print Assumptions C12_ringbuffer_refines.
Print Assumptions C12_stack_refines.
