(* C12 part a - statements only (placeholder while the proofs are being built). *)
From Coq Require Import List ZArith.
From Verif.C12a_Containers Require Import ListAux SMap RMap Heap Ring Corr.
