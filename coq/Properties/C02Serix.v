(* C02 (serix Decode part) - totality and resource bounds of the model's decode. Statements only. *)
From Coq Require Import List NArith ZArith Bool.
From Verif.C01_Serix Require Import Model Layout.
Import ListNotations.
Open Scope N_scope.

Theorem C02_layout_placeholder_bool : forall val d b, encode val d SBool (VBool b) = Ok [if b then 1 else 0].
Proof. exact layout_bool. Qed.
Print Assumptions C02_layout_placeholder_bool.
