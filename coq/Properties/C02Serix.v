(* C02 (serix Decode part) - the model of serix.API.Decode is total and never over-consumes. Statements only. *)
From Coq Require Import List NArith ZArith Bool.
From Verif.C01_Serix Require Import Model Bound.
Import ListNotations.
Open Scope N_scope.

(* For ALL schemas (no well-formedness needed), both validation modes and ALL byte strings: the outcome is a value or
   an error, never a Go panic. The model contains Panic outcomes exactly where the Go code would slice out of range
   when a nested decoder reported more bytes than it was given (decodeMapKVPair: b[keyBytesRead:],
   ReadSequenceOfObjects: srcBefore[:bytesRead] / d.src[d.offset:]). *)
Theorem C02_no_panic : forall val s b, Decode val s b <> Panic.
Proof. exact Decode_no_panic. Qed.

Theorem C02_no_panic_inner : forall val tot s b, decode val tot s b <> Panic.
Proof. exact decode_no_panic. Qed.

(* ... and a successful decode never reports more consumed bytes than were supplied. *)
Theorem C02_consumed : forall val s b v n, Decode val s b = Ok (v, n) -> (n <= length b)%nat.
Proof. exact Decode_consumed. Qed.

Theorem C02_consumed_inner : forall val tot s b v n, decode val tot s b = Ok (v, n) -> (n <= length b)%nat.
Proof. exact decode_consumed. Qed.

(* the pinned code did panic on every input for arrays of non-byte elements (D01a) and for lenPrefix=uint64 (D01b);
   both are repaired in /repo and the model mirrors the repaired code. *)

(* Iteration bound of the sequence loop: the loop of ReadSequenceOfObjects runs at most [length input + 1] times
   unless the elements can be empty on the wire. *)
Theorem C02_seq_iterations : forall cnt len tot fuel,
  seq_fuel false cnt len tot = Some fuel -> (fuel <= len + 1)%nat.
Proof. exact seq_iterations. Qed.

(* Finding D02d: with zero-size elements the count alone drives the loop - 65535 iterations from 2 bytes. *)
Theorem C02_refuted_zero_size_iterations :
  (forall cnt len tot, cnt <= N.of_nat tot + 1 -> seq_fuel true cnt len tot = Some (N.to_nat cnt)) /\
  zero_size (SStruct None FNil) = true /\
  Decode false (SSlice L16 (mkAR 0 0 false false false false [] false) (SStruct None FNil)) [255; 255] = Err EUnbounded.
Proof. exact refuted_zero_size_iterations. Qed.

Print Assumptions C02_no_panic.
Print Assumptions C02_no_panic_inner.
Print Assumptions C02_consumed.
Print Assumptions C02_consumed_inner.
Print Assumptions C02_seq_iterations.
Print Assumptions C02_refuted_zero_size_iterations.
