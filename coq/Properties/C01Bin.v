(* C01 (serix binary part) - Encode/Decode round trip and determinism of the model of serix. Statements only. *)
From Coq Require Import List NArith ZArith Bool Permutation.
From Verif.C01_Serix Require Import Model Bound SortLex Determinism RoundTrip.
Import ListNotations.
Open Scope N_scope.

(* Round trip, for ALL schemas of the modelled fragment, both validation modes, every value the encoder accepts and
   any bytes following the encoding: Decode returns the canonical form of the value (map entries and auto-sorted
   slices in byte-lexical order of their encodings, ints reduced to their width, time stamps clamped) and reports
   exactly the number of bytes Encode produced.
   Guards: wf (type codes fit their denotation; interface alternatives carry the code they are registered under;
   sequence elements are not zero-size), good (map keys pairwise different; sequence elements not empty on the wire),
   total encoding shorter than 2^32 bytes (the optional marker is a uint32). *)
Theorem C01_roundtrip : forall s, wf s -> forall val d tot v b rest,
  good val s v -> encode val d s v = Ok b -> N.of_nat (length b) < W32 ->
  decode val tot s (b ++ rest) = Ok (canon val s v, length b).
Proof. exact roundtrip. Qed.

Theorem C01_roundtrip_api : forall s, wf s -> forall val v b,
  good val s v -> Encode val s v = Ok b -> N.of_nat (length b) < W32 ->
  Decode val s b = Ok (canon val s v, length b).
Proof. exact Roundtrip. Qed.

(* Determinism: Go map iteration order = an arbitrary permutation of the entry list. *)
Theorem C01_deterministic : forall val d l r k ve m1 m2 b, Permutation m1 m2 ->
  encode val d (SMap l r k ve) (VMap m1) = Ok b -> encode val d (SMap l r k ve) (VMap m2) = Ok b.
Proof. exact encode_map_perm. Qed.

Theorem C01_deterministic_sorted_slice : forall d l r e vs1 vs2 b,
  ar_autosort r = true -> ar_lex r = true -> ar_must r = [] -> Permutation vs1 vs2 ->
  encode false d (SSlice l r e) (VL vs1) = Ok b -> encode false d (SSlice l r e) (VL vs2) = Ok b.
Proof. exact encode_sorted_slice_perm. Qed.

(* non-vacuity of the guards, on a schema with a map, an optional, an auto-sorted slice and an interface *)
Example C01_roundtrip_nonvacuous :
  wf ex_schema /\ good true ex_schema ex_value /\
  exists b, Encode true ex_schema ex_value = Ok b /\ N.of_nat (length b) < W32 /\
            Decode true ex_schema b = Ok (canon true ex_schema ex_value, length b) /\ canon true ex_schema ex_value <> ex_value.
Proof. exact roundtrip_nonvacuous. Qed.

(* What the zero-size guard excludes is a real defect of the format (finding zero-size-element-roundtrip-value). *)
Theorem C01_refuted_optional_zero_size :
  let s := SStruct None (FCons FOpt (SPtr (SStruct None FNil)) FNil) in
  let v := VL [VL []] in
  Encode true s v = Ok [0; 0; 0; 0] /\ Decode true s [0; 0; 0; 0] = Ok (VL [VNil], 4%nat) /\ VL [VNil] <> v.
Proof. exact refuted_optional_zero_size. Qed.

(* Regression for fix a52b77b (formerly finding zero-size-element-roundtrip-decode-fails): the lexical + no-duplicates
   validator used "prev == nil" as its first-element test, so validated Encode accepted [{} {}] of []struct{} (bytes 02)
   which validated Decode rejects. Encoder and decoder now agree. *)
Example C01_fixed_zero_size_duplicates :
  let s := SSlice L8 (mkAR 0 0 true true false false [] false) (SStruct None FNil) in
  let v := VL [VL []; VL []] in
  Encode true s v = Err EDup /\ Decode true s [2] = Err EDup /\
  Encode false s v = Ok [2] /\ Decode false s [2] = Ok (v, 1%nat).
Proof. exact fixed_zero_size_duplicates. Qed.

Print Assumptions C01_roundtrip.
Print Assumptions C01_roundtrip_api.
Print Assumptions C01_deterministic.
Print Assumptions C01_deterministic_sorted_slice.
Print Assumptions C01_roundtrip_nonvacuous.
Print Assumptions C01_refuted_optional_zero_size.
Print Assumptions C01_fixed_zero_size_duplicates.
