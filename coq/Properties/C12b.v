(* C12 (part b) - statements only; filled in below. *)
From Coq Require Import List.
From Verif.C12b_Containers Require Import Corr.
