(* C12 (part b) - BytesFilter, Walker, TimeHeap, IndexedStorage, OnChangeMap, SubscriptionManager are equivalent to
   their abstract models for every operation history and option setting.  Statements only. *)
From Coq Require Import ZArith NArith Arith List Bool Permutation.
From Verif.C12b_Containers Require AMap AMapProofs BytesFilter BytesFilterProofs Walker WalkerProofs TimeHeap TimeHeapProofs
  IndexedStorage IndexedStorageProofs OnChangeMap OnChangeMapProofs SubMgr SubMgrProofs.
Import ListNotations.

Module BF := BytesFilter. Module BFP := BytesFilterProofs.
Module WK := Walker. Module WKP := WalkerProofs.
Module TH := TimeHeap. Module THP := TimeHeapProofs.
Module IS := IndexedStorage. Module ISP := IndexedStorageProofs.
Module OC := OnChangeMap. Module OCP := OnChangeMapProofs.
Module SM := SubMgr. Module SMP := SubMgrProofs.

(* ---------------- BytesFilter: remembers exactly the last N distinct identifiers (N >= 1) ---------------- *)
(* every output equals the output of the window machine [spec_step] (Add x accepted iff x is not in the window;
   the window keeps the last n accepted identifiers) *)
Theorem C12_bytesfilter_refines_window : forall n h, 1 <= n ->
  snd (BF.run (BF.init n) h) = snd (BF.spec_run n [] h) /\ BF.ids (fst (BF.run (BF.init n) h)) = fst (BF.spec_run n [] h).
Proof. exact BFP.bf_refines_window. Qed.

(* after any history the filter holds exactly the last n identifiers whose Add returned true; they are distinct;
   Contains answers membership in that window and Add succeeds iff the identifier is not in it *)
Theorem C12_bytesfilter_last_n : forall n h, 1 <= n ->
  let outs := snd (BF.run (BF.init n) h) in
  let s := fst (BF.run (BF.init n) h) in
  BF.ids s = BF.lastn n (BF.accepted h outs)
  /\ NoDup (BF.ids s)
  /\ (forall x, snd (BF.step s (BF.Contains x)) = BF.OBool (BF.mem x (BF.lastn n (BF.accepted h outs))))
  /\ (forall x, snd (BF.step s (BF.Add x)) = BF.OBool (negb (BF.mem x (BF.lastn n (BF.accepted h outs))))).
Proof. exact BFP.bf_remembers_last_n. Qed.

Example C12_bytesfilter_nonvacuous :
  snd (BF.run (BF.init 2) [BF.Add 1; BF.Add 2; BF.Add 1; BF.Add 3; BF.Contains 1; BF.Contains 2; BF.Contains 3])
  = [BF.OBool true; BF.OBool true; BF.OBool false; BF.OBool true; BF.OBool false; BF.OBool true; BF.OBool true].
Proof. exact BFP.bf_example. Qed.

(* ---------------- Walker ---------------- *)
(* no revisiting, all histories (Push, PushAll, PushFront, Next, StopWalk, Reset, queries): what was yielded since the
   last Reset plus what is queued contains no element twice and is exactly the set of elements offered since then *)
Theorem C12_walker_each_pushed_once : forall h,
  let s := fst (WK.run (WK.init false) h) in
  let Y := WKP.since_reset h (snd (WK.run (WK.init false) h)) [] in
  NoDup (Y ++ WK.stack s) /\
  (forall x, In x (Y ++ WK.stack s) <-> In x (WKP.offered_since_reset h [])) /\
  (forall x, snd (WK.step s (WK.Pushed x)) = WK.OBool true <-> In x (WKP.offered_since_reset h [])).
Proof. exact WKP.wk_each_pushed_once. Qed.

Theorem C12_walker_drained : forall h,
  let s := fst (WK.run (WK.init false) h) in
  let Y := WKP.since_reset h (snd (WK.run (WK.init false) h)) [] in
  WK.stack s = [] -> NoDup Y /\ (forall x, In x Y <-> In x (WKP.offered_since_reset h [])).
Proof. exact WKP.wk_drained. Qed.

(* queue order: without PushFront/Reset the walk is first-in first-out over the first occurrences of the offered
   elements; with revisiting enabled over all offered elements *)
Theorem C12_walker_queue_order : forall h, Forall WKP.fifo_op h ->
  WK.yielded (snd (WK.run (WK.init false) h)) ++ WK.stack (fst (WK.run (WK.init false) h)) = WKP.dedup_first (WK.offered h).
Proof. exact WKP.wk_queue_order. Qed.

Theorem C12_walker_queue_order_revisit : forall h, Forall WKP.fifo_op h ->
  WK.yielded (snd (WK.run (WK.init true) h)) ++ WK.stack (fst (WK.run (WK.init true) h)) = WK.offered h.
Proof. exact WKP.wk_queue_order_revisit. Qed.

Theorem C12_walker_pushfront_front : forall s x, WK.mem x (WK.pushed s) = false ->
  snd (WK.step (fst (WK.step s (WK.PushFront [x]))) WK.Next) = WK.OElem x.
Proof. exact WKP.wk_pushfront_front. Qed.

Theorem C12_walker_reset : forall s, fst (WK.step s WK.Reset) = WK.init (WK.revisit s).
Proof. exact WKP.wk_reset. Qed.

(* D12a (repaired by a fix: commit): the pinned PushFront returned at the first repeated element *)
Theorem C12_refuted_walker_pushfront_pinned :
  WK.yielded (snd (WK.run_pinned (WK.init false) [WK.Push 1; WK.PushFront [1; 2]; WK.Next; WK.Next])) = [1]
  /\ WK.yielded (snd (WK.run (WK.init false) [WK.Push 1; WK.PushFront [1; 2]; WK.Next; WK.Next])) = [2; 1].
Proof. exact WKP.refuted_pushfront_pinned. Qed.

(* ---------------- TimeHeap ---------------- *)
(* for every history (any clock readings, any windows): the outputs equal those of the list of live entries from which
   Average removes the entries whose age is >= the window and reports the sum of the rest mod 2^64 *)
Theorem C12_timeheap_refines_live_entries : forall h,
  snd (TH.run TH.init h) = snd (TH.spec_run [] h).
Proof. intros h. exact (proj1 (THP.th_refines_live_entries h TH.init [] THP.rel_init)). Qed.

(* one window and a clock that does not go backwards: every Average reports the sum (mod 2^64) of the counts added
   since the last Clear whose age is below the window *)
Theorem C12_timeheap_windowed_sum : forall w h t0, THP.timed w t0 h -> snd (TH.run TH.init h) = THP.expected w h [].
Proof. exact THP.th_windowed_sum. Qed.

Example C12_timeheap_nonvacuous :
  THP.timed 10 0 [TH.Add 0 5; TH.Add 4 7; TH.Average 9 10; TH.Average 12 10; TH.Clear; TH.Add 13 1; TH.Average 13 10]
  /\ snd (TH.run TH.init [TH.Add 0 5; TH.Add 4 7; TH.Average 9 10; TH.Average 12 10; TH.Clear; TH.Add 13 1; TH.Average 13 10])
     = [TH.ONone; TH.ONone; TH.OTotal 12; TH.OTotal 7; TH.ONone; TH.ONone; TH.OTotal 1].
Proof. exact THP.th_example. Qed.

(* D12b (repaired): the pinned Clear kept the running total *)
Theorem C12_refuted_timeheap_clear_pinned :
  snd (TH.run_pinned TH.init [TH.Add 0 10; TH.Clear; TH.Average 1 3600]) = [TH.ONone; TH.ONone; TH.OTotal 10]
  /\ snd (TH.run TH.init [TH.Add 0 10; TH.Clear; TH.Average 1 3600]) = [TH.ONone; TH.ONone; TH.OTotal 0].
Proof. exact THP.refuted_clear_pinned. Qed.

(* ---------------- IndexedStorage ---------------- *)
(* for every history: Get/Evict answer like the abstract map index -> storage (fresh storage ids, never reused);
   ForEach and Clear list exactly the abstract map's entries *)
Theorem C12_indexedstorage_refines_map : forall h,
  ISP.Rel (fst (IS.run IS.init h)) (fold_left IS.spec_step h IS.spec_init) /\
  Forall2 (fun ao x =>
             (forall r, IS.spec_lookup (fst ao) (snd ao) = Some r -> x = IS.OSid r) /\
             (snd ao = IS.ForEach \/ snd ao = IS.Clear ->
              forall idx sid, In (idx, sid) (match x with IS.OEntries l => l | _ => [] end) <-> IS.sp_map (fst ao) idx = Some sid))
          (combine (ISP.spec_states IS.spec_init h) h) (snd (IS.run IS.init h)).
Proof. intros h. exact (ISP.is_refines_map h IS.init IS.spec_init ISP.rel_init). Qed.

Example C12_indexedstorage_nonvacuous :
  snd (IS.run IS.init [IS.Get 1 (Some true); IS.SSet 0 2 7; IS.Evict 1; IS.Get 1 None; IS.Get 1 (Some true); IS.SGet 0 2; IS.SGet 1 2; IS.ForEach])
  = [IS.OSid (Some 0); IS.ONone; IS.OSid (Some 0); IS.OSid None; IS.OSid (Some 1); IS.OVal (Some 7); IS.OVal None; IS.OEntries [(1, 1)]].
Proof. exact ISP.is_example. Qed.

(* ---------------- OnChangeMap ---------------- *)
(* a keyed store for every history, callback setting and callback failure *)
Theorem C12_onchangemap_keyed_store : forall h s k,
  AMap.aget k (OC.m (fst (OC.run s h))) = fold_left OCP.store_step h (fun x => AMap.aget x (OC.m s)) k.
Proof. exact OCP.oc_keyed_store. Qed.

(* the item callbacks mirror every change: with callbacks enabled, the three item callbacks registered and every
   operation [reported] (changed callback does not fail, Modify callbacks tell the truth), replaying
   Added/Modified/Deleted rebuilds the map *)
Theorem C12_onchangemap_callbacks_mirror : forall c h, OCP.item_cbs c -> Forall OCP.reported h ->
  let s := fst (OC.run (OC.init c) (OC.Enable true :: h)) in
  forall k, AMap.aget k (OC.replay [] (OC.log s)) = AMap.aget k (OC.m s).
Proof. exact OCP.oc_callbacks_mirror. Qed.

Theorem C12_onchangemap_changed_sees_contents : forall s o items,
  In (OC.EvChanged items) (skipn (length (OC.log s)) (OC.log (fst (OC.step s o)))) -> items = OC.m (fst (OC.step s o)).
Proof. exact OCP.oc_changed_sees_contents. Qed.

Theorem C12_onchangemap_disabled_silent : forall s o, OC.enabled s = false -> OC.log (fst (OC.step s o)) = OC.log s.
Proof. exact OCP.oc_disabled_silent. Qed.

Example C12_onchangemap_nonvacuous :
  let c := {| OC.cbChanged := true; OC.cbAdded := true; OC.cbModified := true; OC.cbDeleted := true |} in
  OCP.item_cbs c /\ Forall OCP.reported [OC.Add 1 5 false false; OC.Modify 1 (Some 6) true false true; OC.Delete 1 false false].
Proof. split; [repeat split|repeat constructor; discriminate]. Qed.

(* ---------------- SubscriptionManager ---------------- *)
(* for every history and limit: the global count of a topic is the sum of the clients' counts *)
Theorem C12_submgr_global_is_sum : forall mx h t,
  SM.global_count (fst (SM.run (SM.init mx) h)) t = SM.sum_clients (fst (SM.run (SM.init mx) h)) t.
Proof. exact SMP.sm_global_is_sum. Qed.

Theorem C12_submgr_has_subscribers_is_sum : forall mx h t,
  let s := fst (SM.run (SM.init mx) h) in
  snd (fst (SM.step s (SM.HasSubscribers t))) = SM.OBool (0 <? SM.sum_clients s t).
Proof. exact SMP.sm_has_subscribers_is_sum. Qed.

(* the event log mirrors the state, including forced drops: per client and topic, subscriptions held =
   #TopicSubscribed - #TopicUnsubscribed; a topic has subscribers iff #TopicAdded = #TopicRemoved + 1 (else equal);
   a client is connected iff #ClientConnected = #ClientDisconnected + 1 (else equal) *)
Theorem C12_submgr_events_mirror_state : forall mx h,
  let s := fst (SM.run (SM.init mx) h) in
  let es := SM.events (snd (SM.run (SM.init mx) h)) in
  (forall c t, SM.client_count s c t + SMP.countE (SMP.isUnsub c t) es = SMP.countE (SMP.isSub c t) es) /\
  (forall t, SMP.hasn t (SM.topics s) + SMP.countE (SMP.isRemoved t) es = SMP.countE (SMP.isAdded t) es) /\
  (forall c, SMP.hasn c (SM.subs s) + SMP.countE (SMP.isDisc c) es = SMP.countE (SMP.isConn c) es).
Proof. exact SMP.sm_events_mirror_state. Qed.

(* D12c (repaired): the pinned limit path subtracted a subscription that was never counted *)
Theorem C12_refuted_limit :
  let s := fst (SM.run_pinned (SM.init 2) SMP.d12c_history) in
  SM.client_count s 1 0 = 1 /\ SM.global_count s 0 = 0 /\ SM.sum_clients s 0 = 1.
Proof. exact SMP.refuted_limit_pinned. Qed.

Example C12_submgr_limit_fixed :
  let s := fst (SM.run (SM.init 2) SMP.d12c_history) in
  SM.client_count s 1 0 = 1 /\ SM.global_count s 0 = 1 /\
  snd (SM.run (SM.init 2) SMP.d12c_history) =
    [(SM.ONone, [SM.EConnected 1]); (SM.ONone, [SM.EConnected 2]); (SM.OBool true, [SM.ETopicAdded 0; SM.ESubscribed 1 0]);
     (SM.OBool true, [SM.ETopicAdded 1; SM.ESubscribed 2 1]);
     (SM.OBool false, [SM.ETopicRemoved 1; SM.EUnsubscribed 2 1; SM.EDrop 2; SM.EDisconnected 2])].
Proof. exact SMP.d12c_fixed. Qed.

Print Assumptions C12_bytesfilter_refines_window.
Print Assumptions C12_bytesfilter_last_n.
Print Assumptions C12_walker_each_pushed_once.
Print Assumptions C12_walker_drained.
Print Assumptions C12_walker_queue_order.
Print Assumptions C12_walker_queue_order_revisit.
Print Assumptions C12_walker_pushfront_front.
Print Assumptions C12_walker_reset.
Print Assumptions C12_refuted_walker_pushfront_pinned.
Print Assumptions C12_timeheap_refines_live_entries.
Print Assumptions C12_timeheap_windowed_sum.
Print Assumptions C12_refuted_timeheap_clear_pinned.
Print Assumptions C12_indexedstorage_refines_map.
Print Assumptions C12_onchangemap_keyed_store.
Print Assumptions C12_onchangemap_callbacks_mirror.
Print Assumptions C12_onchangemap_changed_sees_contents.
Print Assumptions C12_onchangemap_disabled_silent.
Print Assumptions C12_submgr_global_is_sum.
Print Assumptions C12_submgr_has_subscribers_is_sum.
Print Assumptions C12_submgr_events_mirror_state.
Print Assumptions C12_refuted_limit.
