(* C04 - KVStore views and wrappers obey one ordered-map contract. Statements only.
   Model: C04_KV/Model.v (mapdb + realm views + batches + flushkv/debug stacks, `run`; `hrun` = histories in
   which Iterate/IterateKeys consumers may call back into the store) and the specification `srun` / `shrun`:
   ONE association list kept in strictly ascending full-key order, views = realms, no wrappers,
   a batch = the list of its calls replayed in order on Commit, a re-entrant iteration = the range of the
   ordered map at call time followed by the consumer's calls.
   Not expressible in a value model (checked by the correspondence harness only, see notes/C04.md):
   "values returned by reads are private copies and mutating a caller's buffer after Set or Commit has
   returned does not change stored data". *)
From Coq Require Import NArith List Bool Sorting.Sorted.
From Verif.C04_KV Require Import Model Lemmas Proofs Char.
Import ListNotations.
Open Scope N_scope.

(* CENTRAL: for every history over every tree of views, wrapper stacks and batches - including Iterate /
   IterateKeys calls whose consumer calls back into the store (HIterRe: any script of history operations per
   callback) - every result (nested calls included), the debug log, the contents and the closed flag equal
   those of the single ordered map (`shrun`: the range of the ordered map AT CALL TIME, then the nested calls). *)
Theorem C04_refines : forall h : list hop,
  snd (hrun init h) = snd (shrun sinit h) /\
  log (w_st (fst (hrun init h))) = s_log (fst (shrun sinit h)) /\
  (forall k, abs (w_st (fst (hrun init h))) k = lookup k (s_map (fst (shrun sinit h)))) /\
  closed (w_st (fst (hrun init h))) = s_closed (fst (shrun sinit h)).
Proof. exact hrefines. Qed.

(* the same for histories without re-entrant consumers (round 1 statement; hrun (map HOp h) = run h) *)
Theorem C04_refines_plain : forall h : list op,
  snd (run init h) = snd (srun sinit h) /\
  log (w_st (fst (run init h))) = s_log (fst (srun sinit h)) /\
  (forall k, abs (w_st (fst (run init h))) k = lookup k (s_map (fst (srun sinit h)))) /\
  closed (w_st (fst (run init h))) = s_closed (fst (srun sinit h)).
Proof. exact refines. Qed.

Theorem C04_hrun_plain : forall h w,
  hrun w (map HOp h) = (fst (run w h), map (fun x => [x]) (snd (run w h))).
Proof. exact hrun_plain. Qed.

Theorem C04_spec_is_ordered_map : forall h, SS bleb (s_map (fst (shrun sinit h))).
Proof. exact hspec_map_sorted. Qed.

Theorem C04_reachable_inv : forall h, Inv (w_st (fst (hrun init h))).
Proof. exact hreachable_inv. Qed.

(* Get/Has see the last write; missing keys give ErrKeyNotFound / false; reads change nothing. *)
Theorem C04_get_spec : forall stk r k s, closed s = false ->
  snd (exec stk r (KGet k) s) = match abs s (r ++ k) with Some v => OVal v | None => ONotFound end
  /\ snd (exec stk r (KHas k) s) = OBool (match abs s (r ++ k) with Some _ => true | None => false end)
  /\ (forall k', abs (fst (exec stk r (KGet k) s)) k' = abs s k')
  /\ (forall k', abs (fst (exec stk r (KHas k) s)) k' = abs s k').
Proof. exact get_spec. Qed.

Theorem C04_set_spec : forall stk r k v s, closed s = false ->
  let s' := fst (exec stk r (KSet k v) s) in
  snd (exec stk r (KSet k v) s) = OOk /\ closed s' = false /\ (Inv s -> Inv s') /\
  forall k', abs s' k' = if beqb k' (r ++ k) then Some v else abs s k'.
Proof. exact set_spec. Qed.

Theorem C04_delete_spec : forall stk r k s, closed s = false ->
  let s' := fst (exec stk r (KDelete k) s) in
  snd (exec stk r (KDelete k) s) = OOk /\ closed s' = false /\ (Inv s -> Inv s') /\
  forall k', abs s' k' = if beqb k' (r ++ k) then None else abs s k'.
Proof. exact delete_spec. Qed.

(* DeletePrefix / Clear remove exactly the keys carrying realm||prefix (effect and frame in one equation). *)
Theorem C04_delete_prefix_exact : forall stk r p s, closed s = false ->
  let s' := fst (exec stk r (KDeletePrefix p) s) in
  snd (exec stk r (KDeletePrefix p) s) = OOk /\ closed s' = false /\ (Inv s -> Inv s') /\
  forall k', abs s' k' = if is_prefix (r ++ p) k' then None else abs s k'.
Proof. exact delete_prefix_spec. Qed.

Theorem C04_clear_exact : forall stk r s, closed s = false ->
  let s' := fst (exec stk r KClear s) in
  snd (exec stk r KClear s) = OOk /\ closed s' = false /\ (Inv s -> Inv s') /\
  forall k', abs s' k' = if is_prefix r k' then None else abs s k'.
Proof. exact clear_spec. Qed.

(* Views are one map: a write through (r1,k1) is seen through (r2,k2) iff r1||k1 = r2||k2. *)
Theorem C04_views_are_one_map : forall stk1 stk2 r1 r2 k1 k2 v s, closed s = false ->
  let s' := fst (exec stk1 r1 (KSet k1 v) s) in
  (r1 ++ k1 = r2 ++ k2 -> snd (exec stk2 r2 (KGet k2) s') = OVal v) /\
  (r1 ++ k1 <> r2 ++ k2 -> snd (exec stk2 r2 (KGet k2) s') = snd (exec stk2 r2 (KGet k2) s)).
Proof. exact views_are_one_map. Qed.

Theorem C04_straddling_realms : forall stk1 stk2 r x k v s, closed s = false ->
  snd (exec stk2 (r ++ x) (KGet k) (fst (exec stk1 r (KSet (x ++ k) v) s))) = OVal v.
Proof. exact straddling_realms. Qed.

(* Iterate reports exactly the keys with the prefix inside the realm, realm stripped ... *)
Theorem C04_iterate_exact : forall r p d s k v, Inv s ->
  (In (k, v) (iterate r p d (m s)) <-> exists k', k = p ++ k' /\ abs s (r ++ p ++ k') = Some v).
Proof. exact iterate_exact. Qed.

(* ... in strictly ascending (Backward: descending) byte order, hence every key once ... *)
Theorem C04_iterate_sorted : forall r p d s, Inv s ->
  StronglySorted (match d with DBwd => fun a b => blt b a | _ => blt end) (map fst (iterate r p d (m s))).
Proof. exact iterate_sorted. Qed.

Theorem C04_iterate_nodup : forall r p d s, Inv s -> NoDup (map fst (iterate r p d (m s))).
Proof. exact iterate_nodup. Qed.

(* ... and stops when the consumer says so (it returns false on its lim-th call); IterateKeys = the keys. *)
Theorem C04_iterate_stops : forall stk r p d lim s, closed s = false -> d <> DBad ->
  snd (exec stk r (KIterate p d lim) s) = OKVs (firstn (Nat.max 1 lim) (iterate r p d (m s))) /\
  snd (exec stk r (KIterateKeys p d lim) s) = OKeys (map fst (firstn (Nat.max 1 lim) (iterate r p d (m s)))) /\
  (forall k', abs (fst (exec stk r (KIterate p d lim) s)) k' = abs s k').
Proof. exact iterate_stops. Qed.

(* Re-entrant consumers: when the consumer of Iterate / IterateKeys calls back into the store (script = the
   history operations it performs at callback 0, 1, ... through any view, wrapper or batch), the delivered list
   is the iteration of the state AT CALL TIME - keys and values as they were together at that instant, whatever
   the script writes -, the consumer runs once per delivered entry, and the world afterwards is the fold of the
   consumer's operations (in order) over the state at call time; the nested calls' results are those of `run`. *)
Theorem C04_iterate_snapshot_reentrant : forall w v vw ko p d lim script,
  nth_error (w_views w) v = Some vw -> closed (w_st w) = false -> d <> DBad ->
  let snap := firstn (Nat.max 1 lim) (iterate (v_realm vw) p d (m (w_st w))) in
  let ops := consumer_ops (length snap) script in
  let w0 := after_snapshot w vw (iter_op ko p d lim) in
  hstep w (HIterRe v ko p d lim script) = (fst (run w0 ops), delivered ko snap :: snd (run w0 ops)).
Proof. exact iterate_snapshot_reentrant. Qed.

Theorem C04_iterate_reentrant_delivery_independent : forall w v ko p d lim script,
  hd OBadHandle (snd (hstep w (HIterRe v ko p d lim script))) = snd (step w (OpKV v (iter_op ko p d lim))).
Proof. exact iterate_reentrant_delivery_independent. Qed.

Theorem C04_iterate_reentrant_no_callbacks : forall w v vw ko p d lim script,
  nth_error (w_views w) v = Some vw -> closed (w_st w) = true \/ d = DBad ->
  hstep w (HIterRe v ko p d lim script) =
    (after_snapshot w vw (iter_op ko p d lim), [if closed (w_st w) then OClosed else OPanic]).
Proof. exact iterate_reentrant_no_callbacks. Qed.

(* A batch applies the last operation per key on Commit (bbuild = the batch's two Go maps after the calls) ... *)
Theorem C04_commit_last_op_per_key : forall stk r ops s, closed s = false ->
  let c := KCommit (fst (bbuild ops)) (snd (bbuild ops)) in
  let s' := fst (exec stk r c s) in
  snd (exec stk r c s) = OOk /\ (Inv s -> Inv s') /\
  (forall k, abs s' (r ++ k) = match lact ops k with Some a => a | None => abs s (r ++ k) end) /\
  (forall k', is_prefix r k' = false -> abs s' k' = abs s k').
Proof. exact commit_last_op_per_key. Qed.

(* ... and nothing on Cancel. *)
Theorem C04_cancel_noop : forall stk r s, closed s = false ->
  snd (exec stk r (KCommit [] []) s) = OOk /\ forall k, abs (fst (exec stk r (KCommit [] []) s)) k = abs s k.
Proof. exact cancel_noop. Qed.

(* After Close every read, write, iteration, view creation, batch creation, Flush and Commit on every view
   fails with ErrStoreClosed and changes nothing; the store never reopens. *)
Theorem C04_closed_all_fail : forall stk r o s, closed s = true -> fails_when_closed o = true ->
  snd (exec stk r o s) = OClosed /\ m (fst (exec stk r o s)) = m s /\ closed (fst (exec stk r o s)) = true.
Proof. exact closed_all_fail. Qed.

Theorem C04_closed_world_all_fail : forall w o, closed (w_st w) = true -> op_fails_when_closed o = true ->
  snd (step w o) = OClosed \/ snd (step w o) = OBadHandle.
Proof. exact closed_world_all_fail. Qed.

Theorem C04_close_spec : forall stk r s,
  snd (exec stk r KClose s) = OOk /\ closed (fst (exec stk r KClose s)) = true /\ m (fst (exec stk r KClose s)) = m s.
Proof. exact close_spec. Qed.

Theorem C04_closed_state_frozen : forall h w, closed (w_st w) = true ->
  m (w_st (fst (hrun w h))) = m (w_st w) /\ closed (w_st (fst (hrun w h))) = true.
Proof. exact hclosed_state_frozen. Qed.

(* Any stack of flushkv/debug wrappers is transparent; the debug log is the filtered list of calls. *)
Theorem C04_wrapper_transparent : forall stk r o s,
  snd (exec stk r o s) = snd (exec [] r o s) /\
  m (fst (exec stk r o s)) = m (fst (exec [] r o s)) /\
  closed (fst (exec stk r o s)) = closed (fst (exec [] r o s)) /\
  log (fst (exec stk r o s)) = rev (log_of stk o) ++ log s.
Proof. exact wrapper_transparent. Qed.

(* (round 5) debug.New(store, nil, filters...) - no access callback: whatever the filters, the wrapper is the one with the
   zero mask; it adds nothing to the log (and is transparent like every other stack, by C04_wrapper_transparent). *)
Theorem C04_debug_nil_callback : forall id stk o,
  debug_mask nocb_filters = 0%N /\ log_of (WDebug id (debug_mask nocb_filters) :: stk) o = log_of stk o.
Proof.
  intros id stk o. split; [reflexivity|].
  change (debug_mask nocb_filters) with 0%N. unfold log_of. destruct (cmd_of o) as [[c ps]|]; reflexivity.
Qed.

(* flushkv is flush-on-write: one Flush reaches the store per flushkv wrapper after each successful mutation. *)
Theorem C04_flush_on_write : forall stk r o s,
  nfl (fst (exec stk r o s)) = (nfl s + flushes_of stk o (snd (exec [] r o s)))%nat.
Proof. exact flush_on_write. Qed.

(* ---------- non-vacuity: an open and a closed reachable state with three views and data ---------- *)
Definition demo : list op :=
  [OpWithRealm 0 [0]; OpWithExtRealm 1 [255]; OpWrapFlush 2; OpWrapDebug 3 1 [];
   OpKV 4 (KSet [97] [7]); OpKV 1 (KSet [255; 255] [8]); OpKV 0 (KSet [1] [9])].

Example C04_nonvacuous_open :
  let s := w_st (fst (run init demo)) in
  closed s = false /\ Inv s /\ length (m s) = 3%nat /\
  snd (exec [] [0] (KIterate [255] DBwd 5) s) = OKVs [([255; 255], [8]); ([255; 97], [7])] /\
  log s = [(1, 16, [[97]; [7]])] /\ nfl s = 1%nat.
Proof. repeat split; try reflexivity. apply (C04_reachable_inv (map HOp demo)). Qed.

Example C04_nonvacuous_closed :
  let w := fst (run init (demo ++ [OpKV 3 KClose])) in
  closed (w_st w) = true /\ length (m (w_st w)) = 3%nat /\ snd (step w (OpKV 1 (KGet [255; 97]))) = OClosed /\
  op_fails_when_closed (OpKV 1 (KGet [255; 97])) = true.
Proof. repeat split; reflexivity. Qed.

Example C04_nonvacuous_batch :
  bbuild [BD [1]; BS [1] [2]; BS [3] [4]; BD [3]] = ([([1], [2])], [[3]]) /\
  lact [BD [1]; BS [1] [2]; BS [3] [4]; BD [3]] [1] = Some (Some [2]) /\
  lact [BD [1]; BS [1] [2]; BS [3] [4]; BD [3]] [3] = Some None.
Proof. repeat split; reflexivity. Qed.

(* a consumer that, while handling the first entry, rewrites one and removes another of the entries still to
   come (through a wrapped view and through the root view) and reads one back: the snapshot is delivered, the
   nested Get sees the new value, the store afterwards reflects the writes *)
Definition demo_re : list hop :=
  map HOp [OpWithRealm 0 [114]; OpWrapDebug 1 7 [16]; OpKV 1 (KSet [1] [10]); OpKV 1 (KSet [2] [20]); OpKV 1 (KSet [3] [30])] ++
  [HIterRe 1 false [] DBwd 100 [[OpKV 2 (KSet [2] [21]); OpKV 0 (KDelete [114; 1]); OpKV 1 (KGet [2])]; []; [OpKV 1 (KSet [4] [40])]];
   HOp (OpKV 1 (KIterate [] DFwd 100))].

Example C04_nonvacuous_reentrant :
  snd (hrun init demo_re) =
    [[OOk]; [OOk]; [OOk]; [OOk]; [OOk];
     [OKVs [([3], [30]); ([2], [20]); ([1], [10])]; OOk; OOk; OVal [21]; OOk];
     [OKVs [([2], [21]); ([3], [30]); ([4], [40])]]] /\
  log (w_st (fst (hrun init demo_re))) = [(7, 16, [[2]; [21]])] /\
  let w := fst (hrun init (firstn 5 demo_re)) in
  nth_error (w_views w) 1 = Some (mkView [114] []) /\ closed (w_st w) = false.
Proof. repeat split; reflexivity. Qed.

Print Assumptions C04_refines.
Print Assumptions C04_refines_plain.
Print Assumptions C04_hrun_plain.
Print Assumptions C04_iterate_snapshot_reentrant.
Print Assumptions C04_iterate_reentrant_delivery_independent.
Print Assumptions C04_iterate_reentrant_no_callbacks.
Print Assumptions C04_spec_is_ordered_map.
Print Assumptions C04_reachable_inv.
Print Assumptions C04_get_spec.
Print Assumptions C04_set_spec.
Print Assumptions C04_delete_spec.
Print Assumptions C04_delete_prefix_exact.
Print Assumptions C04_clear_exact.
Print Assumptions C04_views_are_one_map.
Print Assumptions C04_straddling_realms.
Print Assumptions C04_iterate_exact.
Print Assumptions C04_iterate_sorted.
Print Assumptions C04_iterate_nodup.
Print Assumptions C04_iterate_stops.
Print Assumptions C04_commit_last_op_per_key.
Print Assumptions C04_cancel_noop.
Print Assumptions C04_closed_all_fail.
Print Assumptions C04_closed_world_all_fail.
Print Assumptions C04_close_spec.
Print Assumptions C04_closed_state_frozen.
Print Assumptions C04_wrapper_transparent.
Print Assumptions C04_debug_nil_callback.
Print Assumptions C04_flush_on_write.
