(* C04 - KVStore views and wrappers obey one ordered-map contract. Statements only.
   Model: C04_KV/Model.v (mapdb + realm views + batches + flushkv/debug stacks, `run`) and the specification
   `srun`: ONE association list kept in strictly ascending full-key order, views = realms, no wrappers,
   a batch = the list of its calls replayed in order on Commit.
   Not expressible in a value model (checked by the correspondence harness only, see notes/C04.md):
   "values returned by reads are private copies and mutating a caller's buffer after Set or Commit has
   returned does not change stored data". *)
From Coq Require Import NArith List Bool Sorting.Sorted.
From Verif.C04_KV Require Import Model Lemmas Proofs Char.
Import ListNotations.
Open Scope N_scope.

(* CENTRAL: for every history over every tree of views, wrapper stacks and batches, every result, the debug
   log, the contents and the closed flag equal those of the single ordered map. *)
Theorem C04_refines : forall h : list op,
  snd (run init h) = snd (srun sinit h) /\
  log (w_st (fst (run init h))) = s_log (fst (srun sinit h)) /\
  (forall k, abs (w_st (fst (run init h))) k = lookup k (s_map (fst (srun sinit h)))) /\
  closed (w_st (fst (run init h))) = s_closed (fst (srun sinit h)).
Proof. exact refines. Qed.

Theorem C04_spec_is_ordered_map : forall h, SS bleb (s_map (fst (srun sinit h))).
Proof. exact spec_map_sorted. Qed.

Theorem C04_reachable_inv : forall h, Inv (w_st (fst (run init h))).
Proof. exact reachable_inv. Qed.

(* Get/Has see the last write; missing keys give ErrKeyNotFound / false; reads change nothing. *)
Theorem C04_get_spec : forall stk r k s, closed s = false ->
  snd (exec stk r (KGet k) s) = match abs s (r ++ k) with Some v => OVal v | None => ONotFound end
  /\ snd (exec stk r (KHas k) s) = OBool (match abs s (r ++ k) with Some _ => true | None => false end)
  /\ (forall k', abs (fst (exec stk r (KGet k) s)) k' = abs s k')
  /\ (forall k', abs (fst (exec stk r (KHas k) s)) k' = abs s k').
Proof. exact get_spec. Qed.

Theorem C04_set_spec : forall stk r k v s, closed s = false ->
  let s' := fst (exec stk r (KSet k v) s) in
  snd (exec stk r (KSet k v) s) = OOk /\ closed s' = false /\ (Inv s -> Inv s') /\
  forall k', abs s' k' = if beqb k' (r ++ k) then Some v else abs s k'.
Proof. exact set_spec. Qed.

Theorem C04_delete_spec : forall stk r k s, closed s = false ->
  let s' := fst (exec stk r (KDelete k) s) in
  snd (exec stk r (KDelete k) s) = OOk /\ closed s' = false /\ (Inv s -> Inv s') /\
  forall k', abs s' k' = if beqb k' (r ++ k) then None else abs s k'.
Proof. exact delete_spec. Qed.

(* DeletePrefix / Clear remove exactly the keys carrying realm||prefix (effect and frame in one equation). *)
Theorem C04_delete_prefix_exact : forall stk r p s, closed s = false ->
  let s' := fst (exec stk r (KDeletePrefix p) s) in
  snd (exec stk r (KDeletePrefix p) s) = OOk /\ closed s' = false /\ (Inv s -> Inv s') /\
  forall k', abs s' k' = if is_prefix (r ++ p) k' then None else abs s k'.
Proof. exact delete_prefix_spec. Qed.

Theorem C04_clear_exact : forall stk r s, closed s = false ->
  let s' := fst (exec stk r KClear s) in
  snd (exec stk r KClear s) = OOk /\ closed s' = false /\ (Inv s -> Inv s') /\
  forall k', abs s' k' = if is_prefix r k' then None else abs s k'.
Proof. exact clear_spec. Qed.

(* Views are one map: a write through (r1,k1) is seen through (r2,k2) iff r1||k1 = r2||k2. *)
Theorem C04_views_are_one_map : forall stk1 stk2 r1 r2 k1 k2 v s, closed s = false ->
  let s' := fst (exec stk1 r1 (KSet k1 v) s) in
  (r1 ++ k1 = r2 ++ k2 -> snd (exec stk2 r2 (KGet k2) s') = OVal v) /\
  (r1 ++ k1 <> r2 ++ k2 -> snd (exec stk2 r2 (KGet k2) s') = snd (exec stk2 r2 (KGet k2) s)).
Proof. exact views_are_one_map. Qed.

Theorem C04_straddling_realms : forall stk1 stk2 r x k v s, closed s = false ->
  snd (exec stk2 (r ++ x) (KGet k) (fst (exec stk1 r (KSet (x ++ k) v) s))) = OVal v.
Proof. exact straddling_realms. Qed.

(* Iterate reports exactly the keys with the prefix inside the realm, realm stripped ... *)
Theorem C04_iterate_exact : forall r p d s k v, Inv s ->
  (In (k, v) (iterate r p d (m s)) <-> exists k', k = p ++ k' /\ abs s (r ++ p ++ k') = Some v).
Proof. exact iterate_exact. Qed.

(* ... in strictly ascending (Backward: descending) byte order, hence every key once ... *)
Theorem C04_iterate_sorted : forall r p d s, Inv s ->
  StronglySorted (match d with DBwd => fun a b => blt b a | _ => blt end) (map fst (iterate r p d (m s))).
Proof. exact iterate_sorted. Qed.

Theorem C04_iterate_nodup : forall r p d s, Inv s -> NoDup (map fst (iterate r p d (m s))).
Proof. exact iterate_nodup. Qed.

(* ... and stops when the consumer says so (it returns false on its lim-th call); IterateKeys = the keys. *)
Theorem C04_iterate_stops : forall stk r p d lim s, closed s = false -> d <> DBad ->
  snd (exec stk r (KIterate p d lim) s) = OKVs (firstn (Nat.max 1 lim) (iterate r p d (m s))) /\
  snd (exec stk r (KIterateKeys p d lim) s) = OKeys (map fst (firstn (Nat.max 1 lim) (iterate r p d (m s)))) /\
  (forall k', abs (fst (exec stk r (KIterate p d lim) s)) k' = abs s k').
Proof. exact iterate_stops. Qed.

(* A batch applies the last operation per key on Commit (bbuild = the batch's two Go maps after the calls) ... *)
Theorem C04_commit_last_op_per_key : forall stk r ops s, closed s = false ->
  let c := KCommit (fst (bbuild ops)) (snd (bbuild ops)) in
  let s' := fst (exec stk r c s) in
  snd (exec stk r c s) = OOk /\ (Inv s -> Inv s') /\
  (forall k, abs s' (r ++ k) = match lact ops k with Some a => a | None => abs s (r ++ k) end) /\
  (forall k', is_prefix r k' = false -> abs s' k' = abs s k').
Proof. exact commit_last_op_per_key. Qed.

(* ... and nothing on Cancel. *)
Theorem C04_cancel_noop : forall stk r s, closed s = false ->
  snd (exec stk r (KCommit [] []) s) = OOk /\ forall k, abs (fst (exec stk r (KCommit [] []) s)) k = abs s k.
Proof. exact cancel_noop. Qed.

(* After Close every read, write, iteration, view creation, batch creation, Flush and Commit on every view
   fails with ErrStoreClosed and changes nothing; the store never reopens. *)
Theorem C04_closed_all_fail : forall stk r o s, closed s = true -> fails_when_closed o = true ->
  snd (exec stk r o s) = OClosed /\ m (fst (exec stk r o s)) = m s /\ closed (fst (exec stk r o s)) = true.
Proof. exact closed_all_fail. Qed.

Theorem C04_closed_world_all_fail : forall w o, closed (w_st w) = true -> op_fails_when_closed o = true ->
  snd (step w o) = OClosed \/ snd (step w o) = OBadHandle.
Proof. exact closed_world_all_fail. Qed.

Theorem C04_close_spec : forall stk r s,
  snd (exec stk r KClose s) = OOk /\ closed (fst (exec stk r KClose s)) = true /\ m (fst (exec stk r KClose s)) = m s.
Proof. exact close_spec. Qed.

Theorem C04_closed_state_frozen : forall h w, closed (w_st w) = true ->
  m (w_st (fst (run w h))) = m (w_st w) /\ closed (w_st (fst (run w h))) = true.
Proof. exact closed_state_frozen. Qed.

(* Any stack of flushkv/debug wrappers is transparent; the debug log is the filtered list of calls. *)
Theorem C04_wrapper_transparent : forall stk r o s,
  snd (exec stk r o s) = snd (exec [] r o s) /\
  m (fst (exec stk r o s)) = m (fst (exec [] r o s)) /\
  closed (fst (exec stk r o s)) = closed (fst (exec [] r o s)) /\
  log (fst (exec stk r o s)) = rev (log_of stk o) ++ log s.
Proof. exact wrapper_transparent. Qed.

(* flushkv is flush-on-write: one Flush reaches the store per flushkv wrapper after each successful mutation. *)
Theorem C04_flush_on_write : forall stk r o s,
  nfl (fst (exec stk r o s)) = (nfl s + flushes_of stk o (snd (exec [] r o s)))%nat.
Proof. exact flush_on_write. Qed.

(* ---------- non-vacuity: an open and a closed reachable state with three views and data ---------- *)
Definition demo : list op :=
  [OpWithRealm 0 [0]; OpWithExtRealm 1 [255]; OpWrapFlush 2; OpWrapDebug 3 1 [];
   OpKV 4 (KSet [97] [7]); OpKV 1 (KSet [255; 255] [8]); OpKV 0 (KSet [1] [9])].

Example C04_nonvacuous_open :
  let s := w_st (fst (run init demo)) in
  closed s = false /\ Inv s /\ length (m s) = 3%nat /\
  snd (exec [] [0] (KIterate [255] DBwd 5) s) = OKVs [([255; 255], [8]); ([255; 97], [7])] /\
  log s = [(1, 16, [[97]; [7]])] /\ nfl s = 1%nat.
Proof. repeat split; try reflexivity. apply reachable_inv. Qed.

Example C04_nonvacuous_closed :
  let w := fst (run init (demo ++ [OpKV 3 KClose])) in
  closed (w_st w) = true /\ length (m (w_st w)) = 3%nat /\ snd (step w (OpKV 1 (KGet [255; 97]))) = OClosed /\
  op_fails_when_closed (OpKV 1 (KGet [255; 97])) = true.
Proof. repeat split; reflexivity. Qed.

Example C04_nonvacuous_batch :
  bbuild [BD [1]; BS [1] [2]; BS [3] [4]; BD [3]] = ([([1], [2])], [[3]]) /\
  lact [BD [1]; BS [1] [2]; BS [3] [4]; BD [3]] [1] = Some (Some [2]) /\
  lact [BD [1]; BS [1] [2]; BS [3] [4]; BD [3]] [3] = Some None.
Proof. repeat split; reflexivity. Qed.

Print Assumptions C04_refines.
Print Assumptions C04_spec_is_ordered_map.
Print Assumptions C04_reachable_inv.
Print Assumptions C04_get_spec.
Print Assumptions C04_set_spec.
Print Assumptions C04_delete_spec.
Print Assumptions C04_delete_prefix_exact.
Print Assumptions C04_clear_exact.
Print Assumptions C04_views_are_one_map.
Print Assumptions C04_straddling_realms.
Print Assumptions C04_iterate_exact.
Print Assumptions C04_iterate_sorted.
Print Assumptions C04_iterate_nodup.
Print Assumptions C04_iterate_stops.
Print Assumptions C04_commit_last_op_per_key.
Print Assumptions C04_cancel_noop.
Print Assumptions C04_closed_all_fail.
Print Assumptions C04_closed_world_all_fail.
Print Assumptions C04_close_spec.
Print Assumptions C04_closed_state_frozen.
Print Assumptions C04_wrapper_transparent.
Print Assumptions C04_flush_on_write.
