(* C04 - KVStore views and wrappers obey one ordered-map contract. Statements only. (placeholder, filled later) *)
From Coq Require Import NArith List.
From Verif.C04_KV Require Import Model.
