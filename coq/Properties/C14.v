(* C14 - derived reactive values converge to their defining function. Statements only (filled in below). *)
From Coq Require Import ZArith NArith List Bool.
From Verif.C14_Derived Require Import Model.
Import ListNotations.
