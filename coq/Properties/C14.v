(* C14 - derived reactive values converge to their defining function. Statements only.
   Models: C14_Derived/Model.v (one step = one API call run to completion incl. nested callbacks; lower layer =
   property C13 taken as interface).  Interleaving models: WGI (WaitGroup), LK (SortedSet lock skeleton). *)
From Coq Require Import ZArith NArith List Bool Sorting.Sorted.
From Verif.C14_Derived Require Import Model ModelDVI ModelEVR.
From Verif.C14_Derived Require ProofsDVI ProofsEVR.
From Verif.C14_Derived Require ProofsDV ProofsCT ProofsSS ProofsEV ProofsWG ProofsLK ProofsSN.
Import ListNotations.

(* ---- (1) DerivedVariable1..4 / InheritFrom: after ANY history of input writes, unsubscribes, inheritance changes,
        the derived variable equals compute(current inputs) (guards: still subscribed, never written directly, compute
        ignores the current value) and an inheriting variable equals its source *)
Theorem C14_derived_converges : forall f xs i h, DV.pure_fn f = true -> xs <> [] ->
  let s := DV.run (DV.init f xs i) h in
  DV.ddirty s = false -> DV.dsub s = true -> DV.d s = DV.apply_fn f 0 (DV.ins s).
Proof. exact ProofsDV.dv_converges. Qed.

Theorem C14_inherit_copies_source : forall f xs i h, DV.pure_fn f = true -> xs <> [] ->
  let s := DV.run (DV.init f xs i) h in
  DV.tdirty s = false -> (0 < DV.tsub s)%nat -> DV.t s = DV.d s.
Proof. exact ProofsDV.dv_inherit_copies. Qed.

Theorem C14_derived_chain : forall f xs i h, DV.pure_fn f = true -> xs <> [] ->
  let s := DV.run (DV.init f xs i) h in
  DV.ddirty s = false -> DV.dsub s = true -> DV.tdirty s = false -> (0 < DV.tsub s)%nat ->
  DV.t s = DV.apply_fn f 0 (DV.ins s).
Proof. exact ProofsDV.dv_chain. Qed.

Example C14_derived_nonvacuous :
  let s := DV.run (DV.init DV.FLin [1; 2; 0]%Z 7%Z)
             [DV.OInherit; DV.OSetIn 0 5%Z; DV.OSetIn 2 (-3)%Z; DV.OSetT 4%Z; DV.OInherit; DV.OSetIn 1 1%Z; DV.OUnInherit; DV.OSetIn 0 0%Z] in
  DV.ddirty s = false /\ DV.dsub s = true /\ DV.tdirty s = false /\ (0 < DV.tsub s)%nat /\ DV.d s = 0%Z /\ DV.t s = 0%Z /\ DV.ins s = [0; 1; -3]%Z.
Proof. exact ProofsDV.dv_nonvacuous. Qed.

(* ---- (1b) DerivedVariable2 under ALL interleavings (ModelDVI.v: two inputs each with its update-order mutex, the
        derived variable's Compute lock, the recompute reading the other input inside the critical section, an
        inheriting variable): whatever the writers' programs and the schedule of their atomic steps, once all
        writers have returned the derived variable equals compute(input1, input2) and the inheriting variable
        equals it; and no combination of writes deadlocks (a non-quiescent reachable state has an enabled thread
        whose step decreases the remaining work; quiescence is reachable from every reachable state) *)
Theorem C14_derived_converges_all_schedules : forall (f : Z -> Z -> Z) a b progs sched,
  let s := DVI.run false f (DVI.init f a b progs) sched in
  DVI.quiescent s = true -> DVI.d s = f (DVI.in1 s) (DVI.in2 s) /\ DVI.t s = DVI.d s.
Proof. exact ProofsDVI.dvi_converges. Qed.

Theorem C14_derived_no_deadlock : forall (f : Z -> Z -> Z) a b progs sched,
  let s := DVI.run false f (DVI.init f a b progs) sched in
  (DVI.quiescent s = false -> exists k, DVI.enabled s k = true /\ (DVI.left (DVI.step false f s k) < DVI.left s)%nat) /\
  exists more, DVI.quiescent (DVI.run false f s more) = true.
Proof. exact ProofsDVI.dvi_no_deadlock. Qed.

(* the variant whose callback reads the other input BEFORE entering d.Compute (DVI.step true) does not converge:
   writer 0 = input1.Set(1) reads input2 = 0, writer 1 = input2.Set(1) runs completely, writer 0 stores compute(1, 0) *)
Theorem C14_refuted_derived_early_read :
  let s := DVI.run true ProofsDVI.f10 (DVI.init ProofsDVI.f10 0 0 ProofsDVI.early_progs) ProofsDVI.early_sched in
  DVI.quiescent s = true /\ DVI.in1 s = 1%Z /\ DVI.in2 s = 1%Z /\ DVI.d s = 10%Z /\ DVI.t s = 10%Z /\
  DVI.d s <> ProofsDVI.f10 (DVI.in1 s) (DVI.in2 s).
Proof. exact ProofsDVI.dvi_refuted_early_read. Qed.

Example C14_derived_all_schedules_nonvacuous :
  let s := DVI.run false ProofsDVI.f10 (DVI.init ProofsDVI.f10 0 0 ProofsDVI.early_progs)
             [0; 0; 0; 1; 1; 1; 1; 0; 0; 1; 0; 0; 0; 1; 1; 1; 1; 1; 1]%nat in
  DVI.quiescent s = true /\ DVI.in1 s = 1%Z /\ DVI.in2 s = 1%Z /\ DVI.d s = 11%Z /\ DVI.t s = 11%Z.
Proof. exact ProofsDVI.dvi_nonvacuous. Qed.

(* ---- (2) DerivedSet = union of the current sources, SubtractReactive = source minus the others (all histories of
        Add/Delete/AddAll/DeleteAll/Apply/Replace on the sources, InheritFrom, unsubscribing; guards: the derived set is
        not written directly, an unsubscribe function is called at most once, list arguments are duplicate-free) *)
Theorem C14_union : forall bs h, ProofsSN.wf_bases bs -> Forall ProofsSN.wf_op h ->
  let s := SN.run (SN.init bs) h in
  SN.ddirty s = false -> Forall (fun sb => (SN.unsubs sb <= 1)%nat) (SN.subs s) ->
  NoDup (SN.dval s) /\
  forall e, In e (SN.dval s) <->
    exists sb l, In sb (SN.subs s) /\ SN.active sb = true /\ nth_error (SN.bases s) (SN.src sb) = Some l /\ In e l.
Proof. exact ProofsSN.sn_union. Qed.

Theorem C14_subtract : forall bs h, ProofsSN.wf_bases bs -> Forall ProofsSN.wf_op h ->
  let s := SN.run (SN.init bs) h in
  forall r, SN.rs s = Some r ->
  NoDup (SN.rval r) /\
  forall e, In e (SN.rval r) <->
    (exists l, nth_error (SN.bases s) (SN.rsrc r) = Some l /\ In e l) /\
    (forall o l, In o (SN.roth r) -> nth_error (SN.bases s) o = Some l -> ~ In e l).
Proof. exact ProofsSN.sn_subtract. Qed.

(* ---- (3) Counter = number of monitored inputs satisfying the condition (an unsubscribed monitor keeps the
        contribution it had: Monitor's unsubscribe does not retract it) *)
Theorem C14_counter : forall c xs h, let s := CT.run (CT.init c xs) h in
  CT.dirty s = false -> CT.cnt s = CT.spec_count c (CT.ins s) (CT.mons s).
Proof. exact ProofsCT.ct_count. Qed.

Theorem C14_counter_all_subscribed : forall c xs h, let s := CT.run (CT.init c xs) h in
  CT.dirty s = false -> forallb CT.act (CT.mons s) = true ->
  CT.cnt s = Z.of_nat (length (filter (fun m => CT.holds c (nth (CT.inp m) (CT.ins s) 0%Z)) (CT.mons s))).
Proof. exact ProofsCT.ct_count_all_active. Qed.

(* ---- (4) SortedSet: after ANY history of set operations and weight changes (also of removed elements): index
        fields = positions, same elements as the set, recorded weights current, sorted by (weight, tie-break),
        Heaviest/Lightest are the ends *)
Theorem C14_sortedset_invariant : forall tb h, ProofsSS.Inv (SS.run (SS.init tb) h).
Proof. exact ProofsSS.ss_inv_run. Qed.

Theorem C14_sortedset_sorted_by_current_weight : forall tb h, let s := SS.run (SS.init tb) h in
  StronglySorted (fun a b => ProofsSS.elt tb (SS.wv s) a b = false) (map SS.el (SS.sorted s)).
Proof. exact ProofsSS.ss_sorted_by_current_weight. Qed.

Theorem C14_sortedset_same_elements : forall tb h, let s := SS.run (SS.init tb) h in
  NoDup (map SS.el (SS.sorted s)) /\ forall e, In e (map SS.el (SS.sorted s)) <-> In e (SS.base s).
Proof. exact ProofsSS.ss_same_elements. Qed.

Theorem C14_sortedset_ends : forall tb h, let s := SS.run (SS.init tb) h in
  SS.hv s = hd 0%N (map SS.el (SS.sorted s)) /\ SS.lv s = last (map SS.el (SS.sorted s)) 0%N.
Proof. exact ProofsSS.ss_ends. Qed.

Theorem C14_sortedset_indices : forall tb h, let s := SS.run (SS.init tb) h in
  forall i r, nth_error (SS.sorted s) i = Some r -> SS.idx r = i.
Proof. exact ProofsSS.ss_indices. Qed.

(* ---- (6) EvictionState: an event handed out for a slot is triggered iff slot <= last evicted slot *)
Theorem C14_eviction : forall h, let s := EV.run EV.init h in
  forall slot hd, In (slot, hd) (EV.handles s) ->
  EV.triggered s hd = match EV.last s with None => false | Some l => (slot <=? l)%N end.
Proof. exact ProofsEV.ev_triggered_iff_evicted. Qed.

Theorem C14_eviction_stored_untriggered : forall h, let s := EV.run EV.init h in
  forall k id, In (k, id) (EV.evs s) -> EV.after_last (EV.last s) k = true /\ EV.triggered s (Some id) = false.
Proof. exact ProofsEV.ev_stored_untriggered. Qed.

(* ---- (6') EvictionState with RE-ENTRANT handlers (ModelEVR.v: Evict = lock, advance + collect, RELEASE the lock, then
        trigger; a handler is an arbitrary script of LastEvictedSlot / EvictionEvent(slot').OnTrigger(handler') / Evict(slot')
        calls on the same state, nested to any depth). For every history: every call returns (the machine is never stuck
        on e.mutex and the work measure suffices as fuel), and at every quiescent point every event ever handed out - to a
        top-level caller or to a handler - is triggered iff its slot is at or below the last evicted slot *)
Theorem C14_eviction_reentrant_handlers_complete : forall h,
  exists s, EVR.run false EVR.init h = EVR.Done s /\ EVR.locked s = false.
Proof. exact ProofsEVR.evr_reentrant_handlers_complete. Qed.

Theorem C14_eviction_reentrant_never_stuck : forall n s stk, EVR.locked s = false ->
  forall s0 k, EVR.exec false n s stk <> EVR.Stuck s0 k.
Proof. exact ProofsEVR.evr_never_stuck. Qed.

Theorem C14_eviction_reentrant : forall h s, EVR.run false EVR.init h = EVR.Done s ->
  forall slot hd, In (slot, hd) (EV.handles (EVR.base s)) ->
  EV.triggered (EVR.base s) hd = match EV.last (EVR.base s) with None => false | Some l => (slot <=? l)%N end.
Proof. exact ProofsEVR.evr_triggered_iff_evicted. Qed.

Theorem C14_eviction_reentrant_stored_untriggered : forall h s, EVR.run false EVR.init h = EVR.Done s ->
  forall k id, In (k, id) (EV.evs (EVR.base s)) ->
  EV.after_last (EV.last (EVR.base s)) k = true /\ EV.triggered (EVR.base s) (Some id) = false.
Proof. exact ProofsEVR.evr_stored_untriggered. Qed.

Example C14_eviction_reentrant_nonvacuous :
  exists s, EVR.run false EVR.init [ProofsEVR.chain3; EVR.AEvent 7 []; EVR.AEvict 0; EVR.AEvict 3; EVR.AEvent 2 [EVR.AEvict 5; EVR.ALast]] = EVR.Done s /\
  EVR.obs s = (5, [true; false; true; true; true; true], [3; 101; 3; 102; 3; 103; 5; 104; 5])%N.
Proof. exact ProofsEVR.evr_nonvacuous. Qed.

(* the variant that triggers the collected events while e.mutex is still write-locked (EVR.step true) is stuck on
   EvictionEvent(1).OnTrigger(LastEvictedSlot); Evict(1): the handler's read needs the mutex its own goroutine holds;
   the same as a lock skeleton (Lock; [RLock; RUnlock]; Unlock on one non-re-entrant mutex) *)
Theorem C14_refuted_eviction_trigger_under_lock :
  exists s stk, EVR.run true EVR.init [EVR.AEvent 1 [EVR.ALast]; EVR.AEvict 1] = EVR.Stuck s stk /\
                EVR.locked s = true /\ hd_error stk = Some (EVR.IAct EVR.ALast) /\ EV.last (EVR.base s) = Some 1%N.
Proof. exact ProofsEVR.evr_refuted_trigger_under_lock. Qed.

Theorem C14_refuted_eviction_skeleton_under_lock :
  LK.deadlocked [ProofsEVR.evict_under_lock] (LK.run [ProofsEVR.evict_under_lock] [0] [0]) = true.
Proof. exact ProofsEVR.evr_skeleton_under_lock_stuck. Qed.

(* ---- (5) WaitGroup, all interleavings of the atomic steps of any Add/Done programs (code after 2702b2b) *)
Theorem C14_waitgroup_triggers_only_when_emptied : forall progs sched,
  let s := WGI.run true (WGI.init progs) sched in WGI.trig s = true -> WGI.emptied s = true.
Proof. exact ProofsWG.wg_trigger_sound. Qed.

Theorem C14_waitgroup_trigger_moment : forall progs sched i,
  let s := WGI.run true (WGI.init progs) sched in
  WGI.trig s = false -> WGI.trig (WGI.step true s i) = true ->
  WGI.pending (WGI.step true s i) = [] /\ ProofsWG.sum_owed (WGI.threads (WGI.step true s i)) = 0%Z.
Proof. exact ProofsWG.wg_trigger_moment. Qed.

Theorem C14_waitgroup_triggers_when_done : forall progs sched,
  let s := WGI.run true (WGI.init progs) sched in
  WGI.quiescent s = true -> WGI.pending s = [] -> WGI.ever s = true -> WGI.trig s = true.
Proof. exact ProofsWG.wg_trigger_complete. Qed.

Theorem C14_waitgroup : forall progs sched,
  let s := WGI.run true (WGI.init progs) sched in
  WGI.quiescent s = true -> WGI.pending s = [] -> (WGI.trig s = true <-> WGI.emptied s = true).
Proof. exact ProofsWG.wg_trigger_iff. Qed.

(* D14c: the pinned code (before 2702b2b) violated this on an explicit 3-thread schedule *)
Theorem C14_refuted_waitgroup_dup_pinned :
  let s := WGI.run false (WGI.init ProofsWG.d14c_progs) ProofsWG.d14c_sched in
  WGI.quiescent s = true /\ WGI.pending s = [] /\ WGI.emptied s = true /\ WGI.counter s = 0%Z /\ WGI.trig s = false.
Proof. exact ProofsWG.wg_refuted_dup_pinned. Qed.

(* ---- (7) SortedSet lock skeleton: D14b deadlock of the pinned code (before 3f79633), none after *)
Theorem C14_refuted_sortedset_deadlock_pinned :
  LK.deadlocked LK.sys_pinned (LK.run LK.sys_pinned [0; 0; 0] ProofsLK.d14b_sched) = true.
Proof. exact ProofsLK.lk_refuted_sortedset_deadlock_pinned. Qed.

Theorem C14_sortedset_deadlock_free : forall sched,
  LK.deadlocked LK.sys_fixed (LK.run LK.sys_fixed [0; 0; 0] sched) = false.
Proof. exact ProofsLK.lk_sortedset_fixed_deadlock_free. Qed.

Theorem C14_sortedset_deadlock_free_with_add : forall sched,
  LK.deadlocked LK.sys_fixed_add (LK.run LK.sys_fixed_add [0; 0; 0] sched) = false.
Proof. exact ProofsLK.lk_sortedset_fixed_add_deadlock_free. Qed.

Print Assumptions C14_derived_converges.
Print Assumptions C14_inherit_copies_source.
Print Assumptions C14_derived_chain.
Print Assumptions C14_derived_converges_all_schedules.
Print Assumptions C14_derived_no_deadlock.
Print Assumptions C14_refuted_derived_early_read.
Print Assumptions C14_union.
Print Assumptions C14_subtract.
Print Assumptions C14_counter.
Print Assumptions C14_counter_all_subscribed.
Print Assumptions C14_sortedset_invariant.
Print Assumptions C14_sortedset_sorted_by_current_weight.
Print Assumptions C14_sortedset_same_elements.
Print Assumptions C14_sortedset_ends.
Print Assumptions C14_sortedset_indices.
Print Assumptions C14_eviction.
Print Assumptions C14_eviction_stored_untriggered.
Print Assumptions C14_eviction_reentrant_handlers_complete.
Print Assumptions C14_eviction_reentrant_never_stuck.
Print Assumptions C14_eviction_reentrant.
Print Assumptions C14_eviction_reentrant_stored_untriggered.
Print Assumptions C14_refuted_eviction_trigger_under_lock.
Print Assumptions C14_refuted_eviction_skeleton_under_lock.
Print Assumptions C14_waitgroup_triggers_only_when_emptied.
Print Assumptions C14_waitgroup_trigger_moment.
Print Assumptions C14_waitgroup_triggers_when_done.
Print Assumptions C14_waitgroup.
Print Assumptions C14_refuted_waitgroup_dup_pinned.
Print Assumptions C14_refuted_sortedset_deadlock_pinned.
Print Assumptions C14_sortedset_deadlock_free.
Print Assumptions C14_sortedset_deadlock_free_with_add.
