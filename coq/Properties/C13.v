(* C13 - reactive subscribers see every change exactly once, in order. Statements only. *)
From Coq Require Import NArith List.
From Verif.C13_Reactive Require Import Model Corr.
