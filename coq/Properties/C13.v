(* C13 - reactive subscribers see every change exactly once, in order. Statements only.
   Model: Verif.C13_Reactive.Model (interleaving system; a schedule is a list of (thread, choice); the choice
   supplies the next call of an idle thread, so "forall sch" ranges over any number of writers, subscribers
   and unsubscribers, their programs and all their interleavings).
   [hist s] is the global sequence of notified changes (order of the writers' value steps); for a callback
   record b: [log b] what the callback was invoked with, [regat b] the number of changes before its
   registration, [initv b] the value read at registration, [gotinit b] whether the initial callback ran. *)
From Coq Require Import NArith List Bool Arith.
From Verif.C13_Reactive Require Import Model Inv Proofs Api ApiProofs.
Import ListNotations.

(* ---------- reactive.Variable[V] for any comparable V and any transformation function (Event: V = bool, || ) ---------- *)
Section Variable_.
  Variable V : Type.
  Variable eqV : V -> V -> bool.
  Variable zeroV : V.
  Variable tr : V -> V -> V.
  Hypothesis eqV_spec : forall a b, eqV a b = true <-> a = b.

  (* In every reachable state every subscriber's log is the state at subscription (when it is non-zero or the
     zero-value trigger was requested) followed by a contiguous run of the global change sequence starting
     right after the changes that preceded its registration: exactly once, in order. *)
  Theorem C13_var_log_shape : forall sch c b,
    let s := v_run V eqV zeroV tr sch (init V (V * V) (V -> V) V zeroV) in
    cbs s c = Some b ->
    log b = initpart V (V * V) (v_initD V zeroV) b ++ firstn (ndel b) (skipn (regat b) (hist s))
    /\ regat b + ndel b <= length (hist s)
    /\ initv b = fold_left (v_apply V) (firstn (regat b) (hist s)) zeroV
    /\ val s = fold_left (v_apply V) (hist s) zeroV
    /\ (returned b = true -> gotinit b = false -> initv b = zeroV).
  Proof. exact (var_log_shape V eqV zeroV tr eqV_spec). Qed.

  (* The global change sequence is a chain (previous value, new value), new <> previous: with the theorem above,
     each callback's previous value is the preceding callback's new value. *)
  Theorem C13_var_chain : forall sch,
    chain V (V * V) (v_apply V) (v_legal V) zeroV (hist (v_run V eqV zeroV tr sch (init V (V * V) (V -> V) V zeroV))).
  Proof. exact (var_chain V eqV zeroV tr eqV_spec). Qed.

  (* When no call is in progress, a subscription that was not unsubscribed has seen everything:
     its last reported value (the fold of its log) is the final value. *)
  Theorem C13_var_complete : forall sch c b,
    let s := v_run V eqV zeroV tr sch (init V (V * V) (V -> V) V zeroV) in
    quiescent _ _ _ _ s -> cbs s c = Some b -> unsubd b = false ->
    returned b = true /\ regat b + ndel b = length (hist s)
    /\ log b = initpart V (V * V) (v_initD V zeroV) b ++ skipn (regat b) (hist s)
    /\ fold_log V (V * V) (v_apply V) zeroV (log b) = val s.
  Proof. exact (var_complete V eqV zeroV tr eqV_spec). Qed.

  (* Callbacks of one subscription never overlap. *)
  Theorem C13_var_serial_callbacks : forall sch c b,
    cbs (v_run V eqV zeroV tr sch (init V (V * V) (V -> V) V zeroV)) c = Some b -> overlap b = false /\ incb b <= 1.
  Proof. exact (var_serial V eqV zeroV tr eqV_spec). Qed.

  (* No callback starts after its unsubscribe returned, and none is running at that moment. *)
  Theorem C13_var_after_unsub : forall sch c b,
    cbs (v_run V eqV zeroV tr sch (init V (V * V) (V -> V) V zeroV)) c = Some b ->
    late b = false /\ (unsub_ret b = true -> incb b = 0).
  Proof. exact (var_after_unsub V eqV zeroV tr eqV_spec). Qed.

  (* ---- the whole exported write / subscribe API (Api.v) ----
     A schedule over [vcall] lets every thread call Set, Compute, Init, DefaultTo, ToggleValue, the reset closure and
     the Set issued by an InheritFrom callback, in any order and interleaving - in particular Init on a variable that
     already has subscribers.  Each of them is the writer of the model with the function the code hands to Compute
     ([vcall_fun]), so the three log theorems hold for histories that contain them. *)
  Theorem C13_var_api_log_shape : forall (sch : list (nat * option (op (vcall V)))) c b,
    let s := v_run V eqV zeroV tr (api_sch V eqV zeroV sch) (init V (V * V) (V -> V) V zeroV) in
    cbs s c = Some b ->
    log b = initpart V (V * V) (v_initD V zeroV) b ++ firstn (ndel b) (skipn (regat b) (hist s))
    /\ regat b + ndel b <= length (hist s)
    /\ initv b = fold_left (v_apply V) (firstn (regat b) (hist s)) zeroV
    /\ val s = fold_left (v_apply V) (hist s) zeroV
    /\ (returned b = true -> gotinit b = false -> initv b = zeroV).
  Proof. exact (var_api_log_shape V eqV zeroV tr eqV_spec). Qed.

  Theorem C13_var_api_complete : forall (sch : list (nat * option (op (vcall V)))) c b,
    let s := v_run V eqV zeroV tr (api_sch V eqV zeroV sch) (init V (V * V) (V -> V) V zeroV) in
    quiescent _ _ _ _ s -> cbs s c = Some b -> unsubd b = false ->
    returned b = true /\ regat b + ndel b = length (hist s)
    /\ log b = initpart V (V * V) (v_initD V zeroV) b ++ skipn (regat b) (hist s)
    /\ fold_log V (V * V) (v_apply V) zeroV (log b) = val s.
  Proof. exact (var_api_complete V eqV zeroV tr eqV_spec). Qed.

  Theorem C13_var_api_chain : forall (sch : list (nat * option (op (vcall V)))),
    chain V (V * V) (v_apply V) (v_legal V) zeroV
          (hist (v_run V eqV zeroV tr (api_sch V eqV zeroV sch) (init V (V * V) (V -> V) V zeroV))).
  Proof. exact (var_api_chain V eqV zeroV tr eqV_spec). Qed.

  (* OnUpdateOnce (Subscribe c false; [cond] = the optional condition): in every reachable state the user callback has
     run at most once, and then with the first accepted element of [state at subscription] ++ the changes after it. *)
  Theorem C13_var_once_first_accepted : forall (sch : list (nat * option (op (vcall V)))) c b cond,
    let s := v_run V eqV zeroV tr (api_sch V eqV zeroV sch) (init V (V * V) (V -> V) V zeroV) in
    cbs s c = Some b ->
    filter (is_user V) (once_obs V cond (log b)) =
    match find (once_accepts V cond)
               (initpart V (V * V) (v_initD V zeroV) b ++ firstn (ndel b) (skipn (regat b) (hist s))) with
    | Some d => [EUser (fst d) (snd d)] | None => [] end.
  Proof. exact (var_once_first_accepted V eqV zeroV tr eqV_spec). Qed.

  (* OnUpdateWithContext / WithValue / WithNonEmptyValue: setups and teardowns are bracketed (at most one context is
     active, each teardown is for the value that was set up), whatever the log. *)
  Theorem C13_var_contexts_bracketed : forall showcb acc l fin a,
    brk V eqV a (ctx_obs V showcb acc a l fin) = true.
  Proof. intros. apply (ctx_obs_bracketed V eqV eqV_spec). Qed.

  (* WithValue when no call is in progress and the teardown was not called: the active setup is for the final value. *)
  Theorem C13_var_withvalue_final : forall (sch : list (nat * option (op (vcall V)))) c b acc,
    let s := v_run V eqV zeroV tr (api_sch V eqV zeroV sch) (init V (V * V) (V -> V) V zeroV) in
    quiescent _ _ _ _ s -> cbs s c = Some b -> unsubd b = false -> log b <> [] ->
    ctx_active V acc None (log b) = if acc (val s) then Some (val s) else None.
  Proof. exact (var_withvalue_final V eqV zeroV tr eqV_spec). Qed.
End Variable_.

(* ---------- reactive.Set (finite sets as bit masks; mutations = (added, deleted)) ---------- *)
Theorem C13_set_log_shape : forall s0 sch c b,
  let s := s_run sch (init N (N * N) sop (N * N) s0) in
  cbs s c = Some b ->
  log b = initpart N (N * N) s_initD b ++ firstn (ndel b) (skipn (regat b) (hist s))
  /\ regat b + ndel b <= length (hist s)
  /\ initv b = fold_left s_apply (firstn (regat b) (hist s)) s0
  /\ val s = fold_left s_apply (hist s) s0
  /\ (returned b = true -> gotinit b = false -> initv b = 0%N).
Proof. exact set_log_shape. Qed.

(* Folding the reported mutations reproduces the set's contents. *)
Theorem C13_set_fold : forall s0 sch c b,
  let s := s_run sch (init N (N * N) sop (N * N) s0) in
  quiescent _ _ _ _ s -> cbs s c = Some b -> unsubd b = false ->
  returned b = true /\ regat b + ndel b = length (hist s)
  /\ log b = initpart N (N * N) s_initD b ++ skipn (regat b) (hist s)
  /\ fold_log N (N * N) s_apply 0%N (log b) = val s.
Proof. exact set_fold. Qed.

(* Every reported mutation is the true difference (added elements were absent, deleted ones present). *)
Theorem C13_set_true_diff : forall s0 sch,
  chain N (N * N) s_apply s_legal_p s0 (hist (s_run sch (init N (N * N) sop (N * N) s0))).
Proof. exact set_chain. Qed.

(* Set.WithElements when no call is in progress and the teardown was not called: the elements whose setup is active
   are exactly the contents that satisfy the condition [cm]. *)
Theorem C13_set_withelements_final : forall s0 sch c b cm,
  let s := s_run sch (init N (N * N) sop (N * N) s0) in
  quiescent _ _ _ _ s -> cbs s c = Some b -> unsubd b = false ->
  wel_active cm 0%N (log b) = N.land (val s) cm.
Proof. exact set_withelements_final. Qed.

Theorem C13_set_serial_callbacks : forall s0 sch c b,
  cbs (s_run sch (init N (N * N) sop (N * N) s0)) c = Some b -> overlap b = false /\ incb b <= 1.
Proof. exact set_serial. Qed.

Theorem C13_set_after_unsub : forall s0 sch c b,
  cbs (s_run sch (init N (N * N) sop (N * N) s0)) c = Some b -> late b = false /\ (unsub_ret b = true -> incb b = 0).
Proof. exact set_after_unsub. Qed.

(* The pinned Set.Replace (before fix 0e0e80f, D13) reported added = all new, deleted = all previous:
   a subscriber of {1,2} folding the report of Replace({2,3}) ended with {3} while the set was {2,3}. *)
Theorem C13_refuted_replace_pinned :
  let s := s_run_pinned d13_schedule (init N (N * N) sop (N * N) 6%N) in
  val s = 12%N /\ option_map (fun b => fold_log N (N * N) s_apply 0%N (log b)) (cbs s 0) = Some 8%N.
Proof. exact refuted_replace_pinned_run. Qed.

(* Schedules over every exported mutator of the Set ([scall]: Apply incl. Add/AddAll/Delete/DeleteAll, Compute, Replace
   and Decode, which since fix a05beeb is AddAll of the decoded elements): Decode on a live set is an ordinary writer
   and the log theorems hold for histories that contain it (no guard about Decode is needed any more). *)
Theorem C13_set_api_log_shape : forall s0 (sch : list (nat * option (op scall))) c b,
  let s := s_run (sapi_sch sch) (init N (N * N) sop (N * N) s0) in
  cbs s c = Some b ->
  log b = initpart N (N * N) s_initD b ++ firstn (ndel b) (skipn (regat b) (hist s))
  /\ regat b + ndel b <= length (hist s)
  /\ initv b = fold_left s_apply (firstn (regat b) (hist s)) s0
  /\ val s = fold_left s_apply (hist s) s0
  /\ (returned b = true -> gotinit b = false -> initv b = 0%N).
Proof. exact set_api_log_shape. Qed.

Theorem C13_set_api_fold : forall s0 (sch : list (nat * option (op scall))) c b,
  let s := s_run (sapi_sch sch) (init N (N * N) sop (N * N) s0) in
  quiescent _ _ _ _ s -> cbs s c = Some b -> unsubd b = false ->
  returned b = true /\ regat b + ndel b = length (hist s)
  /\ log b = initpart N (N * N) s_initD b ++ skipn (regat b) (hist s)
  /\ fold_log N (N * N) s_apply 0%N (log b) = val s.
Proof. exact set_api_fold. Qed.

Theorem C13_set_api_true_diff : forall s0 (sch : list (nat * option (op scall))),
  chain N (N * N) s_apply s_legal_p s0 (hist (s_run (sapi_sch sch) (init N (N * N) sop (N * N) s0))).
Proof. exact set_api_true_diff. Qed.

(* Non-vacuity / regression: {0,1}, a subscriber, then Decode of the encoding of {1,2} by another thread. *)
Example C13_regression_decode_fixed :
  let s := s_run (sapi_sch decode_fixed_schedule) (init N (N * N) sop (N * N) 3%N) in
  thr s 0 = Idle /\ thr s 1 = Idle /\ val s = 7%N /\ hist s = [(4, 0)]%N
  /\ option_map (fun b => (log b, fold_log N (N * N) s_apply 0%N (log b), unsubd b)) (cbs s 0) = Some ([(3, 0); (4, 0)]%N, 7%N, false).
Proof. exact decode_fixed_run. Qed.

(* The pinned Set.Decode (before fix a05beeb) inserted the decoded elements under the value mutex without the write
   path ([decode_step_pinned]).  On a set that has a subscriber the property was false: {0,1}, one subscriber, Decode
   of the encoding of {1,2} - contents {0,1,2}, no call in progress, the subscriber's fold is {0,1}. *)
Theorem C13_refuted_set_decode_pinned :
  let s := s_run decode_live_schedule (init N (N * N) sop (N * N) 3%N) in
  exists s', decode_step_pinned s 6%N = Some s'
    /\ (forall t, t < 4 -> thr s' t = Idle) /\ val s' = 7%N
    /\ option_map (fun b => (fold_log N (N * N) s_apply 0%N (log b), unsubd b, returned b)) (cbs s' 0) = Some (3%N, false, true).
Proof. exact refuted_set_decode_pinned. Qed.

(* ---------- a Set whose writer is the inheritance machinery: DerivedSet.InheritFrom / SubtractReactive ---------- *)
(* [scall] contains [KInherit m]: derivedSet.inheritMutations for the net mutation m that the occurrence counts yield
   (WHICH m is C14's); SubtractReactive issues [KCompute (fun _ => m)] on its result.  So C13_set_api_log_shape / _fold /
   _true_diff above already quantify over all interleavings of inherited writes with direct writes (Add .. Replace, Decode),
   subscribers and unsubscribers.  Below: the value step of the inherited write, the same theorems spelled out for the
   calls issued by a wired script, and the refutation of a write path that reports what was requested. *)

(* For every net mutation m and all contents s: the inherited write applies m and reports what value.Apply changed - a
   true difference of s that folds to the new contents. *)
Theorem C13_set_inherited_write_true_diff : forall m s,
  let r := s_wr (scall_op (KInherit m)) s in
  w_new r = s_apply s m /\ w_delta r = Some (s_applied s m) /\ w_ret r = s_applied s m
  /\ s_legal_p s (s_applied s m) /\ s_apply s (s_applied s m) = s_apply s m.
Proof. exact inherited_write_reports_applied. Qed.

(* Target = NewDerivedSet() or source0.SubtractReactive(source1..n), sources with any contents, any script of source
   writes, direct calls on the target, InheritFrom and un-inherit ([wired_program] = the calls it issues on the target):
   for every schedule made of these calls, in any interleaving, repetition or subset. *)
Theorem C13_wired_set_log_shape : forall k s0s ws (sch : list (nat * option (op scall))) c b,
  drawn_from (snd (wired_program k s0s ws)) sch ->
  let s := s_run (sapi_sch sch) (init N (N * N) sop (N * N) 0%N) in
  cbs s c = Some b ->
  log b = initpart N (N * N) s_initD b ++ firstn (ndel b) (skipn (regat b) (hist s))
  /\ regat b + ndel b <= length (hist s)
  /\ val s = fold_left s_apply (hist s) 0%N.
Proof. exact wired_set_log_shape. Qed.

Theorem C13_wired_set_fold : forall k s0s ws (sch : list (nat * option (op scall))) c b,
  drawn_from (snd (wired_program k s0s ws)) sch ->
  let s := s_run (sapi_sch sch) (init N (N * N) sop (N * N) 0%N) in
  quiescent _ _ _ _ s -> cbs s c = Some b -> unsubd b = false ->
  fold_log N (N * N) s_apply 0%N (log b) = val s.
Proof. exact wired_set_fold. Qed.

Theorem C13_wired_set_true_diff : forall k s0s ws (sch : list (nat * option (op scall))),
  drawn_from (snd (wired_program k s0s ws)) sch ->
  chain N (N * N) s_apply s_legal_p 0%N (hist (s_run (sapi_sch sch) (init N (N * N) sop (N * N) 0%N))).
Proof. exact wired_set_true_diff. Qed.

(* Non-vacuity: derived.InheritFrom(source); a subscriber; Add(0) directly, the source adds 0, Delete(0) directly, the
   source deletes 0 (three threads): the schedule is drawn from the script and the subscriber is told (1,0) (0,0) (0,1) (0,0). *)
Example C13_nonvacuous_derived_schedule : drawn_from (snd (wired_program WDerived [0%N] derived_script)) derived_schedule.
Proof. exact derived_schedule_drawn. Qed.
Example C13_regression_derived_direct_and_inherited :
  let s := s_run (sapi_sch derived_schedule) (init N (N * N) sop (N * N) 0%N) in
  thr s 0 = Idle /\ thr s 1 = Idle /\ thr s 2 = Idle /\ val s = 0%N /\ hist s = [(1, 0); (0, 0); (0, 1); (0, 0)]%N
  /\ option_map (fun b => (log b, unsubd b)) (cbs s 0) = Some ([(1, 0); (0, 0); (0, 1); (0, 0)]%N, false).
Proof. exact derived_run. Qed.

(* A write path that reports the REQUESTED mutations ([s_wr_requested]) is refuted on the same schedule: the subscriber
   is told "0 added" twice and "0 deleted" twice; the reported sequence is not a chain of true differences. *)
Theorem C13_refuted_inherited_reports_requested :
  let s := s_run_requested (sapi_sch derived_schedule) (init N (N * N) sop (N * N) 0%N) in
  (forall t, t < 3 -> thr s t = Idle)
  /\ option_map (fun b => log b) (cbs s 0) = Some [(1, 0); (1, 0); (0, 1); (0, 1)]%N
  /\ ~ chain N (N * N) s_apply s_legal_p 0%N (hist s).
Proof. exact refuted_inherited_reports_requested. Qed.

(* Non-vacuity: an interleaved run (registration racing with a Replace, a later Apply, an unsubscribe) reaches a
   quiescent state with non-trivial logs; the same schedule after the fix folds to the contents. *)
Example C13_nonvacuous_run :
  let s := s_run demo_schedule (init N (N * N) sop (N * N) 6%N) in
  (forall t, t < 5 -> thr s t = Idle) /\ val s = 9%N /\ hist s = [(8, 2); (1, 4)]%N
  /\ option_map (fun b => (log b, regat b, unsubd b)) (cbs s 0) = Some ([(6, 0); (8, 2); (1, 4)]%N, 0, false)
  /\ option_map (fun b => (log b, regat b, unsubd b)) (cbs s 1) = Some ([(12, 0); (1, 4)]%N, 1, true).
Proof. exact demo_run. Qed.

(* Non-vacuity of the API theorems: Init on a live variable (subscriber registered between Init 1 and Set 2; Init 7 last). *)
Example C13_nonvacuous_init_on_live_variable :
  let s := v_run N N.eqb 0%N (fun _ n => n) (api_sch N N.eqb 0%N init_live_schedule) (init N (N * N) (N -> N) N 0%N) in
  thr s 0 = Idle /\ thr s 1 = Idle /\ val s = 7%N /\ hist s = [(0, 1); (1, 2); (2, 7)]%N
  /\ option_map (fun b => (log b, unsubd b)) (cbs s 0) = Some ([(0, 1); (1, 2); (2, 7)]%N, false).
Proof. exact init_live_run. Qed.

Example C13_regression_replace_fixed :
  let s := s_run d13_schedule (init N (N * N) sop (N * N) 6%N) in
  val s = 12%N /\ option_map (fun b => fold_log N (N * N) s_apply 0%N (log b)) (cbs s 0) = Some 12%N
  /\ thr s 0 = Idle.
Proof. exact replace_fixed_run. Qed.

Print Assumptions C13_var_log_shape.
Print Assumptions C13_var_chain.
Print Assumptions C13_var_complete.
Print Assumptions C13_var_serial_callbacks.
Print Assumptions C13_var_after_unsub.
Print Assumptions C13_var_api_log_shape.
Print Assumptions C13_var_api_complete.
Print Assumptions C13_var_api_chain.
Print Assumptions C13_var_once_first_accepted.
Print Assumptions C13_var_contexts_bracketed.
Print Assumptions C13_var_withvalue_final.
Print Assumptions C13_set_withelements_final.
Print Assumptions C13_set_log_shape.
Print Assumptions C13_set_fold.
Print Assumptions C13_set_true_diff.
Print Assumptions C13_set_serial_callbacks.
Print Assumptions C13_set_after_unsub.
Print Assumptions C13_refuted_replace_pinned.
Print Assumptions C13_refuted_set_decode_pinned.
Print Assumptions C13_set_api_log_shape.
Print Assumptions C13_set_api_fold.
Print Assumptions C13_set_api_true_diff.
Print Assumptions C13_set_inherited_write_true_diff.
Print Assumptions C13_wired_set_log_shape.
Print Assumptions C13_wired_set_fold.
Print Assumptions C13_wired_set_true_diff.
Print Assumptions C13_refuted_inherited_reports_requested.
