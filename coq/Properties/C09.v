(* C09 - authenticated map/set (ads over pokt-network/smt): contents, content-only root, faithful reopen.
   Statements only.  Every theorem is for ALL histories (lists of API calls, EReopen = a new instance over the same
   store) and for ANY trie O that satisfies trie_spec O - the external sparse Merkle trie is modelled, not
   verified; trie_spec is its trusted interface, and C09_trie_spec_satisfiable shows an executable instance. *)
From Coq Require Import NArith ZArith List Bool.
From Verif.C09_ADS Require Import Model Proofs Refine Examples Shared SharedProofs Faults FaultsProofs.
Import ListNotations.

(* Refinement to a plain map.  For every history whose reopens happen with nothing uncommitted: every output
   (Delete result, Get, Has, Size, Stream / set Stream, WasRestored) is the plain map's output - Stream is the
   plain map's bindings in key order, Size is int(uint64(number of keys)). *)
Theorem C09_refines_map : forall O, trie_spec O -> forall h, clean_reopens h = true ->
  map (visible O) (outs O h) = snd (spec_run O spec0 h) /\
  map_size O (state_after O h) = wrap_int (length (contents_after h)) /\
  map_stream O (state_after O h) = map (fun p => (fst p, Some (snd p))) (contents_after h) /\
  asorted (contents_after h).
Proof. exact refines_map. Qed.

(* ... and Size is exactly the number of keys below 2^63 keys. *)
Theorem C09_size_exact : forall n, (Z.of_nat n < 2 ^ 63)%Z -> wrap_int n = Z.of_nat n.
Proof. exact wrap_int_small. Qed.

(* For every history without any guard (reopens may drop uncommitted changes; the plain map then goes back to its
   last committed copy): Get, Has, the Delete results and WasRestored are the plain map's. *)
Theorem C09_refines_map_any_reopen : forall O, trie_spec O -> forall h,
  map (core O) (outs O h) = map (core O) (snd (spec_run O spec0 h)) /\
  (forall k, map_get O (state_after O h) k = al_get (contents_after h) k).
Proof. exact refines_map_core. Qed.

(* Root depends on the contents alone: two histories (any orders, overwrites, delete-and-reinsert, nil/empty
   values, commits, reopens) whose plain maps agree on every key have the same root. *)
Theorem C09_root_content_only : forall O, trie_spec O -> forall h1 h2,
  (forall k, al_get (contents_after h1) k = al_get (contents_after h2) k) ->
  map_root O (state_after O h1) = map_root O (state_after O h2).
Proof. exact root_content_only. Qed.

(* Different contents give different roots - under the explicit premise that the trie's root is collision free
   (for the real trie: SHA-256; "in everything explored" is what the correspondence check observes). *)
Theorem C09_root_injective : forall O, trie_spec O -> root_collision_free O -> forall h1 h2,
  map_root O (state_after O h1) = map_root O (state_after O h2) -> contents_after h1 = contents_after h2.
Proof. exact root_injective. Qed.

(* After Commit in any state, a new instance over the same store reports the same Root, Size, Stream, Get, Has,
   and says it was restored; Commit itself does not change the root. *)
Theorem C09_reopen : forall O, trie_spec O -> forall m : amap O,
  let m1 := map_commit O m in
  let m2 := reopen O m1 in
  map_root O m1 = map_root O m /\
  map_root O m2 = map_root O m1 /\ map_size O m2 = map_size O m1 /\
  map_stream O m2 = map_stream O m1 /\ (forall k, map_get O m2 k = map_get O m1 k) /\
  (forall k, has O m2 k = has O m1 k) /\ was_restored O m2 = true.
Proof. exact reopen_after_commit. Qed.

(* WasRestoredFromStorage is true exactly when a Commit happened before. *)
Theorem C09_restored_iff_committed : forall O h,
  was_restored O (state_after O h) = existsb is_commit h.
Proof. exact restored_iff_committed. Qed.

(* The premises are satisfiable: the executable association-list instance (the one the correspondence check runs
   against the real trie) has them, including collision freedom. *)
Theorem C09_trie_spec_satisfiable : trie_spec c_ops /\ root_collision_free c_ops.
Proof. exact (conj c_ops_spec c_ops_collision_free). Qed.

(* Finding dirty-reopen-keeps-size-and-rawkeys (the guard clean_reopens of C09_refines_map excludes exactly this):
   Set(a,1); Commit; Delete(a); reopen -> Has(a), Get(a) = 1 but Size() = 0 and an empty Stream; Delete(a) again
   -> Size() = -1.  Third component: what the plain map says. *)
Theorem C09_refuted_dirty_reopen_size :
  clean_reopens dirty_reopen_history = false /\
  outs c_ops dirty_reopen_history =
  [ONone _; ONone _; OBool _ true; ONone _; OBool _ true; OGet _ (Some [1%N]); OSize _ 0; OStream _ [];
   OBool _ true; OSize _ (-1)] /\
  snd (spec_run c_ops spec0 dirty_reopen_history) =
  [ONone _; ONone _; OBool _ true; ONone _; OBool _ true; OGet _ (Some [1%N]); OSize _ 1; OStream _ [(ka, Some [1%N])];
   OBool _ true; OSize _ 0].
Proof. exact dirty_reopen_witness. Qed.

(* Regression for D09 (fixed by c0299ea): nil values count once and are present. *)
Example C09_d09_regression :
  outs c_ops d09_history =
  [ONone _; ONone _; ONone _; OSize _ 2; OBool _ true; OGet _ (Some []); OBool _ true; OSize _ 1].
Proof. exact d09_regression. Qed.

(* Non-vacuity of the guard and of the root theorems. *)
Example C09_guard_nonvacuous :
  clean_reopens rich_history = true /\ contents_after rich_history = [(ka, [1%N]); (kab, []); (kb, [2%N])].
Proof. exact (conj rich_history_clean rich_history_contents). Qed.

Example C09_roots_nonvacuous :
  (contents_after route1 = contents_after route2 /\ contents_after route1 <> contents_after route3) /\
  (map_root c_ops (state_after c_ops route1) = map_root c_ops (state_after c_ops route2) /\
   map_root c_ops (state_after c_ops route1) <> map_root c_ops (state_after c_ops route3)).
Proof. exact (conj routes_same_contents routes_roots). Qed.

(* ---- Several instances in different realms of ONE database (Shared.v: a flat key-value list; an instance derives its
   four sub-stores realm++[0..3] from the realm of the store view it is handed, layout ext_addr) ---- *)

(* Any interleaving of calls on 2, 3, ... instances (maps and sets) whose realms are pairwise separated (they diverge,
   or one properly extends the other with a byte >= 4), with reopen of each and Clear of a store view + new instance
   (only for a realm that is not a prefix of a sibling's): every call returns what the same instance returns when it
   runs alone over a store of its own - so C09_refines_map, C09_root_content_only, C09_reopen ... hold for every
   instance of the shared database, unaffected by the siblings - and finally every instance's view of the database
   is its isolated state. *)
Theorem C09_shared_db_refines : forall O, trie_spec O -> forall Rs h,
  realms_okb Rs = true -> hist_okb Rs h = true ->
  snd (sys_run O ext_addr Rs (sys_init O ext_addr Rs) h) = snd (iso_run O (iso_init O Rs) h) /\
  (let s := fst (sys_run O ext_addr Rs (sys_init O ext_addr Rs) h) in
   forall i R t, nth_error Rs i = Some R -> nth_error (snd s) i = Some t ->
     nth_error (fst (iso_run O (iso_init O Rs) h)) i = Some (view O (ext_addr R) (fst s) t)).
Proof. exact shared_db_refines. Qed.

(* Frame: for ANY database contents and any single call e of an instance in realm R1 (no premise on the trie, no
   invariant): an instance in a realm R2 with a disjoint key footprint keeps its view of the database - live and as a
   new instance opened over its store view - hence its Root, Size, Stream, Get and WasRestored. *)
Theorem C09_instances_independent : forall O R1 R2, fp_disjoint R1 R2 -> forall db t1 e t2,
  let db' := fst (fst (sh_step O (ext_addr R1) db t1 e)) in
  let m := view O (ext_addr R2) db t2 in let m' := view O (ext_addr R2) db' t2 in
  let n := view O (ext_addr R2) db (sh_open O (ext_addr R2) db) in
  let n' := view O (ext_addr R2) db' (sh_open O (ext_addr R2) db') in
  (map_root O m' = map_root O m /\ map_size O m' = map_size O m /\ map_stream O m' = map_stream O m /\
   (forall k, map_get O m' k = map_get O m k) /\ was_restored O m' = was_restored O m) /\
  (map_root O n' = map_root O n /\ map_size O n' = map_size O n /\ map_stream O n' = map_stream O n /\
   (forall k, map_get O n' k = map_get O n k) /\ was_restored O n' = was_restored O n).
Proof. exact instances_independent_observables. Qed.

(* ... the same as equality of the whole view, and for Clear() of instance 1's store view. *)
Theorem C09_instances_independent_view : forall O R1 R2, fp_disjoint R1 R2 -> forall db t1 e,
  let db' := fst (fst (sh_step O (ext_addr R1) db t1 e)) in
  (forall t2, view O (ext_addr R2) db' t2 = view O (ext_addr R2) db t2) /\
  sh_open O (ext_addr R2) db' = sh_open O (ext_addr R2) db.
Proof. exact instances_independent. Qed.

Theorem C09_wipe_independent : forall O R1 R2, fp_disjoint R1 R2 -> prefixb R1 R2 = false -> forall db,
  let db' := kv_clear O R1 db in
  (forall t2, view O (ext_addr R2) db' t2 = view O (ext_addr R2) db t2) /\
  sh_open O (ext_addr R2) db' = sh_open O (ext_addr R2) db.
Proof. exact wipe_independent. Qed.

(* The decidable realm condition (the one the harness generates realms with) gives disjoint footprints:
   no key realm1 ++ c :: x equals a key realm2 ++ c' :: y for sub-realm bytes c, c' < 4. *)
Theorem C09_separated_footprints : forall a b, separatedb a b = true ->
  forall c1 c2 x y, (c1 < 4)%N -> (c2 < 4)%N -> a ++ c1 :: x <> b ++ c2 :: y.
Proof. exact separated_footprints. Qed.

(* Non-vacuity: empty realm, A, AB with an interleaved history incl. reopen and wipe. *)
Example C09_shared_guards_nonvacuous :
  realms_okb [[]; rA; rAB] = true /\ hist_okb [[]; rA; rAB] shared_history = true.
Proof. exact (conj (proj1 shared_guards_nonvacuous) (proj1 (proj2 shared_guards_nonvacuous))). Qed.

(* The model exhibits the defect class (seed C09-m9): with the raw-key mirror derived by an ABSOLUTE realm, Stream of
   the map in realm B shows the key of the map in realm A; layout of the code and the isolated run show nothing. *)
Example C09_absolute_realm_leaks :
  realms_okb [rA; rB] = true /\
  snd (sys_run c_ops abs_raw_addr [rA; rB] (sys_init c_ops abs_raw_addr [rA; rB]) leak_history) =
    [Some (ONone c_ops); Some (OStream c_ops [(kx, None)])] /\
  snd (sys_run c_ops ext_addr [rA; rB] (sys_init c_ops ext_addr [rA; rB]) leak_history) =
    [Some (ONone c_ops); Some (OStream c_ops [])] /\
  snd (iso_run c_ops (iso_init c_ops [rA; rB]) leak_history) = [Some (ONone c_ops); Some (OStream c_ops [])].
Proof. exact absolute_realm_leaks. Qed.

(* The realm guard is needed: empty realm next to realm [0] (the first one's raw-key realm) leaks in the code's layout. *)
Example C09_unseparated_realms_leak :
  realms_okb [[]; [0%N]] = false /\
  snd (sys_run c_ops ext_addr [[]; [0%N]] (sys_init c_ops ext_addr [[]; [0%N]])
         [SOp 1 (ESet kx (Some [1%N])); SOp 0 EStream]) =
    [Some (ONone c_ops); Some (OStream c_ops [([0%N; 97%N], None); ([3%N], None)])].
Proof. exact unseparated_realms_leak. Qed.

(* ---------- store faults, consumer errors, second instances (Faults.v) ----------
   Histories over [fev]: calls without fault (FOk e, every event above incl. EReopen), Set/Add/Delete whose j-th store
   write is refused, Commit whose root write is refused, Streams aborted by their consumer at visit j, and second
   instances opened over the same store (FProbe = what a reopen would see).  All theorems: every history, any trie
   with trie_spec. *)

(* Every history: Get/Has of the live instance are the plain map's (in which a Set/Delete with a refused raw-key or
   size write HAS taken effect - the listed finding refused-write-keeps-trie-update - and a refused Commit has none);
   a reopen shows the contents of the last SUCCESSFUL Commit; WasRestored, live and reopened, is true exactly when a
   Commit succeeded before. *)
Theorem C09_faults_refine : forall O, trie_spec O -> forall h,
  let m := fstate_after O h in
  let p := reopen O m in
  (forall k, map_get O m k = al_get (s_cur (fspec_after h)) k) /\
  (forall k, has O m k = is_some (al_get (s_cur (fspec_after h)) k)) /\
  (forall k, map_get O p k = al_get (committed_or_empty (fspec_after h)) k) /\
  was_restored O m = existsb is_ok_commit h /\
  was_restored O p = existsb is_ok_commit h.
Proof. exact faults_refine. Qed.

(* Failure atomicity of Commit w.r.t. its root write: after a successful Commit, whatever follows without another
   successful Commit (refused Commits, refused writes of Set/Delete, aborted Streams, probes, reopens that drop
   uncommitted changes) - a reopen restores exactly the root and contents of that Commit. *)
Theorem C09_failed_commit_restores_previous : forall O, trie_spec O -> forall h1 h2,
  existsb is_ok_commit h2 = false ->
  let c := fstate_after O (h1 ++ [FOk ECommit]) in
  let m := fstate_after O ((h1 ++ [FOk ECommit]) ++ h2) in
  let p := reopen O m in
  map_root O p = map_root O c /\ (forall k, map_get O p k = map_get O c k) /\
  was_restored O p = true /\ was_restored O m = true.
Proof. exact failed_commit_restores_previous. Qed.

(* ... and while no Commit has succeeded, a reopen is an empty instance that was not restored, and the live instance
   does not claim to be restored either. *)
Theorem C09_never_committed_reopens_empty : forall O, trie_spec O -> forall h,
  existsb is_ok_commit h = false ->
  let m := fstate_after O h in
  let p := reopen O m in
  (forall k, map_get O p k = None) /\ was_restored O p = false /\ was_restored O m = false /\
  map_root O p = map_root O (fresh O).
Proof. exact never_committed_reopens_empty. Qed.

(* A refused Commit, an aborted Stream (map or set) and a second instance leave the state untouched: whatever
   follows behaves as if they had not happened (in particular the instance stays usable). *)
Theorem C09_neutral_calls_keep_state : forall O h e, is_neutral e = true ->
  fstate_after O (h ++ [e]) = fstate_after O h.
Proof. exact neutral_keeps_state. Qed.

(* The fault model is an extension: on fault-free histories it is the model of the theorems above. *)
Theorem C09_fault_free_is_run : forall O h m, fst (frun O m (map FOk h)) = fst (run O m h).
Proof. exact fault_free_is_run. Qed.

(* non-vacuity / concrete run on the executable trie: Set a; Commit; Set b; Set c with the size write refused;
   Commit with the root write refused; Stream aborted at visit 0; second instance: restored, root = {a:1}, Size 2 and
   raw keys a,b,c (written through), contents {a:1} *)
Example C09_faults_nonvacuous :
  (fouts c_ops fx_hist =
    [FO c_ops (ONone c_ops); FO c_ops (ONone c_ops); FO c_ops (ONone c_ops); FErr c_ops; FErr c_ops;
     FAborted c_ops [(fx_a, Some [1%N])] true;
     FProbed c_ops true [(fx_a, [1%N])] 2 [(fx_a, Some [1%N]); (fx_b, None); (fx_c, None)] [Some [1%N]; None; None]] /\
   map_size c_ops (fstate_after c_ops fx_hist) = 2%Z /\
   map_get c_ops (fstate_after c_ops fx_hist) fx_c = Some [3%N]) /\
  existsb is_ok_commit [FOk (ESet fx_b (Some [2%N])); FFailSet fx_c (Some [3%N]) 1; FFailCommitRoot; FAbort 0] = false.
Proof. exact (conj fx_outs fx_guard). Qed.


Print Assumptions C09_refines_map.
Print Assumptions C09_size_exact.
Print Assumptions C09_refines_map_any_reopen.
Print Assumptions C09_root_content_only.
Print Assumptions C09_root_injective.
Print Assumptions C09_reopen.
Print Assumptions C09_restored_iff_committed.
Print Assumptions C09_trie_spec_satisfiable.
Print Assumptions C09_refuted_dirty_reopen_size.
Print Assumptions C09_shared_db_refines.
Print Assumptions C09_instances_independent.
Print Assumptions C09_instances_independent_view.
Print Assumptions C09_wipe_independent.
Print Assumptions C09_separated_footprints.
Print Assumptions C09_faults_refine.
Print Assumptions C09_failed_commit_restores_previous.
Print Assumptions C09_never_committed_reopens_empty.
Print Assumptions C09_neutral_calls_keep_state.
Print Assumptions C09_fault_free_is_run.
