(* C09 - authenticated map/set (ads over pokt-network/smt): contents, content-only root, faithful reopen.
   Statements only.  Every theorem is for ALL histories (lists of API calls, EReopen = a new instance over the same
   store) and for ANY trie O that satisfies trie_spec O - the external sparse Merkle trie is modelled, not
   verified; trie_spec is its trusted interface, and C09_trie_spec_satisfiable shows an executable instance. *)
From Coq Require Import NArith ZArith List Bool.
From Verif.C09_ADS Require Import Model Proofs Refine Examples.
Import ListNotations.

(* Refinement to a plain map.  For every history whose reopens happen with nothing uncommitted: every output
   (Delete result, Get, Has, Size, Stream / set Stream, WasRestored) is the plain map's output - Stream is the
   plain map's bindings in key order, Size is int(uint64(number of keys)). *)
Theorem C09_refines_map : forall O, trie_spec O -> forall h, clean_reopens h = true ->
  map (visible O) (outs O h) = snd (spec_run O spec0 h) /\
  map_size O (state_after O h) = wrap_int (length (contents_after h)) /\
  map_stream O (state_after O h) = map (fun p => (fst p, Some (snd p))) (contents_after h) /\
  asorted (contents_after h).
Proof. exact refines_map. Qed.

(* ... and Size is exactly the number of keys below 2^63 keys. *)
Theorem C09_size_exact : forall n, (Z.of_nat n < 2 ^ 63)%Z -> wrap_int n = Z.of_nat n.
Proof. exact wrap_int_small. Qed.

(* For every history without any guard (reopens may drop uncommitted changes; the plain map then goes back to its
   last committed copy): Get, Has, the Delete results and WasRestored are the plain map's. *)
Theorem C09_refines_map_any_reopen : forall O, trie_spec O -> forall h,
  map (core O) (outs O h) = map (core O) (snd (spec_run O spec0 h)) /\
  (forall k, map_get O (state_after O h) k = al_get (contents_after h) k).
Proof. exact refines_map_core. Qed.

(* Root depends on the contents alone: two histories (any orders, overwrites, delete-and-reinsert, nil/empty
   values, commits, reopens) whose plain maps agree on every key have the same root. *)
Theorem C09_root_content_only : forall O, trie_spec O -> forall h1 h2,
  (forall k, al_get (contents_after h1) k = al_get (contents_after h2) k) ->
  map_root O (state_after O h1) = map_root O (state_after O h2).
Proof. exact root_content_only. Qed.

(* Different contents give different roots - under the explicit premise that the trie's root is collision free
   (for the real trie: SHA-256; "in everything explored" is what the correspondence check observes). *)
Theorem C09_root_injective : forall O, trie_spec O -> root_collision_free O -> forall h1 h2,
  map_root O (state_after O h1) = map_root O (state_after O h2) -> contents_after h1 = contents_after h2.
Proof. exact root_injective. Qed.

(* After Commit in any state, a new instance over the same store reports the same Root, Size, Stream, Get, Has,
   and says it was restored; Commit itself does not change the root. *)
Theorem C09_reopen : forall O, trie_spec O -> forall m : amap O,
  let m1 := map_commit O m in
  let m2 := reopen O m1 in
  map_root O m1 = map_root O m /\
  map_root O m2 = map_root O m1 /\ map_size O m2 = map_size O m1 /\
  map_stream O m2 = map_stream O m1 /\ (forall k, map_get O m2 k = map_get O m1 k) /\
  (forall k, has O m2 k = has O m1 k) /\ was_restored O m2 = true.
Proof. exact reopen_after_commit. Qed.

(* WasRestoredFromStorage is true exactly when a Commit happened before. *)
Theorem C09_restored_iff_committed : forall O h,
  was_restored O (state_after O h) = existsb is_commit h.
Proof. exact restored_iff_committed. Qed.

(* The premises are satisfiable: the executable association-list instance (the one the correspondence check runs
   against the real trie) has them, including collision freedom. *)
Theorem C09_trie_spec_satisfiable : trie_spec c_ops /\ root_collision_free c_ops.
Proof. exact (conj c_ops_spec c_ops_collision_free). Qed.

(* Finding dirty-reopen-keeps-size-and-rawkeys (the guard clean_reopens of C09_refines_map excludes exactly this):
   Set(a,1); Commit; Delete(a); reopen -> Has(a), Get(a) = 1 but Size() = 0 and an empty Stream; Delete(a) again
   -> Size() = -1.  Third component: what the plain map says. *)
Theorem C09_refuted_dirty_reopen_size :
  clean_reopens dirty_reopen_history = false /\
  outs c_ops dirty_reopen_history =
  [ONone _; ONone _; OBool _ true; ONone _; OBool _ true; OGet _ (Some [1%N]); OSize _ 0; OStream _ [];
   OBool _ true; OSize _ (-1)] /\
  snd (spec_run c_ops spec0 dirty_reopen_history) =
  [ONone _; ONone _; OBool _ true; ONone _; OBool _ true; OGet _ (Some [1%N]); OSize _ 1; OStream _ [(ka, Some [1%N])];
   OBool _ true; OSize _ 0].
Proof. exact dirty_reopen_witness. Qed.

(* Regression for D09 (fixed by c0299ea): nil values count once and are present. *)
Example C09_d09_regression :
  outs c_ops d09_history =
  [ONone _; ONone _; ONone _; OSize _ 2; OBool _ true; OGet _ (Some []); OBool _ true; OSize _ 1].
Proof. exact d09_regression. Qed.

(* Non-vacuity of the guard and of the root theorems. *)
Example C09_guard_nonvacuous :
  clean_reopens rich_history = true /\ contents_after rich_history = [(ka, [1%N]); (kab, []); (kb, [2%N])].
Proof. exact (conj rich_history_clean rich_history_contents). Qed.

Example C09_roots_nonvacuous :
  (contents_after route1 = contents_after route2 /\ contents_after route1 <> contents_after route3) /\
  (map_root c_ops (state_after c_ops route1) = map_root c_ops (state_after c_ops route2) /\
   map_root c_ops (state_after c_ops route1) <> map_root c_ops (state_after c_ops route3)).
Proof. exact (conj routes_same_contents routes_roots). Qed.

Print Assumptions C09_refines_map.
Print Assumptions C09_size_exact.
Print Assumptions C09_refines_map_any_reopen.
Print Assumptions C09_root_content_only.
Print Assumptions C09_root_injective.
Print Assumptions C09_reopen.
Print Assumptions C09_restored_iff_committed.
Print Assumptions C09_trie_spec_satisfiable.
Print Assumptions C09_refuted_dirty_reopen_size.
