(* C01, part c01stream - statements only (proofs in C02_Prims/). *)
From Coq Require Import ZArith NArith List.
From Verif.C02_Prims Require Import Model Stream ProofsLE.
Import ListNotations.

Theorem C01_le_num_roundtrip : forall k v, in_range k v -> num_of_bytes k (bytes_of_num k v) = v.
Proof. exact num_roundtrip. Qed.

Print Assumptions C01_le_num_roundtrip.
