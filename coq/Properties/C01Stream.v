(* C01, part c01stream - statements only (proofs in C02_Prims/): stream Write/Read helper pairs round-trip through
   ANY reader however it splits its reads (every fault-free script of Give n / Half events), and the
   Serializer/Deserializer primitive pairs round-trip. Model = code after 93eaa3d (D01c), 251eda6 (D02c) and c8478d2
   (ReadBytes: one io.ReadFull up to 1 MiB, a doubling buffer above). *)
From Coq Require Import ZArith NArith List.
From Verif.C02_Prims Require Import Model Stream ProofsLE ProofsStream ProofsPairs.
Import ListNotations.

(* Little-endian encode/decode are inverse for every width, both ways. *)
Theorem C01_le_roundtrip : forall n v, (v < 2 ^ (8 * N.of_nat n))%N -> le_dec (le_enc n v) = v.
Proof. exact le_dec_enc. Qed.
Theorem C01_le_roundtrip_bytes : forall bs, Forall (fun b => (b < 256)%N) bs -> le_enc (length bs) (le_dec bs) = bs.
Proof. exact le_enc_dec. Qed.
Theorem C01_num_roundtrip : forall k v, in_range k v -> num_of_bytes k (bytes_of_num k v) = v.
Proof. exact num_roundtrip. Qed.
Theorem C01_num_roundtrip_bytes : forall k bs,
  Forall (fun b => (b < 256)%N) bs -> length bs = nk_size k -> bytes_of_num k (num_of_bytes k bs) = bs.
Proof. exact num_bytes_roundtrip. Qed.

(* Chunk independence: with enough data, io.ReadFull delivers exactly the next [want] bytes under EVERY fault-free
   script (induction over the script). *)
Theorem C01_read_full_all_chunkings : forall es want d, fault_free es -> (want <= length d)%nat ->
  exists es', fault_free es' /\ read_full want d es = (firstn want d, mkR (skipn want d) es', RNil).
Proof. exact read_full_ok. Qed.

(* stream.Write[T] / stream.Read[T] for every allowed T (8 integer kinds, bool, [32] [36] [38]byte) *)
Theorem C01_stream_roundtrip_T : forall t v rest es, typed t v -> fault_free es ->
  exists es' c, fault_free es' /\ read_t t (mkR (tk_encode t v ++ rest) es) = (Ok v, mkR rest es', c).
Proof. exact read_t_roundtrip. Qed.

(* WriteBytes / ReadBytes (any length: the single io.ReadFull up to 1 MiB and every refill of the doubling buffer above) *)
Theorem C01_stream_roundtrip_bytes : forall bs rest es, fault_free es ->
  exists es' c, fault_free es' /\
    read_bytes (Z.of_nat (length bs)) (mkR (bs ++ rest) es) = (Ok bs, mkR rest es', c).
Proof. exact read_bytes_roundtrip. Qed.

(* WriteBytesWithSize / ReadBytesWithSize for every length-prefix width (guard: the write side accepted the length) *)
Theorem C01_stream_roundtrip_bytes_with_size : forall l bs w rest es,
  (Z.of_nat (length bs) <= MaxInt64)%Z -> with_size l bs = Ok w -> fault_free es ->
  exists es' c, fault_free es' /\ read_bytes_with_size l (mkR (w ++ rest) es) = (Ok bs, mkR rest es', c).
Proof. exact read_bytes_with_size_roundtrip. Qed.

(* WriteCollection / ReadCollection (elements of k bytes each, written with WriteBytes and read with ReadBytes; every
   length-prefix width; the EMPTY collection included): written at the end of a ByteBuffer, exactly
   prefix(count) ++ elements is appended - nothing is left to a later write, so it also holds when the collection is the
   last thing in the stream - and reading it back under every fault-free chunking returns the elements and stops
   exactly behind them. *)
Theorem C01_stream_roundtrip_collection : forall l k elems b b' rest es,
  at_end b -> Forall (fun e => length e = k) elems -> (Z.of_nat (length elems) <= MaxInt64)%Z ->
  wop_run (WCollection l elems (Z.of_nat (length elems))) b = Ok b' -> fault_free es ->
  exists w, b' = mkB (bbuf b ++ w) (length (bbuf b ++ w)) /\
    exists es' c, fault_free es' /\ read_collection l k (mkR (w ++ rest) es) = (Ok (SVList elems), mkR rest es', c).
Proof. exact collection_roundtrip. Qed.

(* non-vacuity: the empty collection as the last thing written is its 4 zero prefix bytes; two 1-byte elements *)
Example C01_collection_examples :
  wop_run (WCollection L32 [] 0) (mkB [9]%N 1) = Ok (mkB [9; 0; 0; 0; 0]%N 5) /\
  fst (fst (read_collection L32 1 (mkR [0; 0; 0; 0]%N [Half]))) = Ok (SVList []) /\
  wop_run (WCollection L8 [[5]; [6]]%N 2) (mkB [] 0) = Ok (mkB [2; 5; 6]%N 3) /\
  at_end (mkB [9]%N 1) /\ Forall (fun e => length e = 1) [[5]; [6]]%N.
Proof. repeat split; try (vm_compute; reflexivity); repeat constructor. Qed.

(* Serializer -> Deserializer pairs *)
Theorem C01_des_roundtrip_num : forall k v rest o, in_range k v ->
  dstep (mkD (bytes_of_num k v ++ rest) o None) (DNum k) = SOk (mkD rest (o + nk_size k) None) (ONum v) 0.
Proof. exact des_num_roundtrip. Qed.
Theorem C01_des_roundtrip_bool : forall (b : bool) rest o,
  dstep (mkD ((if b then 1%N else 0%N) :: rest) o None) DBool = SOk (mkD rest (o + 1) None) (OBool b) 0.
Proof. exact des_bool_roundtrip. Qed.
Theorem C01_des_roundtrip_bytes : forall bs rest o,
  dstep (mkD (bs ++ rest) o None) (DBytes (length bs)) =
  SOk (mkD rest (o + length bs) None) (OBytes bs) (N.of_nat (length bs)).
Proof. exact des_bytes_roundtrip. Qed.
Theorem C01_des_roundtrip_var_and_string : forall l bs mn mx p rest o,
  (Z.of_nat (length bs) <= MaxInt64)%Z ->
  slice_length_bytes l (Z.of_nat (length bs)) = Ok p ->
  len_check mn mx (Z.of_nat (length bs)) = None ->
  exists c,
  dstep (mkD (p ++ bs ++ rest) o None) (DVar l mn mx) = SOk (mkD rest (o + lpt_size l + length bs) None) (OBytes bs) c /\
  dstep (mkD (p ++ bs ++ rest) o None) (DString l mn mx) = SOk (mkD rest (o + lpt_size l + length bs) None) (OBytes bs) c.
Proof. exact des_var_roundtrip. Qed.

(* Known finding payload-type-only-at-end: a payload that is its 4-byte type code alone (what WritePayload emits for such
   an object: 04 00 00 00 01 00 00 00) is rejected by ReadPayload at the end of the input (MinPayloadByteSize = 5 is
   compared with what remains behind the length field) and read as soon as one more byte follows. *)
Theorem C01_refuted_payload_type_only_at_end :
  let sel := hsel 4 0 2 in
  dstep (dinit [4; 0; 0; 0; 1; 0; 0; 0]%N) (DPayload sel) = SOk (mkD [1; 0; 0; 0]%N 4 (Some ENotEnough)) ONone 0 /\
  dstep (dinit [4; 0; 0; 0; 1; 0; 0; 0; 9]%N) (DPayload sel) = SOk (mkD [9]%N 8 None) (OBytes [1; 0; 0; 0]%N) 0.
Proof. split; vm_compute; reflexivity. Qed.

(* non-vacuity of the guards *)
Example C01_guards_inhabited :
  fault_free [Give 1; Half; Give 3; Half] /\ typed (TNum I16) (SVNum (-32768)) /\ typed (TArr 36) (SVBytes (repeat 7%N 36)) /\
  with_size L16 [1; 2; 3]%N = Ok [3; 0; 1; 2; 3]%N /\ len_check 1 5 3 = None.
Proof. repeat split; try (repeat constructor; discriminate); vm_compute; auto; discriminate. Qed.

(* D01c on the pinned code: a one-byte-per-Read reader broke ReadBytes; the repaired code reads the 11 bytes. *)
Theorem C01_stream_refuted_pinned :
  fst (read_bytes_pinned 11 (mkR hello (repeat (Give 1) 19))) = Err EOther /\
  fst (fst (read_bytes 11 (mkR hello (repeat (Give 1) 19)))) = Ok hello.
Proof. exact refuted_pinned_single_read. Qed.

Print Assumptions C01_le_roundtrip.
Print Assumptions C01_le_roundtrip_bytes.
Print Assumptions C01_num_roundtrip.
Print Assumptions C01_num_roundtrip_bytes.
Print Assumptions C01_read_full_all_chunkings.
Print Assumptions C01_stream_roundtrip_T.
Print Assumptions C01_stream_roundtrip_bytes.
Print Assumptions C01_stream_roundtrip_bytes_with_size.
Print Assumptions C01_stream_roundtrip_collection.
Print Assumptions C01_des_roundtrip_num.
Print Assumptions C01_des_roundtrip_bool.
Print Assumptions C01_des_roundtrip_bytes.
Print Assumptions C01_des_roundtrip_var_and_string.
Print Assumptions C01_stream_refuted_pinned.
Print Assumptions C01_refuted_payload_type_only_at_end.
