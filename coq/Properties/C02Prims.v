(* C02, part c02prims - statements only (proofs in C02_Prims/): the Deserializer primitives and the stream Read
   helpers are total, never consume more than supplied, and their cost (make sizes + loop iterations) follows the data
   actually present. Model = code after the fix: commits 2366906 (D02a), 93eaa3d (D01c), 251eda6 (D02c), c8478d2 (ReadBytes
   allocation scheme, sizeToInt). *)
From Coq Require Import ZArith NArith List.
From Verif.C02_Prims Require Import Model Stream ProofsLE ProofsPrims ProofsStream ProofsPairs.
Import ListNotations.

(* Every primitive (ReadObject, ReadPayload, GetObjectType and ReadSliceOfObjects = DSeq over obj_item included), from
   every state (sticky error or not), on every input: no panic, offset + remaining is
   preserved (so the offset never passes the end of the input), and the cost is at most the bytes this call consumed
   + 64. Guards: the length-prefix type is a known one and item callbacks / selected objects keep their contract (wf_op); for the cost,
   successful items consume at least one byte (guarded; otherwise C02_refuted_zero_size_items). *)
Theorem C02_prim_total_bounded : forall s o, wf_op o ->
  exists s' out c, dstep s o = SOk s' out c /\ total s' = total s /\ (off s <= off s')%nat /\
                   (guarded o -> (c <= N.of_nat (off s' - off s) + 64)%N).
Proof. exact dstep_safe. Qed.

(* Every program of primitives on every byte string: no panic and Done() reports at most len(input). *)
Theorem C02_prims_no_panic_consumed : forall ops b, wf_prog ops ->
  r_panic (drun (dinit b) ops) = false /\ (off (r_state (drun (dinit b) ops)) <= length b)%nat.
Proof. exact drun_consumed. Qed.

(* ... and allocates/iterates at most len(input) + 64 per primitive. *)
Theorem C02_prims_cost : forall ops b, wf_prog ops -> guarded_prog ops ->
  (r_cost (drun (dinit b) ops) <= N.of_nat (length b) + 64 * N.of_nat (length ops))%N.
Proof. exact drun_cost. Qed.

(* non-vacuity: a program with every kind of primitive satisfies both guards *)
Example C02_guards_inhabited :
  let ops := [DBool; DNum I32; DVar L32 0 10; DString L8 1 0; DU256; DTime; DPayloadLen;
              DSeq true L16 (item_run IVar) (mkRules 0 3 VLexNoDup); DSeq false L64 (item_run (IFixed 2)) (mkRules 0 0 VNone);
              DGetType TDU32; DObject TDByte (hsel 1 0 2); DPayload (hsel 4 0 2);
              DSeq true L8 (obj_item TDU32 (hsel 4 1 3)) (mkRules 0 0 VNoDup);      (* ReadSliceOfObjects *)
              DConsumedAll] in
  wf_prog ops /\ guarded_prog ops.
Proof.
  assert (Hcons : forall hdr k1 k2, (1 <= hdr)%nat -> forall ty f, hsel hdr k1 k2 ty = Some f -> consuming f).
  { intros hdr k1 k2 Hh ty f. unfold hsel.
    destruct (orb (ty =? 0)%Z (ty =? 1)%Z); [intros H; inversion H; apply hobj_consuming; auto with arith|].
    destruct (ty =? 2)%Z; [intros H; inversion H; apply hobj_consuming; auto with arith|].
    destruct (ty =? 3)%Z; [intros H; inversion H; intros b n E; discriminate | discriminate]. }
  split.
  - unfold wf_prog. repeat (apply Forall_cons || apply Forall_nil); cbn [wf_op]; auto; try discriminate;
      try (split; [discriminate|]); try apply item_run_ok; try apply hsel_ok; apply obj_item_ok; apply hsel_ok.
  - unfold guarded_prog. repeat (apply Forall_cons || apply Forall_nil); cbn [guarded]; auto;
      try (apply item_run_consuming; discriminate).
    apply obj_item_consuming. apply Hcons. auto with arith.
Qed.

(* ReadPayload at the very end of the input: a declared payload length of 1..3 with exactly that many bytes left is
   "not enough data" (MinPayloadByteSize = 5 is checked before the 4-byte payload type is read: the model panics at
   that read when fewer than 4 bytes are left, and C02_prim_total_bounded shows the guard excludes it); 4 bytes left
   behind a length of 4 is still rejected (5 > 4); a 6-byte payload behind a length of 6 is read. *)
Example C02_payload_end_of_input :
  let sel := hsel 4 0 2 in
  dstep (dinit [2; 0; 0; 0; 170; 187]%N) (DPayload sel) = SOk (mkD [170; 187]%N 4 (Some ENotEnough)) ONone 0 /\
  dstep (dinit [1; 0; 0; 0; 170]%N) (DPayload sel) = SOk (mkD [170]%N 4 (Some ENotEnough)) ONone 0 /\
  dstep (dinit [4; 0; 0; 0; 1; 0; 0; 0]%N) (DPayload sel) = SOk (mkD [1; 0; 0; 0]%N 4 (Some ENotEnough)) ONone 0 /\
  dstep (dinit [6; 0; 0; 0; 2; 0; 0; 0; 7; 8]%N) (DPayload sel) = SOk (mkD [] 10 None) (OBytes [2; 0; 0; 0; 7; 8]%N) 0.
Proof. repeat split; vm_compute; reflexivity. Qed.

(* D02d (known finding): zero-size items iterate prefix-many times: 2 bytes of input, 65535 iterations. *)
Theorem C02_refuted_zero_size_items :
  wf_op d02d_op /\ r_cost (drun (dinit d02d_input) [d02d_op]) = 65535%N /\
  ~ (r_cost (drun (dinit d02d_input) [d02d_op]) <= N.of_nat (length d02d_input) + 64 * 1)%N.
Proof. exact refuted_zero_size_items. Qed.

(* D02a on the pinned code: 6-byte input, 1 GiB handed to make; after the fix cost 0 and the length error. *)
Theorem C02_refuted_pinned_var_alloc :
  dvar_cost_pinned L32 (dinit [255; 255; 255; 63; 1; 2]%N) = 1073741823%N /\
  (exists s' o c, dstep (dinit [255; 255; 255; 63; 1; 2]%N) (DVar L32 0 10) = SOk s' o c /\ c = 0%N /\ derr s' = Some ELenMax).
Proof. exact refuted_pinned_var_alloc. Qed.

(* io.ReadFull over every reader script (faults included): what was obtained is a prefix of the data, the reader
   advanced by exactly that, never more than requested. *)
Theorem C02_read_full_prefix : forall es want d got r e,
  read_full want d es = (got, r, e) ->
  got = firstn (length got) d /\ rdata r = skipn (length got) d /\ (length got <= want)%nat /\
  (e = RNil <-> length got = want).
Proof. exact read_full_spec. Qed.

(* stream.ReadBytes for every length (negative and 2^63-1 included) and every reader script: no panic, consumes a
   prefix n <= available, everything handed to make is <= 4 n + min(len, 1 MiB) (the up-front buffer never exceeds
   1 MiB, later buffers follow the data received), result = those n = len bytes. *)
Theorem C02_stream_read_bytes_total_bounded : forall len r x r' c,
  read_bytes len r = (x, r', c) ->
  x <> Panic /\
  exists n, (n <= length (rdata r))%nat /\ rdata r' = skipn n (rdata r) /\
            (c <= 4 * N.of_nat n + 1048576)%N /\ (c <= 4 * N.of_nat n + Z.to_N len)%N /\
            (forall bs, x = Ok bs -> bs = firstn n (rdata r) /\ Z.of_nat (length bs) = len).
Proof. exact read_bytes_total. Qed.

(* ... and up to the threshold of 1 MiB the allocation is exactly one buffer of len bytes, whatever arrives. *)
Theorem C02_stream_read_bytes_exact_alloc : forall len r x r' c,
  (0 <= len <= 1048576)%Z -> read_bytes len r = (x, r', c) -> c = Z.to_N len.
Proof. exact read_bytes_exact_alloc. Qed.

(* non-vacuity / sharpness: 2^20 + 1 bytes requested, 3 bytes present: 1 MiB handed to make, not more; the same with
   all data present: 1 MiB + (2^20 + 1) *)
Example C02_stream_read_bytes_cost_examples :
  read_bytes 1048577 (mkR [1; 2; 3]%N [Half]) = (Err EUnexpEOF, mkR [] [], 1048576%N) /\
  snd (read_bytes 1048577 (mkR (repeat 7%N (N.to_nat 1048577)) [])) = 2097153%N.
Proof. split; vm_compute; reflexivity. Qed.

(* readFixedSize + sizeToInt: a size prefix that reaches ReadBytes, ReadCollection or the caller of PeekSize fits
   int; a uint64 prefix >= 2^63 is an error for every helper that reads one (no empty collection, no negative size). *)
Theorem C02_stream_size_prefix_fits_int : forall l r v r' c,
  read_fixed_size l r = (Ok v, r', c) -> (Z.of_N v <= MaxInt64)%Z.
Proof. exact read_fixed_size_fits. Qed.
Theorem C02_stream_size_prefix_too_big : forall l r bs r1 c1,
  l <> LBad -> read_fixed (lpt_size l) r = (Ok bs, r1, c1) -> (MaxInt64 < Z.of_N (le_dec bs))%Z ->
  read_fixed_size l r = (Err ESizeRange, r1, c1) /\
  peek_size l r = (Err ESizeRange, r1, c1) /\
  (forall k, read_collection l k r = (Err ESizeRange, r1, c1)) /\
  read_bytes_with_size l r = (Err ESizeRange, r1, c1) /\
  (forall f, read_object_with_size l f r = (Err ESizeRange, r1, c1)).
Proof. exact size_prefix_too_big. Qed.
Example C02_stream_size_prefix_examples :
  let big := [0; 0; 0; 0; 0; 0; 0; 128; 9]%N in let ok := [255; 255; 255; 255; 255; 255; 255; 127; 9]%N in
  fst (fst (read_collection L64 1 (mkR big []))) = Err ESizeRange /\
  fst (fst (peek_size L64 (mkR big [Give 3]))) = Err ESizeRange /\
  fst (fst (peek_size L64 (mkR ok [Half]))) = Ok 9223372036854775807%N /\
  fst (fst (read_bytes_with_size L64 (mkR ok []))) = Err EUnexpEOF.
Proof. repeat split; vm_compute; reflexivity. Qed.

(* D02c on the pinned code: negative size panics, and make gets the prefix whatever the data. *)
Theorem C02_refuted_pinned_stream_negative : forall r, fst (read_bytes_pinned (-1) r) = Panic.
Proof. exact refuted_pinned_negative_size. Qed.
Theorem C02_refuted_pinned_stream_alloc : forall len r, (0 <= len)%Z -> snd (read_bytes_pinned len r) = len.
Proof. exact refuted_pinned_alloc_follows_prefix. Qed.

(* decoded numbers are always inside their kind's range *)
Theorem C02_le_decode_in_range : forall k bs,
  Forall (fun b => (b < 256)%N) bs -> length bs = nk_size k -> in_range k (num_of_bytes k bs).
Proof. exact num_of_bytes_range. Qed.

Print Assumptions C02_prim_total_bounded.
Print Assumptions C02_prims_no_panic_consumed.
Print Assumptions C02_prims_cost.
Print Assumptions C02_refuted_zero_size_items.
Print Assumptions C02_refuted_pinned_var_alloc.
Print Assumptions C02_read_full_prefix.
Print Assumptions C02_stream_read_bytes_total_bounded.
Print Assumptions C02_stream_read_bytes_exact_alloc.
Print Assumptions C02_stream_size_prefix_fits_int.
Print Assumptions C02_stream_size_prefix_too_big.
Print Assumptions C02_refuted_pinned_stream_negative.
Print Assumptions C02_refuted_pinned_stream_alloc.
Print Assumptions C02_le_decode_in_range.
