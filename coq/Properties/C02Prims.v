(* C02, part c02prims - statements only (proofs in C02_Prims/). *)
From Coq Require Import ZArith NArith List.
From Verif.C02_Prims Require Import Model Stream ProofsLE.
Import ListNotations.

Theorem C02_le_decode_total_in_range : forall k bs,
  Forall (fun b => (b < 256)%N) bs -> length bs = nk_size k -> in_range k (num_of_bytes k bs).
Proof. exact num_of_bytes_range. Qed.

Print Assumptions C02_le_decode_total_in_range.
