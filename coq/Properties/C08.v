(* C08 - BatchedWriter never loses or half-writes an enqueued object. Statements only. *)
From Coq Require Import List Bool Arith ZArith.
From Verif.C08_Batch Require Import Model Witness Proofs.
Import ListNotations.

Theorem C08_refuted_wg_pinned :
  pc_of s_d08a 0 = Some (PRet RAcc) /\ pc_of s_d08a 1 = Some (PRet (RStop true)) /\
  queue s_d08a = [0] /\ store s_d08a 0 = None /\ writes (rev (log s_d08a)) = [] /\ wp s_d08a = WStart.
Proof. exact d08a_witness. Qed.
Print Assumptions C08_refuted_wg_pinned.
