(* C08 - BatchedWriter never loses or half-writes an enqueued object. Statements only.
   Model: Verif.C08_Batch.Model (step : config -> state -> tid -> choice -> option state; run skips disabled entries).
   `fixedc c` = the code after the two fix: commits (writeWg.Add before `go`, scheduledCount raised before the
   running check); the other variants are the pinned code. *)
From Coq Require Import List Bool Arith ZArith.
From Verif.C08_Batch Require Import Model Proofs.
Import ListNotations.

(* SAFETY - every variant, every configuration, every schedule.  With l the chronological callback log:
   l is accepted by the writer-protocol automaton (BatchWriteDone(o) only as the next due call of the last commit,
   which contained exactly the mutations written since the previous commit; one open batch; no BatchWrite while
   Done calls are due), the store is the last committed BatchWrite of each object, every BatchWrite is committed or in
   the one open batch, BatchWriteDone calls + those still due = the committed objects in order (once per collection). *)
Theorem C08_safety : forall c ops sch, let s := run c sch (init ops) in
  let l := rev (log s) in
  ck_run ck0 l = Some (mkck (batch s) (dq s) (store s)) /\
  log_safe l = true /\
  (forall o, store s o = last_w (committed l) o) /\
  writes l = committed l ++ batch s /\
  dones l ++ dq s = map fst (committed l).
Proof. exact safety. Qed.

(* SAFETY UNDER STORE FAULTS - every variant, every configuration, every fault script (FaultModel.fstep = Model.step plus
   the choices "the store's batch Commit returns an error" at a non-empty commit and "store.Batched() returns an
   error"; behaviour after the error transcribed from the code: panic in the writer goroutine, no recover, the process
   terminates).  The state in which the fault strikes is reachable without faults (so every theorem above applies up to
   there); the whole log, refused call and panic included, is accepted by the writer protocol with faults (fck_run:
   BatchWriteDone(o) only as next due call of the last SUCCESSFUL commit; a refused commit makes no BatchWriteDone due
   and nothing but the panic follows it); the store holds the successfully committed mutations only; every
   BatchWriteDone(o) in the log is preceded by a successful EvCommit b with o in b; at a refused commit the refused
   batch is the open batch b, nothing is due, dones = objects of the successful commits, writes = committed ++ b; and a
   fault is terminal. *)
Theorem C08_safety_faults : forall c ops fsch, let fs := frun c fsch (finit ops) in
  let s := f_st fs in
  let l := rev (log s) in
  reach c ops s /\
  fck_run fck0 (flog fs) = Some (mkfck (mkck (batch s) (dq s) (store s)) (phase_of (f_crash fs))) /\
  (forall o, store s o = last_w (committed l) o) /\
  writes l = committed l ++ batch s /\
  dones l ++ dq s = map fst (committed l) /\
  (forall L1 o L2, l = L1 ++ EvDone o :: L2 -> exists L0 b L0', L1 = L0 ++ EvCommit b :: L0' /\ In o (map fst b)) /\
  match f_crash fs with
  | None => True
  | Some (CrCommit b) => b = batch s /\ b <> [] /\ dq s = [] /\ dones l = map fst (committed l) /\
                         writes l = committed l ++ b
  | Some CrBatched => batch s = [] /\ dq s = [] /\ writes l = committed l /\ dones l = map fst (committed l)
  end /\
  (f_crash fs <> None -> forall fsch', frun c fsch' fs = fs).
Proof. exact safety_faults. Qed.

(* an object of the refused batch has had more BatchWrite than BatchWriteDone calls: its last collection is never
   reported as persisted *)
Theorem C08_fault_refused_not_done : forall c ops fsch b o, let fs := frun c fsch (finit ops) in
  let l := rev (log (f_st fs)) in
  f_crash fs = Some (CrCommit b) -> In o (map fst b) ->
  count_o o (dones l) < count_o o (map fst (writes l)).
Proof. exact refused_not_done. Qed.

(* non-vacuity: queue 2, batch 1; the first commit succeeds (BatchWriteDone(0)), the second is refused: object 1 is
   written but never Done, the store does not hold it, the Stop call scheduled afterwards never runs *)
Example C08_safety_faults_nonvacuous :
  f_crash fs_fault = Some (CrCommit [(1, 2)]) /\ store (f_st fs_fault) 0 = Some 1 /\ store (f_st fs_fault) 1 = None /\
  flog fs_fault = [FE (EvSet 0 0 1); FE (EvRet 0 RAcc); FE (EvSet 1 1 2); FE (EvRet 1 RAcc); FE EvBatched; FE (EvReset 0);
                   FE (EvWrite 0 1); FE (EvCommit [(0, 1)]); FE (EvDone 0); FE EvBatched; FE (EvReset 1); FE (EvWrite 1 2);
                   FCommitFail [(1, 2)]; FPanic] /\
  thr (f_st fs_fault) = [(OEnq 0 1, PRet RAcc); (OEnq 1 2, PRet RAcc); (OStop, PIdle)].
Proof. exact fault_witness. Qed.

(* THE BATCH TIMER is a free scheduler choice of the model: the time-out branch of the collect select is enabled in every
   state (so every real timer behaviour - fires at once for a batch time-out <= 0, fires late, never fires within the
   run - is one of the schedules quantified over), and for an idle writer (nothing queued, no flush requested) it is
   the only step the writer goroutine can take: the writer returns to its loop condition, and so lets a waiting
   StopBatchWriter return, only through the timer.  (C08_can_finish uses exactly this step.) *)
Theorem C08_timeout_always_enabled : forall c s, wp s = WSelect MCollect ->
  writer_step c s CTimeout = Some (set_wp s (WCommit KHead)).
Proof. exact timeout_always_enabled. Qed.

Theorem C08_idle_writer_only_timeout : forall c s ch s', wp s = WSelect MCollect -> queue s = [] -> token s = false ->
  writer_step c s ch = Some s' -> ch = CTimeout /\ s' = set_wp s (WCommit KHead).
Proof. exact idle_writer_only_timeout. Qed.

(* COMPLETENESS (repaired code), life-cycle level: a Stop call that is invoked in a state where the writer goroutine
   exists and that has returned: the writer has terminated, nothing is queued, no Enqueue call is past its running
   check, every BatchWrite is committed and every committed object has had its BatchWriteDone, Wait is open. *)
Theorem C08_complete_partial : forall c ops sch1 sch2 ts r, fixedc c ->
  let s1 := run c sch1 (init ops) in
  let s2 := run c sch2 s1 in
  spawned s1 = true ->
  nth_error (thr s1) ts = Some (OStop, PIdle) ->
  nth_error (thr s2) ts = Some (OStop, PRet r) ->
  wp s2 = WFin /\ running s2 = false /\ queue s2 = [] /\ cnt inF (thr s2) = 0 /\ batch s2 = [] /\ dq s2 = [] /\
  writes (rev (log s2)) = committed (rev (log s2)) /\
  dones (rev (log s2)) = map fst (committed (rev (log s2))) /\
  wg s2 = 0.
Proof. exact stop_complete. Qed.

(* "An Enqueue call returned before Stop was invoked" gives the hypothesis `spawned s1 = true` above. *)
Theorem C08_enqueue_returned_writer_exists : forall c ops s t o v r, fixedc c -> reach c ops s ->
  nth_error (thr s) t = Some (OEnq o v, PRet r) -> spawned s = true.
Proof. exact enq_returned_spawned. Qed.

(* COMPLETENESS, value level (repaired code): an Enqueue(o) call t that has returned "accepted" (RAcc) or "already
   scheduled" (RDup) in a state s1 in which the Stop call ts was not yet invoked; when ts has returned (s2), and t is the
   last Enqueue invocation on o, the store holds the content v that t announced and o is not dirty (no content change
   after its last BatchWrite).  With C08_complete_partial (every BatchWrite committed, every committed object Done)
   and C08_safety (store = last committed BatchWrite) this is: written, committed, BatchWriteDone called. *)
Definition C08_complete_full_statement : Prop := forall c ops sch1 sch2 t ts o v r r', fixedc c ->
  let s1 := run c sch1 (init ops) in
  let s2 := run c sch2 s1 in
  nth_error (thr s1) t = Some (OEnq o v, PRet r) -> (r = RAcc \/ r = RDup) ->
  nth_error (thr s1) ts = Some (OStop, PIdle) ->
  nth_error (thr s2) ts = Some (OStop, PRet r') ->
  last_setter (log s2) o = Some (t, v) ->
  store s2 o = Some v /\ dirty (log s2) o = false.

Theorem C08_complete : C08_complete_full_statement.
Proof. exact complete. Qed.

(* "returned before Stop was invoked": an Enqueue call that has returned in a state in which no Stop call has been
   invoked yet was accepted (RAcc) or found the object already scheduled (RDup), never rejected; this discharges the
   hypothesis on r above. *)
Theorem C08_enqueue_accepted_before_stop : forall c ops s t o v r, fixedc c -> reach c ops s ->
  (forall j p, nth_error (thr s) j = Some (OStop, p) -> p = PIdle) ->
  nth_error (thr s) t = Some (OEnq o v, PRet r) -> r = RAcc \/ r = RDup.
Proof. exact enq_accepted_before_stop. Qed.

(* CONCURRENT FIRST Enqueue CALLS (the auto-start).  The model's Enqueue starts with autoStartOnce.Do as explicit steps
   (EOnce: take the Once / wait while another caller holds it / pass when done; EOnceChk, EOnceLock, EOnceBody, EOnceUnlock:
   startBatchWriter under startStopMutex), and the theorems above and below quantify over all scripts and schedules, so
   over any number of Enqueue calls standing at / inside the auto-start at the same time.  Made explicit here:
   a call that is past the auto-start step - whoever performed the start - finds the Once done, the writer goroutine
   created and, as long as no Stop call has been invoked, running = true. *)
Theorem C08_concurrent_first_enqueues_started : forall c ops s t o v p, fixedc c -> reach c ops s ->
  (forall j p', nth_error (thr s) j = Some (OStop, p') -> p' = PIdle) ->
  nth_error (thr s) t = Some (OEnq o v, p) -> postonce (OEnq o v, p) = true ->
  once s = ODone /\ spawned s = true /\ running s = true.
Proof. exact first_enqueues_started. Qed.

(* ... hence (C08_enqueue_accepted_before_stop + C08_complete_written + C08_complete in one statement): an Enqueue call
   that returned in a state in which no Stop call at all had been invoked is never dropped - it was accepted, a
   BatchWrite of its object follows its invocation, and when a Stop call invoked later has returned, the store holds the
   content it announced (if it is the last invocation on that object). *)
Theorem C08_complete_before_stop : forall c ops sch1 sch2 t ts o v r r', fixedc c ->
  let s1 := run c sch1 (init ops) in
  let s2 := run c sch2 s1 in
  (forall j p, nth_error (thr s1) j = Some (OStop, p) -> p = PIdle) ->
  nth_error (thr s1) t = Some (OEnq o v, PRet r) ->
  nth_error (thr s1) ts = Some (OStop, PIdle) ->
  nth_error (thr s2) ts = Some (OStop, PRet r') ->
  (r = RAcc \/ r = RDup) /\ wsince (log s2) t o = true /\
  (last_setter (log s2) o = Some (t, v) -> store s2 o = Some v /\ dirty (log s2) o = false).
Proof. exact complete_before_stop. Qed.

(* non-vacuity: two first calls at the same time; call 0 is inside the start (Once busy), call 1 stands at the Once and
   has no enabled step; afterwards both are accepted, written, committed and Done *)
Example C08_concurrent_first_enqueues_nonvacuous :
  pc_of s_two_wait 0 = Some (PE EOnceLock) /\ pc_of s_two_wait 1 = Some (PE EOnce) /\ once s_two_wait = OBusy /\
  step (fixed 2 2) s_two_wait 2 CStep = None /\
  pc_of s_two_end 0 = Some (PRet RAcc) /\ pc_of s_two_end 1 = Some (PRet RAcc) /\
  store s_two_end 0 = Some 1 /\ store s_two_end 1 = Some 2 /\ dones (rev (log s_two_end)) = [1; 0].
Proof. exact two_first_enqueues. Qed.

(* REFUTED for a start flag that does not make the other first callers wait (Start.step_flag: the Once replaced by
   `if started.CompareAndSwap(false, true) && !running.Load() { startBatchWriter() }`): script = two Enqueue calls and
   NO Stop call; call 1 loses the flag while call 0 is still on its way to running.Store(true), reads running = false,
   returns through the "writer has been stopped" exit; its object is never written.  On the same schedule the code with
   the Once keeps call 1 waiting at the Once. *)
Theorem C08_refuted_start_flag :
  (forall j p, nth_error (thr s_flag) j <> Some (OStop, p)) /\
  pc_of s_flag 0 = Some (PRet RAcc) /\ pc_of s_flag 1 = Some (PRet RRej) /\
  store s_flag 0 = Some 1 /\ store s_flag 1 = None /\ writes (rev (log s_flag)) = [(0, 1)] /\
  queue s_flag = [] /\ sched s_flag = 0%Z /\ flag s_flag 1 = false /\ running s_flag = true.
Proof. exact flag_witness. Qed.

Example C08_regression_start_flag_schedule :
  let s := run (fixed 2 2) sch_flag (init ops_two) in
  pc_of s 0 = Some (PRet RAcc) /\ pc_of s 1 = Some (PE EOnce) /\ once s = ODone.
Proof. exact flag_schedule_with_once. Qed.

(* THE STORE'S BATCH at the level of the mutation calls an object's BatchWrite makes (Muts.v; the model above abstracts a
   BatchWrite to one Set of one value).  apply_muts = the contract the BatchedWriter relies on: a committed batch has the
   effect of its Set / Delete calls in the order they were made, with the arguments as they were at the time of the
   call.  Per key the last call decides; Set-then-Delete leaves the key absent, Delete-then-Set present; for objects
   that write their full state on keys of their own, the store on an object's keys is what its last committed
   BatchWrite alone gives ("committed store contents equal the last BatchWrite of each object"); the model's batch is
   the special case of one Set per BatchWrite.  The correspondence (Corr.objs_ok) compares the implementation's store,
   read back byte-exact, with apply_muts over the recorded calls. *)
Theorem C08_batch_last_call_decides : forall l st k,
  apply_muts l st k = match last_mut l k with Some m => mval m | None => st k end.
Proof. exact apply_muts_last. Qed.

Theorem C08_batch_set_then_delete : forall l1 l2 l3 k v st, last_mut l3 k = None ->
  apply_muts (l1 ++ MSet k v :: l2 ++ MDel k :: l3) st k = None.
Proof. exact set_then_delete. Qed.

Theorem C08_batch_delete_then_set : forall l1 l2 l3 k v st, last_mut l3 k = None ->
  apply_muts (l1 ++ MDel k :: l2 ++ MSet k v :: l3) st k = Some v.
Proof. exact delete_then_set. Qed.

Theorem C08_store_last_batchwrite_of_object : forall before w later st k,
  last_mut w k <> None -> last_mut later k = None ->
  apply_muts (before ++ w ++ later) st k = apply_muts w kempty k.
Proof. exact last_write_wins. Qed.

Theorem C08_model_batch_is_mutation_batch : forall b (st : obj -> option nat) (ks : kstore) o,
  (forall o', ks o' = option_map (fun v => [v]) (st o')) ->
  apply_muts (batch_muts b) ks o = option_map (fun v => [v]) (apply_batch b st o).
Proof. exact apply_batch_muts. Qed.

(* The same for every accepted call, also when a later Enqueue on the same object was invoked (and possibly rejected):
   a BatchWrite(o) follows the invocation of t in the log (wsince scans the log newest-first for a BatchWrite(o) before
   reaching t's invocation event). *)
Theorem C08_complete_written : forall c ops sch1 sch2 t ts o v r r', fixedc c ->
  let s1 := run c sch1 (init ops) in
  let s2 := run c sch2 s1 in
  nth_error (thr s1) t = Some (OEnq o v, PRet r) -> (r = RAcc \/ r = RDup) ->
  nth_error (thr s1) ts = Some (OStop, PIdle) ->
  nth_error (thr s2) ts = Some (OStop, PRet r') ->
  wsince (log s2) t o = true.
Proof. exact complete_written. Qed.

(* The headline in explicit form: for an accepted call t of Enqueue(o) that returned before the Stop call ts was
   invoked, the chronological callback log at the return of ts reads
     ... Enqueue(o) invoked by t ... BatchWrite(o, v') ... Commit(b) with (o, v') in b ... BatchWriteDone(o) ... *)
Theorem C08_complete_ordered : forall c ops sch1 sch2 t ts o v r r', fixedc c ->
  let s1 := run c sch1 (init ops) in
  let s2 := run c sch2 s1 in
  nth_error (thr s1) t = Some (OEnq o v, PRet r) -> (r = RAcc \/ r = RDup) ->
  nth_error (thr s1) ts = Some (OStop, PIdle) ->
  nth_error (thr s2) ts = Some (OStop, PRet r') ->
  exists L1 v' L2 b L3 L4,
    rev (log s2) = L1 ++ EvWrite o v' :: L2 ++ EvCommit b :: L3 ++ EvDone o :: L4 /\
    In (EvSet t o v) L1 /\ In (o, v') b.
Proof. exact complete_ordered. Qed.

(* NO BLOCKING (repaired code), supporting facts: a call past its running check is never abandoned by the writer
   (the writer is alive and scheduledCount >= 1 keeps it alive), and once the writer has terminated Wait is open,
   running is false, the queue is empty and no call is past its running check. *)
Theorem C08_no_block_partial_sender : forall c ops s t o p, fixedc c -> reach c ops s ->
  nth_error (thr s) t = Some (o, p) -> (p = PE EFlag \/ p = PE ESend) ->
  wp s <> WExit /\ wp s <> WFin /\ (1 <= sched s)%Z.
Proof. exact sender_not_abandoned. Qed.

Theorem C08_no_block_partial_after_exit : forall c ops s, fixedc c -> reach c ops s -> wp s = WFin ->
  wg s = 0 /\ running s = false /\ queue s = [] /\ cnt inF (thr s) = 0.
Proof. exact after_exit. Qed.

(* NO BLOCKING (repaired code; every queue size incl. rendezvous, every batch size, every script, every schedule):
   a reachable state in which no thread has an enabled step has no unfinished call.  Equivalently (C08_progress): while
   some call has not returned, some thread can move.  (The writer's time-out / default branches are always enabled
   while it lives, so the content of the theorem is in the states without a live writer: Wait is open, nobody is parked
   at a send, the mutex / Once holder can move.  Termination under a fair scheduler is not formalised.) *)
Definition C08_no_block_full_statement : Prop := forall c ops s, fixedc c -> reach c ops s -> stuckb c s = true ->
  forall i o p, nth_error (thr s) i = Some (o, p) -> exists r, p = PRet r.

Theorem C08_no_block : C08_no_block_full_statement.
Proof. exact no_block. Qed.

Theorem C08_progress : forall c ops s i o p, fixedc c -> reach c ops s ->
  nth_error (thr s) i = Some (o, p) -> (forall r, p <> PRet r) ->
  exists t ch s', t <= length (thr s) /\ In ch choices /\ step c s t ch = Some s'.
Proof. exact progress. Qed.

(* NO CALL BLOCKS FOR EVER, possibility form (repaired code; every queue size incl. rendezvous, every batch size, every
   script): every reachable state has a continuation of the schedule after which every call has returned.  So no
   Enqueue / Flush / Stop call is ever in a position from which it cannot return (a call parked at its send is served by
   the live writer, a Stop parked at Wait is released by the writer's exit, which happens once the calls that raised the
   counter have returned and the queue is drained).  Strictly stronger than C08_no_block; not a fairness theorem: that
   a fair scheduler actually takes such a continuation is not formalised. *)
Theorem C08_can_finish : forall c ops s, fixedc c -> reach c ops s -> exists sch, all_returned (run c sch s).
Proof. exact can_finish. Qed.

(* PINNED CODE - refuted (D08a, D08b); both repaired by fix: commits, the model's fixed variant mirrors the repair *)
Theorem C08_refuted_wg_pinned :
  pc_of s_d08a 0 = Some (PRet RAcc) /\ pc_of s_d08a 1 = Some (PRet (RStop true)) /\
  queue s_d08a = [0] /\ store s_d08a 0 = None /\ writes (rev (log s_d08a)) = [] /\ wp s_d08a = WStart.
Proof. exact d08a_witness. Qed.

Theorem C08_refuted_block_pinned :
  pc_of (s_d08b 0) 1 = Some (PE ESend) /\ pc_of (s_d08b 0) 2 = Some (PRet (RStop true)) /\
  wp (s_d08b 0) = WFin /\ stuckb (cfg_d08b 0) (s_d08b 0) = true.
Proof. exact d08b_witness_block. Qed.

(* ... and stays parked there under every continuation (contrast to C08_can_finish) *)
Theorem C08_refuted_block_pinned_forever : forall sch, pc_of (run (cfg_d08b 0) sch (s_d08b 0)) 1 = Some (PE ESend).
Proof. exact d08b_block_forever. Qed.

Theorem C08_refuted_strand_pinned :
  pc_of (s_d08b 1) 1 = Some (PRet RAcc) /\ pc_of (s_d08b 1) 2 = Some (PRet (RStop true)) /\
  wp (s_d08b 1) = WFin /\ queue (s_d08b 1) = [1] /\ flag (s_d08b 1) 1 = true /\ store (s_d08b 1) 1 = None /\
  stuckb (cfg_d08b 1) (s_d08b 1) = true.
Proof. exact d08b_witness_strand. Qed.

(* regressions on the repaired variant: the same races end with everything written and done *)
Example C08_regression_wg : pc_of s_d08a_fixed 1 = Some (PS4 true) /\ wg s_d08a_fixed = 1.
Proof. exact d08a_fixed_regression. Qed.
Example C08_regression_race : forall q, q = 0 \/ q = 1 ->
  pc_of (s_race_fixed q) 1 = Some (PRet RAcc) /\ pc_of (s_race_fixed q) 2 = Some (PRet (RStop true)) /\
  wp (s_race_fixed q) = WFin /\ store (s_race_fixed q) 1 = Some 2 /\ dones (rev (log (s_race_fixed q))) = [0; 1].
Proof. exact race_fixed_regression. Qed.

(* non-vacuity: the hypotheses of C08_complete_partial / C08_no_block_partial_sender hold on a real run *)
Example C08_complete_nonvacuous :
  let s1 := run (fixed 1 1) (rep 10 1) (init ops_d08b) in
  let s2 := run (fixed 1 1) (skipn 10 sch_race_fixed) s1 in
  fixedc (fixed 1 1) /\ spawned s1 = true /\ nth_error (thr s1) 2 = Some (OStop, PIdle) /\
  nth_error (thr s2) 2 = Some (OStop, PRet (RStop true)) /\ store s2 1 = Some 2.
Proof. vm_compute. repeat split; reflexivity. Qed.

(* non-vacuity of C08_complete / C08_complete_written / C08_complete_ordered: Enqueue(0) returned "accepted" before Stop is invoked *)
Example C08_complete_value_nonvacuous :
  let s1 := run (fixed 1 1) (rep 10 1 ++ rep 2 0 ++ [(1, CStep)]) (init ops_d08b) in
  let s2 := run (fixed 1 1) (skipn 13 sch_race_fixed) s1 in
  nth_error (thr s1) 0 = Some (OEnq 0 1, PRet RAcc) /\ nth_error (thr s1) 2 = Some (OStop, PIdle) /\
  nth_error (thr s2) 2 = Some (OStop, PRet (RStop true)) /\ last_setter (log s2) 0 = Some (0, 1) /\
  store s2 0 = Some 1 /\ dirty (log s2) 0 = false /\ wsince (log s2) 0 0 = true.
Proof. vm_compute. repeat split; reflexivity. Qed.

(* non-vacuity of C08_no_block: a reachable stuck state of the repaired code (everything returned, writer gone), and a
   reachable state with unfinished calls (not stuck); contrast: C08_refuted_block_pinned *)
Example C08_no_block_nonvacuous :
  reach (fixed 1 1) ops_d08b (s_race_fixed 1) /\ stuckb (fixed 1 1) (s_race_fixed 1) = true /\
  thr (s_race_fixed 1) = [(OEnq 0 1, PRet RAcc); (OEnq 1 2, PRet RAcc); (OStop, PRet (RStop true))] /\
  stuckb (fixed 0 1) (run (fixed 0 1) (rep 10 1) (init ops_d08b)) = false.
Proof. split. exists sch_race_fixed; reflexivity. vm_compute. repeat split; reflexivity. Qed.

(* non-vacuity of C08_enqueue_accepted_before_stop: a returned Enqueue while the only Stop call is not yet invoked *)
Example C08_accepted_nonvacuous :
  let s1 := run (fixed 1 1) (rep 10 1 ++ rep 2 0 ++ [(1, CStep)]) (init ops_d08b) in
  (forall j p, nth_error (thr s1) j = Some (OStop, p) -> p = PIdle) /\
  nth_error (thr s1) 0 = Some (OEnq 0 1, PRet RAcc).
Proof.
  split; [|vm_compute; reflexivity].
  intros j p. vm_compute. destruct j as [|[|[|[|j]]]]; intros H; try discriminate H. injection H as <-. reflexivity.
Qed.

(* non-vacuity of C08_can_finish: a reachable state with a call parked at its send on a rendezvous queue and a Stop
   call parked at Wait (the writer is alive because the parked call has raised the counter) *)
Example C08_can_finish_nonvacuous :
  let s := run (fixed 0 1) (rep 9 2 ++ rep 5 3 ++ rep 2 0) (init ops_d08b) in
  pc_of s 1 = Some (PE ESend) /\ pc_of s 2 = Some (PS4 true) /\ wp s = WBatched MCollect /\ running s = false /\
  sched s = 1%Z.
Proof. vm_compute. repeat split; reflexivity. Qed.

Example C08_sender_nonvacuous :
  let s := run (fixed 0 1) (rep 10 1) (init ops_d08b) in
  nth_error (thr s) 0 = Some (OEnq 0 1, PE ESend) /\ wp s = WHead /\ sched s = 1%Z.
Proof. vm_compute. repeat split; reflexivity. Qed.

Print Assumptions C08_safety.
Print Assumptions C08_safety_faults.
Print Assumptions C08_fault_refused_not_done.
Print Assumptions C08_timeout_always_enabled.
Print Assumptions C08_idle_writer_only_timeout.
Print Assumptions C08_complete_partial.
Print Assumptions C08_complete.
Print Assumptions C08_complete_written.
Print Assumptions C08_complete_ordered.
Print Assumptions C08_no_block.
Print Assumptions C08_progress.
Print Assumptions C08_enqueue_accepted_before_stop.
Print Assumptions C08_can_finish.
Print Assumptions C08_concurrent_first_enqueues_started.
Print Assumptions C08_complete_before_stop.
Print Assumptions C08_refuted_start_flag.
Print Assumptions C08_batch_last_call_decides.
Print Assumptions C08_batch_set_then_delete.
Print Assumptions C08_batch_delete_then_set.
Print Assumptions C08_store_last_batchwrite_of_object.
Print Assumptions C08_model_batch_is_mutation_batch.
Print Assumptions C08_refuted_block_pinned_forever.
Print Assumptions C08_enqueue_returned_writer_exists.
Print Assumptions C08_no_block_partial_sender.
Print Assumptions C08_no_block_partial_after_exit.
Print Assumptions C08_refuted_wg_pinned.
Print Assumptions C08_refuted_block_pinned.
Print Assumptions C08_refuted_strand_pinned.
