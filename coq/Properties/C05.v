(* C05 - KVStore operations (mapdb, realm views, batches, flushkv) are linearizable under concurrent use.
   Statements only; proofs in C05_KVConc/{Lin,Proofs,Locks}.v over the executable model C05_KVConc/Model.v. *)
From Coq Require Import NArith List Bool Arith Permutation.
From Verif.C05_KVConc Require Import Model Lin Proofs Locks BatchModel BatchProofs Fresh.
Import ListNotations.

(* ------------------------------------------------------------------ linearizability, all schedules *)
(* For ANY number of threads, ANY scripts of API calls (Get/Has/Set/Delete/DeletePrefix/Clear/Iterate/
   IterateKeys/Flush/WithRealm/Batched/Close/batch Commit, through any views, plain or flushkv-wrapped;
   Iterate/IterateKeys also with RE-ENTRANT consumers, CIterRe: the consumer makes arbitrary API calls - reads,
   writes, further re-entrant iterations - through any views from inside its invocations; every nested call
   is a call of its own with its own invocation/response stamps inside the interval of the Iterate) and
   ANY schedule (interleaving of the threads' instructions, blocked entries skipped), the history of atomic
   operations - every single operation, every individual write of a Commit, every Flush of a flushkv call,
   each with the invocation/response stamps of its call - is linearizable w.r.t. the sequential contract
   spec_step (Herlihy-Wing; calls still in flight are completed by their effect or dropped). *)
Theorem C05_linearizable : forall (scripts : list (list call)) (sch : list nat),
  linearizable (recs (run sch (init scripts))).
Proof. exact all_schedules_linearizable. Qed.

(* the same, with legality spelled out propositionally (results equal to what spec_step prescribes) *)
Theorem C05_linearizable_legal : forall scripts sch,
  exists l, Permutation l (recs (run sch (init scripts))) /\ legal sinit l /\ rt_ok l.
Proof.
  intros scripts sch. destruct (all_schedules_linearizable scripts sch) as [l [H1 [H2 H3]]].
  exists l. split; [exact H1|]. split; [apply replay_legal; exact H2 | exact H3].
Qed.

(* Every operation has an instant of the run strictly between the invocation and the response of its call
   at which its result was true of the store: what spec_step prescribes in the state of that instant, or -
   only if a Close overlapped the call - the plain effect on the map of that instant. *)
Theorem C05_effect_instant : forall scripts sch r,
  In r (recs (run sch (init scripts))) ->
  exists k, k <= length sch /\
    let s1 := run (firstn k sch) (init scripts) in
    o_inv r < clock s1 /\ (forall x, o_res r = Some x -> clock s1 < x) /\
    (o_ret r = snd (spec_step (mkS (mem s1) (closed s1)) (o_op r)) \/
     (closed s1 = true /\ okop (o_op r) = true /\ o_ret r = snd (eff (mem s1) (o_op r)))).
Proof. exact effect_instant. Qed.

(* Iterate / IterateKeys report a set of entries that all existed together at ONE instant between the
   invocation and the return: exactly the selected entries (prefix, order, limit) of the map of that instant. *)
Theorem C05_iterate_snapshot : forall scripts sch r p strip fwd keys lim l,
  In r (recs (run sch (init scripts))) ->
  o_op r = OIter p strip fwd keys lim -> o_ret r = RList l ->
  exists k, k <= length sch /\
    let s1 := run (firstn k sch) (init scripts) in
    o_inv r < clock s1 /\ (forall x, o_res r = Some x -> clock s1 < x) /\
    l = snapshot (mem s1) p strip fwd keys lim.
Proof. exact iterate_snapshot. Qed.

(* An operation of a call invoked after a Close had returned fails with ErrStoreClosed (or is a Close). *)
Theorem C05_closed_after_return : forall scripts sch c x rc,
  let h := recs (run sch (init scripts)) in
  In c h -> o_op c = OClose -> o_res c = Some rc ->
  In x h -> rc < o_inv x ->
  o_ret x = RClosed \/ o_op x = OClose.
Proof. exact closed_after_return. Qed.

(* ------------------------------------------------------------------ the lock skeleton *)
(* No reachable state is stuck: as long as some thread has not finished all its calls, some thread can take a
   step (view lock -> map lock hierarchy, no re-entry, RWMutex with writer preference). This covers re-entrant
   consumers (CIterRe): the callbacks of an Iterate run after the map's read lock was released and Iterate takes
   no view lock, so the consumer's nested calls start with no lock held (Locks.ok_prog demands exactly that of
   ICallbacks / IInvoke / IReturn). *)
Theorem C05_no_deadlock : forall scripts sch,
  let s := run sch (init scripts) in
  (exists th, In th (threads s) /\ finished th = false) -> exists t s', step s t = Some s'.
Proof. exact no_deadlock. Qed.

(* The discipline is necessary: in the variant that keeps the view's read lock across the consumer callbacks
   (Model.compile_held: s.RLock(); defer s.RUnlock() in Iterate/IterateKeys) there are scripts and a schedule
   after which some call has not returned and NO thread can ever take a step again: the consumer reads through
   the iterated view while a Set on that view is waiting (recursive RLock behind an announced writer). *)
Theorem C05_refuted_rlock_across_callbacks :
  exists scripts sch,
    let s := run_with compile_held sch (init scripts) in
    (exists th, In th (threads s) /\ finished th = false) /\ (forall t, step_with compile_held s t = None).
Proof. exact rlock_across_callbacks_deadlocks. Qed.

(* Every effect on the shared map happens while its thread holds the map lock, writes hold it exclusively. *)
Theorem C05_effects_under_lock : forall scripts sch th o p,
  In th (threads (run sch (init scripts))) -> cur th = Some (IEff o :: p) ->
  exists w, hm th = Some w /\ (is_write o = true -> w = true).
Proof. exact effects_under_lock. Qed.

(* ------------------------------------------------------------------ view creation (round 4) *)
(* WithRealm / WithExtendedRealm / Batched are CWithRealm in the model (only the closed test is observable): the derived view
   is a view with an object id nobody used before and the realm the derivation prescribes - a pure function of the realm, not
   of what the parent view is doing. What "its own fresh lock" means for the run: in EVERY reachable state a view object on
   which no call is in flight (Fresh.not_in_use: no thread's remaining program still has to release its lock) can be locked
   for writing and for reading immediately, whatever is going on on its parent and siblings; so the first call through a freshly
   derived view never waits for the view lock (it may wait for the map lock, which C05_no_deadlock covers).
   Real code: seeded/C05-m10 (WithExtendedRealm copying the parent's RWMutex), harness family `derive`. *)
Theorem C05_unused_view_unlocked : forall scripts sch x,
  let s := run sch (init scripts) in
  not_in_use x s -> can_lock (threads s) (LView x) = true /\ can_rlock (threads s) (LView x) = true.
Proof. exact unused_view_unlocked. Qed.

(* non-vacuity: the parent (object 1) is write-locked by a Set in flight, object 7 was just derived from it and is not in use;
   its first writer takes the lock of object 7 at once and returns after the parent's writer released the map lock *)
Example C05_unused_view_example :
  let s := run fr_sch (init fr_scripts) in
  map (fun th => (hv th, hm th)) (threads s) = [(Some (1, true), Some true); (None, None)] /\ not_in_use 7 s /\
  map hv (threads (run (fr_sch ++ [1; 1; 1; 1; 1]) (init fr_scripts))) = [Some (1, true); Some (7, true)].
Proof.
  split; [vm_compute; reflexivity|]. split; [|vm_compute; reflexivity].
  apply not_in_useb_spec. vm_compute. reflexivity.
Qed.

(* ------------------------------------------------------------------ a batch object shared by goroutines (round 2) *)
(* One BatchedMutations object used by ANY number of goroutines and reused after Commit / Cancel (BatchModel.v: the
   programs of mapdb's batchedMutations over the batch's own mutex; the flushkv batch forwards to one underlying batch).
   The history of the batch object - Set/Delete = OSet k (encv x), Cancel = ODelPrefix [], a Commit that got past the
   `closed` test = OIter [] returning the content it applies - is linearizable for all scripts and schedules: every Set/
   Delete/Cancel takes effect, and every Commit reads the content, at one instant between invocation and return.
   The store part of such a Commit is compile (CCommit w content), covered by C05_linearizable for every content. *)
Theorem C05_shared_batch_linearizable : forall (scripts : list (list bcall)) (sch : list nat),
  linearizable (brecs (brun sch (binit scripts))).
Proof. exact batch_linearizable. Qed.

(* No accepted write is lost: a Set/Delete that RETURNED before a Commit was INVOKED is part of the content that Commit
   applies (when nothing else touched that key and nobody cancelled; with several writes of one key the linearizability
   above says which one wins). Since Commit does not empty the batch, every later Commit applies it as well. *)
Theorem C05_shared_batch_no_lost_write : forall scripts sch,
  let h := brecs (brun sch (binit scripts)) in
  forall p c k v n l,
    In p h -> In c h -> o_op p = OSet k v ->
    o_op c = OIter [] 0 true false n -> o_ret c = RList l ->
    precedes p c ->
    length (filter (fun q => touches k (o_op q)) h) = 1 ->
    In (k, v) l.
Proof. exact accepted_write_not_lost. Qed.

(* The statement fails for the wrapper variant whose Commit replaces the underlying batch by a fresh one after
   committing (BatchModel.wstep; NOT the code): same hypotheses, the committed content lacks the write. Real code:
   seeded/C05-m6 (harness families sbatch / sbatch-dir). *)
Theorem C05_refuted_batch_swapped_on_commit :
  exists scripts sch, loses_write (wrecs (wrun sch (winit scripts))).
Proof. exact swapping_wrapper_loses. Qed.

(* ... and never holds of the model of the code (loses_write = the negation of the conclusion above under its hypotheses) *)
Theorem C05_shared_batch_never_loses : forall scripts sch, ~ loses_write (brecs (brun sch (binit scripts))).
Proof. exact code_never_loses. Qed.

(* non-vacuity: the same two goroutines on the model of the code (Set "b" arrives while the first Commit holds the batch's
   mutex): the hypotheses of C05_shared_batch_no_lost_write hold for that Set and the second Commit, whose content has it *)
Definition sb_sch : list nat := [0;0;0;0;0; 0;0;0;0; 1;1; 0;0; 1;1;1;1; 0;0;0;0;0;0].
Example sb_history :
  map (fun r => (o_call r, o_inv r, o_res r, o_op r, o_ret r)) (brecs (brun sb_sch (binit w_scripts))) =
  [((0, 0), 0, Some 4, OSet [97]%N [1; 1]%N, ROk);
   ((0, 1), 5, Some 11, OIter [] 0 true false 1, RList [([97]%N, [1; 1]%N)]);
   ((1, 0), 9, Some 15, OSet [98]%N [1; 2]%N, ROk);
   ((0, 2), 16, Some 21, OIter [] 0 true false 2, RList [([97]%N, [1; 1]%N); ([98]%N, [1; 2]%N)])].
Proof. vm_compute. reflexivity. Qed.
Example sb_hyps :
  let h := brecs (brun sb_sch (binit w_scripts)) in
  let p := mkO (1, 0) 9 (Some 15) (OSet [98]%N [1; 2]%N) ROk in
  let c := mkO (0, 2) 16 (Some 21) (OIter [] 0 true false 2) (RList [([97]%N, [1; 1]%N); ([98]%N, [1; 2]%N)]) in
  In p h /\ In c h /\ precedes p c /\ length (filter (fun q => touches [98]%N (o_op q)) h) = 1.
Proof. vm_compute. repeat split; auto 10. Qed.
Example sb_content_is_what_commit_applies :
  content_writes [([97]%N, [1; 1]%N); ([98]%N, [0]%N)] = [([97]%N, Some [1]%N); ([98]%N, None)].
Proof. reflexivity. Qed.

(* ------------------------------------------------------------------ the executable history checker *)
(* Soundness: a history accepted by lin_check IS linearizable. Used by the correspondence on histories
   recorded from free-running goroutines on the real code. *)
Theorem C05_lin_check_sound : forall h, lin_check h = true -> linearizable h.
Proof. exact lin_check_sound. Qed.

(* Not expressible in this model (no memory model): "the store is free of data races". The thorough tier runs
   the same histories under the Go race detector; C05_effects_under_lock is the model-level counterpart. *)

(* ------------------------------------------------------------------ non-vacuity *)
Definition ex_v0 := mkV 0 [] false.
Definition ex_v1 := mkV 1 [97%N] false.

(* A Set that loads `closed` before a Close and writes after it, and a Get invoked after the Close returned:
   the write is linearized before the Close; the Get fails with ErrStoreClosed. *)
Definition ex_scripts := [[CSet ex_v0 [97;98]%N [1]%N]; [CClose ex_v1]; [CGet ex_v1 [98]%N]].
Definition ex_sch := [0;0; 1;1;1; 2;2;2; 0;0;0;0;0;0].

Example ex_history :
  map (fun r => (o_call r, o_inv r, o_res r, o_op r, o_ret r)) (recs (run ex_sch (init ex_scripts))) =
  [((1, 0), 2, Some 4, OClose, ROk);
   ((2, 0), 5, Some 7, OGet [97; 98]%N, RClosed);
   ((0, 0), 0, Some 13, OSet [97; 98]%N [1]%N, ROk)].
Proof. vm_compute. reflexivity. Qed.

Example ex_write_after_close_applied : mem (run ex_sch (init ex_scripts)) = [([97; 98]%N, [1]%N)].
Proof. vm_compute. reflexivity. Qed.

Example ex_checker_accepts : lin_check (recs (run ex_sch (init ex_scripts))) = true.
Proof. vm_compute. reflexivity. Qed.

(* hypotheses of C05_closed_after_return are satisfiable: Close returned at 4, the Get was invoked at 5 *)
Example ex_closed_after_return_hyps :
  exists c x, In c (recs (run ex_sch (init ex_scripts))) /\ o_op c = OClose /\ o_res c = Some 4 /\
              In x (recs (run ex_sch (init ex_scripts))) /\ 4 < o_inv x /\ o_ret x = RClosed.
Proof.
  exists (mkO (1, 0) 2 (Some 4) OClose ROk), (mkO (2, 0) 5 (Some 7) (OGet [97; 98]%N) RClosed).
  vm_compute. repeat split; auto.
Qed.

(* two writers through different views of overlapping realms and an Iterate: the snapshot hypothesis holds,
   one call is still in flight and a thread is unfinished (hypothesis of C05_no_deadlock) *)
Definition it_scripts := [[CSet ex_v0 [97;98]%N [1]%N; CIter ex_v1 [] true false 9]; [CSet ex_v1 [99]%N [2]%N]].
Definition it_sch := [0;0;0;0;0;0;0;0; 1;1;1;1; 0;0;0; 1;1;1;1; 0;0;0].

Example it_history :
  map (fun r => (o_call r, o_inv r, o_res r, o_op r, o_ret r)) (recs (run it_sch (init it_scripts))) =
  [((0, 0), 0, Some 7, OSet [97; 98]%N [1]%N, ROk);
   ((1, 0), 8, Some 17, OSet [97; 99]%N [2]%N, ROk);
   ((0, 1), 12, None, OIter [97]%N 1 true false 9, RList [([98]%N, [1]%N); ([99]%N, [2]%N)])].
Proof. vm_compute. reflexivity. Qed.

Example it_unfinished : map finished (threads (run it_sch (init it_scripts))) = [false; true].
Proof. vm_compute. reflexivity. Qed.

(* a re-entrant consumer: goroutine 0 iterates the root; inside the first callback it reads "a" through the view
   with realm "a" and overwrites the entry it is being handed, inside the second it iterates again (nested
   consumer deletes); goroutine 1 writes in between. Nested calls have their own ids/stamps; the outer Iterate
   reports the snapshot taken before any callback ran. *)
Definition re_scripts :=
  [[CSet ex_v0 [97]%N [1]%N; CSet ex_v0 [98]%N [2]%N;
    CIterRe ex_v0 [] true false 9
      [[CGet ex_v1 []; CSet ex_v0 [97]%N [3]%N];
       [CIterRe ex_v1 [] true true 9 [[CDel ex_v0 [98]%N]]]]];
   [CSet ex_v1 [99]%N [4]%N]].
Definition re_sch := repeat 0 24 ++ repeat 1 8 ++ repeat 0 60.

Example re_history :
  map (fun r => (o_call r, o_inv r, o_res r, o_op r, o_ret r)) (recs (run re_sch (init re_scripts))) =
  [((0, 0), 0, Some 7, OSet [97]%N [1]%N, ROk);
   ((0, 1), 8, Some 15, OSet [98]%N [2]%N, ROk);
   ((0, 2), 16, Some 61, OIter [] 0 true false 9, RList [([97]%N, [1]%N); ([98]%N, [2]%N)]);
   ((1, 0), 24, Some 31, OSet [97; 99]%N [4]%N, ROk);
   ((0, 3), 22, Some 37, OGet [97]%N, RVal [1]%N);
   ((0, 4), 38, Some 45, OSet [97]%N [3]%N, ROk);
   ((0, 5), 46, Some 60, OIter [97]%N 1 true true 9, RList [([]%N, []%N); ([99]%N, []%N)]);
   ((0, 6), 52, Some 59, ODel [98]%N, ROk)].
Proof. vm_compute. reflexivity. Qed.

Example re_all_finished : map finished (threads (run re_sch (init re_scripts))) = [true; true].
Proof. vm_compute. reflexivity. Qed.

Example re_checker_accepts : lin_check (recs (run re_sch (init re_scripts))) = true.
Proof. vm_compute. reflexivity. Qed.

(* hypothesis of C05_no_deadlock with a consumer in the middle of a nested call *)
Example re_unfinished_inside_callback :
  map (fun th => (finished th, cidx th)) (threads (run (repeat 0 24) (init re_scripts))) = [(false, 3); (false, 0)].
Proof. vm_compute. reflexivity. Qed.

(* the checker is not trivially true: a stale read, a torn snapshot and a success after Close are rejected *)
Example checker_rejects_stale_read :
  lin_check [mkO (0,0) 1 (Some 2) (OSet [97]%N [1]%N) ROk; mkO (0,1) 3 (Some 4) (OSet [97]%N [2]%N) ROk;
             mkO (1,0) 5 (Some 6) (OGet [97]%N) (RVal [1]%N)] = false.
Proof. vm_compute. reflexivity. Qed.

Example checker_rejects_torn_snapshot :
  lin_check [mkO (0,0) 1 (Some 2) (OSet [97]%N [1]%N) ROk; mkO (0,1) 3 (Some 4) (OSet [97]%N [2]%N) ROk;
             mkO (0,2) 5 (Some 6) (OSet [98]%N [3]%N) ROk;
             mkO (1,0) 1 (Some 8) (OIter [] 0 true false 9) (RList [([97]%N, [1]%N); ([98]%N, [3]%N)])] = false.
Proof. vm_compute. reflexivity. Qed.

Example checker_rejects_success_after_close :
  lin_check [mkO (0,0) 1 (Some 2) OClose ROk; mkO (1,0) 3 (Some 4) (OSet [97]%N [1]%N) ROk] = false.
Proof. vm_compute. reflexivity. Qed.

(* ... and accepts the same write when it overlaps the Close *)
Example checker_accepts_overlapping_close :
  lin_check [mkO (0,0) 1 (Some 3) OClose ROk; mkO (1,0) 2 (Some 4) (OSet [97]%N [1]%N) ROk] = true.
Proof. vm_compute. reflexivity. Qed.

Print Assumptions C05_linearizable.
Print Assumptions C05_linearizable_legal.
Print Assumptions C05_effect_instant.
Print Assumptions C05_iterate_snapshot.
Print Assumptions C05_closed_after_return.
Print Assumptions C05_no_deadlock.
Print Assumptions C05_refuted_rlock_across_callbacks.
Print Assumptions C05_effects_under_lock.
Print Assumptions C05_lin_check_sound.
Print Assumptions C05_shared_batch_linearizable.
Print Assumptions C05_shared_batch_no_lost_write.
Print Assumptions C05_refuted_batch_swapped_on_commit.
Print Assumptions C05_shared_batch_never_loses.
Print Assumptions C05_unused_view_unlocked.
