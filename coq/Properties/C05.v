(* C05 - KVStore operations are linearizable under concurrent use. Statements only. (stub, filled below) *)
From Coq Require Import NArith List.
From Verif.C05_KVConc Require Import Model.
