(* C10 - ds.List behaves exactly like a reference doubly-linked list (container/list). Statements only. *)
From Coq Require Import ZArith List Bool.
From Verif.C10_List Require Import Model Ring Proofs Proofs2 Proofs3 ModelBadArg ProofsBadArg.
Import ListNotations.
Close Scope Z_scope.

(* Full statement: for EVERY history h of the twelve mutating calls AND the four iteration methods (ForEach,
   ForEachReverse, Range, RangeReverse; Iter l rv fe script) with ANY scripted callback - at each visit nothing,
   an abort with an error, or one call of any of the twelve methods on any list with the visited element, its
   Next(), its Prev() or a fixed handle as arguments - in which no call passes a handle that Init orphaned and no
   callback orphans the element the walk stands on (czombie_free), the pointer-level model of ds/list_impl.go
   never panics, returns what the container/list contract returns at every call - for an iteration: the sequence
   of visited values of the reference loop  for e := l.Front(); e != nil; e = e.Next() { f(e) }  (acstep/aiter:
   successor read after the callback) and whether it was aborted - and ends in a state that represents (R) the
   contract's state. *)
Definition C10_refines_full_statement : Prop := forall h,
  czombie_free ainit h = true ->
  exists st', crun init_state h = Some (st', snd (acrun ainit h)) /\ R st' (fst (acrun ainit h)).

(* Proved for all twelve calls and all four iteration methods, every script (induction over the walk:
   Proofs3.iter_refines; each round = the callback's call by C10_step_refines, then Next()/Prev() of the visited
   element in the NEW state: its successor there if it is still a member, nil if the callback removed it). *)
Theorem C10_refines : C10_refines_full_statement.
Proof. intros h. exact (crun_refines h init_state ainit R_init). Qed.

(* the visit sequence of one iteration from any represented state = the reference loop's, for every script *)
Theorem C10_iter_visits_reference : forall st a l rv fe script,
  R st a -> call_zombie_free a (Iter l rv fe script) = true ->
  option_map snd (cstep st (Iter l rv fe script)) = Some (snd (acstep a (Iter l rv fe script))).
Proof. exact iter_visits_reference. Qed.

(* non-vacuity: callbacks that push behind the last element while it is visited (it is visited too), remove the
   visited element (the walk ends), remove its successor (skipped), insert behind it, move it, push whole lists;
   reverse walks; an abort *)
Example C10_refines_iter_nonvacuous :
  czombie_free ainit sample_iter_history = true /\
  snd (acrun ainit sample_iter_history) =
    [COut (OHandle (Some (El 0))); COut (OHandle (Some (El 1))); COut (OHandle (Some (El 2)));
     CIter [1; 2; 3; 4]%Z false; CIter [1; 2]%Z false; CIter [1; 4; 7]%Z true; CIter [7; 4; 1]%Z false;
     COut ONone; CIter [7; 4; 1; 9]%Z false] /\
  option_map snd (crun init_state sample_iter_history) = Some (snd (acrun ainit sample_iter_history)).
Proof. exact sample_iter_history_ok. Qed.

(* The twelve calls alone (histories without iterations), as before. *)
Theorem C10_refines_calls : forall h,
  zombie_free ainit h = true ->
  exists st', run init_state h = Some (st', snd (arun ainit h)) /\ R st' (fst (arun ainit h)).
Proof. intros h. exact (run_refines_full h init_state ainit R_init). Qed.

(* non-vacuity: a zombie-free history with all twelve calls, self-pushes, foreign and removed handles and an
   Init of a non-empty list; it ends with 50 elements in list 0 and 49 in list 1 *)
Example C10_refines_nonvacuous :
  zombie_free ainit sample_history_full = true /\
  length (alist (fst (arun ainit sample_history_full)) 0) = 50 /\
  option_map (fun r => length (values_rev (fst r) 1)) (run init_state sample_history_full) = Some 49.
Proof. exact sample_history_full_ok. Qed.

(* One call from any represented state (the induction step), for any of the twelve calls and non-orphaned handles. *)
Theorem C10_step_refines : forall st a o,
  R st a -> existsb (is_orphan a) (handles o) = false ->
  exists st', step st o = Some (st', snd (astep a o)) /\ R st' (fst (astep a o)).
Proof. exact step_refines_full. Qed.

(* ... and one call or one whole iteration (any script) from any represented state. *)
Theorem C10_call_refines : forall st a c,
  R st a -> call_zombie_free a c = true ->
  exists st', cstep st c = Some (st', snd (acstep a c)) /\ R st' (fst (acstep a c)).
Proof. exact cstep_refines. Qed.

(* In every represented state the observations are those of the contract: Len, Front, Back, the forward and the
   reverse value sequence (Values/Range/ForEach and ForEachReverse) of every list ... *)
Theorem C10_observations : forall st a l, R st a ->
  len st l = Z.of_nat (length (alist a l)) /\
  front st l = hd_ptr (alist a l) /\
  back st l = hd_ptr (rev (alist a l)) /\
  values st l = map (aval a) (alist a l) /\
  values_rev st l = map (aval a) (rev (alist a l)).
Proof. exact obs_all_refines. Qed.

(* ... Next, Prev and Value of every live handle (member of some list) are the contract's successor,
   predecessor (nil at the ends, never the sentinel) and value ... *)
Theorem C10_handle_observations : forall st a l n, R st a -> In n (alist a l) ->
  elem_next st (El n) = option_map El (succ_of n (alist a l)) /\
  elem_prev st (El n) = option_map El (pred_of n (alist a l)) /\
  value_of st (El n) = aval a n.
Proof. exact handle_obs_refines. Qed.

(* ... so, end to end: after EVERY zombie-free history the model has not panicked, has returned the contract's
   results and shows the contract's Len/Front/Back/Values/reverse Values and Prev/Next/Value of every live handle. *)
Theorem C10_refines_observed : forall h,
  czombie_free ainit h = true ->
  exists st', crun init_state h = Some (st', snd (acrun ainit h)) /\
              R st' (fst (acrun ainit h)) /\ observed_equal st' (fst (acrun ainit h)).
Proof. exact crun_refines_observed. Qed.

(* ... and Prev/Next are nil on every handle that is in no list (removed or never inserted). *)
Theorem C10_removed_handle_nil : forall st a n,
  R st a -> ~ In n (aorph a) -> (forall l, ~ In n (alist a l)) ->
  elem_next st (El n) = None /\ elem_prev st (El n) = None.
Proof. exact removed_handle_nil. Qed.

(* Foreign / removed handles: every call of list l given a handle that is not a member of l (member of another
   list, removed, never inserted, a sentinel) changes nothing and returns nil / the handle's value. *)
Theorem C10_foreign_noop : forall st a l p,
  R st a -> is_orphan a p = false -> hmem p (alist a l) = None ->
  step st (Remove l p) = Some (st, OVal (aval_of a p)) /\
  (forall v, step st (InsertBefore l v p) = Some (st, OHandle None)) /\
  (forall v, step st (InsertAfter l v p) = Some (st, OHandle None)) /\
  step st (MoveToFront l p) = Some (st, ONone) /\
  step st (MoveToBack l p) = Some (st, ONone) /\
  (forall q, step st (MoveBefore l p q) = Some (st, ONone) /\ step st (MoveBefore l q p) = Some (st, ONone) /\
             step st (MoveAfter l p q) = Some (st, ONone) /\ step st (MoveAfter l q p) = Some (st, ONone)).
Proof. exact foreign_noop. Qed.

Example C10_foreign_nonvacuous :
  exists st, run init_state [PushBack 0 1%Z; PushBack 1 2%Z] = Some (st, [OHandle (Some (El 0)); OHandle (Some (El 1))]) /\
             hmem (El 1) (alist (fst (arun ainit [PushBack 0 1%Z; PushBack 1 2%Z])) 0) = None.
Proof. eexists; split; vm_compute; reflexivity. Qed.

(* Move semantics (after fix eae1e74): MoveAfter(e, m) with both in list l and e <> m puts e right behind m
   (general theorem = the MoveBefore/MoveAfter cases of C10_step_refines); the D10a regression history [1 2 3],
   MoveBefore(c, a) gives [3 1 2] and MoveAfter(a, c) gives [2 3 1], forwards and backwards ... *)
Theorem C10_move :
  option_map (fun s => (values s 0, values_rev s 0)) (run_with step init_state d10a_before) = Some ([3; 1; 2], [2; 1; 3])%Z /\
  option_map (fun s => (values s 0, values_rev s 0)) (run_with step init_state d10a_after) = Some ([2; 3; 1], [1; 3; 2])%Z.
Proof. exact d10a_fixed. Qed.

(* ... while the pinned code (position taken from the element argument) left [1 2 3] (D10a). *)
Theorem C10_refuted_move_pinned :
  option_map (fun s => values s 0) (run_with step_pinned init_state d10a_before) = Some [1; 2; 3]%Z /\
  option_map (fun s => values s 0) (run_with step_pinned init_state d10a_after) = Some [1; 2; 3]%Z.
Proof. exact d10a_pinned. Qed.

(* Thread-safe flavour, sequential callers, the RWMutex of every list explicit (Model.locks: the read and write
   holds; a lock that cannot be taken blocks for ever): every method of the wrapper - the twelve calls and the
   four iteration methods - gives back the lock state it found, on EVERY exit path: normal return, return of the
   callback's error (an aborted ForEach), a panic out of the callback ... *)
Theorem C10_ts_releases : forall k st c r k1, cstep_ts k st c = TDone r k1 -> k1 = k.
Proof. exact cstep_ts_releases. Qed.

(* ... so after fix d8bfa53 no call of a whole history blocks, every call does exactly what the lock-free flavour
   does and all locks are free at the end - for all histories whose callbacks do not write the list they iterate
   (ts_safe; aborting callbacks included) ...
   ATOMICITY ASSUMPTION (not a premise of the theorem, but of its reading for concurrent callers): crun_ts runs ONE
   caller; it speaks about goroutines using one list at the same time only if every wrapper method is one atomic
   step of this lock model - all twelve mutators under the write lock, all readers under the read lock of the
   list's sync.RWMutex - so that concurrent use IS some sequential history. That is not proved here; it is tied to
   the code by the free-running concurrent family of the harness (harness/cmd/c10/free.go, plain and -race builds),
   and named in the evidence (assumptions, trusted_base). *)
Theorem C10_ts_equals_plain : forall h st,
  forallb ts_safe h = true -> crun_ts lk0 st h = TDone (crun st h) lk0.
Proof. exact crun_ts_equals_plain. Qed.

Theorem C10_ts_step_equals_plain : forall st c, ts_safe c = true -> cstep_ts lk0 st c = TDone (cstep st c) lk0.
Proof. exact cts_equals_plain. Qed.

(* ... ts_safe is necessary: while a read lock of a list is held (an iteration is running), every one of the
   twelve calls on that list blocks for ever - a callback of the thread-safe flavour cannot mutate the list it
   iterates, unlike the reference loop (sync.RWMutex is not re-entrant; by design, not covered by the harness) ... *)
Theorem C10_ts_reentrant_write_blocks : forall fixed k st o,
  mem (op_list o) (rd k) = true -> op_ts fixed k st o = TBlocked.
Proof. exact reentrant_write_blocks. Qed.

(* ... and the lock model is not blind: [1 2 3]; ForEach aborted at the second element; PushBack(5) gives
   [1 2 3 5] with the deferred unlock, but blocks for a wrapper that skips the unlock on the error path. *)
Example C10_lock_model_sensitive :
  forallb ts_safe abort_then_push = true /\
  option_map (fun r => (values (fst r) 0, nth 3 (snd r) (CIter [] false))) (crun init_state abort_then_push)
    = Some ([1; 2; 3; 5]%Z, CIter [1; 2]%Z true) /\
  crun_ts_gen (rp true false true) lk0 init_state abort_then_push = TBlocked.
Proof. exact abort_then_push_ok. Qed.

Example C10_lock_model_sensitive_panic :
  crun_ts_gen (rp true true false) lk0 init_state [Call (PushBack 0 1%Z); Iter 0 false false [CPanic]] = TDone None (lk [0] []) /\
  crun_ts lk0 init_state [Call (PushBack 0 1%Z); Iter 0 false false [CPanic]] = TDone None lk0.
Proof. exact panic_path_ok. Qed.

(* Round 5 - PANICKING ARGUMENTS (ModelBadArg.v): a method of list l called with a nil handle, a ListElement / List
   implementation of the caller, a nil list or a nil callback panics inside the inner method, before the ring is touched
   ([XBad l w], w = under the write lock). The wrapper gives the lock back on this exit path too ... *)
Theorem C10_ts_releases_bad_arg : forall k st x r k1, xstep_ts k st x = TDone r k1 -> k1 = k.
Proof. exact xstep_ts_releases. Qed.

(* ... so a caller that recovers from such panics and goes on (as it may with container/list) is never blocked and sees
   exactly the lock-free flavour's results, all locks free at the end - for all histories (callbacks ts_safe) ... *)
Theorem C10_ts_equals_plain_bad_arg : forall h st,
  forallb xsafe h = true -> xrun_ts lk0 st h = TDone (xrun st h) lk0.
Proof. exact xrun_ts_equals_plain. Qed.

(* ... and the model sees the difference: [1]; Remove(nil), recovered; PushBack(2) gives [1 2] with the deferred unlock
   and blocks for a wrapper that unlocks after the inner call only. *)
Example C10_lock_model_sensitive_bad_arg :
  forallb xsafe bad_remove_then_push = true /\
  option_map (fun r => (values (fst r) 0, snd r)) (xrun init_state bad_remove_then_push)
    = Some ([1; 2]%Z, [Some (COut (OHandle (Some (El 0)))); None; Some (COut (OHandle (Some (El 1))))]) /\
  xrun_ts lk0 init_state bad_remove_then_push = TDone (xrun init_state bad_remove_then_push) lk0 /\
  xrun_ts_gen (rp true true false) lk0 init_state bad_remove_then_push = TBlocked.
Proof. exact bad_remove_then_push_ok. Qed.

(* the twelve calls in the older formulation without explicit lock state *)
Theorem C10_ts_calls_equal_plain : forall st o, step_ts st o = Done (step st o).
Proof. exact ts_equals_plain. Qed.

(* ... while the pinned wrapper deadlocks on l.PushBackList(l) / l.PushFrontList(l) in every state (D10b). *)
Theorem C10_refuted_selfpush_pinned : forall st l,
  step_ts_pinned st (PushBackList l l) = Deadlock /\ step_ts_pinned st (PushFrontList l l) = Deadlock.
Proof. exact selfpush_deadlock_pinned. Qed.

Print Assumptions C10_refines.
Print Assumptions C10_iter_visits_reference.
Print Assumptions C10_refines_calls.
Print Assumptions C10_step_refines.
Print Assumptions C10_call_refines.
Print Assumptions C10_observations.
Print Assumptions C10_handle_observations.
Print Assumptions C10_refines_observed.
Print Assumptions C10_removed_handle_nil.
Print Assumptions C10_foreign_noop.
Print Assumptions C10_move.
Print Assumptions C10_refuted_move_pinned.
Print Assumptions C10_ts_releases.
Print Assumptions C10_ts_releases_bad_arg.
Print Assumptions C10_ts_equals_plain_bad_arg.
Print Assumptions C10_ts_equals_plain.
Print Assumptions C10_ts_step_equals_plain.
Print Assumptions C10_ts_reentrant_write_blocks.
Print Assumptions C10_ts_calls_equal_plain.
Print Assumptions C10_refuted_selfpush_pinned.
