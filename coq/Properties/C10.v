(* C10 - ds.List behaves exactly like a reference doubly-linked list. Statements only. (work in progress) *)
From Coq Require Import ZArith List.
From Verif.C10_List Require Import Model.
