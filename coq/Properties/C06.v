(* C06 - TypedValue / TypedStore are transparent, error-faithful typed views. Statements only.
   Model: C06_Typed/Model.v (typedvalue.go) and StoreModel.v (typedstore.go).  V, the zero value, the codecs
   enc/dec and the compute callbacks are arbitrary; the only codec premise is dec (enc v) = v for successful
   encodes.  sc : nat -> bool is the fault script: one position per codec/store call, in call order. *)
From Coq Require Import NArith List Bool.
From Verif.C06_Typed Require Import Model StoreModel ErrTree Corr Proofs StoreProofs Examples Mutex.
Import ListNotations.

(* a freshly constructed TypedValue over any raw contents is coherent *)
Theorem C06_fresh_coherent : forall (V : Type) (dec : bytes -> option V) r, coherent V dec (fresh r).
Proof. exact coherent_fresh. Qed.

(* Cache coherence is an invariant over all histories x all fault scripts: after every call,
   hasCached = Some b -> b = (raw key present), valueCached = Some v -> the raw bytes decode to v (and
   hasCached = Some true, which keeps Compute's `*t.hasCached` from dereferencing nil). *)
Theorem C06_coherent : forall (V : Type) (zero : V) enc dec,
  (forall v b, enc v = Some b -> dec b = Some v) ->
  forall h sc s p, coherent V dec s -> all_coherent V dec (run V zero enc dec sc s p h).
Proof. exact run_coherent. Qed.

(* Transparency: for every history and fault script, every call either consumed a fault, returned EFault and
   left the raw bytes alone, or consumed none and (result, raw bytes afterwards, callback arguments) are exactly
   those of the raw key under the codec (Model.spec: no cache, no faults). *)
Theorem C06_transparent : forall (V : Type) (zero : V) enc dec,
  (forall v b, enc v = Some b -> dec b = Some v) ->
  forall h sc s p, coherent V dec s -> trace_ok V zero enc dec sc (raw s) p (run V zero enc dec sc s p h).
Proof. exact run_transparent. Qed.

(* Failure atomicity and error faithfulness, for every call of every history: a call that hits a fault returns
   EFault and leaves raw bytes AND both caches unchanged; any error leaves the raw bytes unchanged and, unless it
   is ErrKeyNotFound (Get caching the absence), the caches too; EFault is reported only if a fault was hit;
   no call panics. *)
Theorem C06_failure_atomic : forall (V : Type) (zero : V) enc dec,
  (forall v b, enc v = Some b -> dec b = Some v) ->
  forall h sc s p, coherent V dec s -> trace_atomic V sc s p (run V zero enc dec sc s p h).
Proof. exact run_failure_atomic. Qed.

(* The stored bytes are always the encoding of the last successfully written value (absent after a successful
   Delete), where "written" is judged from outside: Set ok / Delete ok / Compute ok whose callback returned a value. *)
Theorem C06_last_written : forall (V : Type) (zero : V) enc dec,
  (forall v b, enc v = Some b -> dec b = Some v) ->
  forall h sc s p, coherent V dec s ->
  raw (fst (final V s p (run V zero enc dec sc s p h))) = last_written V enc (raw s) (run V zero enc dec sc s p h).
Proof. exact run_last_written. Qed.

(* Double-checked locking: a Get (Has) whose lock-free phase ran on s1 and whose locked phase ran on s2 equals
   ONE atomic Get on s1 (then it changed nothing) or ONE atomic Get on s2. *)
Theorem C06_get_two_phase : forall (V : Type) (dec : bytes -> option V) sc s1 s2 p,
  (get_fast V s1 <> None /\ get_two_phase V dec sc s1 s2 p = get V dec sc s1 p /\ st (get V dec sc s1 p) = s1) \/
  (get_fast V s1 = None /\ get_two_phase V dec sc s1 s2 p = get V dec sc s2 p).
Proof. exact get_two_phase_atomic. Qed.

Theorem C06_has_two_phase : forall (V : Type) sc (s1 s2 : tv V) p,
  (has_fast V s1 <> None /\ has_two_phase V sc s1 s2 p = has V sc s1 p /\ st (has V sc s1 p) = s1) \/
  (has_fast V s1 = None /\ has_two_phase V sc s1 s2 p = has V sc s2 p).
Proof. exact has_two_phase_atomic. Qed.

(* No lost update: calls being atomic steps, any interleaving of n Compute(g) calls is a sequence of n calls;
   without faults the i-th returns g^i(current) and the raw key ends as (an encoding that decodes to) g^n(current). *)
Theorem C06_no_lost_update : forall (V : Type) (zero : V) enc dec,
  (forall v b, enc v = Some b -> dec b = Some v) ->
  forall (g : V -> V) n sc s p c,
  coherent V dec s -> (forall i, sc i = false) -> (forall v, enc v <> None) -> holds V zero dec (raw s) c ->
  map (fun e => result (snd e)) (run V zero enc dec sc s p (repeat (Compute (bump V g)) n)) = bump_results V g c n /\
  exists b, raw (fst (final V s p (run V zero enc dec sc s p (repeat (Compute (bump V g)) n)))) = b /\
            holds V zero dec b (Nat.iter n g c).
Proof. exact no_lost_update. Qed.

(* What "calls are atomic steps" rests on (Mutex.v): operations are lists of micro-steps (one per store call, codec
   call, cache assignment) on an arbitrary shared state; threads are scheduled arbitrarily, any thread may start any
   operation whenever the lock is free, and ONLY THE LOCK HOLDER executes micro-steps (= every store/codec call of an
   operation lies inside its critical section).  Then in every reachable configuration the shared state is the serial
   execution, in lock-acquisition order, of the operations acquired so far (the running one up to a prefix [pre]). *)
Theorem C06_locked_calls_serial : forall (S : Type) (s0 : S) (c : cfg S), reach S s0 c ->
  match holder c with
  | None => sh c = serial S (map snd (log c)) s0
  | Some (i, rest) => exists lg pre, log c = lg ++ [(i, pre ++ rest)] /\ sh c = run_micro S pre (serial S (map snd lg) s0)
  end.
Proof. exact locked_serial. Qed.

(* Set and Delete of the model are the composition of their micro-steps (store write; cache assignment). *)
Theorem C06_set_delete_micro : forall (V : Type) (enc : V -> option bytes),
  (forall sc s p v b, sc p = false -> sc (S p) = false -> enc v = Some b ->
     st (set V enc sc s p v) = run_micro (tv V) (set_micro V v b) s) /\
  (forall sc s p, sc p = false -> st (delete V sc s p) = run_micro (tv V) (delete_micro V) s).
Proof. intros V enc; split; [exact (set_is_micro V enc) | exact (delete_is_micro V)]. Qed.

(* Without that premise the property is false: Set(1) and Set(2) on a fresh TypedValue, the store write of Set not
   covered by the lock: store(1); store(2); cache(2); cache(1) leaves cache = 1 over raw = enc 2 - not coherent and
   equal to neither serial order.  (The harness starts a second call at every store/codec/callback boundary of a
   first one and judges results and cache-vs-store, so a tree with this behaviour is reported with the schedule.) *)
Theorem C06_refuted_narrowed_lock :
  encV 1 = Some [0; 1]%N /\ encV 2 = Some [0; 2]%N /\
  exists il, merge set1 set2 il /\
    let s := run_micro (tv N) il (fresh (V:=N) None) in
    ~ coherent N decV s /\
    s <> serial (tv N) [set1; set2] (fresh (V:=N) None) /\
    s <> serial (tv N) [set2; set1] (fresh (V:=N) None).
Proof. exact narrowed_lock_refuted. Qed.

(* The pinned code violated failure atomicity (D06, repaired by a fix: commit): Set(7); Compute(-> 0xFFFF). *)
Theorem C06_refuted_compute_encode :
  raw d06_pre = Some [0; 7]%N /\ encV 65535 = None /\
  result d06_pinned = RVal 65535%N /\ raw (st d06_pinned) = Some [] /\ vc (st d06_pinned) = Some 65535%N /\
  result (step N 0%N encV decV nofault (st d06_pinned) (pos d06_pinned) Get) = RVal 65535%N /\
  decV [] = None.
Proof. exact refuted_compute_encode_pinned. Qed.

(* ---- TypedStore ---- *)

(* every call of every history: the call consumed a fault iff it reports EFault, and any reported error
   (also from inside an iteration) leaves the whole store unchanged *)
Theorem C06_store_failure_atomic : forall (K V : Type) encK decK encV decV h sc s p,
  strace_atomic K V sc s p (srun K V encK decK encV decV sc s p h).
Proof. exact srun_failure_atomic. Qed.

(* every raw key holds the bytes of the last visible write to it *)
Theorem C06_store_last_written : forall (K V : Type) encK decK encV decV h sc s p kb,
  find kb (sfinal K V s (srun K V encK decK encV decV sc s p h)) =
  slast_written K V encK encV kb (find kb s) (srun K V encK decK encV decV sc s p h).
Proof. exact srun_last_written. Qed.

Theorem C06_store_set_get : forall (K V : Type) encK decK encV decV,
  (forall v b, encV v = Some b -> decV b = Some v) ->
  forall sc s p k v sc' p',
  sresult (sstep K V encK decK encV decV sc s p (SSet k v)) = SOk -> (forall i, sc' i = false) ->
  sresult (sstep K V encK decK encV decV sc' (sst (sstep K V encK decK encV decV sc s p (SSet k v))) p' (SGet k)) = SVal v.
Proof. exact sset_then_get. Qed.

(* Iterate hands the callback the decoding of an initial segment of the matching raw entries, in store order;
   without error it covered all of them unless the callback stopped it; a decode error means an entry was left *)
Theorem C06_store_iterate : forall (K V : Type) encK decK encV decV sc s p pre bw limit l e,
  sresult (sstep K V encK decK encV decV sc s p (SIterate pre bw limit)) = SList l e ->
  Forall2 (decodes K V decK decV) l (firstn (length l) (entries pre bw s)) /\
  (e = None -> length l = length (entries pre bw s) \/ (limit <= length l)%nat) /\
  (e = Some EDecode -> (length l < length (entries pre bw s))%nat).
Proof. exact siterate_delivers. Qed.

(* ---- error classification (ErrTree.v) ----
   The theorems above speak about CLASSES: "this store call fails" (fault script), "the key is absent", the callback
   answers CNew / CNotChanged / CFail.  The code derives those classes from Go errors with ierrors.Is.  With
   contains = errors.Is on error trees (Unwrap() error and Unwrap() []error; tied to ierrors.Is by the harness),
   the class is a function of the set of leaves, a sentinel is found wherever it sits, and a context that holds no
   sentinel of its own (every shape the harness presents errors in; ierrors.Wrap added by TypedValue itself) does not
   change what an error means - so the error shape is a parameter the model does not need to look at. *)
Theorem C06_is_finds_anywhere : forall c e t, contains t e = true -> contains t (plug c e) = true.
Proof. exact contains_plug. Qed.

Theorem C06_class_by_membership : forall t e, contains t e = true <-> In t (leaves e).
Proof. exact contains_In. Qed.

Theorem C06_class_shape_independent : forall c e,
  ctx_clean c ->
  (forall t, is_sentinel t = true -> contains t (plug c e) = contains t e) /\
  abs_get (plug c e) = abs_get e /\
  (forall V (v : V), abs_cb v (Some (plug c e)) = abs_cb v (Some e)) /\
  classify (plug c e) = classify e.
Proof.
  intros c e Hc; repeat split.
  - intros t Ht; now apply class_plug.
  - unfold abs_get; now rewrite class_plug.
  - intros V v; unfold abs_cb; now rewrite class_plug.
  - now apply classify_plug.
Qed.

Theorem C06_harness_shapes : forall sh,
  ctx_clean (shape_ctx sh) /\
  abs_get (shape_apply sh (ELeaf id_not_found)) = GNotFound /\
  abs_get (shape_apply sh (ELeaf id_injected)) = GFailure /\
  (forall V (v : V), abs_cb v (Some (shape_apply sh (ELeaf id_not_changed))) = CNotChanged) /\
  (forall V (v : V), abs_cb v (Some (shape_apply sh (ELeaf id_compute))) = CFail).
Proof.
  intros sh; repeat split.
  - apply shape_is_context.
  - apply not_found_any_shape.
  - apply fault_any_shape.
  - intros; apply not_changed_any_shape.
  - intros; apply compute_failure_any_shape.
Qed.

Example C06_tree_shapes_nontrivial :
  shape_apply 11%nat (ELeaf id_not_found) = EMulti [EWrap noise; ELeaf id_not_found] /\
  contains id_not_found (shape_apply 11%nat (ELeaf id_not_found)) = true /\
  contains_chain_only id_not_found (shape_apply 11%nat (ELeaf id_not_found)) = false /\
  abs_cb 0%nat (Some (shape_apply 6%nat (ELeaf id_not_changed))) = CNotChanged /\
  contains_chain_only id_not_changed (shape_apply 6%nat (ELeaf id_not_changed)) = false /\
  abs_get (shape_apply 17%nat (ELeaf id_injected)) = GFailure /\
  first_tag (EMulti [EWrap noise; EMulti [ELeaf 10%nat; ELeaf 9%nat]; ELeaf 11%nat]) = Some 10%nat.
Proof. exact tree_shapes_nontrivial. Qed.

(* non-vacuity: Examples.v (coherent_nontrivial, ex_hist_results, nlu_nontrivial, ts_nontrivial, decV_encV) *)
Example C06_codec_premise_holds : forall v b, encV v = Some b -> decV b = Some v.
Proof. exact decV_encV. Qed.
Example C06_coherent_nontrivial : coherent N decV (mkTv (Some [0; 7; 9]%N) (Some 7%N) (Some true)).
Proof. exact coherent_nontrivial. Qed.
Example C06_locked_two_sets :
  exists c, reach (tv N) (fresh (V:=N) None) c /\ holder c = None /\ map fst (log c) = [0%nat; 1%nat] /\
    sh c = mkTv (Some [0; 2]%N) (Some 2%N) (Some true) /\ coherent N decV (sh c).
Proof. exact locked_two_sets. Qed.
Example C06_d06_regression : result d06_fixed = RErr EEncode /\ st d06_fixed = d06_pre.
Proof. exact d06_regression. Qed.

Print Assumptions C06_fresh_coherent.
Print Assumptions C06_coherent.
Print Assumptions C06_transparent.
Print Assumptions C06_failure_atomic.
Print Assumptions C06_last_written.
Print Assumptions C06_get_two_phase.
Print Assumptions C06_has_two_phase.
Print Assumptions C06_no_lost_update.
Print Assumptions C06_refuted_compute_encode.
Print Assumptions C06_locked_calls_serial.
Print Assumptions C06_set_delete_micro.
Print Assumptions C06_refuted_narrowed_lock.
Print Assumptions C06_store_failure_atomic.
Print Assumptions C06_store_last_written.
Print Assumptions C06_store_set_get.
Print Assumptions C06_store_iterate.
Print Assumptions C06_is_finds_anywhere.
Print Assumptions C06_class_by_membership.
Print Assumptions C06_class_shape_independent.
Print Assumptions C06_harness_shapes.
