(* C06 - TypedValue / TypedStore are transparent, error-faithful typed views. Statements only.
   Model: C06_Typed/Model.v (typedvalue.go) and StoreModel.v (typedstore.go).  V, the zero value, the codecs
   enc/dec and the compute callbacks are arbitrary; the only codec premise is dec (enc v) = v for successful
   encodes.  sc : nat -> bool is the fault script: one position per codec/store call, in call order. *)
From Coq Require Import NArith List Bool.
From Verif.C06_Typed Require Import Model StoreModel Corr Proofs StoreProofs Examples.
Import ListNotations.

(* a freshly constructed TypedValue over any raw contents is coherent *)
Theorem C06_fresh_coherent : forall (V : Type) (dec : bytes -> option V) r, coherent V dec (fresh r).
Proof. exact coherent_fresh. Qed.

(* Cache coherence is an invariant over all histories x all fault scripts: after every call,
   hasCached = Some b -> b = (raw key present), valueCached = Some v -> the raw bytes decode to v (and
   hasCached = Some true, which keeps Compute's `*t.hasCached` from dereferencing nil). *)
Theorem C06_coherent : forall (V : Type) (zero : V) enc dec,
  (forall v b, enc v = Some b -> dec b = Some v) ->
  forall h sc s p, coherent V dec s -> all_coherent V dec (run V zero enc dec sc s p h).
Proof. exact run_coherent. Qed.

(* Transparency: for every history and fault script, every call either consumed a fault, returned EFault and
   left the raw bytes alone, or consumed none and (result, raw bytes afterwards, callback arguments) are exactly
   those of the raw key under the codec (Model.spec: no cache, no faults). *)
Theorem C06_transparent : forall (V : Type) (zero : V) enc dec,
  (forall v b, enc v = Some b -> dec b = Some v) ->
  forall h sc s p, coherent V dec s -> trace_ok V zero enc dec sc (raw s) p (run V zero enc dec sc s p h).
Proof. exact run_transparent. Qed.

(* Failure atomicity and error faithfulness, for every call of every history: a call that hits a fault returns
   EFault and leaves raw bytes AND both caches unchanged; any error leaves the raw bytes unchanged and, unless it
   is ErrKeyNotFound (Get caching the absence), the caches too; EFault is reported only if a fault was hit;
   no call panics. *)
Theorem C06_failure_atomic : forall (V : Type) (zero : V) enc dec,
  (forall v b, enc v = Some b -> dec b = Some v) ->
  forall h sc s p, coherent V dec s -> trace_atomic V sc s p (run V zero enc dec sc s p h).
Proof. exact run_failure_atomic. Qed.

(* The stored bytes are always the encoding of the last successfully written value (absent after a successful
   Delete), where "written" is judged from outside: Set ok / Delete ok / Compute ok whose callback returned a value. *)
Theorem C06_last_written : forall (V : Type) (zero : V) enc dec,
  (forall v b, enc v = Some b -> dec b = Some v) ->
  forall h sc s p, coherent V dec s ->
  raw (fst (final V s p (run V zero enc dec sc s p h))) = last_written V enc (raw s) (run V zero enc dec sc s p h).
Proof. exact run_last_written. Qed.

(* Double-checked locking: a Get (Has) whose lock-free phase ran on s1 and whose locked phase ran on s2 equals
   ONE atomic Get on s1 (then it changed nothing) or ONE atomic Get on s2. *)
Theorem C06_get_two_phase : forall (V : Type) (dec : bytes -> option V) sc s1 s2 p,
  (get_fast V s1 <> None /\ get_two_phase V dec sc s1 s2 p = get V dec sc s1 p /\ st (get V dec sc s1 p) = s1) \/
  (get_fast V s1 = None /\ get_two_phase V dec sc s1 s2 p = get V dec sc s2 p).
Proof. exact get_two_phase_atomic. Qed.

Theorem C06_has_two_phase : forall (V : Type) sc (s1 s2 : tv V) p,
  (has_fast V s1 <> None /\ has_two_phase V sc s1 s2 p = has V sc s1 p /\ st (has V sc s1 p) = s1) \/
  (has_fast V s1 = None /\ has_two_phase V sc s1 s2 p = has V sc s2 p).
Proof. exact has_two_phase_atomic. Qed.

(* No lost update: calls being atomic steps, any interleaving of n Compute(g) calls is a sequence of n calls;
   without faults the i-th returns g^i(current) and the raw key ends as (an encoding that decodes to) g^n(current). *)
Theorem C06_no_lost_update : forall (V : Type) (zero : V) enc dec,
  (forall v b, enc v = Some b -> dec b = Some v) ->
  forall (g : V -> V) n sc s p c,
  coherent V dec s -> (forall i, sc i = false) -> (forall v, enc v <> None) -> holds V zero dec (raw s) c ->
  map (fun e => result (snd e)) (run V zero enc dec sc s p (repeat (Compute (bump V g)) n)) = bump_results V g c n /\
  exists b, raw (fst (final V s p (run V zero enc dec sc s p (repeat (Compute (bump V g)) n)))) = b /\
            holds V zero dec b (Nat.iter n g c).
Proof. exact no_lost_update. Qed.

(* The pinned code violated failure atomicity (D06, repaired by a fix: commit): Set(7); Compute(-> 0xFFFF). *)
Theorem C06_refuted_compute_encode :
  raw d06_pre = Some [0; 7]%N /\ encV 65535 = None /\
  result d06_pinned = RVal 65535%N /\ raw (st d06_pinned) = Some [] /\ vc (st d06_pinned) = Some 65535%N /\
  result (step N 0%N encV decV nofault (st d06_pinned) (pos d06_pinned) Get) = RVal 65535%N /\
  decV [] = None.
Proof. exact refuted_compute_encode_pinned. Qed.

(* ---- TypedStore ---- *)

(* every call of every history: the call consumed a fault iff it reports EFault, and any reported error
   (also from inside an iteration) leaves the whole store unchanged *)
Theorem C06_store_failure_atomic : forall (K V : Type) encK decK encV decV h sc s p,
  strace_atomic K V sc s p (srun K V encK decK encV decV sc s p h).
Proof. exact srun_failure_atomic. Qed.

(* every raw key holds the bytes of the last visible write to it *)
Theorem C06_store_last_written : forall (K V : Type) encK decK encV decV h sc s p kb,
  find kb (sfinal K V s (srun K V encK decK encV decV sc s p h)) =
  slast_written K V encK encV kb (find kb s) (srun K V encK decK encV decV sc s p h).
Proof. exact srun_last_written. Qed.

Theorem C06_store_set_get : forall (K V : Type) encK decK encV decV,
  (forall v b, encV v = Some b -> decV b = Some v) ->
  forall sc s p k v sc' p',
  sresult (sstep K V encK decK encV decV sc s p (SSet k v)) = SOk -> (forall i, sc' i = false) ->
  sresult (sstep K V encK decK encV decV sc' (sst (sstep K V encK decK encV decV sc s p (SSet k v))) p' (SGet k)) = SVal v.
Proof. exact sset_then_get. Qed.

(* Iterate hands the callback the decoding of an initial segment of the matching raw entries, in store order;
   without error it covered all of them unless the callback stopped it; a decode error means an entry was left *)
Theorem C06_store_iterate : forall (K V : Type) encK decK encV decV sc s p pre bw limit l e,
  sresult (sstep K V encK decK encV decV sc s p (SIterate pre bw limit)) = SList l e ->
  Forall2 (decodes K V decK decV) l (firstn (length l) (entries pre bw s)) /\
  (e = None -> length l = length (entries pre bw s) \/ (limit <= length l)%nat) /\
  (e = Some EDecode -> (length l < length (entries pre bw s))%nat).
Proof. exact siterate_delivers. Qed.

(* non-vacuity: Examples.v (coherent_nontrivial, ex_hist_results, nlu_nontrivial, ts_nontrivial, decV_encV) *)
Example C06_codec_premise_holds : forall v b, encV v = Some b -> decV b = Some v.
Proof. exact decV_encV. Qed.
Example C06_coherent_nontrivial : coherent N decV (mkTv (Some [0; 7; 9]%N) (Some 7%N) (Some true)).
Proof. exact coherent_nontrivial. Qed.
Example C06_d06_regression : result d06_fixed = RErr EEncode /\ st d06_fixed = d06_pre.
Proof. exact d06_regression. Qed.

Print Assumptions C06_fresh_coherent.
Print Assumptions C06_coherent.
Print Assumptions C06_transparent.
Print Assumptions C06_failure_atomic.
Print Assumptions C06_last_written.
Print Assumptions C06_get_two_phase.
Print Assumptions C06_has_two_phase.
Print Assumptions C06_no_lost_update.
Print Assumptions C06_refuted_compute_encode.
Print Assumptions C06_store_failure_atomic.
Print Assumptions C06_store_last_written.
Print Assumptions C06_store_set_get.
Print Assumptions C06_store_iterate.
