(* C20 - the daemon stops background workers in descending shutdown order. Statements only.
   Model: Verif.C20_Daemon.Model (interleaving system; [fixed] = app/daemon after the fix: commits 2c5e958 and
   8f0f9a5, [pinned] = the pinned code).  A pool is a list of API calls that have not begun (BackgroundWorker with
   any name / order / body kind, Start, Run, Shutdown / ShutdownAndWait); a schedule is any list of
   (thread, choice); worker goroutines are spawned by the model. *)
From Coq Require Import ZArith List Bool.
From Verif.C20_Daemon Require Import Model Base Inv Frame Skel Proofs.
Import ListNotations.
Open Scope Z_scope.

(* The full statement of C20 on histories (Model.hist_ok: every cancel of a worker that has not returned comes
   after the return of every started worker of a higher order; stopOnce.Do(shutdown) returns only after every
   started worker has returned; nothing starts and no registration succeeds after that; a name whose worker has
   not returned is refused).  NOT proved in this round: see notes/C20.md ("partial"). *)
Definition C20_full_statement : Prop :=
  forall pool sch, Forall entry pool -> hist_ok (log (run fixed sch (init pool))) = true.

(* Proved for ALL pools and ALL schedules (clause "after shutdown no worker can be added or started"):
   in every history no worker starts and no BackgroundWorker call returns nil after some
   stopOnce.Do(shutdown) - i.e. any ShutdownAndWait - has returned. *)
Theorem C20_after_shutdown : forall pool sch, Forall entry pool ->
  skel_ok (log (run fixed sch (init pool))) = true.
Proof. exact after_shutdown. Qed.

(* ... and in every reachable state in which the shutdown has completed the stopped flag is set and no call is
   inside the registration / start critical sections (so none can still register or start a worker). *)
Theorem C20_after_shutdown_state : forall pool sch, Forall entry pool ->
  let s := run fixed sch (init pool) in
  once s = ODone -> stopped s = true /\ forall t p, thr s t p -> in_critical p = false.
Proof. exact after_shutdown_state. Qed.

(* With the stopped flag set a BackgroundWorker call that begins returns ErrDaemonAlreadyStopped and changes nothing. *)
Theorem C20_refused_when_stopped : forall s t n o k ch,
  crashed s = false -> stopped s = true -> thr s t (BW0 n o k) ->
  exists s', step fixed s t ch = Some s' /\ log s' = EvBW t RStopped :: EvBegin t n :: log s /\
             heap s' = heap s /\ reg s' = reg s.
Proof. exact refused_when_stopped. Qed.

(* The synchronisation skeleton (lock holder, stopOnce, stopped flag, one shutdown walker) is an inductive
   invariant of every step. *)
Theorem C20_skeleton_invariant : forall s t ch s', ginvA s -> step fixed s t ch = Some s' -> ginvA s'.
Proof. exact skel_step. Qed.

(* Equal shutdown orders are cancelled without waiting in between: at the loop head of stopWorkers, a worker whose
   order equals the current prevPriority is cancelled by steps that are always enabled (never the Wait). *)
Theorem C20_equal_orders_no_wait : forall s t d w r prev ch,
  crashed s = false -> thr s t (SD4 d (w :: r) prev) -> ord (heap s) w = prev ->
  exists s', step fixed s t ch = Some s' /\
    (thr s' t (SD6 d (w :: r) prev) \/ (thr s' t (SD4 (d ++ [w]) r prev) /\ log s' = EvCancel w :: log s)).
Proof. exact equal_orders_no_wait. Qed.
Theorem C20_cancel_step_enabled : forall s t d w r prev ch,
  crashed s = false -> thr s t (SD6 d (w :: r) prev) ->
  exists s', step fixed s t ch = Some s' /\ log s' = EvCancel w :: log s.
Proof. exact cancel_step_enabled. Qed.

(* Refutations on the pinned code (replayed on the real code through the verif yield hook, then repaired). *)
(* D20a: BackgroundWorker passes the IsStopped check before the shutdown's snapshot: ShutdownAndWait returns while
   the late worker runs and is never cancelled. *)
Theorem C20_refuted_register_race :
  let s := run pinned d20a_sched (init d20a_pool) in
  hist_ok (log s) = false /\ shut_in (log s) = true /\
  livew (getw (heap s) 1) = true /\ w_cancelled (getw (heap s) 1) = false.
Proof. exact refuted_register_race. Qed.
(* ... resumed after clear(): Go panic "assignment to entry in nil map". *)
Theorem C20_refuted_register_crash :
  crashed (run pinned (rep 4 0 ++ rep 1 1 ++ rep 7 2 ++ rep 3 1) (init d20a2_pool)) = true.
Proof. exact refuted_register_crash. Qed.
(* D20c: Start passes the IsStopped check, ShutdownAndWait returns (not running), Start starts the workers. *)
Theorem C20_refuted_start_race :
  let s := run pinned d20c_sched (init d20c_pool) in
  skel_ok (log s) = false /\ shut_in (log s) = true /\ livew (getw (heap s) 0) = true /\
  running s = true /\ stopped s = true.
Proof. exact refuted_start_race. Qed.
(* D20b (current code, known finding): Run returns while a worker added under a new order is running. *)
Theorem C20_refuted_run_early :
  let s := run fixed d20b_sched (init d20b_pool) in
  run_ok (log s) = false /\ livew (getw (heap s) 1) = true /\ hist_ok (log s) = true.
Proof. exact refuted_run_early. Qed.

(* Non-vacuity / regression: the D20a schedule on the fixed configuration refuses the late registration, the
   shutdown completes (once = ODone) and the history satisfies the full predicate. *)
Example C20_register_race_fixed :
  let s := run fixed (rep 5 0 ++ rep 6 1 ++ rep 1 2 ++ rep 7 3 ++ rep 4 2 ++ rep 1 4 ++ rep 4 3) (init d20a_pool) in
  hist_ok (log s) = true /\ shut_in (log s) = true /\
  existsb (fun e => match e with EvBW 2 RStopped => true | _ => false end) (log s) = true.
Proof. exact register_race_fixed. Qed.
Example C20_shutdown_completes :
  let s := run fixed (rep 5 0 ++ rep 6 1 ++ rep 1 2 ++ rep 7 3 ++ rep 4 2 ++ rep 1 4 ++ rep 4 3) (init d20a_pool) in
  once s = ODone /\ Forall entry d20a_pool.
Proof. exact shutdown_completes_example. Qed.

Print Assumptions C20_after_shutdown.
Print Assumptions C20_after_shutdown_state.
Print Assumptions C20_refused_when_stopped.
Print Assumptions C20_skeleton_invariant.
Print Assumptions C20_equal_orders_no_wait.
Print Assumptions C20_cancel_step_enabled.
Print Assumptions C20_refuted_register_race.
Print Assumptions C20_refuted_register_crash.
Print Assumptions C20_refuted_start_race.
Print Assumptions C20_refuted_run_early.
