(* C20 - daemon shutdown order. Statements only (filled in as the proofs land). *)
From Coq Require Import ZArith List Bool.
From Verif.C20_Daemon Require Import Model.
Import ListNotations.
