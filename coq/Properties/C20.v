(* C20 - the daemon stops background workers in descending shutdown order. Statements only.
   Model: Verif.C20_Daemon.Model (interleaving system; [fixed] = app/daemon after the fix: commits 2c5e958 and
   8f0f9a5, [pinned] = the pinned code).  A pool is a list of API calls that have not begun (BackgroundWorker with
   any name / order / body kind, Start, Run, Shutdown / ShutdownAndWait); a schedule is any list of
   (thread, choice); worker goroutines are spawned by the model. *)
From Coq Require Import ZArith List Bool.
From Verif.C20_Daemon Require Import Model Base Inv Frame Skel Proofs Full Run Names.
Import ListNotations.
Open Scope Z_scope.

(* The full statement of C20 on histories (Model.hist_ok: every cancel of a worker that has not returned comes
   after the return of every started worker of a higher order; stopOnce.Do(shutdown) returns only after every
   started worker has returned; nothing starts and no registration succeeds after that; a name whose worker has
   not returned is refused).  Proved for ALL pools and ALL schedules by induction over the schedule with the
   invariant Inv.ginv (C20_invariant_step). *)
Definition C20_full_statement : Prop :=
  forall pool sch, Forall entry pool -> hist_ok (log (run fixed sch (init pool))) = true.
Theorem C20_full : C20_full_statement.
Proof. exact hist_ok_reachable. Qed.

(* The invariant (wait-group counter = number of live workers per order, live worker owns its registry entry,
   registry sorted / unique, walker invariant, log links, per-thread assertions) is preserved by every step. *)
Theorem C20_invariant_step : forall s t ch s', ginv s -> step fixed s t ch = Some s' -> ginv s'.
Proof. exact ginv_step. Qed.
Theorem C20_invariant_reachable : forall pool sch, Forall entry pool -> ginv (run fixed sch (init pool)).
Proof. exact ginv_reachable. Qed.

(* (a) Cancel order, for ALL pools and ALL schedules: whenever the context of a worker w that has not returned is
   cancelled, every worker that was started with a strictly higher shutdown order has already returned.
   (Cancelling a worker that already returned is not counted: stopWorkers cancels those without waiting.)
   Equal orders are cancelled without waiting in between: C20_equal_orders_no_wait / C20_cancel_step_enabled. *)
Theorem C20_order : forall pool sch, Forall entry pool ->
  forall newer w old, log (run fixed sch (init pool)) = newer ++ EvCancel w :: old -> live_in old w = true ->
  forall v c n o, In (EvStart v c n o) old -> order_in old w < o -> returned_in old v = true.
Proof. exact order. Qed.
(* ... the same on states: when the walker stands before w's ctxCancel, no live worker has a higher order. *)
Theorem C20_order_state : forall pool sch, Forall entry pool ->
  let s := run fixed sch (init pool) in
  forall t d w r pv, thr s t (SD6 d (w :: r) pv) -> forall v, live s v -> ord (heap s) v <= ord (heap s) w.
Proof. exact order_state. Qed.

(* (b) stopOnce.Do(shutdown) - ShutdownAndWait returns there - returns only after every started worker returned. *)
Theorem C20_wait_all : forall pool sch, Forall entry pool ->
  forall newer t old, log (run fixed sch (init pool)) = newer ++ EvShutRet t :: old ->
  forall v c n o, In (EvStart v c n o) old -> returned_in old v = true.
Proof. exact wait_all. Qed.
Theorem C20_wait_all_state : forall pool sch, Forall entry pool ->
  let s := run fixed sch (init pool) in
  once s = ODone -> forall v, w_started (gw s v) = true -> w_returned (gw s v) = true.
Proof. exact wait_all_state. Qed.

(* (c) A name that is still running is refused: if BackgroundWorker call t for name n returns nil, every started
   worker of name n that was registered by another call has returned. *)
Theorem C20_running_name_refused : forall pool sch, Forall entry pool ->
  forall newer t old n, log (run fixed sch (init pool)) = newer ++ EvBW t ROk :: old -> name_of_call old t = Some n ->
  forall v c o, In (EvStart v c n o) old -> c <> t -> returned_in old v = true.
Proof. exact running_name_refused. Qed.
(* ... without the side premise: the call has begun with some name n (its EvBegin precedes its return). *)
Theorem C20_running_name_refused_named : forall pool sch, Forall entry pool ->
  forall newer t old, log (run fixed sch (init pool)) = newer ++ EvBW t ROk :: old ->
  exists n, name_of_call old t = Some n /\
    forall v c o, In (EvStart v c n o) old -> c <> t -> returned_in old v = true.
Proof. exact running_name_refused_named. Qed.
Theorem C20_running_name_state : forall pool sch, Forall entry pool ->
  let s := run fixed sch (init pool) in
  forall t n o k, thr s t (BW5 n o k) -> forall v, live s v -> w_name (gw s v) <> n.
Proof. exact running_name_state. Qed.

(* Non-vacuity of (a), (b), (c): one concrete schedule (name 0 registered with order 5, returns early, is
   re-registered with order 7; name 1 with order 1; the walker cancels 7, blocks until it returned, cancels 1,
   blocks again, returns) in which the premises hold and workers are actually cancelled. *)
Example C20_order_nonvacuous :
  let old := [EvReturn 2; EvCancel 2; EvBW 4 ROk; EvStart 2 4 0 7; EvBegin 4 0; EvReturn 0; EvStart 1 1 1 1;
              EvStart 0 0 0 5; EvBW 1 ROk; EvBegin 1 1; EvBW 0 ROk; EvBegin 0 0] in
  ex_log = [EvShutRet 3; EvReturn 1] ++ EvCancel 1 :: old /\ live_in old 1 = true /\
  In (EvStart 2 4 0%nat 7) old /\ order_in old 1 < 7 /\ returned_in old 2 = true.
Proof. exact ex_order. Qed.
Example C20_wait_all_nonvacuous :
  let old := [EvReturn 1; EvCancel 1; EvReturn 2; EvCancel 2; EvBW 4 ROk; EvStart 2 4 0 7; EvBegin 4 0; EvReturn 0;
              EvStart 1 1 1 1; EvStart 0 0 0 5; EvBW 1 ROk; EvBegin 1 1; EvBW 0 ROk; EvBegin 0 0] in
  ex_log = [] ++ EvShutRet 3 :: old /\ In (EvStart 1 1 1%nat 1) old /\ In (EvStart 2 4 0%nat 7) old /\ In (EvCancel 1) old.
Proof. exact ex_wait_all. Qed.
Example C20_running_name_nonvacuous :
  let old := [EvStart 2 4 0 7; EvBegin 4 0; EvReturn 0; EvStart 1 1 1 1; EvStart 0 0 0 5; EvBW 1 ROk; EvBegin 1 1;
              EvBW 0 ROk; EvBegin 0 0] in
  ex_log = [EvShutRet 3; EvReturn 1; EvCancel 1; EvReturn 2; EvCancel 2] ++ EvBW 4 ROk :: old /\
  name_of_call old 4 = Some 0%nat /\ In (EvStart 0 0 0%nat 5) old /\ 0%nat <> 4%nat /\ returned_in old 0 = true.
Proof. exact ex_running_name. Qed.
Example C20_running_name_is_refused :
  let s := run fixed (rep 5 0 ++ rep 5 1 ++ rep 7 2 ++ rep 6 4) (init ex_pool) in
  log s = [EvBW 4 RStillRunning; EvBegin 4 0; EvStart 1 1 1 1; EvStart 0 0 0 5; EvBW 1 ROk; EvBegin 1 1; EvBW 0 ROk; EvBegin 0 0].
Proof. exact ex_refused. Qed.
Example C20_example_pool_ok : Forall entry ex_pool.
Proof. exact ex_entry. Qed.

(* Run returns only after every started worker has returned - for ALL pools and ALL schedules that satisfy the
   explicit guard Run.run_guard: no step starts a worker (runBackgroundWorker from BackgroundWorker or Start) while
   some Run call is waiting on its snapshot of the wait groups.  The known finding run-returns-before-late-worker
   (C20_refuted_run_early) is exactly a start after that snapshot: C20_run_guard_excludes_finding. *)
Theorem C20_run : forall pool sch, Forall entry pool -> run_guard sch (init pool) = true ->
  run_ok (log (run fixed sch (init pool))) = true.
Proof. exact run_guarded. Qed.
Theorem C20_run_returns_after_all : forall pool sch, Forall entry pool -> run_guard sch (init pool) = true ->
  forall newer t old, log (run fixed sch (init pool)) = newer ++ EvRunRet t :: old ->
  forall v c n o, In (EvStart v c n o) old -> returned_in old v = true.
Proof. exact run_guarded_split. Qed.
Theorem C20_run_guard_excludes_finding : run_guard d20b_sched (init d20b_pool) = false.
Proof. exact d20b_outside_guard. Qed.
(* non-vacuity: Run, one worker (returns on cancel), a shutdown: the guard holds, the worker is cancelled and
   Run returns after it returned *)
Example C20_run_nonvacuous :
  Forall entry exr_pool /\ run_guard exr_sched (init exr_pool) = true /\
  log (run fixed exr_sched (init exr_pool)) =
    [EvShutRet 2; EvRunRet 1; EvReturn 0; EvCancel 0; EvStart 0 0 0 1; EvBW 0 ROk; EvBegin 0 0].
Proof. exact exr_ok. Qed.

(* Proved for ALL pools and ALL schedules (clause "after shutdown no worker can be added or started"):
   in every history no worker starts and no BackgroundWorker call returns nil after some
   stopOnce.Do(shutdown) - i.e. any ShutdownAndWait - has returned. *)
Theorem C20_after_shutdown : forall pool sch, Forall entry pool ->
  skel_ok (log (run fixed sch (init pool))) = true.
Proof. exact after_shutdown. Qed.

(* ... and in every reachable state in which the shutdown has completed the stopped flag is set and no call is
   inside the registration / start critical sections (so none can still register or start a worker). *)
Theorem C20_after_shutdown_state : forall pool sch, Forall entry pool ->
  let s := run fixed sch (init pool) in
  once s = ODone -> stopped s = true /\ forall t p, thr s t p -> in_critical p = false.
Proof. exact after_shutdown_state. Qed.

(* With the stopped flag set a BackgroundWorker call that begins returns ErrDaemonAlreadyStopped and changes nothing. *)
Theorem C20_refused_when_stopped : forall s t n o k ch,
  crashed s = false -> stopped s = true -> thr s t (BW0 n o k) ->
  exists s', step fixed s t ch = Some s' /\ log s' = EvBW t RStopped :: EvBegin t n :: log s /\
             heap s' = heap s /\ reg s' = reg s.
Proof. exact refused_when_stopped. Qed.

(* The synchronisation skeleton (lock holder, stopOnce, stopped flag, one shutdown walker) is an inductive
   invariant of every step. *)
Theorem C20_skeleton_invariant : forall s t ch s', ginvA s -> step fixed s t ch = Some s' -> ginvA s'.
Proof. exact skel_step. Qed.

(* Equal shutdown orders are cancelled without waiting in between: at the loop head of stopWorkers, a worker whose
   order equals the current prevPriority is cancelled by steps that are always enabled (never the Wait). *)
Theorem C20_equal_orders_no_wait : forall s t d w r prev ch,
  crashed s = false -> thr s t (SD4 d (w :: r) prev) -> ord (heap s) w = prev ->
  exists s', step fixed s t ch = Some s' /\
    (thr s' t (SD6 d (w :: r) prev) \/ (thr s' t (SD4 (d ++ [w]) r prev) /\ log s' = EvCancel w :: log s)).
Proof. exact equal_orders_no_wait. Qed.
Theorem C20_cancel_step_enabled : forall s t d w r prev ch,
  crashed s = false -> thr s t (SD6 d (w :: r) prev) ->
  exists s', step fixed s t ch = Some s' /\ log s' = EvCancel w :: log s.
Proof. exact cancel_step_enabled. Qed.

(* Refutations on the pinned code (replayed on the real code through the verif yield hook, then repaired). *)
(* D20a: BackgroundWorker passes the IsStopped check before the shutdown's snapshot: ShutdownAndWait returns while
   the late worker runs and is never cancelled. *)
Theorem C20_refuted_register_race :
  let s := run pinned d20a_sched (init d20a_pool) in
  hist_ok (log s) = false /\ shut_in (log s) = true /\
  livew (getw (heap s) 1) = true /\ w_cancelled (getw (heap s) 1) = false.
Proof. exact refuted_register_race. Qed.
(* ... resumed after clear(): Go panic "assignment to entry in nil map". *)
Theorem C20_refuted_register_crash :
  crashed (run pinned (rep 4 0 ++ rep 1 1 ++ rep 7 2 ++ rep 3 1) (init d20a2_pool)) = true.
Proof. exact refuted_register_crash. Qed.
(* D20c: Start passes the IsStopped check, ShutdownAndWait returns (not running), Start starts the workers. *)
Theorem C20_refuted_start_race :
  let s := run pinned d20c_sched (init d20c_pool) in
  skel_ok (log s) = false /\ shut_in (log s) = true /\ livew (getw (heap s) 0) = true /\
  running s = true /\ stopped s = true.
Proof. exact refuted_start_race. Qed.
(* D20b (current code, known finding): Run returns while a worker added under a new order is running. *)
Theorem C20_refuted_run_early :
  let s := run fixed d20b_sched (init d20b_pool) in
  run_ok (log s) = false /\ livew (getw (heap s) 1) = true /\ hist_ok (log s) = true.
Proof. exact refuted_run_early. Qed.

(* Non-vacuity / regression: the D20a schedule on the fixed configuration refuses the late registration, the
   shutdown completes (once = ODone) and the history satisfies the full predicate. *)
Example C20_register_race_fixed :
  let s := run fixed (rep 5 0 ++ rep 6 1 ++ rep 1 2 ++ rep 7 3 ++ rep 4 2 ++ rep 1 4 ++ rep 4 3) (init d20a_pool) in
  hist_ok (log s) = true /\ shut_in (log s) = true /\
  existsb (fun e => match e with EvBW 2 RStopped => true | _ => false end) (log s) = true.
Proof. exact register_race_fixed. Qed.
Example C20_shutdown_completes :
  let s := run fixed (rep 5 0 ++ rep 6 1 ++ rep 1 2 ++ rep 7 3 ++ rep 4 2 ++ rep 1 4 ++ rep 4 3) (init d20a_pool) in
  once s = ODone /\ Forall entry d20a_pool.
Proof. exact shutdown_completes_example. Qed.

Print Assumptions C20_full.
Print Assumptions C20_invariant_step.
Print Assumptions C20_invariant_reachable.
Print Assumptions C20_order.
Print Assumptions C20_order_state.
Print Assumptions C20_wait_all.
Print Assumptions C20_wait_all_state.
Print Assumptions C20_running_name_refused.
Print Assumptions C20_running_name_state.
Print Assumptions C20_running_name_refused_named.
Print Assumptions C20_run.
Print Assumptions C20_run_returns_after_all.
Print Assumptions C20_run_guard_excludes_finding.
Print Assumptions C20_after_shutdown.
Print Assumptions C20_after_shutdown_state.
Print Assumptions C20_refused_when_stopped.
Print Assumptions C20_skeleton_invariant.
Print Assumptions C20_equal_orders_no_wait.
Print Assumptions C20_cancel_step_enabled.
Print Assumptions C20_refuted_register_race.
Print Assumptions C20_refuted_register_crash.
Print Assumptions C20_refuted_start_race.
Print Assumptions C20_refuted_run_early.
