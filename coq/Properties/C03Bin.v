(* C03 (serix binary part) - the wire layout is the documented one; validated decoding accepts only canonical bytes.
   Statements only. *)
From Coq Require Import List NArith ZArith Bool.
From Verif.C01_Serix Require Import Model Layout Bound RoundTrip Canonical.
Import ListNotations.
Open Scope N_scope.

(* ---- forward direction: layout lemmas pinning the reference encoder ---- *)
Theorem C03_layout_bool : forall val d b, encode val d SBool (VBool b) = Ok [if b then 1 else 0].
Proof. exact layout_bool. Qed.

Theorem C03_layout_int : forall val d sg w z,
  encode val d (SInt sg w) (VInt z) = Ok (le_enc (wbytes w) (Z.to_N (z mod wmod w))).
Proof. exact layout_int. Qed.

Theorem C03_layout_u256 : forall val d z, (0 <= z < U256)%Z -> encode val d SU256 (VBig z) = Ok (le_enc 32 (Z.to_N z)).
Proof. exact layout_u256. Qed.

Theorem C03_layout_time : forall val d ns, (0 <= ns <= MaxInt64)%Z ->
  encode val d STime (VTime ns) = Ok (le_enc 8 (Z.to_N ns)).
Proof. exact layout_time. Qed.

Theorem C03_layout_bytearr : forall val d n ty bs, length bs = n ->
  encode val d (SByteArr n ty) (VBytes bs) = Ok (code_bytes ty ++ bs).
Proof. exact layout_bytearr. Qed.

Theorem C03_layout_prefix : forall l n, n <= lpt_max l -> write_len l n = Ok (le_enc (lpt_size l) n).
Proof. exact layout_prefix. Qed.

Theorem C03_layout_struct : forall val d ty fs vs body,
  encode_fields val fs vs = Ok body -> encode val d (SStruct ty fs) (VL vs) = Ok (code_bytes ty ++ body).
Proof. exact layout_struct. Qed.

Theorem C03_layout_optional_absent : forall val s r vs rb,
  encode_fields val r vs = Ok rb -> encode_fields val (FCons FOpt s r) (VNil :: vs) = Ok ([0; 0; 0; 0] ++ rb).
Proof. exact layout_field_opt_nil. Qed.

Theorem C03_layout_optional_present : forall val s r v vs fb rb, v <> VNil ->
  encode val true s v = Ok fb -> encode_fields val r vs = Ok rb ->
  encode_fields val (FCons FOpt s r) (v :: vs) = Ok ((le_enc 4 (N.of_nat (length fb)) ++ fb) ++ rb).
Proof. exact layout_field_opt_some. Qed.

Theorem C03_layout_sequence : forall l r data, N.of_nat (length data) <= lpt_max l ->
  enc_seq false l r data =
  Ok (le_enc (lpt_size l) (N.of_nat (length data)) ++ concat (if ar_autosort r && ar_lex r then sortb data else data)).
Proof. exact layout_seq_novalidation. Qed.

(* the written prefix is the element count only while it fits the width: at exactly 2^w (uint8, uint16, uint32) the
   reference encoder has no representation and fails - it never writes the count modulo 2^w (seed C03-m8) *)
Theorem C03_layout_prefix_overflow : forall l n, l <> L64 -> lpt_max l < n -> write_len l n = Err EOther.
Proof. exact layout_prefix_overflow. Qed.

Theorem C03_layout_sequence_overflow : forall val l r data, l <> L64 -> lpt_max l < N.of_nat (length data) ->
  (val = true -> check_bounds (ar_min r) (ar_max r) (N.of_nat (length data)) = Ok tt) ->
  enc_seq val l r data = Err EOther.
Proof. exact layout_seq_overflow. Qed.

Example C03_layout_prefix_limits :
  write_len L8 255 = Ok [255] /\ write_len L8 256 = Err EOther /\
  write_len L16 65535 = Ok [255; 255] /\ write_len L16 65536 = Err EOther /\
  write_len L32 4294967295 = Ok [255; 255; 255; 255] /\ write_len L32 4294967296 = Err EOther.
Proof. exact layout_prefix_limits. Qed.

(* ---- reverse direction: validated decoding accepts only canonical bytes ---- *)

(* For ALL schemas of the fragment (wfc: no zero-size sequence elements, pointer targets the encoder supports,
   interface alternatives registered under their own code) and ALL byte strings: if the validating decoder accepts b
   and consumes n bytes, re-encoding the decoded value with validation yields exactly b[:n].
   Guard of the property (times_ok): every decoded time stamp lies in [0, MaxInt64) ns, i.e. no stamp of the input was
   saturated or wrapped by ReadTime (the documented non-injective case). *)
Theorem C03_canonical : forall s, wfc s -> forall tot d b v n, wfb b ->
  decode true tot s b = Ok (v, n) -> times_ok s v -> encode true d s v = Ok (firstn n b).
Proof. exact canonical. Qed.

(* time.Time itself, with the guard stated on the wire stamp *)
Theorem C03_canonical_time : forall tot d b v n, wfb b -> decode true tot STime b = Ok (v, n) ->
  (Z.of_N (le_dec (firstn 8 b)) <= MaxInt64)%Z -> encode true d STime v = Ok (firstn n b).
Proof. exact canonical_time. Qed.

(* no malleability *)
Theorem C03_injective : forall s, wfc s -> forall tot b1 b2 v n1 n2, wfb b1 -> wfb b2 ->
  decode true tot s b1 = Ok (v, n1) -> decode true tot s b2 = Ok (v, n2) -> times_ok s v -> firstn n1 b1 = firstn n2 b2.
Proof. exact canonical_injective. Qed.

Theorem C03_refuted_time_saturation :
  Decode true STime [0; 0; 0; 0; 0; 0; 0; 128] = Ok (VTime (-9223372036854775808), 8%nat) /\
  Encode true STime (VTime (-9223372036854775808)) = Ok [0; 0; 0; 0; 0; 0; 0; 0].
Proof. exact refuted_time_saturation. Qed.

(* Types with a custom codec (serix.Serializable / Deserializable) and a registered syntactic validator are schemas too
   ([SCustom ty fmt p], p the validator as an ARBITRARY predicate on the payload): C03_canonical / C03_injective above,
   C01_roundtrip and C02_no_panic quantify over them, i.e. hold for every validator. In particular the validating
   decoder never returns a value its validator rejects (seed C03-m7 skipped the validator on the custom-codec path). *)
Theorem C03_custom_decode_validated : forall ty f (p : bytes -> bool) tot b v n,
  decode true tot (SCustom ty f (Some p)) b = Ok (v, n) -> exists bs, v = VBytes bs /\ p bs = true.
Proof. exact custom_decode_validated. Qed.

Example C03_custom_validator_cases :
  let s := SCustom (Some (TC8 9)) (CFix 2) (Some pred_lt2) in
  let l := SCustom None CLen8 (Some pred_even_len) in
  Decode true s [9; 2; 5] = Ok (VBytes [2; 5], 3%nat) /\ Decode true s [9; 5; 2] = Err EValidator /\
  Decode false s [9; 5; 2] = Ok (VBytes [5; 2], 3%nat) /\ Encode true s (VBytes [5; 2]) = Err EValidator /\
  Encode false s (VBytes [5; 2]) = Ok [9; 5; 2] /\
  Decode true l [2; 7; 7; 1] = Ok (VBytes [7; 7], 3%nat) /\ Decode true l [1; 7] = Err EValidator /\
  Decode true l [3; 7] = Err ENotEnough /\ Encode true l (VBytes [7]) = Err EValidator.
Proof. exact custom_validator_cases. Qed.

(* The answer to a call on one API does not depend on the calls made before it (the model of a session is the map of a
   pure function over the history). This is what the correspondence holds the code to when it replays call histories on
   one serix.API whose types share settings objects: a library that rewrites a registered *ArrayRules in place (seed
   C03-m6: ensureOrdering) answers the same Decode / re-Encode differently after an unrelated map call. *)
Theorem C03_history_independent : forall h1 h2 c d,
  last (run_history (h1 ++ [c])) d = last (run_history (h2 ++ [c])) d.
Proof. exact history_independent. Qed.

Theorem C03_history_pointwise : forall h n c d, nth_error h n = Some c -> nth n (run_history h) d = run_call c.
Proof. exact history_pointwise. Qed.

Example C03_canonical_nonvacuous :
  wfc exc_schema /\
  exists b v, wfb b /\ Decode true exc_schema b = Ok (v, length b) /\ times_ok exc_schema v /\
              Encode true exc_schema v = Ok b /\ (20 < length b)%nat.
Proof. exact canonical_nonvacuous. Qed.

Example C03_noncanonical_rejected :
  let m := SMap L8 (mkAR 0 0 false false false false [] false) (SInt false W1) SBool in
  let st := SSlice L8 (mkAR 0 0 true true false false [] true) (SInt false W1) in
  let op := SStruct None (FCons FOpt (SPtr (SStruct None (FCons FPlain (SInt false W1) FNil))) FNil) in
  Decode true m [2; 1; 0; 2; 1] = Ok (VMap [(VInt 1, VBool false); (VInt 2, VBool true)], 5%nat) /\
  Decode true m [2; 2; 1; 1; 0] = Err EOrder /\
  Decode true m [2; 1; 0; 1; 1] = Err EDupKey /\
  Decode true st [2; 5; 5] = Err EDup /\
  Decode true st [2; 6; 5] = Err EOrder /\
  Decode true op [2; 0; 0; 0; 9; 0] = Err EOther /\
  Decode true SBool [2] = Err EBool.
Proof. exact noncanonical_rejected. Qed.

Print Assumptions C03_layout_bool.
Print Assumptions C03_layout_int.
Print Assumptions C03_layout_u256.
Print Assumptions C03_layout_time.
Print Assumptions C03_layout_bytearr.
Print Assumptions C03_layout_prefix.
Print Assumptions C03_layout_struct.
Print Assumptions C03_layout_optional_absent.
Print Assumptions C03_layout_optional_present.
Print Assumptions C03_layout_sequence.
Print Assumptions C03_canonical.
Print Assumptions C03_canonical_time.
Print Assumptions C03_injective.
Print Assumptions C03_refuted_time_saturation.
Print Assumptions C03_canonical_nonvacuous.
Print Assumptions C03_noncanonical_rejected.
Print Assumptions C03_history_independent.
Print Assumptions C03_history_pointwise.
Print Assumptions C03_custom_decode_validated.
Print Assumptions C03_custom_validator_cases.
Print Assumptions C03_layout_prefix_overflow.
Print Assumptions C03_layout_sequence_overflow.
Print Assumptions C03_layout_prefix_limits.
