(* C03 (serix binary part) - the wire layout is the documented one; validated decoding accepts only canonical bytes.
   Statements only. *)
From Coq Require Import List NArith ZArith Bool.
From Verif.C01_Serix Require Import Model Layout.
Import ListNotations.
Open Scope N_scope.

(* ---- forward direction: layout lemmas pinning the reference encoder ---- *)
Theorem C03_layout_bool : forall val d b, encode val d SBool (VBool b) = Ok [if b then 1 else 0].
Proof. exact layout_bool. Qed.

Theorem C03_layout_int : forall val d sg w z,
  encode val d (SInt sg w) (VInt z) = Ok (le_enc (wbytes w) (Z.to_N (z mod wmod w))).
Proof. exact layout_int. Qed.

Theorem C03_layout_u256 : forall val d z, (0 <= z < U256)%Z -> encode val d SU256 (VBig z) = Ok (le_enc 32 (Z.to_N z)).
Proof. exact layout_u256. Qed.

Theorem C03_layout_time : forall val d ns, (0 <= ns <= MaxInt64)%Z ->
  encode val d STime (VTime ns) = Ok (le_enc 8 (Z.to_N ns)).
Proof. exact layout_time. Qed.

Theorem C03_layout_bytearr : forall val d n ty bs, length bs = n ->
  encode val d (SByteArr n ty) (VBytes bs) = Ok (code_bytes ty ++ bs).
Proof. exact layout_bytearr. Qed.

Theorem C03_layout_prefix : forall l n, n <= lpt_max l -> write_len l n = Ok (le_enc (lpt_size l) n).
Proof. exact layout_prefix. Qed.

Theorem C03_layout_struct : forall val d ty fs vs body,
  encode_fields val fs vs = Ok body -> encode val d (SStruct ty fs) (VL vs) = Ok (code_bytes ty ++ body).
Proof. exact layout_struct. Qed.

Theorem C03_layout_optional_absent : forall val s r vs rb,
  encode_fields val r vs = Ok rb -> encode_fields val (FCons FOpt s r) (VNil :: vs) = Ok ([0; 0; 0; 0] ++ rb).
Proof. exact layout_field_opt_nil. Qed.

Theorem C03_layout_optional_present : forall val s r v vs fb rb, v <> VNil ->
  encode val true s v = Ok fb -> encode_fields val r vs = Ok rb ->
  encode_fields val (FCons FOpt s r) (v :: vs) = Ok ((le_enc 4 (N.of_nat (length fb)) ++ fb) ++ rb).
Proof. exact layout_field_opt_some. Qed.

Theorem C03_layout_sequence : forall l r data, N.of_nat (length data) <= lpt_max l ->
  enc_seq false l r data =
  Ok (le_enc (lpt_size l) (N.of_nat (length data)) ++ concat (if ar_autosort r && ar_lex r then sortb data else data)).
Proof. exact layout_seq_novalidation. Qed.

Print Assumptions C03_layout_int.
Print Assumptions C03_layout_time.
Print Assumptions C03_layout_sequence.
