(* C15 - Events, promises and notifiers deliver exactly the right calls. Statements only.
   Proved for all schedules: the WithMaxTriggerCount clause at hook level (a), the promise clause (b), the notifier
   clause (c). NOT proved (full statements kept as Prop definitions in ProofsEvent.v, covered by the correspondence
   check only): trigger_exactly_once_full_statement, link_full_statement, max_trigger_count_event_full_statement. *)
From Coq Require Import NArith List Permutation PeanoNat.
From Verif.C15_Events Require Import Model ModelPromise ModelNotifier ProofsEvent ProofsPromise ProofsNotifier.
Import ListNotations.

(* (a) WithMaxTriggerCount(n) on a hook: under ANY interleaving of the atomic steps of any number of concurrent
   Trigger/Hook/Unhook/LinkTo callers, invocations so far + walkers that passed the hook's count test and are about
   to invoke it = min(n, number of triggers that reached the hook) (all of them when there is no limit). *)
Theorem C15_max_trigger_count_partial : forall acts n h, let s := run init acts in
  nth_error (hooks s) n = Some h ->
  N.of_nat (length (calls_of s n) + pend n s) = if N.eqb (h_max h) 0 then h_cnt h else N.min (h_cnt h) (h_max h).
Proof. exact max_trigger_count_hook. Qed.

(* ... hence, when no Trigger is running: exactly min(n, #triggers that reached it) invocations. *)
Theorem C15_max_trigger_count_quiescent : forall acts n h, let s := run init acts in
  quiescent s -> nth_error (hooks s) n = Some h -> h_max h <> 0%N ->
  N.of_nat (length (calls_of s n)) = N.min (h_max h) (h_cnt h).
Proof. exact max_trigger_count_hook_quiescent. Qed.

(* (b) promise.Event: every callback identity is in exactly one place (registered / pending in one thread / called once /
   unsubscribed before the trigger), for every interleaving of Trigger, OnTrigger, unsubscribe and the callback calls *)
Theorem C15_promise : forall l c, let s := prun pinit l in
  pquiescent s -> p_cbs s = None -> c < p_next s ->
  count_occ Nat.eq_dec (map fst (p_log s)) c + count_occ Nat.eq_dec (p_removed s) c = 1.
Proof. exact promise_exactly_once. Qed.

Theorem C15_promise_at_most_once : forall l c, count_occ Nat.eq_dec (map fst (p_log (prun pinit l))) c <= 1.
Proof. exact promise_at_most_once. Qed.

Theorem C15_promise_removed_means_unsubscribed_before_trigger : forall l c, In c (p_removed (prun pinit l)) ->
  exists l1 l2 cs, l = l1 ++ PAUnsub c :: l2 /\ p_cbs (prun pinit l1) = Some cs /\ In c cs.
Proof. exact promise_removed_before_trigger. Qed.

Theorem C15_promise_args : forall l c v, In (c, v) (p_log (prun pinit l)) -> p_val (prun pinit l) = Some v.
Proof. exact promise_args. Qed.

Theorem C15_promise_not_before_trigger : forall l, (exists c, p_cbs (prun pinit l) = Some c) ->
  p_log (prun pinit l) = [] /\ pending (prun pinit l) = [].
Proof. exact promise_not_triggered_no_call. Qed.

(* (c) value notifier (code after the fixes a95de67, f215c7a): Wait returns success only if there is a Notify(value)
   step before which the listener already existed (was created) and its deregistered flag was still false *)
Theorem C15_notifier : forall acts l, In (l, ROk) (wait_results (nrun VCur ninit acts)) ->
  exists a1 a2 x1 v, acts = a1 ++ NANotify v :: a2 /\
                     nth_error (lsts (nrun VCur ninit a1)) l = Some x1 /\ l_val x1 = v /\ l_dereg x1 = false.
Proof. exact notifier_success_only_if_notified. Qed.

(* the pinned code (D15a, D15b) and the code after the first fix only (D15c) violate it *)
Theorem C15_refuted_notifier_reuse :
  In (1, ROk) (wait_results (nrun VPinned ninit d15a_history)) /\
  (forall a1 a2 v, d15a_history = a1 ++ NANotify v :: a2 -> nth_error (lsts (nrun VPinned ninit a1)) 1 = None).
Proof. exact notifier_refuted_reuse_pinned. Qed.
Theorem C15_refuted_notifier_dereg_race :
  In (0, ROk) (wait_results (nrun VPinned ninit d15b_history)) /\ has_notify d15b_history = false.
Proof. exact notifier_refuted_dereg_race_pinned. Qed.
Theorem C15_refuted_notifier_shared_entry :
  In (0, ROk) (wait_results (nrun VMid ninit d15c_history)) /\
  (forall a1 a2 v, d15c_history = a1 ++ NANotify v :: a2 ->
     exists x, nth_error (lsts (nrun VMid ninit a1)) 0 = Some x /\ l_dereg x = true).
Proof. exact notifier_refuted_shared_entry_mid. Qed.

(* non-vacuity *)
Example C15_ex_limit : quiescent (run init ex_limit) /\ map h_cnt (hooks (run init ex_limit)) = [3%N; 3%N].
Proof. split; [exact ex_limit_quiescent | vm_compute; reflexivity]. Qed.
Example C15_ex_promise : pquiescent (prun pinit pex) /\ p_cbs (prun pinit pex) = None.
Proof. split; [exact pex_quiescent | vm_compute; reflexivity]. Qed.
Example C15_ex_notifier :
  In (0, ROk) (wait_results (nrun VCur ninit [NAListener 2%N; NAWait 0; NANotify 2%N; NAStep 0 CChan; NAStep 0 CCtx; NAStep 0 CCtx; NAStep 0 CCtx; NAStep 0 CCtx])).
Proof. vm_compute. auto. Qed.

Print Assumptions C15_max_trigger_count_partial.
Print Assumptions C15_max_trigger_count_quiescent.
Print Assumptions C15_promise.
Print Assumptions C15_promise_at_most_once.
Print Assumptions C15_promise_removed_means_unsubscribed_before_trigger.
Print Assumptions C15_promise_args.
Print Assumptions C15_promise_not_before_trigger.
Print Assumptions C15_notifier.
Print Assumptions C15_refuted_notifier_reuse.
Print Assumptions C15_refuted_notifier_dereg_race.
Print Assumptions C15_refuted_notifier_shared_entry.
