(* C15 - Events, promises and notifiers deliver exactly the right calls. Statements only.
   Proved for all schedules: (a) events: exactly-once per Trigger with arguments and order, LinkTo, WithMaxTriggerCount at
   hook and at event level; (b) the promise clause; (c) the notifier clause. *)
From Coq Require Import NArith List Permutation PeanoNat.
From Verif.C15_Events Require Import Model ModelPromise ModelNotifier ProofsEvent ProofsEvent2 ProofsWalk ProofsLink ProofsPromise ProofsNotifier.
Import ListNotations.

(* (a) WithMaxTriggerCount(n) on a hook: under ANY interleaving of the atomic steps of any number of concurrent
   Trigger/Hook/Unhook/LinkTo callers, invocations so far + walkers that passed the hook's count test and are about
   to invoke it = min(n, number of triggers that reached the hook) (all of them when there is no limit). *)
Theorem C15_max_trigger_count_hook : forall acts n h, let s := run init acts in
  nth_error (hooks s) n = Some h ->
  N.of_nat (length (calls_of s n) + pend n s) = if N.eqb (h_max h) 0 then h_cnt h else N.min (h_cnt h) (h_max h).
Proof. exact max_trigger_count_hook. Qed.

(* ... hence, when no Trigger is running: exactly min(n, #triggers that reached it) invocations. *)
Theorem C15_max_trigger_count_quiescent : forall acts n h, let s := run init acts in
  quiescent s -> nth_error (hooks s) n = Some h -> h_max h <> 0%N ->
  N.of_nat (length (calls_of s n)) = N.min (h_max h) (h_cnt h).
Proof. exact max_trigger_count_hook_quiescent. Qed.

(* (a) WithMaxTriggerCount(n) on an event: under ANY interleaving, at every reachable state, the event's atomic counter equals
   the number of Trigger calls on it (direct ones and those made by link hooks) and the number of those calls that passed
   the count test ("fired": they walk the hooks) is min(n, number of Trigger calls) (all of them when there is no limit). *)
Theorem C15_max_trigger_count_event : forall acts e ev, let s := run init acts in
  nth_error (events s) e = Some ev ->
  N.of_nat (length (trigs_of s e)) = e_cnt ev /\
  N.of_nat (length (accepted s e)) = if N.eqb (e_max ev) 0 then e_cnt ev else N.min (e_cnt ev) (e_max ev).
Proof. exact max_trigger_count_event. Qed.

(* (a) exactly once, arguments, order: for ANY interleaving of the atomic steps of concurrent Trigger / Hook / Unhook / LinkTo
   callers (nested triggers through links included): if Trigger number k (accepted by the event-level limit) has finished,
   then every hook of its event that was attached before k began (h_born < t_t0) and is still attached has been invoked
   by k exactly once, with k's argument, and all invocations / pool submissions made by k are in attachment order.
   (Applied to the prefix of the schedule at which k finishes this is "not unhooked before its end";
   C15_finished_calls_stable: k invokes nothing after it has finished.) *)
Theorem C15_trigger_exactly_once : forall acts k tr n h, let s := run init acts in
  nth_error (trigs s) k = Some tr -> t_rej tr = false -> finished s k ->
  nth_error (hooks s) n = Some h -> h_ev h = t_ev tr -> h_born h < t_t0 tr -> h_in h = true ->
  (exists i, nth_error (calls_by s k) i = Some (mkCall n (t_arg tr) k)) /\
  length (filter (fun c => Nat.eqb (c_hook c) n) (calls_by s k)) = 1 /\
  (forall i j c1 c2, i < j -> nth_error (calls_by s k) i = Some c1 -> nth_error (calls_by s k) j = Some c2 -> c_hook c1 < c_hook c2).
Proof. exact trigger_exactly_once. Qed.

(* ... at any moment, finished or not: no hook is invoked twice by the same Trigger *)
Theorem C15_trigger_at_most_once : forall acts k n, let s := run init acts in
  length (filter (fun c => Nat.eqb (c_hook c) n) (calls_by s k)) <= 1.
Proof. exact trigger_at_most_once. Qed.

(* ... every invocation is made by an accepted Trigger of the hook's own event, with that Trigger's argument *)
Theorem C15_calls_sound : forall acts c, let s := run init acts in In c (calls s) ->
  exists h tr, nth_error (hooks s) (c_hook c) = Some h /\ nth_error (trigs s) (c_tid c) = Some tr /\
               t_rej tr = false /\ h_ev h = t_ev tr /\ c_arg c = t_arg tr.
Proof. exact calls_sound. Qed.

(* ... and a Trigger that has finished never invokes anything later *)
Theorem C15_finished_calls_stable : forall acts1 acts2 k, k < length (trigs (run init acts1)) -> finished (run init acts1) k ->
  calls_by (run init (acts1 ++ acts2)) k = calls_by (run init acts1) k /\ finished (run init (acts1 ++ acts2)) k.
Proof. exact finished_calls_stable. Qed.

(* (a) LinkTo: a hook that was unhooked before Trigger k began is never invoked by k. LinkTo's first step unhooks the link
   hook from the former target: triggers of the former target that begin afterwards no longer fire the linked event. *)
Theorem C15_link_no_fire_after_unhook : forall acts c h tr, let s := run init acts in
  In c (calls s) -> nth_error (hooks s) (c_hook c) = Some h -> nth_error (trigs s) (c_tid c) = Some tr ->
  h_in h = true \/ t_t0 tr < h_died h.
Proof. exact link_no_fire_after_unhook. Qed.

(* ... an event has at most one attached link hook at any time: the one recorded in its link field (none while a LinkTo
   is between its two steps); with C15_trigger_exactly_once applied to that hook: exactly once per trigger of the current target *)
Theorem C15_link_unique : forall acts n h e, let s := run init acts in
  nth_error (hooks s) n = Some h -> h_kind h = KLink e -> h_in h = true ->
  exists ev, nth_error (events s) e = Some ev /\ e_link ev = Some n /\ e_lock ev = false.
Proof. exact link_unique. Qed.

(* (b) promise.Event: every callback identity is in exactly one place (registered / pending in one thread / called once /
   unsubscribed before the trigger), for every interleaving of Trigger, OnTrigger, unsubscribe and the callback calls *)
Theorem C15_promise : forall l c, let s := prun pinit l in
  pquiescent s -> p_cbs s = None -> c < p_next s ->
  count_occ Nat.eq_dec (map fst (p_log s)) c + count_occ Nat.eq_dec (p_removed s) c = 1.
Proof. exact promise_exactly_once. Qed.

Theorem C15_promise_at_most_once : forall l c, count_occ Nat.eq_dec (map fst (p_log (prun pinit l))) c <= 1.
Proof. exact promise_at_most_once. Qed.

Theorem C15_promise_removed_means_unsubscribed_before_trigger : forall l c, In c (p_removed (prun pinit l)) ->
  exists l1 l2 cs, l = l1 ++ PAUnsub c :: l2 /\ p_cbs (prun pinit l1) = Some cs /\ In c cs.
Proof. exact promise_removed_before_trigger. Qed.

Theorem C15_promise_args : forall l c v, In (c, v) (p_log (prun pinit l)) -> p_val (prun pinit l) = Some v.
Proof. exact promise_args. Qed.

Theorem C15_promise_not_before_trigger : forall l, (exists c, p_cbs (prun pinit l) = Some c) ->
  p_log (prun pinit l) = [] /\ pending (prun pinit l) = [].
Proof. exact promise_not_triggered_no_call. Qed.

(* (c) value notifier (code after the fixes a95de67, f215c7a): Wait returns success only if there is a Notify(value)
   step before which the listener already existed (was created) and its deregistered flag was still false *)
Theorem C15_notifier : forall acts l, In (l, ROk) (wait_results (nrun VCur ninit acts)) ->
  exists a1 a2 x1 v, acts = a1 ++ NANotify v :: a2 /\
                     nth_error (lsts (nrun VCur ninit a1)) l = Some x1 /\ l_val x1 = v /\ l_dereg x1 = false.
Proof. exact notifier_success_only_if_notified. Qed.

(* the pinned code (D15a, D15b) and the code after the first fix only (D15c) violate it *)
Theorem C15_refuted_notifier_reuse :
  In (1, ROk) (wait_results (nrun VPinned ninit d15a_history)) /\
  (forall a1 a2 v, d15a_history = a1 ++ NANotify v :: a2 -> nth_error (lsts (nrun VPinned ninit a1)) 1 = None).
Proof. exact notifier_refuted_reuse_pinned. Qed.
Theorem C15_refuted_notifier_dereg_race :
  In (0, ROk) (wait_results (nrun VPinned ninit d15b_history)) /\ has_notify d15b_history = false.
Proof. exact notifier_refuted_dereg_race_pinned. Qed.
Theorem C15_refuted_notifier_shared_entry :
  In (0, ROk) (wait_results (nrun VMid ninit d15c_history)) /\
  (forall a1 a2 v, d15c_history = a1 ++ NANotify v :: a2 ->
     exists x, nth_error (lsts (nrun VMid ninit a1)) 0 = Some x /\ l_dereg x = true).
Proof. exact notifier_refuted_shared_entry_mid. Qed.

(* non-vacuity *)
Example C15_ex_limit : quiescent (run init ex_limit) /\ map h_cnt (hooks (run init ex_limit)) = [3%N; 3%N].
Proof. split; [exact ex_limit_quiescent | vm_compute; reflexivity]. Qed.
Example C15_ex_evlimit : let s := run init ex_evlimit in
  map t_rej (trigs s) = [false; false; true] /\ map e_cnt (events s) = [3%N] /\ map e_max (events s) = [2%N].
Proof. vm_compute. auto. Qed.
Example C15_ex_walk : let s := run init ex_walk in       (* hypotheses of C15_trigger_exactly_once for k = 0, n = 3 *)
  nth_error (trigs s) 0 = Some (mkTrig 0 7 5 false None) /\ finished s 0 /\
  option_map (fun h => (h_ev h, h_born h, h_in h)) (nth_error (hooks s) 3) = Some (0, 4, true) /\
  map (fun h => (h_in h, h_frozen h)) (hooks s) = [(true, None); (false, Some 2); (false, Some 3); (true, None); (true, None)] /\
  map c_hook (calls_by s 0) = [0; 1; 2; 3; 4].
Proof. exact ex_walk_hyps. Qed.
Example C15_ex_link : let s := run init ex_link in
  map (fun c => (c_hook c, c_arg c, c_tid c)) (calls s) = [(1, 5%N, 0); (0, 5%N, 1); (2, 8%N, 3); (0, 8%N, 4)] /\
  map (fun t => (t_ev t, t_arg t, t_t0 t, t_parent t)) (trigs s) =
    [(0, 5%N, 6, None); (2, 5%N, 9, Some (1, 0)); (0, 6%N, 17, None); (1, 8%N, 20, None); (2, 8%N, 23, Some (2, 3))] /\
  map (fun h => (h_ev h, h_kind h, h_in h, h_died h)) (hooks s) = [(2, KCb, true, 0); (0, KLink 2, false, 15); (1, KLink 2, true, 0)] /\
  threads s = [[]; []; []; []; []].
Proof. exact ex_link_result. Qed.
Example C15_ex_promise : pquiescent (prun pinit pex) /\ p_cbs (prun pinit pex) = None.
Proof. split; [exact pex_quiescent | vm_compute; reflexivity]. Qed.
Example C15_ex_notifier :
  In (0, ROk) (wait_results (nrun VCur ninit [NAListener 2%N; NAWait 0; NANotify 2%N; NAStep 0 CChan; NAStep 0 CCtx; NAStep 0 CCtx; NAStep 0 CCtx; NAStep 0 CCtx])).
Proof. vm_compute. auto. Qed.

Print Assumptions C15_max_trigger_count_hook.
Print Assumptions C15_max_trigger_count_quiescent.
Print Assumptions C15_max_trigger_count_event.
Print Assumptions C15_trigger_exactly_once.
Print Assumptions C15_trigger_at_most_once.
Print Assumptions C15_calls_sound.
Print Assumptions C15_finished_calls_stable.
Print Assumptions C15_link_no_fire_after_unhook.
Print Assumptions C15_link_unique.
Print Assumptions C15_promise.
Print Assumptions C15_promise_at_most_once.
Print Assumptions C15_promise_removed_means_unsubscribed_before_trigger.
Print Assumptions C15_promise_args.
Print Assumptions C15_promise_not_before_trigger.
Print Assumptions C15_notifier.
Print Assumptions C15_refuted_notifier_reuse.
Print Assumptions C15_refuted_notifier_dereg_race.
Print Assumptions C15_refuted_notifier_shared_entry.
