(* C15 - Events, promises and notifiers deliver exactly the right calls. Statements only (filled in below). *)
From Coq Require Import NArith List.
From Verif.C15_Events Require Import Model ModelPromise ModelNotifier.
