(* C17 - Starving/DAG mutexes: exclusion, no lost wake-up, condition waits. Statements only. *)
From Coq Require Import List Arith Bool ZArith.
From Verif.C17_Sync Require Import Model Proofs ProofsDag ProofsWaits.
Import ListNotations.

(* ---------- StarvingMutex: any number of threads, arbitrary scripts (misuse included), every schedule ---------- *)

(* Exclusion: a write holder excludes every other holder; read holders exclude the writer; the counters of the Go
   struct are exactly the sizes of the (ghost) holder sets. *)
Theorem C17_exclusion : forall (scripts : list (list act)) (sch : list (tid * nat)),
  let m := mx (run sch (init scripts)) in
  (wr m <> [] -> rd m = [] /\ length (wr m) = 1 /\ wa m = true) /\
  (rd m <> [] -> wr m = [] /\ wa m = false) /\
  ra m = length (rd m) /\ (wa m = true <-> length (wr m) = 1).
Proof. exact exclusion_all. Qed.

(* pendingWriters = parked writers + writers that were signalled and have not re-checked yet *)
Theorem C17_pw : forall scripts sch,
  let m := mx (run sch (init scripts)) in pw m = length (wq m) + length (wk m).
Proof. exact pending_writers_all. Qed.

(* No lost wake-up: a free lock with pending writers has a writer wake-up in flight (a signalled writer or a thread
   about to Signal); parked readers exist only while a writer is active or pending or a Broadcast is in flight. *)
Theorem C17_no_lost_wakeup : forall scripts sch,
  let m := mx (run sch (init scripts)) in
  (lock_free m -> 0 < pw m -> wk m <> [] \/ sg m <> []) /\
  (rq m <> [] -> wa m = true \/ 0 < pw m \/ bc m <> []).
Proof. exact no_lost_wakeup_all. Qed.

(* A state in which no thread can step and somebody is parked: the lock is held (by operations nobody will undo:
   every thread is parked or has finished its script). *)
Theorem C17_not_stranded : forall scripts sch,
  let s := run sch (init scripts) in
  stuck s -> (exists t, parked s t) ->
  (wa (mx s) = true \/ 0 < ra (mx s)) /\
  (rd (mx s) <> [] \/ wr (mx s) <> []) /\
  (forall t, parked s t \/ finished s t).
Proof. exact not_stranded_all. Qed.

(* non-vacuity: a free lock with a pending writer and the Signal still owed; a stuck state with a parked reader *)
Example C17_no_lost_wakeup_nonvacuous :
  let m := mx (run [(0, 0); (1, 0); (0, 0)] (init [[ALock; AUnlock]; [ALock]])) in
  lock_free m /\ 0 < pw m /\ sg m = [0] /\ wq m = [1].
Proof. vm_compute. repeat split; auto. Qed.

Example C17_not_stranded_nonvacuous :
  let s := run [(0, 0); (1, 0)] (init [[ALock]; [ARLock]]) in stuck s /\ parked s 1 /\ wr (mx s) = [0].
Proof.
  split; [|split; [right; reflexivity|reflexivity]].
  intros t c. destruct t as [|[|[|t]]]; reflexivity.
Qed.

(* Misuse: the wrong unlock panics and the lock state is exactly what it was (all schedules: a panicking step of the
   system leaves the mutex unchanged); Unlock of a mutex nobody holds does not panic and changes no lock state. *)
Theorem C17_misuse :
  (forall t m, ra m = 0 -> sm_start t ARUnlock m = (m, RPanic)) /\
  (forall t m, wa m = true -> sm_start t ARUnlock m = (m, RPanic)) /\
  (forall t m, 0 < ra m -> sm_start t AUnlock m = (m, RPanic)) /\
  (forall s t c s', step_ev s t c = Some (s', RPanic) -> mx s' = mx s) /\
  (forall t m m' r, wa m = false -> ra m = 0 -> sm_start t AUnlock m = (m', r) ->
     r = RCont /\ ra m' = ra m /\ wa m' = wa m /\ pw m' = pw m /\ rd m' = rd m /\ wq m' = wq m /\ wk m' = wk m /\
     rq m' = rq m /\ rk m' = rk m).
Proof.
  split; [exact misuse_runlock|split; [exact misuse_runlock_writer|split; [exact misuse_unlock_readers|
  split; [exact misuse_step_all|exact misuse_unlock_free]]]].
Qed.

(* ---------- DAGMutex ---------- *)

(* Every per-entity StarvingMutex (every one ever allocated, dropped or not) of every reachable DAGMutex state, for any
   threads, scripts (misuse included) and schedules, satisfies exclusion, pending-writer accounting, no lost wake-up. *)
Theorem C17_dag_exclusion : forall (scripts : list (list dop)) (sch : list (tid * nat)) (m : sm),
  In m (heap (drun sch (dinit scripts))) ->
  ra m = length (rd m) /\ (wa m = true <-> length (wr m) = 1) /\ (wa m = true -> rd m = []) /\ (rd m <> [] -> wr m = []) /\
  pw m = length (wq m) + length (wk m) /\
  (lock_free m -> 0 < pw m -> wk m <> [] \/ sg m <> []) /\
  (rq m <> [] -> wa m = true \/ 0 < pw m \/ bc m <> []).
Proof. exact dag_exclusion_all. Qed.

(* Misuse: Unlock of an unregistered id panics and touches nothing; RUnlock(ids1 ++ id :: ids2) with id unregistered
   releases exactly ids1, then panics; a panicking step changes neither the registry nor any StarvingMutex. *)
Theorem C17_dag_misuse :
  (forall id hp es, lookup id es = None -> dag_begin (DUnlock id) hp es = (hp, es, [MPanic])) /\
  (forall ids1 es es1 ms id ids2, unregister_all ids1 es = (es1, ms) -> no_panic ms -> lookup id es1 = None ->
     unregister_all (ids1 ++ id :: ids2) es = (es1, ms ++ [MPanic])) /\
  (forall s t c s', dstep_ev s t c = Some (s', DVPanic) ->
     heap s' = heap s /\ ents s' = ents s /\
     exists th, nth_error (thr s) t = Some th /\ thr s' = upd t (mkDT None [] (dscr th)) (thr s)).
Proof. split; [exact dag_misuse_unlock|split; [exact dag_misuse_runlock|exact dag_misuse_step]]. Qed.

(* Deadlock freedom along an acyclic order - PARTIAL: the max-waited-entity argument over the wait-for structure of a
   stuck state. Proved: if every waited entity is held (per-entity no-lost-wake-up, C17_dag_exclusion + the stuck-state
   argument of C17_not_stranded), every holder still has operations to run, and a holder only waits for strictly greater
   entities, then nobody waits. NOT proved: that the wait-for structure of the DAGMutex model satisfies H_unfinished /
   H_order for scripts that acquire along the order (needs the invariant tying the ghost holder lists to script
   positions across entity drop/re-registration); that link is exercised by the correspondence check only (balanced
   ordered scripts complete under every arrival order tried).
   Full statement: forall scripts sch, ordered_balanced scripts -> (forall t c, dstep (drun sch (dinit scripts)) t c = None) ->
                   forall th, In th (thr (drun sch (dinit scripts))) -> cur th = None /\ todo th = [] /\ dscr th = []. *)
Theorem C17_dag_acyclic_partial :
  forall (nthreads : nat) (waits : nat -> option nat) (holds : nat -> nat -> Prop),
  (forall t e, t < nthreads -> waits t = Some e -> exists h, h < nthreads /\ holds h e) ->
  (forall h e, h < nthreads -> holds h e -> exists e', waits h = Some e') ->
  (forall h e e', holds h e -> waits h = Some e' -> e < e') ->
  forall bound, (forall t e, waits t = Some e -> e < bound) ->
  forall t, t < nthreads -> waits t = None.
Proof. exact acyclic_no_waiter. Qed.

(* the doc-comment example of dagmutex.go runs to completion in the model (ordered, balanced scripts) *)
Example C17_dag_example_completes :
  let s := drun [(0,0);(0,0);(2,0);(2,0);(1,0);(1,0);(0,0);(0,0);(0,0);(2,0);(1,0);(1,0);(1,0);(2,0);(2,0);(2,0);(2,0);(2,0)]
                (dinit [[DLock 0; DUnlock 0]; [DLock 1; DUnlock 1]; [DRLock [0; 1]; DRUnlock [0; 1]]]) in
  ents s = [] /\ map dscr (thr s) = [[]; []; []] /\ map cur (thr s) = [None; None; None] /\ map todo (thr s) = [[]; []; []].
Proof. vm_compute. repeat split; auto. Qed.

(* ---------- Counter ---------- *)

(* A wait returns only on a true condition; no waiter stays parked on a true condition unless the Broadcast that
   follows the change is still owed (all schedules); in a state where nothing can move every parked waiter's condition
   is false. *)
Theorem C17_counter_waits :
  (forall t s s',
     (forall th, c_start t (CWaitBelow th) s = (s', RDone) -> (cval s' < th)%Z /\ s' = s) /\
     (forall th, c_start t (CWaitAbove th) s = (s', RDone) -> (th < cval s')%Z /\ s' = s) /\
     (c_cont t s = Some (s', RDone) ->
        (forall th, aget t (dk s) = Some th -> (cval s' < th)%Z /\ cval s' = cval s) /\
        (forall th, aget t (dk s) = None -> aget t (ik s) = Some th -> (th < cval s')%Z /\ cval s' = cval s))) /\
  (forall scripts sch, let s := cst (crun sch (cinit scripts)) in
     (forall t th, In (t, th) (dq s) -> (cval s < th)%Z -> od s <> []) /\
     (forall t th, In (t, th) (iq s) -> (th < cval s)%Z -> oi s <> [])) /\
  (forall scripts sch, let s := crun sch (cinit scripts) in cstuck s ->
     (forall t th, In (t, th) (dq (cst s)) -> (th <= cval (cst s))%Z) /\
     (forall t th, In (t, th) (iq (cst s)) -> (cval (cst s) <= th)%Z)).
Proof. split; [exact counter_wait_sound|split; [exact counter_no_lost_wakeup|exact counter_stuck_waiters_false]]. Qed.

Example C17_counter_waits_nonvacuous :
  let s := cst (crun [0; 1; 1] (cinit [[CSet 2]; [CWaitBelow 1]; [CUpdate (-2)]])) in
  dq s = [(1, 1%Z)] /\ od s = [] /\ cval s = 2%Z.
Proof. vm_compute. repeat split; auto. Qed.

(* ---------- Stack ---------- *)

(* For scripts whose PopOrWait condition changes only in front of a pass through the stack's mutex (what
   WorkerPool.Shutdown + Stack.SignalShutdown do since 5281186): no waiter is parked on a true condition (element
   present / wait condition false / size reached) unless the wake-up is still in flight - all schedules. *)
Theorem C17_stack_waits : forall scripts sch,
  no_ext scripts ->
  let s := kst (krun sch (kinit scripts)) in
  (forall t, In (t, 0) (aq s) -> els s <> [] -> oa s <> []) /\
  (forall t, In (t, 0) (aq s) -> flag s = false -> kfs s <> [] \/ oa s <> []) /\
  (forall t th, In (t, S th) (aq s) -> th < length (els s) -> oa s <> []) /\
  (forall t th, In (t, th) (xq s) -> length (els s) < th -> ox s <> []).
Proof. exact stack_no_lost_wakeup. Qed.

Theorem C17_stack_wait_sound : forall t s s' r,
  (popwait_try t s = (s', r) ->
     match els s with
     | x :: rest => els s' = rest /\ pops s' = (t, Some x) :: pops s
     | [] => (r = RDone -> flag s = false /\ pops s' = (t, None) :: pops s) /\ (r <> RDone -> flag s = true /\ pops s' = pops s)
     end) /\
  (forall th, below_k t th s = (s', RDone) -> length (els s') < th) /\
  (forall th, above_k t th s = (s', RDone) -> th < length (els s')).
Proof. exact stack_wait_sound. Qed.

Example C17_stack_waits_nonvacuous :
  no_ext [[KPopOrWait]; [KPush 1; KSetFlagLocked false]] /\
  let s := kst (krun [0; 0; 1] (kinit [[KPopOrWait]; [KPush 1; KSetFlagLocked false]])) in
  aq s = [(0, 0)] /\ els s = [1] /\ oa s = [1].
Proof. split; [repeat constructor|vm_compute; repeat split; auto]. Qed.

(* D16b: with an external condition that is written and broadcast without the stack's mutex the statement is false:
   the waiter parks on a false condition with nothing in flight and nothing can move. *)
Theorem C17_refuted_popOrWait :
  let s := krun d16b_schedule (kinit d16b_scripts) in
  In (0, 0) (aq (kst s)) /\ flag (kst s) = false /\ oa (kst s) = [] /\ kfs (kst s) = [] /\ ak (kst s) = [] /\
  (forall t, kstep s t = None).
Proof. exact refuted_popOrWait_external. Qed.

Print Assumptions C17_exclusion.
Print Assumptions C17_pw.
Print Assumptions C17_no_lost_wakeup.
Print Assumptions C17_not_stranded.
Print Assumptions C17_misuse.
Print Assumptions C17_dag_exclusion.
Print Assumptions C17_dag_misuse.
Print Assumptions C17_dag_acyclic_partial.
Print Assumptions C17_counter_waits.
Print Assumptions C17_stack_waits.
Print Assumptions C17_stack_wait_sound.
Print Assumptions C17_refuted_popOrWait.
