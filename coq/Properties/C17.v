(* C17 - Starving/DAG mutexes: exclusion, no lost wake-up, condition waits. Statements only. *)
From Coq Require Import List Arith Bool ZArith.
From Verif.C17_Sync Require Import Model Proofs.
Import ListNotations.

(* ---------- StarvingMutex: any number of threads, arbitrary scripts (misuse included), every schedule ---------- *)

(* Exclusion: a write holder excludes every other holder; read holders exclude the writer; the counters of the Go
   struct are exactly the sizes of the (ghost) holder sets. *)
Theorem C17_exclusion : forall (scripts : list (list act)) (sch : list (tid * nat)),
  let m := mx (run sch (init scripts)) in
  (wr m <> [] -> rd m = [] /\ length (wr m) = 1 /\ wa m = true) /\
  (rd m <> [] -> wr m = [] /\ wa m = false) /\
  ra m = length (rd m) /\ (wa m = true <-> length (wr m) = 1).
Proof. exact exclusion_all. Qed.

(* pendingWriters = parked writers + writers that were signalled and have not re-checked yet *)
Theorem C17_pw : forall scripts sch,
  let m := mx (run sch (init scripts)) in pw m = length (wq m) + length (wk m).
Proof. exact pending_writers_all. Qed.

(* No lost wake-up: a free lock with pending writers has a writer wake-up in flight (a signalled writer or a thread
   about to Signal); parked readers exist only while a writer is active or pending or a Broadcast is in flight. *)
Theorem C17_no_lost_wakeup : forall scripts sch,
  let m := mx (run sch (init scripts)) in
  (lock_free m -> 0 < pw m -> wk m <> [] \/ sg m <> []) /\
  (rq m <> [] -> wa m = true \/ 0 < pw m \/ bc m <> []).
Proof. exact no_lost_wakeup_all. Qed.

(* A state in which no thread can step and somebody is parked: the lock is held (by operations nobody will undo:
   every thread is parked or has finished its script). *)
Theorem C17_not_stranded : forall scripts sch,
  let s := run sch (init scripts) in
  stuck s -> (exists t, parked s t) ->
  (wa (mx s) = true \/ 0 < ra (mx s)) /\
  (rd (mx s) <> [] \/ wr (mx s) <> []) /\
  (forall t, parked s t \/ finished s t).
Proof. exact not_stranded_all. Qed.

Print Assumptions C17_exclusion.
Print Assumptions C17_pw.
Print Assumptions C17_no_lost_wakeup.
Print Assumptions C17_not_stranded.
