(* C17 - Starving/DAG mutexes: exclusion, no lost wake-up, condition waits. Statements only. *)
From Coq Require Import List Arith Bool ZArith.
From Verif.C17_Sync Require Import Model Proofs ProofsDag ProofsWaits SmView ProofsProgress DagInv DagSteps DagLive ProofsTerm.
Import ListNotations.

(* ---------- StarvingMutex: any number of threads, arbitrary scripts (misuse included), every schedule ---------- *)

(* Exclusion: a write holder excludes every other holder; read holders exclude the writer; the counters of the Go
   struct are exactly the sizes of the (ghost) holder sets. *)
Theorem C17_exclusion : forall (scripts : list (list act)) (sch : list (tid * nat)),
  let m := mx (run sch (init scripts)) in
  (wr m <> [] -> rd m = [] /\ length (wr m) = 1 /\ wa m = true) /\
  (rd m <> [] -> wr m = [] /\ wa m = false) /\
  ra m = length (rd m) /\ (wa m = true <-> length (wr m) = 1).
Proof. exact exclusion_all. Qed.

(* pendingWriters = parked writers + writers that were signalled and have not re-checked yet *)
Theorem C17_pw : forall scripts sch,
  let m := mx (run sch (init scripts)) in pw m = length (wq m) + length (wk m).
Proof. exact pending_writers_all. Qed.

(* No lost wake-up: a free lock with pending writers has a writer wake-up in flight (a signalled writer or a thread
   about to Signal); parked readers exist only while a writer is active or pending or a Broadcast is in flight. *)
Theorem C17_no_lost_wakeup : forall scripts sch,
  let m := mx (run sch (init scripts)) in
  (lock_free m -> 0 < pw m -> wk m <> [] \/ sg m <> []) /\
  (rq m <> [] -> wa m = true \/ 0 < pw m \/ bc m <> []).
Proof. exact no_lost_wakeup_all. Qed.

(* A state in which no thread can step and somebody is parked: the lock is held (by operations nobody will undo:
   every thread is parked or has finished its script). *)
Theorem C17_not_stranded : forall scripts sch,
  let s := run sch (init scripts) in
  stuck s -> (exists t, parked s t) ->
  (wa (mx s) = true \/ 0 < ra (mx s)) /\
  (rd (mx s) <> [] \/ wr (mx s) <> []) /\
  (forall t, parked s t \/ finished s t).
Proof. exact not_stranded_all. Qed.

(* non-vacuity: a free lock with a pending writer and the Signal still owed; a stuck state with a parked reader *)
Example C17_no_lost_wakeup_nonvacuous :
  let m := mx (run [(0, 0); (1, 0); (0, 0)] (init [[ALock; AUnlock]; [ALock]])) in
  lock_free m /\ 0 < pw m /\ sg m = [0] /\ wq m = [1].
Proof. vm_compute. repeat split; auto. Qed.

Example C17_not_stranded_nonvacuous :
  let s := run [(0, 0); (1, 0)] (init [[ALock]; [ARLock]]) in stuck s /\ parked s 1 /\ wr (mx s) = [0].
Proof.
  split; [|split; [right; reflexivity|reflexivity]].
  intros t c. destruct t as [|[|[|t]]]; reflexivity.
Qed.

(* Progress (deadlock / starvation freedom as absence of stuck states): for BALANCED scripts - `balanced sc` (= bal 0 false sc):
   each thread only unlocks what it holds in the mode it holds it, never locks against its own lock (nested RLocks
   allowed) and ends holding nothing - any number of threads, every schedule, every reachable state s:
   (a) if no thread can step, s is final: every thread has run its whole script, nobody is parked, the lock is free;
   (b) equivalently: as long as some thread has not finished, some thread has an enabled step - in particular
   (c) whenever a thread is parked in Lock / RLock ("every blocked Lock/RLock is granted once the conflicting holders have
       released": the holders are never stuck themselves, (d), and after the last release the wake-up is in flight);
   (d) a ghost holder is a thread that is neither parked nor finished (its script still contains the unlock);
   (e) no operation ever panics. *)
Theorem C17_lock_progress : forall (scripts : list (list act)) (sch : list (tid * nat)),
  Forall balanced scripts ->
  let s := run sch (init scripts) in
  (stuck s ->
     (forall t, finished s t) /\ (forall t, ~ parked s t) /\
     wa (mx s) = false /\ ra (mx s) = 0 /\ pw (mx s) = 0 /\ rd (mx s) = [] /\ wr (mx s) = []) /\
  ((exists t, ~ finished s t) -> exists t c, step s t c <> None) /\
  (forall t, parked s t -> exists u c, step s u c <> None) /\
  (forall t, 0 < cnt t (rd (mx s)) + cnt t (wr (mx s)) -> ~ parked s t /\ ~ finished s t) /\
  (forall t c s' r, step_ev s t c = Some (s', r) -> r <> RPanic).
Proof. exact lock_progress_full. Qed.

(* non-vacuity: balanced scripts (a writer, a reader, a nested reader); a reachable state with a parked writer and a
   parked reader (premise of (c)); a reachable final state that is stuck (premise of (a)) *)
Example C17_lock_progress_nonvacuous :
  let scripts := [[ALock; AUnlock]; [ARLock; ARUnlock]; [ARLock; ARLock; ARUnlock; ARUnlock]; [ALock; AUnlock]] in
  Forall balanced scripts /\
  (let s := run [(0, 0); (3, 0); (1, 0)] (init scripts) in parked s 3 /\ parked s 1 /\ wr (mx s) = [0]) /\
  (let s := run (concat (repeat [(0, 0); (3, 0); (1, 0); (2, 0)] 8)) (init scripts) in
   stuck s /\ scr s = [[]; []; []; []]).
Proof.
  split; [repeat constructor|]. split.
  - vm_compute. repeat split; auto.
  - split; [|reflexivity]. intros t c. destruct t as [|[|[|[|[|t]]]]]; reflexivity.
Qed.

(* No livelock, and completion: every effective step strictly decreases (operations left, notifications owed, woken
   threads) lexicographically, so - for any scripts, from any state - there is no infinite run of effective steps; hence,
   with C17_lock_progress, from every reachable state of balanced scripts running enabled steps in any order ends, and
   ends in the final state: every blocked Lock / RLock has been granted and released (a finishing continuation sch' exists,
   and no continuation of effective steps can go on forever or stop anywhere else). Guard non-vacuity: see
   C17_lock_progress_nonvacuous. *)
Theorem C17_lock_terminates :
  well_founded (fun s' s : sys => exists t c, step s t c = Some s') /\
  (forall scripts sch, Forall balanced scripts ->
     exists sch', let s := run (sch ++ sch') (init scripts) in
                  stuck s /\ (forall t, finished s t) /\ rd (mx s) = [] /\ wr (mx s) = [] /\ pw (mx s) = 0).
Proof. split; [exact lock_terminates|exact lock_completes]. Qed.

(* Misuse: the wrong unlock panics and the lock state is exactly what it was (all schedules: a panicking step of the
   system leaves the mutex unchanged); Unlock of a mutex nobody holds does not panic and changes no lock state. *)
Theorem C17_misuse :
  (forall t m, ra m = 0 -> sm_start t ARUnlock m = (m, RPanic)) /\
  (forall t m, wa m = true -> sm_start t ARUnlock m = (m, RPanic)) /\
  (forall t m, 0 < ra m -> sm_start t AUnlock m = (m, RPanic)) /\
  (forall s t c s', step_ev s t c = Some (s', RPanic) -> mx s' = mx s) /\
  (forall t m m' r, wa m = false -> ra m = 0 -> sm_start t AUnlock m = (m', r) ->
     r = RCont /\ ra m' = ra m /\ wa m' = wa m /\ pw m' = pw m /\ rd m' = rd m /\ wq m' = wq m /\ wk m' = wk m /\
     rq m' = rq m /\ rk m' = rk m).
Proof.
  split; [exact misuse_runlock|split; [exact misuse_runlock_writer|split; [exact misuse_unlock_readers|
  split; [exact misuse_step_all|exact misuse_unlock_free]]]].
Qed.

(* ---------- DAGMutex ---------- *)

(* Every per-entity StarvingMutex (every one ever allocated, dropped or not) of every reachable DAGMutex state, for any
   threads, scripts (misuse included) and schedules, satisfies exclusion, pending-writer accounting, no lost wake-up. *)
Theorem C17_dag_exclusion : forall (scripts : list (list dop)) (sch : list (tid * nat)) (m : sm),
  In m (heap (drun sch (dinit scripts))) ->
  ra m = length (rd m) /\ (wa m = true <-> length (wr m) = 1) /\ (wa m = true -> rd m = []) /\ (rd m <> [] -> wr m = []) /\
  pw m = length (wq m) + length (wk m) /\
  (lock_free m -> 0 < pw m -> wk m <> [] \/ sg m <> []) /\
  (rq m <> [] -> wa m = true \/ 0 < pw m \/ bc m <> []).
Proof. exact dag_exclusion_all. Qed.

(* Misuse: Unlock of an unregistered id panics and touches nothing; RUnlock(ids1 ++ id :: ids2) with id unregistered
   releases exactly ids1, then panics; a panicking step changes neither the registry nor any StarvingMutex. *)
Theorem C17_dag_misuse :
  (forall id hp es, lookup id es = None -> dag_begin (DUnlock id) hp es = (hp, es, [MPanic])) /\
  (forall ids1 es es1 ms id ids2, unregister_all ids1 es = (es1, ms) -> no_panic ms -> lookup id es1 = None ->
     unregister_all (ids1 ++ id :: ids2) es = (es1, ms ++ [MPanic])) /\
  (forall s t c s', dstep_ev s t c = Some (s', DVPanic) ->
     heap s' = heap s /\ ents s' = ents s /\
     exists th, nth_error (thr s) t = Some th /\ thr s' = upd t (mkDT None [] (dscr th)) (thr s)).
Proof. split; [exact dag_misuse_unlock|split; [exact dag_misuse_runlock|exact dag_misuse_step]]. Qed.

(* The abstract max-waited-entity argument (core of C17_dag_acyclic): if every waited entity is held, every holder waits
   itself, and a holder only waits for strictly greater entities, then - finitely many entities - nobody waits. *)
Theorem C17_dag_acyclic_abstract :
  forall (nthreads : nat) (waits : nat -> option nat) (holds : nat -> nat -> Prop),
  (forall t e, t < nthreads -> waits t = Some e -> exists h, h < nthreads /\ holds h e) ->
  (forall h e, h < nthreads -> holds h e -> exists e', waits h = Some e') ->
  (forall h e e', holds h e -> waits h = Some e' -> e < e') ->
  forall bound, (forall t e, waits t = Some e -> e < bound) ->
  forall t, t < nthreads -> waits t = None.
Proof. exact acyclic_no_waiter. Qed.

(* Deadlock freedom along an acyclic order - FULL.  `ordered_balanced sc` (= dbal [] sc): the script acquires entities
   along the strict order of their ids (Lock id / RLock ids...: every id greater than everything the thread holds, ids
   strictly increasing), unlocks only what it holds in the mode it holds it (in any order) and ends holding nothing.
   For any number of threads with such scripts, any number of entities, every schedule, every reachable state s:
   (a) if no thread can step, every thread is final (outside every mutex, no micro-operation left, script finished);
   (b) equivalently, while some thread is not final some thread has an enabled step;
   (c) no operation ever panics. *)
Theorem C17_dag_acyclic : forall (scripts : list (list dop)) (sch : list (tid * nat)),
  Forall ordered_balanced scripts ->
  let s := drun sch (dinit scripts) in
  ((forall t c, dstep s t c = None) ->
     forall th, In th (thr s) -> cur th = None /\ todo th = [] /\ dscr th = []) /\
  ((exists th, In th (thr s) /\ ~ (cur th = None /\ todo th = [] /\ dscr th = [])) -> exists t c, dstep s t c <> None) /\
  (forall t c s' ev, dstep_ev s t c = Some (s', ev) -> ev = DVStep).
Proof.
  intros scripts sch F s. split; [exact (dag_acyclic_all scripts sch F)|].
  split; [exact (dag_enabled_if_unfinished scripts sch F)|]. intros t c s' ev. exact (dag_no_panic scripts sch t c s' ev F).
Qed.

(* Consumer counters and ghost holders across entity drop and re-registration (ordered balanced scripts, all schedules):
   there is a ghost gs - per thread the set gH of (entity, write?) it holds and the list gP of those its current
   Lock / RLock call has registered and not yet acquired - with
   - registry well formed: every entry points to an allocated mutex with a positive counter, no two entities share a mutex;
   - consumer counter of every entity = number of threads that hold it or are acquiring it (0 = not in the registry);
   - for a live entity id -> mutex r: thread t occurs in r's ghost read (write) holder list exactly as often as it
     holds id in that mode plus the RUnlock (Unlock) micro-operations on r it has unregistered for and not yet performed;
     for ANY mutex (dropped ones included) it occurs at least as often as it still owes unlocks;
   - a thread is in the lists of mutex r (parked / woken / owing a notification) iff r is its current mutex, and once;
   - thr_core: the entities being acquired (gP) are exactly the lock micro-operations left in todo (on the registered
     mutexes), the first of them being the mutex the thread is parked / woken in; with gP empty, todo holds unlocks only;
   - the held set is exactly what the remaining script releases (acq_seq: acquiring gP on top of gH stays ordered). *)
Theorem C17_dag_consumers : forall (scripts : list (list dop)) (sch : list (tid * nat)),
  Forall ordered_balanced scripts ->
  let s := drun sch (dinit scripts) in
  exists gs : list ghost,
    length gs = length (thr s) /\
    ents_wf (ents s) (length (heap s)) /\
    (forall id, cntof (ents s) id = regsum id gs) /\
    (forall t id r n, lookup id (ents s) = Some (r, n) ->
       hR t (hpf (heap s) r) = b2n (has id false (gH (gof gs t))) + owes ARUnlock r (todo (thf (thr s) t)) /\
       hW t (hpf (heap s) r) = b2n (has id true (gH (gof gs t))) + owes AUnlock r (todo (thf (thr s) t))) /\
    (forall t r, owes ARUnlock r (todo (thf (thr s) t)) <= hR t (hpf (heap s) r) /\
                 owes AUnlock r (todo (thf (thr s) t)) <= hW t (hpf (heap s) r)) /\
    (forall t r, occ t (hpf (heap s) r) <= 1 /\ (0 < occ t (hpf (heap s) r) <-> cur (thf (thr s) t) = Some r)) /\
    (forall t, thr_core (ents s) (heap s) t (thf (thr s) t) (gof gs t)) /\
    (forall t, exists H', acq_seq (gH (gof gs t)) (gP (gof gs t)) = Some H' /\ dbal H' (dscr (thf (thr s) t)) = true).
Proof. exact dag_consumers_all. Qed.

(* The same for the DAGMutex system: (operations left, micro-operations left, notifications owed, woken threads) decreases
   with every effective step - no infinite run of effective steps, for any scripts; for ordered balanced scripts every
   reachable state can be run to the final state, and running enabled steps in any order ends exactly there. *)
Theorem C17_dag_terminates :
  well_founded (fun s' s : dag => exists t c, dstep s t c = Some s') /\
  (forall scripts sch, Forall ordered_balanced scripts ->
     exists sch', let s := drun (sch ++ sch') (dinit scripts) in
                  (forall t c, dstep s t c = None) /\
                  forall th, In th (thr s) -> cur th = None /\ todo th = [] /\ dscr th = []).
Proof. split; [exact dag_terminates|exact dag_completes]. Qed.

(* non-vacuity: the doc-comment scripts are ordered and balanced; a reachable state in which thread 2 (RLock(0,1)) is parked
   behind writer 0 on entity 0 with entity 1 registered by two consumers (hypothesis (b)); the final state of
   C17_dag_example_completes is stuck (hypothesis (a)).  And the order matters: two threads locking 0,1 and 1,0 reach a
   stuck state that is not final. *)
Example C17_dag_acyclic_nonvacuous :
  let scripts := [[DLock 0; DUnlock 0]; [DLock 1; DUnlock 1]; [DRLock [0; 1]; DRUnlock [0; 1]]] in
  Forall ordered_balanced scripts /\
  (let s := drun [(0,0);(0,0);(2,0);(2,0);(1,0)] (dinit scripts) in
   map cur (thr s) = [None; None; Some 0] /\ ents s = [(1, (1, 2)); (0, (0, 2))] /\ rq (hpf (heap s) 0) = [2] /\ wr (hpf (heap s) 0) = [0]) /\
  (let s := drun [(0,0);(0,0);(2,0);(2,0);(1,0);(1,0);(0,0);(0,0);(0,0);(2,0);(1,0);(1,0);(1,0);(2,0);(2,0);(2,0);(2,0);(2,0)]
                 (dinit scripts) in
   (forall t c, dstep s t c = None) /\ ents s = []).
Proof.
  split; [repeat constructor|]. split.
  - vm_compute. repeat split; auto.
  - split; [|reflexivity]. intros t c. destruct t as [|[|[|[|t]]]]; reflexivity.
Qed.

Example C17_dag_cycle_deadlocks :
  let scripts := [[DLock 0; DLock 1; DUnlock 1; DUnlock 0]; [DLock 1; DLock 0; DUnlock 0; DUnlock 1]] in
  ~ Forall ordered_balanced scripts /\
  (let s := drun [(0,0);(0,0);(1,0);(1,0);(0,0);(0,0);(1,0);(1,0)] (dinit scripts) in
   (forall t c, dstep s t c = None) /\ map cur (thr s) = [Some 1; Some 0]).
Proof.
  split.
  - intros F. inversion F as [|x l A B]; subst. inversion B as [|y l' C D]; subst. vm_compute in C. discriminate.
  - split; [|reflexivity]. intros t c. destruct t as [|[|[|t]]]; reflexivity.
Qed.

(* the doc-comment example of dagmutex.go runs to completion in the model (ordered, balanced scripts) *)
Example C17_dag_example_completes :
  let s := drun [(0,0);(0,0);(2,0);(2,0);(1,0);(1,0);(0,0);(0,0);(0,0);(2,0);(1,0);(1,0);(1,0);(2,0);(2,0);(2,0);(2,0);(2,0)]
                (dinit [[DLock 0; DUnlock 0]; [DLock 1; DUnlock 1]; [DRLock [0; 1]; DRUnlock [0; 1]]]) in
  ents s = [] /\ map dscr (thr s) = [[]; []; []] /\ map cur (thr s) = [None; None; None] /\ map todo (thr s) = [[]; []; []].
Proof. vm_compute. repeat split; auto. Qed.

(* ---------- Counter ---------- *)

(* A wait returns only on a true condition; no waiter stays parked on a true condition unless the Broadcast that
   follows the change is still owed (all schedules); in a state where nothing can move every parked waiter's condition
   is false. *)
Theorem C17_counter_waits :
  (forall t s s',
     (forall th, c_start t (CWaitBelow th) s = (s', RDone) -> (cval s' < th)%Z /\ s' = s) /\
     (forall th, c_start t (CWaitAbove th) s = (s', RDone) -> (th < cval s')%Z /\ s' = s) /\
     (c_cont t s = Some (s', RDone) ->
        (forall th, aget t (dk s) = Some th -> (cval s' < th)%Z /\ cval s' = cval s) /\
        (forall th, aget t (dk s) = None -> aget t (ik s) = Some th -> (th < cval s')%Z /\ cval s' = cval s))) /\
  (forall scripts sch, let s := cst (crun sch (cinit scripts)) in
     (forall t th, In (t, th) (dq s) -> (cval s < th)%Z -> od s <> []) /\
     (forall t th, In (t, th) (iq s) -> (th < cval s)%Z -> oi s <> [])) /\
  (forall scripts sch, let s := crun sch (cinit scripts) in cstuck s ->
     (forall t th, In (t, th) (dq (cst s)) -> (th <= cval (cst s))%Z) /\
     (forall t th, In (t, th) (iq (cst s)) -> (cval (cst s) <= th)%Z)).
Proof. split; [exact counter_wait_sound|split; [exact counter_no_lost_wakeup|exact counter_stuck_waiters_false]]. Qed.

Example C17_counter_waits_nonvacuous :
  let s := cst (crun [0; 1; 1] (cinit [[CSet 2]; [CWaitBelow 1]; [CUpdate (-2)]])) in
  dq s = [(1, 1%Z)] /\ od s = [] /\ cval s = 2%Z.
Proof. vm_compute. repeat split; auto. Qed.

(* ---------- Stack ---------- *)

(* PopOrWait's caller-supplied wait condition is explicit steps of the model: loop head (mutex taken, length looked
   at), the callback (entered, reads its condition, returns - all with the mutex held), Wait - so "all schedules" below includes every attempt to
   run Push / Pop / SignalShutdown / size waits of other threads while a waiter is inside its callback or between the
   callback and Wait.
   For scripts whose PopOrWait condition changes only in front of a pass through the stack's mutex (what
   WorkerPool.Shutdown + Stack.SignalShutdown do since 5281186): no waiter is parked on a true condition (element
   present / wait condition false / size reached) unless the wake-up is still in flight - all schedules; and when
   nothing can move any more every parked waiter's condition is false. *)
Theorem C17_stack_waits : forall scripts sch,
  no_ext scripts ->
  (let s := kst (krun sch (kinit scripts)) in
   (forall t, In (t, 0) (aq s) -> els s <> [] -> oa s <> []) /\
   (forall t, In (t, 0) (aq s) -> flag s = false -> kfs s <> [] \/ oa s <> []) /\
   (forall t th, In (t, S th) (aq s) -> th < length (els s) -> oa s <> []) /\
   (forall t th, In (t, th) (xq s) -> length (els s) < th -> ox s <> [])) /\
  (let s := krun sch (kinit scripts) in
   kstuck s ->
   (forall t, In (t, 0) (aq (kst s)) -> els (kst s) = [] /\ flag (kst s) = true) /\
   (forall t th, In (t, S th) (aq (kst s)) -> length (els (kst s)) <= th) /\
   (forall t th, In (t, th) (xq (kst s)) -> th <= length (els (kst s)))).
Proof. intros scripts sch X. split; [exact (stack_no_lost_wakeup scripts sch X)|exact (stack_stuck_waiters_false scripts sch X)]. Qed.

(* While a PopOrWait caller is inside its wait condition or between the callback and Wait (any reachable state, all
   schedules) it holds the stack's mutex over an empty stack, it is the only such thread, no operation that needs the
   mutex (everything but the flag write in front of SignalShutdown) can start, and no other thread can continue except
   by delivering an owed Broadcast: the evaluation of the condition and the registration as a waiter are one critical
   section. *)
Theorem C17_stack_callback_exclusive : forall scripts sch,
  no_ext scripts ->
  let s := kst (krun sch (kinit scripts)) in
  forall t, (emem t (kev s) = true \/ In t (kchk s)) ->
    kmx s = Some t /\ els s = [] /\ map fst (kev s) ++ kchk s = [t] /\
    (forall u o, needs_mutex o = true -> k_start u o s = None) /\
    (forall u, u <> t -> kbusy u s = true -> mem u (oa s) = false -> mem u (ox s) = false -> k_cont u s = None).
Proof. exact stack_callback_exclusive. Qed.

(* the steps of PopOrWait: loop head (pop / enter the callback with the mutex held), the callback reads the condition,
   the callback returns what it read (false: PopOrWait gives up; true: about to Wait, mutex still held); size waits
   return only on a true condition *)
Theorem C17_stack_wait_sound : forall t s s' r,
  (popwait_try t s = (s', r) ->
     match els s with
     | x :: rest => els s' = rest /\ pops s' = (t, Some x) :: pops s
     | [] => r = RCont /\ pops s' = pops s /\ kev s' = kev s ++ [(t, None)] /\ (krel s = false -> kmx s' = Some t)
     end) /\
  (popwait_read t s = (s', r) ->
     r = RCont /\ els s' = els s /\ pops s' = pops s /\ kmx s' = kmx s /\ kev s' = eset t (flag s) (kev s)) /\
  (forall b, popwait_eval t b s = (s', r) ->
     els s' = els s /\
     (r = RDone -> b = false /\ pops s' = (t, None) :: pops s) /\
     (r <> RDone -> b = true /\ pops s' = pops s /\ kmx s' = Some t /\ kchk s' = kchk s ++ [t])) /\
  (forall th, below_k t th s = (s', RDone) -> length (els s') < th) /\
  (forall th, above_k t th s = (s', RDone) -> th < length (els s')).
Proof. exact stack_wait_sound. Qed.

Example C17_stack_waits_nonvacuous :
  no_ext [[KPopOrWait]; [KPush 1; KSetFlagLocked false]] /\
  (let s := kst (krun [0; 0; 0; 0; 1] (kinit [[KPopOrWait]; [KPush 1; KSetFlagLocked false]])) in
   aq s = [(0, 0)] /\ els s = [1] /\ oa s = [1]) /\
  (* a waiter inside its callback: the hypotheses of C17_stack_callback_exclusive hold in a reachable state *)
  (let s := kst (krun [0; 1] (kinit [[KPopOrWait]; [KPush 1; KSetFlagLocked false]])) in
   kev s = [(0, None)] /\ kmx s = Some 0 /\ els s = []) /\
  (* a stuck state with a parked waiter *)
  (let s := krun [0; 0; 0; 0] (kinit [[KPopOrWait]]) in aq (kst s) = [(0, 0)] /\ kstuck s).
Proof.
  split; [repeat constructor|split; [vm_compute; repeat split; auto|split; [vm_compute; repeat split; auto|]]].
  vm_compute. split; auto. intros t. destruct t as [|[|t]]; reflexivity.
Qed.

(* D16b: with an external condition that is written and broadcast without the stack's mutex the statement is false:
   the waiter parks on a false condition with nothing in flight and nothing can move. *)
Theorem C17_refuted_popOrWait :
  let s := krun d16b_schedule (kinit d16b_scripts) in
  In (0, 0) (aq (kst s)) /\ flag (kst s) = false /\ oa (kst s) = [] /\ kfs (kst s) = [] /\ ak (kst s) = [] /\
  (forall t, kstep s t = None).
Proof. exact refuted_popOrWait_external. Qed.

(* The variant of PopOrWait that releases the stack's mutex around the evaluation of the wait condition and parks
   without looking at the length again (krel = true, not the code): [PopOrWait] || [Push 7], schedule 0 1 1 0 0 0 - the
   Push lands while thread 0 is inside its callback and broadcasts to nobody; thread 0 parks on a non-empty stack,
   nothing is in flight, nobody can move: the statement is false for that variant.  (The code on the same schedule:
   ProofsWaits.held_popOrWait_same_window.) *)
Theorem C17_refuted_popOrWait_released_mutex :
  let s := krun released_schedule (kinit_rel released_scripts) in
  In (0, 0) (aq (kst s)) /\ els (kst s) = [7] /\ flag (kst s) = true /\
  oa (kst s) = [] /\ kfs (kst s) = [] /\ ak (kst s) = [] /\ pops (kst s) = [] /\
  (forall t, kstep s t = None).
Proof. exact refuted_popOrWait_released. Qed.

Print Assumptions C17_exclusion.
Print Assumptions C17_pw.
Print Assumptions C17_no_lost_wakeup.
Print Assumptions C17_not_stranded.
Print Assumptions C17_misuse.
Print Assumptions C17_dag_exclusion.
Print Assumptions C17_dag_misuse.
Print Assumptions C17_lock_progress.
Print Assumptions C17_dag_acyclic_abstract.
Print Assumptions C17_dag_acyclic.
Print Assumptions C17_dag_consumers.
Print Assumptions C17_lock_terminates.
Print Assumptions C17_dag_terminates.
Print Assumptions C17_counter_waits.
Print Assumptions C17_stack_waits.
Print Assumptions C17_stack_wait_sound.
Print Assumptions C17_stack_callback_exclusive.
Print Assumptions C17_refuted_popOrWait.
Print Assumptions C17_refuted_popOrWait_released_mutex.
