(* C19 - safemath returns the exact result or an overflow error, never wraps.
   Statements only; every theorem is about the definitions GENERATED from
   core/safemath/safe_math.go (Verif.C19_SafeMath.Generated). *)
From Coq Require Import ZArith Lia.
From Verif.C19_SafeMath Require Import GoInt Spec Generated Proofs GeneratedPinned Sweep8.
Open Scope Z_scope.

(* Widths 8, 16, 32, 64 are instances of [wf] with half >= 2. *)
Definition width_ok (t : ity) : Prop := wf t /\ 2 <= half t.

Theorem C19_SafeAdd : forall t x y, width_ok t -> in_range t x -> in_range t y ->
  SafeAdd t x y = (if in_rangeb t (x + y) then Ok (x + y) else ErrOverflow).
Proof. intros t x y [Hwf _]. exact (SafeAdd_exact t Hwf x y). Qed.

Theorem C19_SafeSub : forall t x y, width_ok t -> in_range t x -> in_range t y ->
  SafeSub t x y = (if in_rangeb t (x - y) then Ok (x - y) else ErrOverflow).
Proof. intros t x y [Hwf _]. exact (SafeSub_exact t Hwf x y). Qed.

Theorem C19_SafeMul : forall t x y, width_ok t -> in_range t x -> in_range t y ->
  SafeMul t x y = (if in_rangeb t (x * y) then Ok (x * y) else ErrOverflow).
Proof. intros t x y [Hwf H2]. exact (SafeMul_exact t Hwf H2 x y). Qed.

Theorem C19_SafeDiv : forall t x y, width_ok t -> in_range t x -> in_range t y ->
  SafeDiv t x y = (if y =? 0 then ErrDivZero
                   else if in_rangeb t (Z.quot x y) then Ok (Z.quot x y) else ErrOverflow).
Proof. intros t x y [Hwf H2]. exact (SafeDiv_exact t Hwf H2 x y). Qed.

(* shift counts are uint8 in the Go signature; the theorem holds for every count >= 0 *)
Theorem C19_SafeLeftShift : forall t x s, width_ok t -> in_range t x -> 0 <= s ->
  SafeLeftShift t x s = (if in_rangeb t (x * 2 ^ s) then Ok (x * 2 ^ s) else ErrOverflow).
Proof. intros t x s [Hwf _]. exact (SafeLeftShift_exact t Hwf x s). Qed.

Theorem C19_SafeMulUint64 : forall x y, in_range u64 x -> in_range u64 y ->
  SafeMulUint64 x y = (if in_rangeb u64 (x * y) then Ok (x * y) else ErrOverflow).
Proof. exact SafeMulUint64_exact. Qed.

Theorem C19_SafeMulInt64 : forall x y, in_range i64 x -> in_range i64 y ->
  SafeMulInt64 x y = (if in_rangeb i64 (x * y) then Ok (x * y) else ErrOverflow).
Proof. exact SafeMulInt64_exact. Qed.

Theorem C19_Safe64MulDiv : forall x y d, in_range u64 x -> in_range u64 y -> in_range u64 d ->
  Safe64MulDiv x y d = (if d =? 0 then ErrDivZero
                        else if in_rangeb u64 (x * y / d) then Ok (x * y / d) else ErrOverflow).
Proof. exact Safe64MulDiv_exact. Qed.

(* Non-vacuity: the eight Go integer types satisfy the hypotheses. *)
Example widths_ok : width_ok u8 /\ width_ok i8 /\ width_ok u16 /\ width_ok i16 /\
                    width_ok u32 /\ width_ok i32 /\ width_ok u64 /\ width_ok i64.
Proof.
  repeat split; try (cbn; lia);
  [exists 7|exists 7|exists 15|exists 15|exists 31|exists 31|exists 63|exists 63]; split; try lia; reflexivity.
Qed.

(* The defects repaired by the fix: commits, as regression examples on the generated code. *)
Example D19a : SafeMul i8 (-1) (-128) = ErrOverflow. Proof. reflexivity. Qed.
Example D19b : SafeDiv i8 (-128) (-1) = ErrOverflow. Proof. reflexivity. Qed.
Example D19c1 : SafeLeftShift u8 96 2 = ErrOverflow. Proof. reflexivity. Qed.
Example D19c2 : SafeLeftShift i8 (-1) 1 = Ok (-2). Proof. reflexivity. Qed.
Example D19c3 : SafeLeftShift i8 (-1) 8 = ErrOverflow. Proof. reflexivity. Qed.

(* Proof by computation over a genuinely finite domain (all 8-bit operand pairs, all 256 shift counts), independent of the
   width-generic proofs above. *)
Theorem C19_exhaustive_8bit : forall t, t = u8 \/ t = i8 ->
  (forall x y, in_range t x -> in_range t y ->
     SafeAdd t x y = spec_add t x y /\ SafeSub t x y = spec_sub t x y /\
     SafeMul t x y = spec_mul t x y /\ SafeDiv t x y = spec_div t x y) /\
  (forall x s, in_range t x -> 0 <= s < 256 -> SafeLeftShift t x s = spec_shl t x s).
Proof.
  intros t Ht. destruct (exhaustive_8bit t Ht) as [H2 Hs]. split.
  - intros x y Hx Hy. specialize (H2 x y Hx Hy). unfold ok2 in H2.
    repeat (apply Bool.andb_true_iff in H2 as [H2 ?]).
    repeat split; apply res_eqb_true; assumption.
  - intros x s Hx Hr. apply res_eqb_true. exact (Hs x s Hx Hr).
Qed.

(* The pinned code (commit 56b68f6, translated by the same translator: GeneratedPinned.v) violates the property: witnesses. *)
Theorem C19_refuted_mul_pinned : exists x y, in_range i8 x /\ in_range i8 y /\
  Pinned.SafeMul i8 x y = Ok (-128) /\ spec_mul i8 x y = ErrOverflow.
Proof. exists (-1), (-128). cbn. repeat split; try lia; discriminate. Qed.

Theorem C19_refuted_div_pinned : exists x y, in_range i8 x /\ in_range i8 y /\
  Pinned.SafeDiv i8 x y = Ok (-128) /\ spec_div i8 x y = ErrOverflow.
Proof. exists (-128), (-1). cbn. repeat split; try lia; discriminate. Qed.

Theorem C19_refuted_shl_pinned :
  (Pinned.SafeLeftShift u8 96 2 = Ok 128 /\ spec_shl u8 96 2 = ErrOverflow) /\
  (Pinned.SafeLeftShift i8 (-1) 1 = ErrOverflow /\ spec_shl i8 (-1) 1 = Ok (-2)) /\
  (Pinned.SafeLeftShift i8 (-1) 8 = Ok 0 /\ spec_shl i8 (-1) 8 = ErrOverflow).
Proof. repeat split; reflexivity. Qed.

Print Assumptions C19_exhaustive_8bit.
Print Assumptions C19_refuted_mul_pinned.
Print Assumptions C19_refuted_div_pinned.
Print Assumptions C19_refuted_shl_pinned.
Print Assumptions C19_SafeAdd.
Print Assumptions C19_SafeSub.
Print Assumptions C19_SafeMul.
Print Assumptions C19_SafeDiv.
Print Assumptions C19_SafeLeftShift.
Print Assumptions C19_SafeMulUint64.
Print Assumptions C19_SafeMulInt64.
Print Assumptions C19_Safe64MulDiv.
