(* C19 - safemath returns the exact result or an overflow error, never wraps.
   Statements only; every theorem is about the definitions GENERATED from
   core/safemath/safe_math.go (Verif.C19_SafeMath.Generated). *)
From Coq Require Import ZArith Lia.
From Verif.C19_SafeMath Require Import GoInt Spec Generated Proofs.
Open Scope Z_scope.

(* Widths 8, 16, 32, 64 are instances of [wf] with half >= 2. *)
Definition width_ok (t : ity) : Prop := wf t /\ 2 <= half t.

Theorem C19_SafeAdd : forall t x y, width_ok t -> in_range t x -> in_range t y ->
  SafeAdd t x y = (if in_rangeb t (x + y) then Ok (x + y) else ErrOverflow).
Proof. intros t x y [Hwf _]. exact (SafeAdd_exact t Hwf x y). Qed.

Theorem C19_SafeSub : forall t x y, width_ok t -> in_range t x -> in_range t y ->
  SafeSub t x y = (if in_rangeb t (x - y) then Ok (x - y) else ErrOverflow).
Proof. intros t x y [Hwf _]. exact (SafeSub_exact t Hwf x y). Qed.

Theorem C19_SafeMul : forall t x y, width_ok t -> in_range t x -> in_range t y ->
  SafeMul t x y = (if in_rangeb t (x * y) then Ok (x * y) else ErrOverflow).
Proof. intros t x y [Hwf H2]. exact (SafeMul_exact t Hwf H2 x y). Qed.

Theorem C19_SafeDiv : forall t x y, width_ok t -> in_range t x -> in_range t y ->
  SafeDiv t x y = (if y =? 0 then ErrDivZero
                   else if in_rangeb t (Z.quot x y) then Ok (Z.quot x y) else ErrOverflow).
Proof. intros t x y [Hwf H2]. exact (SafeDiv_exact t Hwf H2 x y). Qed.

(* shift counts are uint8 in the Go signature; the theorem holds for every count >= 0 *)
Theorem C19_SafeLeftShift : forall t x s, width_ok t -> in_range t x -> 0 <= s ->
  SafeLeftShift t x s = (if in_rangeb t (x * 2 ^ s) then Ok (x * 2 ^ s) else ErrOverflow).
Proof. intros t x s [Hwf _]. exact (SafeLeftShift_exact t Hwf x s). Qed.

Theorem C19_SafeMulUint64 : forall x y, in_range u64 x -> in_range u64 y ->
  SafeMulUint64 x y = (if in_rangeb u64 (x * y) then Ok (x * y) else ErrOverflow).
Proof. exact SafeMulUint64_exact. Qed.

Theorem C19_SafeMulInt64 : forall x y, in_range i64 x -> in_range i64 y ->
  SafeMulInt64 x y = (if in_rangeb i64 (x * y) then Ok (x * y) else ErrOverflow).
Proof. exact SafeMulInt64_exact. Qed.

Theorem C19_Safe64MulDiv : forall x y d, in_range u64 x -> in_range u64 y -> in_range u64 d ->
  Safe64MulDiv x y d = (if d =? 0 then ErrDivZero
                        else if in_rangeb u64 (x * y / d) then Ok (x * y / d) else ErrOverflow).
Proof. exact Safe64MulDiv_exact. Qed.

(* Non-vacuity: the eight Go integer types satisfy the hypotheses. *)
Example widths_ok : width_ok u8 /\ width_ok i8 /\ width_ok u16 /\ width_ok i16 /\
                    width_ok u32 /\ width_ok i32 /\ width_ok u64 /\ width_ok i64.
Proof.
  repeat split; try (cbn; lia);
  [exists 7|exists 7|exists 15|exists 15|exists 31|exists 31|exists 63|exists 63]; split; try lia; reflexivity.
Qed.

(* The defects repaired by the fix: commits, as regression examples on the generated code. *)
Example D19a : SafeMul i8 (-1) (-128) = ErrOverflow. Proof. reflexivity. Qed.
Example D19b : SafeDiv i8 (-128) (-1) = ErrOverflow. Proof. reflexivity. Qed.
Example D19c1 : SafeLeftShift u8 96 2 = ErrOverflow. Proof. reflexivity. Qed.
Example D19c2 : SafeLeftShift i8 (-1) 1 = Ok (-2). Proof. reflexivity. Qed.
Example D19c3 : SafeLeftShift i8 (-1) 8 = ErrOverflow. Proof. reflexivity. Qed.

Print Assumptions C19_SafeAdd.
Print Assumptions C19_SafeSub.
Print Assumptions C19_SafeMul.
Print Assumptions C19_SafeDiv.
Print Assumptions C19_SafeLeftShift.
Print Assumptions C19_SafeMulUint64.
Print Assumptions C19_SafeMulInt64.
Print Assumptions C19_Safe64MulDiv.
