(* C07 - Sequence numbers are never reused across crashes and restarts. Statements only. *)
From Coq Require Import NArith List Sorting.Sorted.
From Verif.C07_Seq Require Import Model Proofs.
Import ListNotations.
Open Scope N_scope.

(* For every history of NewSequence (any interval) / Next / Release / store faults / crashes at every
   store-operation boundary of Next / abandonment, starting from an empty store: the numbers handed
   out are strictly increasing, provided no uint64 addition wrapped (mark + interval < 2^64). *)
Theorem C07_no_reuse : forall h : list ev,
  wrapped (fst (run init h)) = false ->
  StronglySorted N.lt (nums (snd (run init h))).
Proof. exact no_reuse_outputs. Qed.

(* A crash wastes at most one interval of numbers ... *)
Theorem C07_crash_waste : forall s o e,
  Inv s -> live s = Some o -> (e = EAbandon \/ exists p, e = ENextCrash p) ->
  wrapped (fst (step s e)) = false ->
  let s' := fst (step s e) in live s' = None /\ lim s <= lim s' <= lim s + interval o.
Proof. exact crash_waste. Qed.

(* ... every reachable non-wrapped state satisfies Inv ... *)
Theorem C07_reachable_inv : forall h, wrapped (fst (run init h)) = false -> Inv (fst (run init h)).
Proof. intros h. exact (run_inv h init inv_init). Qed.

(* ... the next object starts exactly at lim ... *)
Theorem C07_restart_starts_at_lim : forall s i,
  Inv s -> live s = None -> i <> 0 -> wrapped (fst (run s [ENew i; ENext NoFault])) = false ->
  snd (run s [ENew i; ENext NoFault]) = [ONone; ONum (lim s)].
Proof. exact restart_starts_at_lim. Qed.

(* ... and a clean Release wastes none. *)
Theorem C07_release_no_waste : forall s o,
  Inv s -> live s = Some o -> snd (step s (ERelease false)) = ONone ->
  let s' := fst (step s (ERelease false)) in
  lim s' = lim s /\ (next o < reserved o -> disk s' = Some (lim s)).
Proof. exact release_no_waste. Qed.

(* The pinned code violated the property (D07, repaired by a fix: commit). *)
Theorem C07_refuted_release_fresh_pinned : returned (run_pinned init d07_history) = [0; 0].
Proof. exact refuted_release_fresh_pinned. Qed.

Print Assumptions C07_no_reuse.
Print Assumptions C07_crash_waste.
Print Assumptions C07_reachable_inv.
Print Assumptions C07_restart_starts_at_lim.
Print Assumptions C07_release_no_waste.
Print Assumptions C07_refuted_release_fresh_pinned.
