(* C02, part c02json - JSONDecode/MapDecode on ANY well-formed JSON document returns a value or an error,
   never panics.  Statements only.  [jdecode true] is the model of map_decode.go as it is now (after the
   fix: commits 4262ca0, 81cafca, 8fc6fcd); [jdecode false] is the pinned code. *)
From Coq Require Import ZArith NArith List Bool String.
From Verif.C01_SerixJson Require Import Model Ind ProofsC02.
Import ListNotations.

(* For every schema of the modelled fragment (bool, ints of all widths, strings, []byte, [n]byte, *big.Int,
   time.Time, structs by value or pointer with optional fields and object codes, slices, arrays, maps,
   interfaces with registered alternatives - nested arbitrarily) and EVERY JSON tree, of the right shape or not. *)
Theorem C02_json_no_panic : forall (s : schema) (j : json), jdecode true s j <> Panic.
Proof. intros s j H. pose proof (jdecode_no_panic s j) as N. rewrite H in N. discriminate. Qed.

Theorem C02_json_total : forall (s : schema) (j : json),
  (exists v, jdecode true s j = Ok v) \/ (exists e, jdecode true s j = Err e).
Proof. exact jdecode_total. Qed.

(* The same for the JSONDecode entry point (json.Unmarshal into map[string]any, then MapDecode). *)
Theorem C02_json_top_no_panic : forall (s : schema) (j : json), jdecode_top true s j <> Panic.
Proof. intros s j H. pose proof (jdecode_top_no_panic s j) as N. rewrite H in N. discriminate. Qed.

(* The pinned code violated the property (D02b and the array path): concrete wrong-shape documents on which
   the model of the pinned code panics; the harness replays them on the implementation as directed cases. *)
Theorem C02_refuted_json_wrong_shape_pinned :
  jdecode false pinned_schema (pinned_doc "i8" (JStr "x")) = Panic /\
  jdecode false pinned_schema (pinned_doc "b" JNull) = Panic /\
  jdecode false pinned_schema (pinned_doc "i64" (JNum 3)) = Panic /\
  jdecode false pinned_schema (pinned_doc "bs" (JNum 1)) = Panic /\
  jdecode false pinned_schema (pinned_doc "sl" (JNum 1)) = Panic /\
  jdecode false pinned_schema (pinned_doc "sl" (JObj [("a", JNum 1)]%string)) = Panic /\
  jdecode false pinned_schema (pinned_doc "t" (JNum 5)) = Panic /\
  jdecode false pinned_schema (pinned_doc "aI" (JArr [JNum 5; JNum 6])) = Panic.
Proof. exact refuted_pinned. Qed.

(* Non-vacuity / regression: those inputs are plain errors now, and a valid document still decodes. *)
Example C02_json_pinned_inputs_now_errors :
  jdecode true pinned_schema (pinned_doc "i8" (JStr "x")) = Err EShape /\
  jdecode true pinned_schema (pinned_doc "sl" (JObj [("a", JNum 1)]%string)) = Err EShape /\
  jdecode true pinned_schema (pinned_doc "aI" (JArr [JNum 5; JNum 6]))
    = Ok (VList [VInt 1; VBool true; VInt 3; VStr (String (Ascii.ascii_of_N 1) EmptyString); VList [VInt 1]; VInt 5; VList [VInt 5; VInt 6]]).
Proof. vm_compute. repeat split. Qed.

Print Assumptions C02_json_no_panic.
Print Assumptions C02_json_total.
Print Assumptions C02_json_top_no_panic.
Print Assumptions C02_refuted_json_wrong_shape_pinned.
Print Assumptions C02_json_pinned_inputs_now_errors.
