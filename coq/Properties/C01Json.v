(* C01, part c01json - the JSON/map form of serix round-trips: MapEncode/JSONEncode then MapDecode/JSONDecode
   gives back every value that form can express.  Statements only.  [jencode]/[jdecode true] model
   map_encode.go / map_decode.go as they are now (after commits 4262ca0, 81cafca, 8fc6fcd, 9d20a03, bb76e84, 18e6a53, b4a46ea, 74faee1, 83b7f6c, c9f8064, b9e1ae8, 221b25a, c016509). *)
From Coq Require Import ZArith NArith List Bool String.
From Verif.C01_SerixJson Require Import Model Ind ProofsLeaf ProofsC01 ProofsC02.
Import ListNotations.

(* For EVERY schema of the modelled fragment (bool; int8..uint64; string; []byte and [n]byte, also with a registered
   object code (object form; []B of a named byte type B included), [n]byte also behind a pointer; *big.Int; time.Time;
   structs by value or pointer with required / optional / omitempty / inlined fields, embedded structs and object
   codes; slices; arrays; maps;
   interfaces with registered alternatives - nested arbitrarily) and EVERY value of that type.
   Guards: [wf_schema] (distinct field keys - those of inlined and embedded structs count for the enclosing struct -,
   none equal to "type" next to an object code, inlined fields are structs, uint32 codes, map
   keys of string/int64/uint64/time/[n]byte type, 'optional' only on nil-able fields, 'omitempty' not on maps,
   arrays and by-value structs (where the model's identification of nil and empty collections would blur
   reflect.IsZero), alternatives are structs or
   byte arrays - by value or behind a pointer - with their own distinct object codes) and [has_type] (integers within their width, big.Int in [0, 2^256),
   time within [0, MaxInt64] ns - outside, TimeToUint64 clamps by design -, distinct map keys, non-optional
   pointers and interfaces non-nil; an 'omitempty' field may also hold its empty value whatever it is: the zero
   time.Time, a nil pointer / interface / *big.Int).  NaN/Inf do not arise: float fields are outside the fragment. *)
Theorem C01_json_roundtrip : forall (s : schema) (v : value),
  wf_schema s = true -> has_type s v = true ->
  exists j, jencode s v = Ok j /\ jdecode true s j = Ok v.
Proof. intros s v Hwf Ht. exact (jroundtrip s Hwf v Ht). Qed.

(* The same through the entry points JSONEncode / JSONDecode (top-level value struct; the produced document
   is an object that encoding/json accepts). *)
Theorem C01_json_roundtrip_top : forall code fs (v : value),
  wf_schema (SStruct false code fs) = true -> has_type (SStruct false code fs) v = true ->
  exists j, jencode_top (SStruct false code fs) v = Ok j /\ jdecode_top true (SStruct false code fs) j = Ok v.
Proof. exact jroundtrip_top. Qed.

(* The encoder never emits a number that encoding/json could not read back. *)
Theorem C01_json_encode_well_formed : forall s v j, jencode s v = Ok j -> json_ok j = true.
Proof. exact jencode_json_ok. Qed.

(* Robustness of the encoder (beyond the statement of C01, which is about values the JSON form can express): for
   EVERY schema and EVERY model value - well typed or not, e.g. a map whose key type encodes to a number, or a nil
   non-optional *big.Int - MapEncode/JSONEncode return a document or an error, never panic (after the fix: commits
   9d20a03 and bb76e84; before, these two inputs panicked). *)
Theorem C01_json_encode_no_panic : forall (s : schema) (v : value), jencode s v <> Panic.
Proof. intros s v H. pose proof (jencode_no_panic s v) as N. rewrite H in N. discriminate. Qed.

Theorem C01_json_encode_top_no_panic : forall (s : schema) (v : value), jencode_top s v <> Panic.
Proof. intros s v H. pose proof (jencode_top_no_panic s v) as N. rewrite H in N. discriminate. Qed.

Example C01_json_encode_former_panics :
  jencode (SStruct false None [("m", FReq, SArr 1 (SMap (SNum U16) SBool))]%string)
          (VList [VList [VMap [(VInt 1, VBool true)]]]) = Err EUnsupported /\
  jencode (SStruct false None [("b", FReq, SU256)]%string) (VList [VNil]) = Err ENil.
Proof. exact jencode_former_panics. Qed.

(* Non-vacuity: a nested schema with every constructor, and a value of it. *)
Definition ex_alt : schema := SStruct false (Some 7%N) [("q", FReq, SNum U16)]%string.
Definition ex_schema : schema :=
  SStruct false (Some 3%N)
    [("i8", FReq, SNum I8); ("i64", FReq, SI64); ("u64", FReq, SU64); ("s", FReq, SString); ("b", FReq, SBool);
     ("bs", FReq, SBytes); ("arr", FReq, SByteArr 2); ("big", FReq, SU256); ("t", FReq, STime);
     ("opt", FOptional, SStruct true None [("a", FReq, SNum I32)]);
     ("sl", FReq, SSlice (SStruct true None [("a", FReq, SNum I32)]));
     ("aI", FReq, SArr 2 (SNum I16));
     ("m", FReq, SMap SI64 (SSlice SString));
     ("if", FOptional, SIface [(7%N, ex_alt)]);
     ("om", FOmit, SNum U8); ("os", FOmit, SSlice SString); ("ot", FOmit, STime); ("op", FOmit, SU256);
     ("", FInline, SStruct false None [("ea", FReq, SNum I8); ("", FInline, SStruct true None [("eb", FReq, SBool)])]);
     ("ad", FReq, SByteArrO false 2 (Some 5%N) "pubKeyHash"); ("pa", FOptional, SByteArrO true 2 (Some 5%N) "pubKeyHash");
     ("pb", FReq, SByteArrO true 1 None "data");
     ("i2", FReq, SIface [(7%N, ex_alt); (8%N, SStruct true (Some 8%N) [("w", FReq, SBool)]);
                          (5%N, SByteArrO false 2 (Some 5%N) "pubKeyHash")]);
     ("i3", FReq, SIface [(7%N, ex_alt); (8%N, SStruct true (Some 8%N) [("w", FReq, SBool)]);
                          (5%N, SByteArrO false 2 (Some 5%N) "pubKeyHash")]);
     ("cb", FOmit, SBytesO 6 "hx" false); ("nb", FReq, SBytesO 9 "data" true)]%string.
Definition ex_value : value :=
  VList [VInt (-128); VInt (-9223372036854775808); VInt 18446744073709551615; VStr "hi"; VBool true;
         VStr "ab"; VStr "xy"; VInt 255; VInt 5; VNil;
         VList [VPtr (VList [VInt 1]); VPtr (VList [VInt (-2)])];
         VList [VInt 5; VInt (-6)];
         VMap [(VInt (-1), VList [VStr "a"]); (VInt 1, VList [])];
         VIface 7 (VList [VInt 65535]);
         VInt 0; VList [VStr "z"]; VInt zero_time; VNil;
         VList [VInt 4; VPtr (VList [VBool true])];
         VStr "ab"; VPtr (VStr "cd"); VPtr (VStr "e");
         VIface 8 (VPtr (VList [VBool false])); VIface 5 (VStr "gh"); VStr "i"; VStr "jk"]%string.

Example C01_json_roundtrip_nonvacuous :
  wf_schema ex_schema = true /\ has_type ex_schema ex_value = true /\
  jencode ex_schema ex_value =
    Ok (JObj [("type", JNum 3); ("i8", JNum (-128)); ("i64", JStr "-9223372036854775808");
              ("u64", JStr "18446744073709551615"); ("s", JStr "hi"); ("b", JBool true);
              ("bs", JStr "0x6162"); ("arr", JStr "0x7879"); ("big", JStr "0xff"); ("t", JStr "5");
              ("sl", JArr [JObj [("a", JNum 1)]; JObj [("a", JNum (-2))]]);
              ("aI", JArr [JNum 5; JNum (-6)]);
              ("m", JObj [("-1", JArr [JStr "a"]); ("1", JArr [])]);
              ("if", JObj [("type", JNum 7); ("q", JNum 65535)]);
              ("os", JArr [JStr "z"]); ("ea", JNum 4); ("eb", JBool true);
              ("ad", JObj [("type", JNum 5); ("pubKeyHash", JStr "0x6162")]);
              ("pa", JObj [("type", JNum 5); ("pubKeyHash", JStr "0x6364")]); ("pb", JStr "0x65");
              ("i2", JObj [("type", JNum 8); ("w", JBool false)]);
              ("i3", JObj [("type", JNum 5); ("pubKeyHash", JStr "0x6768")]);
              ("cb", JObj [("type", JNum 6); ("hx", JStr "0x69")]);
              ("nb", JObj [("type", JNum 9); ("data", JStr "0x6a6b")])]%string).
Proof. vm_compute. repeat split. Qed.

(* The pinned code did not round-trip arrays of non-byte elements (JSON analogue of D01a, repaired by 81cafca),
   nor maps with pointer values (8fc6fcd is outside the model: it panicked in the type-settings registry). *)
Theorem C01_refuted_json_array_pinned :
  let s := SStruct false None [("aI", FReq, SArr 2 (SNum I8))]%string in
  let v := VList [VList [VInt 5; VInt 6]] in
  wf_schema s = true /\ has_type s v = true /\
  exists j, jencode s v = Ok j /\ jdecode false s j = Panic.
Proof.
  cbv zeta. split; [vm_compute; reflexivity|]. split; [vm_compute; reflexivity|].
  exists (JObj [("aI", JArr [JNum 5; JNum 6])]%string). split; vm_compute; reflexivity.
Qed.

(* The pinned code ([jdecode false]) did not round-trip byte arrays behind a pointer without type settings (repaired
   by b4a46ea), nor by-value byte arrays with an object code (repaired by 74faee1; the unchecked assertion of the
   pinned code had become an error with 4262ca0). *)
Theorem C01_refuted_json_bytearray_forms_pinned :
  let s1 := SStruct false None [("a", FReq, SByteArrO true 4 None "data")]%string in
  let v1 := VList [VPtr (VStr "abcd")]%string in
  let s2 := SStruct false None [("a", FReq, SByteArrO false 4 (Some 3%N) "a")]%string in
  let v2 := VList [VStr "abcd"]%string in
  wf_schema s1 = true /\ has_type s1 v1 = true /\ wf_schema s2 = true /\ has_type s2 v2 = true /\
  (exists j, jencode s1 v1 = Ok j /\ jdecode false s1 j = Err EUnsupported /\ jdecode true s1 j = Ok v1) /\
  (exists j, jencode s2 v2 = Ok j /\ jdecode false s2 j = Panic /\ jdecode true s2 j = Ok v2).
Proof.
  cbv zeta. repeat (split; [vm_compute; reflexivity|]). split.
  - exists (JObj [("a", JStr "0x61626364")]%string). repeat split; vm_compute; reflexivity.
  - exists (JObj [("a", JObj [("type", JNum 3); ("a", JStr "0x61626364")])]%string). repeat split; vm_compute; reflexivity.
Qed.

Print Assumptions C01_json_roundtrip.
Print Assumptions C01_json_roundtrip_top.
Print Assumptions C01_json_encode_well_formed.
Print Assumptions C01_json_roundtrip_nonvacuous.
Print Assumptions C01_refuted_json_array_pinned.
Print Assumptions C01_json_encode_no_panic.
Print Assumptions C01_json_encode_top_no_panic.
Print Assumptions C01_json_encode_former_panics.
Print Assumptions C01_refuted_json_bytearray_forms_pinned.
