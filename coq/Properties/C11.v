(* C11 - OrderedMap and Set: insertion-ordered model, exact diffs, no deadlock. Statements only.
   els s (= s_toslice s) is the duplicate-free list of elements in first-insertion order, the abstraction of a state. *)
From Coq Require Import NArith ZArith List Bool.
From Verif.C11_Set Require Import Model CodecModel Refine SetBasics ArithCodec CodecFault SetProofs Corr Iter Iter2 History Locks Skeletons.
Import ListNotations.
Open Scope N_scope.

(* ---- refinement: the pointer-level ordered map is an association list in first-insertion order ---- *)

(* every state reachable by any history of Set / OrderedMap operations satisfies the representation invariant *)
Theorem C11_reachable_inv : forall init h, Inv (run_ops (s_new init) h).
Proof. exact reachable_inv. Qed.

Theorem C11_refines_set : forall o k v, Inv o ->
  Inv (fst (om_set o k v)) /\ om_list (fst (om_set o k v)) = l_set (om_list o) k v /\
  snd (om_set o k v) = l_get (om_list o) k.
Proof. exact set_spec. Qed.

Theorem C11_refines_delete : forall o k, Inv o ->
  Inv (fst (om_delete o k)) /\ om_list (fst (om_delete o k)) = l_del (om_list o) k /\
  snd (om_delete o k) = match l_get (om_list o) k with Some _ => true | None => false end.
Proof. exact delete_spec. Qed.

(* ForEachReverse visits exactly the reverse of ForEach; keys are unique; Get/Has/Size/Head/Tail/Clear read the list *)
Theorem C11_refines_reverse : forall o, Inv o -> om_rlist o = rev (om_list o).
Proof. exact om_rlist_rev. Qed.
Theorem C11_refines_keys_unique : forall o, Inv o -> NoDup (map fst (om_list o)).
Proof. exact keys_nodup. Qed.
Theorem C11_refines_get : forall o k, Inv o -> om_get o k = l_get (om_list o) k.
Proof. exact get_spec. Qed.
Theorem C11_refines_size : forall o, Inv o -> om_size o = length (om_list o).
Proof. exact size_spec. Qed.
Theorem C11_refines_head_tail : forall o, Inv o -> om_head o = hd_error (om_list o) /\ om_tail o = hd_error (rev (om_list o)).
Proof. intros o I. split. exact (head_spec o I). exact (tail_spec o I). Qed.
Theorem C11_refines_clear : forall o, Inv (om_clear o) /\ om_list (om_clear o) = [].
Proof. exact clear_spec. Qed.

(* Add / Delete report prior presence; re-insertion appends at the end (e_add), deletion keeps the order (e_del) *)
Theorem C11_refines_add : forall s e, Inv s ->
  Inv (fst (s_add s e)) /\ s_toslice (fst (s_add s e)) = e_add (s_toslice s) e /\ snd (s_add s e) = negb (inb e (s_toslice s)).
Proof. exact add_spec. Qed.
Theorem C11_refines_sdelete : forall s e, Inv s ->
  Inv (fst (s_delete s e)) /\ s_toslice (fst (s_delete s e)) = e_del (s_toslice s) e /\ snd (s_delete s e) = inb e (s_toslice s).
Proof. exact del_spec. Qed.
Theorem C11_refines_clone : forall s, Inv s -> s_toslice (s_clone s) = s_toslice s.
Proof. exact clone_spec. Qed.

(* ---- diffs: exactly the elements whose membership changed ---- *)

Theorem C11_diffs_addall : forall s other, Inv s ->
  let '(s', added) := s_addall s other in
  Inv s' /\ Inv added /\ s_toslice s' = fold_left e_add other (s_toslice s) /\
  (forall x, In x (s_toslice s') <-> In x (s_toslice s) \/ In x other) /\
  (forall x, In x (s_toslice added) <-> ~ In x (s_toslice s) /\ In x (s_toslice s')).
Proof. exact addall_diff. Qed.

Theorem C11_diffs_deleteall : forall s other, Inv s ->
  let '(s', removed) := s_deleteall s other in
  Inv s' /\ Inv removed /\ s_toslice s' = fold_left e_del other (s_toslice s) /\
  (forall x, In x (s_toslice s') <-> In x (s_toslice s) /\ ~ In x other) /\
  (forall x, In x (s_toslice removed) <-> In x (s_toslice s) /\ ~ In x (s_toslice s')).
Proof. exact deleteall_diff. Qed.

(* Apply (and Compute, whose factory sees the current elements), mutation sets disjoint *)
Theorem C11_diffs_apply : forall s adds dels, Inv s -> (forall x, In x adds -> ~ In x dels) ->
  let '(s', a, r) := s_apply s adds dels in
  (forall x, In x (s_toslice a) <-> ~ In x (s_toslice s) /\ In x (s_toslice s')) /\
  (forall x, In x (s_toslice r) <-> In x (s_toslice s) /\ ~ In x (s_toslice s')).
Proof. exact apply_diff. Qed.

Theorem C11_diffs_compute : forall s f, Inv s -> (forall x, In x (fst (f (s_toslice s))) -> ~ In x (snd (f (s_toslice s)))) ->
  let '(s', a, r) := s_compute s f in
  (forall x, In x (s_toslice a) <-> ~ In x (s_toslice s) /\ In x (s_toslice s')) /\
  (forall x, In x (s_toslice r) <-> In x (s_toslice s) /\ ~ In x (s_toslice s')).
Proof. exact compute_diff. Qed.

(* arbitrary mutations: exact contents of the results, and the returned mutations replay the state change *)
Theorem C11_diffs_apply_general : forall s adds dels, Inv s ->
  let '(s', a, r) := s_apply s adds dels in
  Inv s' /\ Inv a /\ Inv r /\
  s_toslice s' = fold_left e_del dels (fold_left e_add adds (s_toslice s)) /\
  (forall x, In x (s_toslice a) <-> In x adds /\ ~ In x (s_toslice s)) /\
  (forall x, In x (s_toslice r) <-> In x dels /\ (In x (s_toslice s) \/ In x adds)) /\
  (forall x, In x (s_toslice s') <-> (In x (s_toslice s) \/ In x (s_toslice a)) /\ ~ In x (s_toslice r)).
Proof. exact apply_spec. Qed.

(* the unguarded statement is refuted: an element in both mutation sets is reported twice, membership unchanged
   (known finding apply-overlap-reports-unchanged-element) *)
Theorem C11_refuted_apply_overlap :
  let '(s', a, r) := s_apply om_empty [1] [1] in s_toslice s' = [] /\ s_toslice a = [1] /\ s_toslice r = [1].
Proof. exact apply_overlap_witness. Qed.

(* Replace (after fix d322c7c): the new contents are the argument, the result is exactly what was removed *)
Theorem C11_diffs_replace : forall s elems, Inv s ->
  let '(s', removed) := s_replace s elems in
  Inv s' /\ Inv removed /\ s_toslice s' = fold_left e_add elems [] /\
  (forall x, In x (s_toslice s') <-> In x elems) /\
  (forall x, In x (s_toslice removed) <-> In x (s_toslice s) /\ ~ In x (s_toslice s')).
Proof. exact replace_diff. Qed.

Example C11_regression_D11a : s_toslice (snd (s_replace (s_new [1; 2]) [2; 3])) = [1].
Proof. vm_compute. reflexivity. Qed.

(* ---- algebra ---- *)

Theorem C11_algebra_hasall : forall s other, Inv s -> (s_hasall s other = true <-> forall x, In x other -> In x (s_toslice s)).
Proof. exact hasall_incl. Qed.
Theorem C11_algebra_equals : forall s other, Inv s -> NoDup other ->
  (s_equals s other = true <-> forall x, In x (s_toslice s) <-> In x other).
Proof. exact equals_same_elements. Qed.
Theorem C11_algebra_filter : forall s p, Inv s -> Inv (s_filter s p) /\ s_toslice (s_filter s p) = filter p (s_toslice s).
Proof. exact filter_spec. Qed.
Theorem C11_algebra_intersect : forall s other, Inv s ->
  s_toslice (s_intersect s other) = filter (fun e => inb e other) (s_toslice s) /\
  (forall x, In x (s_toslice (s_intersect s other)) <-> In x (s_toslice s) /\ In x other).
Proof. exact intersect_spec. Qed.
Theorem C11_algebra_is : forall s e, Inv s -> (s_is s e = true <-> s_toslice s = [e]).
Proof. exact is_singleton. Qed.
Theorem C11_algebra_any : forall s, s_any s = hd_error (s_toslice s).
Proof. exact any_first. Qed.
Theorem C11_algebra_toslice : forall s e, Inv s -> NoDup (s_toslice s) /\ om_has s e = inb e (s_toslice s) /\ om_size s = length (s_toslice s).
Proof. intros s e I. split. exact (toslice_nodup s I). split. exact (has_toslice s e I). exact (size_toslice s I). Qed.

(* ---- SetArithmetic: reported crossings = the elements whose (count >= threshold) status changed ---- *)

Theorem C11_arith_add : forall c adds dels thr, NoDup adds -> NoDup dels ->
  let '(c', a, d) := ar_add c adds dels thr in
  Inv a /\ Inv d /\
  (forall e, cget c' e = (cget c e + (if inb e adds then 1 else 0) - (if inb e dels then 1 else 0))%Z) /\
  (forall e, In e (s_toslice a) <-> (above thr c e = false /\ above thr c' e = true)) /\
  (forall e, In e (s_toslice d) <-> (above thr c e = true /\ above thr c' e = false)).
Proof. exact ar_add_spec. Qed.

Theorem C11_arith_sub : forall c adds dels thr, NoDup adds -> NoDup dels ->
  let '(c', a, d) := ar_sub c adds dels thr in
  Inv a /\ Inv d /\
  (forall e, cget c' e = (cget c e - (if inb e adds then 1 else 0) + (if inb e dels then 1 else 0))%Z) /\
  (forall e, In e (s_toslice a) <-> (above thr c e = false /\ above thr c' e = true)) /\
  (forall e, In e (s_toslice d) <-> (above thr c e = true /\ above thr c' e = false)).
Proof. exact ar_sub_spec. Qed.

(* ---- codec: Decode (Encode s) restores contents and order and consumes everything ---- *)

Theorem C11_codec_roundtrip : forall s, Inv s ->
  (forall e, In e (s_toslice s) -> e < 4294967296) -> (N.of_nat (om_size s) < 4294967296) ->
  let '(s', r) := s_decode om_empty (s_encode s) in
  r = Some (length (s_encode s)) /\ Inv s' /\ s_toslice s' = s_toslice s.
Proof. exact codec_roundtrip. Qed.

Theorem C11_codec_decode_into : forall s t, Inv s -> Inv t ->
  (forall e, In e (s_toslice s) -> e < 4294967296) -> (N.of_nat (om_size s) < 4294967296) ->
  let '(s', r) := s_decode t (s_encode s) in
  r = Some (length (s_encode s)) /\ Inv s' /\ s_toslice s' = fold_left e_add (s_toslice s) (s_toslice t).
Proof. exact codec_decode_into. Qed.

(* ---- codec of SerializableOrderedMap[K,V] / Set[K] for ARBITRARY key / value types whose serix encoding may fail
   (round 2). ek ev : N -> option bytes are the entry codecs (None = api.Encode fails: the fault script), dk dv the
   entry decoders; every map o, every codec. ---- *)

(* Encode returns the error of the first failing api.Encode call (iteration order, key before value) when there is one,
   otherwise count ++ (key ++ value)*: never truncated bytes with a nil error *)
Theorem C11_codec_encode_error_faithful : forall (ek ev : N -> option (list N)) (o : omap),
  som_encode ek ev o =
    match first_fault ek ev 0 (om_list o) with
    | Some e => EncErr e
    | None => EncOk (enc_u32 (N.of_nat (om_size o)) ++ flat_map (entry_code ek ev) (om_list o))
    end.
Proof. exact codec_encode_error_faithful. Qed.

Theorem C11_codec_encode_error_iff : forall ek ev o,
  (exists e, som_encode ek ev o = EncErr e) <->
  (exists kv, In kv (om_list o) /\ (ek (fst kv) = None \/ ev (snd kv) = None)).
Proof. exact codec_encode_error_iff. Qed.

(* the reported error names a call that fails, and no earlier call fails *)
Theorem C11_codec_encode_error_first : forall ek ev l i e, first_fault ek ev i l = Some e ->
  exists j kv, nth_error l j = Some kv /\
    ((e = CEKey (i + j) /\ ek (fst kv) = None) \/ (e = CEVal (i + j) /\ ek (fst kv) <> None /\ ev (snd kv) = None)) /\
    first_fault ek ev i (firstn j l) = None.
Proof. exact first_fault_some. Qed.

(* when Encode succeeds, Decode of its output (plus any trailing bytes) into an empty map restores contents and order and
   reads exactly the encoding; decoders that invert the encoders *)
Theorem C11_codec_roundtrip_generic : forall ek ev dk dv, inverts ek dk -> inverts ev dv ->
  forall o b r, Inv o -> N.of_nat (om_size o) < 4294967296 -> som_encode ek ev o = EncOk b ->
  let '(s', n) := som_decode dk dv om_empty (b ++ r) in
  n = Some (length b) /\ Inv s' /\ om_list s' = om_list o.
Proof. exact codec_roundtrip_generic. Qed.

(* Decode of ANY input reports success exactly when the count and all announced entries can be decoded in sequence, then
   with exactly these entries Set in order and bytesRead = the bytes consumed; otherwise an error *)
Theorem C11_codec_decode_success_iff_parse : forall dk dv s b,
  match dec_u32 b with
  | None => snd (som_decode dk dv s b) = None
  | Some (cnt, rest) =>
      match parse dk dv (N.to_nat cnt) rest with
      | Some (kvs, r) =>
          som_decode dk dv s b = (set_all s kvs, Some (length b - length r)%nat) /\ length kvs = N.to_nat cnt
      | None => snd (som_decode dk dv s b) = None
      end
  end.
Proof. exact codec_decode_success_iff_parse. Qed.

(* every proper prefix of a successful encoding makes Decode report an error, whatever the receiver holds *)
Theorem C11_codec_decode_truncated_fails : forall ek ev dk dv,
  inverts ek dk -> inverts ev dv -> rejects_truncated ek dk -> rejects_truncated ev dv ->
  forall o b, Inv o -> N.of_nat (om_size o) < 4294967296 -> som_encode ek ev o = EncOk b ->
  forall p q s, b = p ++ q -> q <> [] -> snd (som_decode dk dv s p) = None.
Proof. exact codec_decode_truncated_fails. Qed.

(* non-vacuity: the one-byte codec (numbers >= 256 cannot be encoded) satisfies the hypotheses; a failing value in the
   middle, a round trip, a truncated input *)
Example C11_nonvacuous_codec_fault :
  inverts e_byte d_byte /\ rejects_truncated e_byte d_byte /\ Inv (om_of_entries [(1, 2); (3, 4)]) /\
  (som_encode e_byte e_byte (om_of_entries [(1, 2); (3, 4)]),
   som_encode e_byte e_byte (om_of_entries [(1, 2); (3, 256); (5, 6)]),
   som_encode e_byte e_byte (om_of_entries [(1, 2); (300, 256); (5, 6)]),
   let '(s, r) := som_decode d_byte d_byte om_empty [2; 0; 0; 0; 1; 2; 3; 4] in (om_list s, r),
   let '(s, r) := som_decode d_byte d_byte om_empty [2; 0; 0; 0; 1; 2; 3] in (om_list s, r)) =
  (EncOk [2; 0; 0; 0; 1; 2; 3; 4], EncErr (CEVal 1), EncErr (CEKey 1), ([(1, 2); (3, 4)], Some 8%nat), ([(1, 2)], None)).
Proof.
  split; [exact e_byte_inverts|]. split; [exact e_byte_rejects_truncated|]. split.
  - unfold om_of_entries. cbn [fold_left fst snd].
    apply (proj1 (set_spec _ 3 4 (proj1 (set_spec _ 1 2 (proj1 empty_spec))))).
  - vm_compute. reflexivity.
Qed.

(* ---- concurrency ---- *)

(* the general lock-hierarchy theorem (Go RWMutex with writer preference): programs that acquire locks in strictly
   increasing rank and never re-acquire a held lock cannot reach a stuck state, for any number of threads and any schedule *)
Theorem C11_lock_hierarchy : forall progs : list (list act),
  Forall (fun p => okto [] p []) progs -> forall sched, stuck (run (map init progs) sched) = false.
Proof. exact hierarchy_no_deadlock. Qed.

(* every goroutine performs any sequence of calls of the 21 method skeletons (after fix c86f6c5) *)
Theorem C11_no_deadlock : forall progs : list (list act),
  Forall (paths goroutine) progs -> forall sched, stuck (run (map init progs) sched) = false.
Proof. exact set_no_deadlock. Qed.

(* the pinned DeleteAll (re-entrant RLock through Delete) fails the check and deadlocks with a concurrent Apply *)
Theorem C11_refuted_deleteall_pinned :
  chk [] sDeleteAll_pinned = None /\
  exists progs sched, Forall (paths goroutine_pinned) progs /\ stuck (run (map init progs) sched) = true.
Proof. split. exact pinned_deleteall_rejected. exact pinned_deleteall_deadlocks. Qed.

(* atomicity of Apply / Compute / Replace: in every reachable state at most one goroutine is inside a section
   write-locked on applyMutex, and then no goroutine is inside a read-locked one (Add/AddAll/Delete/DeleteAll) *)
Theorem C11_atomic_sections : forall (progs : list (list act)) sched,
  let s := run (map init progs) sched in
  (count (writes A) s <= 1)%nat /\ ((1 <= count (writes A) s)%nat -> count (reads A) s = 0%nat).
Proof. exact set_atomic_sections. Qed.

(* ---- non-vacuity ---- *)

Example C11_nonvacuous_inv :
  let s := run_ops (s_new [3; 1; 2]) [ODelete 1; OAdd 1; OApply [5] [3]; OReplace [2; 7]] in
  s_toslice s = [2; 7] /\ om_size s = 2%nat.
Proof. vm_compute. auto. Qed.

Example C11_nonvacuous_paths : Forall (paths goroutine_pinned) [d11b_t0; d11b_t1].
Proof. repeat constructor. exact d11b_t0_path. exact d11b_t1_path. Qed.

Example C11_nonvacuous_run : finished (run (map init [[RLock A; RLock M; RLock D; RUnlock D; RUnlock M; RUnlock A]; d11b_t1])
                                   [0; 1; 0; 1; 0; 0; 0; 0; 1; 1; 1]%nat) = true.
Proof. exact fixed_deleteall_runs. Qed.

Example C11_nonvacuous_arith :
  let '(c', a, d) := ar_add [(3, 1%Z)] [1; 2] [2; 3] 1 in s_toslice a = [1] /\ s_toslice d = [3].
Proof. vm_compute. auto. Qed.

Example C11_nonvacuous_codec :
  s_toslice (fst (s_decode om_empty (s_encode (s_new [4294967295; 256; 0])))) = [4294967295; 256; 0].
Proof. vm_compute. reflexivity. Qed.

(* ---- iteration whose consumer mutates the map / set (re-entrant ForEach, ForEachReverse, Set.ForEach/Range/Filter; also a
   writer on another goroutine that lands between two iteration steps) ----
   Model.foreach_re is the pointer walk of the code: the consumer runs, then current.next (prev) is read; removed
   elements keep their pointers. sc is any script: the i-th consumer call performs the i-th list of Set/Delete/Clear
   and returns the i-th flag. untouched sc k: no call of the script deletes k or clears; livekey o sc k: k is in the map
   when the iteration starts and untouched, i.e. k is live during the whole iteration.
   In every reachable state, for every script: the visits of live-throughout keys are exactly these keys in
   first-insertion order (reverse for ForEachReverse); when the consumer stops the iteration, a prefix of them. *)
Theorem C11_iter_reentrant_forward : forall init h sc, let o := run_ops (s_new init) h in
  exists rest,
    filter (untouched sc) (map fst (om_list o)) =
      filter (livekey o sc) (map fst (snd (fst (om_foreach_re o sc)))) ++ rest
    /\ (snd (om_foreach_re o sc) = true -> rest = []).
Proof. intros init h sc. apply foreach_re_live. apply reachable_sinv. Qed.

Theorem C11_iter_reentrant_reverse : forall init h sc, let o := run_ops (s_new init) h in
  exists rest,
    filter (untouched sc) (rev (map fst (om_list o))) =
      filter (livekey o sc) (map fst (snd (fst (om_foreachrev_re o sc)))) ++ rest
    /\ (snd (om_foreachrev_re o sc) = true -> rest = []).
Proof. intros init h sc. apply foreachrev_re_live. apply reachable_sinv. Qed.

(* ... and each of them is visited exactly once (iteration not stopped by the consumer) *)
Theorem C11_iter_reentrant_once : forall init h sc k, let o := run_ops (s_new init) h in
  livekey o sc k = true ->
  (snd (om_foreach_re o sc) = true -> count_occ N.eq_dec (map fst (snd (fst (om_foreach_re o sc)))) k = 1%nat) /\
  (snd (om_foreachrev_re o sc) = true -> count_occ N.eq_dec (map fst (snd (fst (om_foreachrev_re o sc)))) k = 1%nat).
Proof.
  intros init h sc k o L. split; intros B.
  - apply foreach_re_once; auto. apply reachable_sinv.
  - apply foreachrev_re_once; auto. apply reachable_sinv.
Qed.

(* the invariant behind it: in every reachable state addresses grow along next (fall along prev) for every element
   of the store, live or removed, so the walk from a removed element is well defined and ends *)
Theorem C11_reachable_sinv : forall init h, SInv (run_ops (s_new init) h).
Proof. exact reachable_sinv. Qed.

(* "a key removed before the iteration reaches it is not visited" does NOT hold for all consumers (known finding
   foreach-visits-removed-element-after-current-removed): the consumer at key 2 deletes 2 and then 3; 3 is still shown.
   The unguarded statement stays visible here; its guarded form is C11_iter_removed_not_visited below. *)
Definition C11_iter_removed_not_visited_full_statement : Prop :=
  forall init h sc k, let o := run_ops (s_new init) h in
  forall i ops b, nth_error sc i = Some (ops, b) -> In (MDel k) ops ->
  ~ In k (skipn (S i) (map fst (snd (fst (om_foreach_re o sc))))).

Theorem C11_refuted_iter_removed_visited : ~ C11_iter_removed_not_visited_full_statement.
Proof.
  intros H. specialize (H [1; 2; 3; 4; 5] [] [([], true); ([MDel 2; MDel 3], true)] 3 1%nat [MDel 2; MDel 3] true eq_refl).
  apply H; vm_compute; auto.
Qed.

(* The guarded positive form, for every reachable state and every finite consumer script, ForEach and ForEachReverse.
   Guard (Iter2.cur_kept sc keys, keys = the keys shown): the i-th consumer call - the one that is shown the i-th key - neither
   deletes that key nor clears, i.e. no call removes the element the iteration is positioned on. state_at o sc i is the map at
   the moment the i-th entry is shown (the first i consumer calls have run). Then
   (1) every entry shown is an entry of the map at that moment (key present, with the value shown);
   (2) hence a key deleted by the i-th call and never inserted by the script is not shown after the i-th entry
       (the statement refuted above, now under the guard). *)
Theorem C11_iter_removed_not_visited : forall init h sc, let o := run_ops (s_new init) h in
  (cur_kept sc (map fst (snd (fst (om_foreach_re o sc)))) = true ->
     (forall i k v, nth_error (snd (fst (om_foreach_re o sc))) i = Some (k, v) -> om_get (state_at o sc i) k = Some v) /\
     (forall k i ops b, (forall e, In e sc -> existsb (sets k) (fst e) = false) ->
        nth_error sc i = Some (ops, b) -> In (MDel k) ops -> ~ In k (skipn (S i) (map fst (snd (fst (om_foreach_re o sc))))))) /\
  (cur_kept sc (map fst (snd (fst (om_foreachrev_re o sc)))) = true ->
     (forall i k v, nth_error (snd (fst (om_foreachrev_re o sc))) i = Some (k, v) -> om_get (state_at o sc i) k = Some v) /\
     (forall k i ops b, (forall e, In e sc -> existsb (sets k) (fst e) = false) ->
        nth_error sc i = Some (ops, b) -> In (MDel k) ops -> ~ In k (skipn (S i) (map fst (snd (fst (om_foreachrev_re o sc))))))).
Proof.
  intros init h sc. exact (iter_removed_not_visited (run_ops (s_new init) h) sc (reachable_sinv init h)).
Qed.

(* Insertions during the iteration, same guard. ForEach that is not stopped by the consumer shows every key that is in the map
   when the walk reaches the tail (in particular every key inserted during the iteration and still there: new elements are linked
   behind the position). ForEachReverse never shows an element inserted during the iteration: the key of every entry shown is in
   the map when the iteration starts and at every consumer call up to the moment it is shown (j = 0: at the start). *)
Theorem C11_iter_inserted_visited : forall init h sc, let o := run_ops (s_new init) h in
  (cur_kept sc (map fst (snd (fst (om_foreach_re o sc)))) = true -> snd (om_foreach_re o sc) = true ->
     forall k, om_has (fst (fst (om_foreach_re o sc))) k = true -> In k (map fst (snd (fst (om_foreach_re o sc))))) /\
  (cur_kept sc (map fst (snd (fst (om_foreachrev_re o sc)))) = true ->
     forall i k v, nth_error (snd (fst (om_foreachrev_re o sc))) i = Some (k, v) ->
     forall j, (j <= i)%nat -> om_has (state_at o sc j) k = true).
Proof.
  intros init h sc. exact (iter_inserted_visited (run_ops (s_new init) h) sc (reachable_sinv init h)).
Qed.

(* non-vacuity: the consumer at key 2 deletes the next element (3), the previous one (1) and inserts 9, never the current one:
   the guard holds, 3 is not shown, 9 is shown; reverse: the consumer at key 4 deletes 3 (next in reverse), 5 (previous), inserts 9:
   neither 3 nor 9 is shown. The witness of the refutation above and a consumer that deletes the current tail violate the guard,
   and without the guard the inserted key is lost (consumer at the tail 2: Delete 2, Set 9: the walk ends, 9 is in the map). *)
Example C11_nonvacuous_iter_guard :
  let o := s_new [1; 2; 3; 4; 5] in
  let sc := [([], true); ([MDel 3; MDel 1; MSet 9 0], true)] in
  let scr := [([], true); ([MDel 3; MDel 5; MSet 9 0], true)] in
  (cur_kept sc (map fst (snd (fst (om_foreach_re o sc)))) = true /\ snd (om_foreach_re o sc) = true /\
   map fst (snd (fst (om_foreach_re o sc))) = [1; 2; 4; 5; 9] /\
   map fst (om_list (fst (fst (om_foreach_re o sc)))) = [2; 4; 5; 9] /\
   forallb (fun e => negb (existsb (sets 3) (fst e))) sc = true) /\
  (cur_kept scr (map fst (snd (fst (om_foreachrev_re o scr)))) = true /\
   map fst (snd (fst (om_foreachrev_re o scr))) = [5; 4; 2; 1] /\
   map fst (om_list (fst (fst (om_foreachrev_re o scr)))) = [1; 2; 4; 9]) /\
  (let bad := [([], true); ([MDel 2; MDel 3], true)] in cur_kept bad (map fst (snd (fst (om_foreach_re o bad)))) = false) /\
  (let o2 := s_new [1; 2] in let bad := [([], true); ([MDel 2; MSet 9 0], true)] in
   cur_kept bad (map fst (snd (fst (om_foreach_re o2 bad)))) = false /\
   map fst (snd (fst (om_foreach_re o2 bad))) = [1; 2] /\ om_has (fst (fst (om_foreach_re o2 bad))) 9 = true).
Proof. vm_compute. repeat split; reflexivity. Qed.

(* regression for the class "the consumer deletes the element the iteration stands on" (forward and reverse):
   nothing that stays in the map is lost *)
Example C11_regression_delete_current :
  let o := s_new [1; 2; 3; 4; 5] in
  map fst (snd (fst (om_foreach_re o [([], true); ([MDel 2], true)]))) = [1; 2; 3; 4; 5] /\
  map fst (om_list (fst (fst (om_foreach_re o [([], true); ([MDel 2], true)])))) = [1; 3; 4; 5] /\
  map fst (snd (fst (om_foreachrev_re o [([], true); ([MDel 4], true)]))) = [5; 4; 3; 2; 1] /\
  map fst (snd (fst (om_foreach_re o [([MDel 1], true); ([MDel 2; MSet 9 0], true); ([MDel 3; MDel 5], true)]))) = [1; 2; 3; 4; 9].
Proof. vm_compute. auto. Qed.

Example C11_nonvacuous_iter :
  let o := s_new [1; 2; 3; 4; 5] in let sc := [([MDel 1], true); ([MDel 2; MSet 9 0], true); ([MDel 3; MDel 5], true)] in
  filter (livekey o sc) [1; 2; 3; 4; 5; 9] = [4] /\ SInv o.
Proof. split. vm_compute; auto. apply (reachable_sinv [1; 2; 3; 4; 5] []). Qed.

Print Assumptions C11_reachable_inv.
Print Assumptions C11_refines_set.
Print Assumptions C11_refines_delete.
Print Assumptions C11_refines_reverse.
Print Assumptions C11_diffs_addall.
Print Assumptions C11_diffs_deleteall.
Print Assumptions C11_diffs_apply.
Print Assumptions C11_diffs_apply_general.
Print Assumptions C11_diffs_compute.
Print Assumptions C11_diffs_replace.
Print Assumptions C11_refuted_apply_overlap.
Print Assumptions C11_algebra_equals.
Print Assumptions C11_algebra_filter.
Print Assumptions C11_algebra_intersect.
Print Assumptions C11_refines_clone.
Print Assumptions C11_arith_add.
Print Assumptions C11_arith_sub.
Print Assumptions C11_codec_roundtrip.
Print Assumptions C11_codec_decode_into.
Print Assumptions C11_codec_encode_error_faithful.
Print Assumptions C11_codec_encode_error_iff.
Print Assumptions C11_codec_encode_error_first.
Print Assumptions C11_codec_roundtrip_generic.
Print Assumptions C11_codec_decode_success_iff_parse.
Print Assumptions C11_codec_decode_truncated_fails.
Print Assumptions C11_lock_hierarchy.
Print Assumptions C11_no_deadlock.
Print Assumptions C11_refuted_deleteall_pinned.
Print Assumptions C11_atomic_sections.
Print Assumptions C11_iter_reentrant_forward.
Print Assumptions C11_iter_reentrant_reverse.
Print Assumptions C11_iter_reentrant_once.
Print Assumptions C11_reachable_sinv.
Print Assumptions C11_refuted_iter_removed_visited.
Print Assumptions C11_iter_removed_not_visited.
Print Assumptions C11_iter_inserted_visited.
Print Assumptions C11_algebra_any.
Print Assumptions C11_algebra_hasall.
Print Assumptions C11_algebra_is.
Print Assumptions C11_algebra_toslice.
Print Assumptions C11_refines_add.
Print Assumptions C11_refines_clear.
Print Assumptions C11_refines_get.
Print Assumptions C11_refines_head_tail.
Print Assumptions C11_refines_keys_unique.
Print Assumptions C11_refines_sdelete.
Print Assumptions C11_refines_size.
