(* C11 - OrderedMap and Set: statements only (being filled in). *)
From Coq Require Import NArith List.
From Verif.C11_Set Require Import Model.
Import ListNotations.
