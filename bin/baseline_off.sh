#!/bin/bash
# Runs the repository's test suite with the verif build tag OFF (the pinned baseline).
export GOPROXY=off GOSUMDB=off GOTOOLCHAIN=local GOFLAGS=-mod=mod
rc=0
for m in ads app apputils codegen constraints core crypto db ds ierrors kvstore lo log logger runtime serializer sql stringify web; do
  [ -f /repo/$m/go.mod ] || continue
  (cd /repo/$m && go test -vet=off -count=1 -timeout 25m ./...) || rc=1
done
exit $rc
