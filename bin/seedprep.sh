#!/bin/bash
# seedprep.sh <ID>: scratch area for an independent mutation author: property text + own worktree of /repo HEAD (nothing from /verif)
id=$1
mkdir -p /tmp/seed/$id
python3 - "$id" <<'PY'
import json,sys
i=sys.argv[1]
for l in open('/verif/properties.jsonl'):
    p=json.loads(l)
    if p['id']==i:
        json.dump(p, open('/tmp/seed/%s/property.json'%i,'w'), indent=1)
PY
[ -d /tmp/seed/$id/wt ] || git -C /repo worktree add --detach /tmp/seed/$id/wt HEAD >/dev/null 2>&1
cat > /tmp/seed/$id/TASK.md <<'T'
# Task: write changes that break one semantic property of iotaledger/hive.go without failing its tests

`property.json` (this directory) holds one semantic property of the Go library iotaledger/hive.go: statement, quantifier,
why the unit tests cannot settle it, and code anchors. `wt/` is YOUR private git worktree of the repository (a multi-module
repo: each top-level directory with a go.mod is its own module; they depend on each other through pinned cached versions,
so a change in module A is seen by module B's tests only if you test through a module that `replace`s it — write your
demonstration inside the module you change). No network: in every shell call `export GOFLAGS=-mod=mod GOPROXY=off GOSUMDB=off GOTOOLCHAIN=local`.
Work ONLY inside this directory (/tmp/seed/<ID>/). Do not read or touch /verif or /repo (use wt/ instead).

Produce THREE different, independent changes to the library source (not to tests) — `m1`, `m2`, `m3` — each of which
* makes the property FALSE (really false: a concrete input / history / schedule / crash point on which the statement fails),
* still compiles, and the existing test suite of every module it touches still passes (`cd wt/<module> && go test -count=1 ./...`;
  run it and keep the output tail),
* is *realistic*: the kind of edit a developer could make in a refactoring, optimisation or bug fix (an off-by-one, a dropped
  unlock or notification, a swapped order of two steps, a missing copy, a condition weakened, a skipped branch, an early return),
  small (a few lines), not a comment-flagged sabotage,
* needs something specific to manifest — a particular interleaving, a crash or fault at a particular point, a multi-step sequence
  of operations, an unusual input or option setting, or two cooperating sites that each look fine alone — NOT something that
  ordinary use would expose at once, and the three should differ in kind (different code sites / different triggers).

For each change k write `/tmp/seed/<ID>/m<k>/`:
* `patch.diff` — `git -C wt diff` of exactly that change against the worktree's HEAD (only library source files; apply-able with `git apply`),
* a demonstration: a Go test file `demo_test.go` (say which package directory it must be copied into, in meta.json) or a small
  program, which FAILS with the change and PASSES without it; for schedule-dependent failures make the demonstration deterministic
  enough (loops, barriers, sleeps inside callbacks) to fail in ≥ 9 of 10 runs with the change and pass 10 of 10 without it,
* `meta.json`: {"property": "<ID>", "files": [...], "what": "<one paragraph: what was changed and why it breaks the property>",
  "needs": "<what it needs in order to manifest>", "demo": {"copy_to": "<dir relative to repo root>", "run": "<exact go test command>"},
  "ran": ["<commands you ran and their outcome: suite passes with change, demo fails with change, demo passes without>"]}.
After finishing each change, `git -C wt checkout -- . && git -C wt clean -fd` so the next starts from a clean tree, and leave wt/ clean at the end.
Verify every claim by actually running it. Final message: three lines, one per change (site, trigger, verified yes/no).
T
sed -i "s/<ID>/$id/g" /tmp/seed/$id/TASK.md
echo /tmp/seed/$id
