#!/bin/bash
# seedtest.sh <seeded-dir> [--demo] : applies <seeded-dir>/patch.diff to a scratch worktree of /repo HEAD, (optionally verifies the
# demonstration with and without the change), runs the property's quick check against that tree and prints DETECTED / MISSED.
d=$(realpath "$1"); shift
id=${SEED_PROP:-$(python3 -c "import json;print(json.load(open('$d/meta.json'))['property'])")}
wt=/tmp/seedtest/$(basename $d)-$$
export GOFLAGS=-mod=mod GOPROXY=off GOSUMDB=off GOTOOLCHAIN=local
mkdir -p /tmp/seedtest; git -C /repo worktree add --detach $wt HEAD >/dev/null 2>&1 || { echo "worktree failed"; exit 2; }
trap 'git -C /repo worktree remove --force $wt >/dev/null 2>&1' EXIT
if [ "$1" = "--demo" ]; then
  cp=$(python3 -c "import json;print(json.load(open('$d/meta.json'))['demo']['copy_to'])")
  run=$(python3 -c "import json;print(json.load(open('$d/meta.json'))['demo']['run'])")
  mod=$(cd $wt/$cp && while [ ! -f go.mod ]; do cd ..; done; pwd)
  cp $d/demo_test.go $wt/$cp/zz_demo_test.go
  echo "== demo without change"; (case "$run" in *cd\ *) cd $wt;; *) cd $wt/$cp;; esac; timeout 600 bash -c "$run" 2>&1 | tail -3)
  git -C $wt apply $d/patch.diff || { echo "PATCH DOES NOT APPLY"; exit 2; }
  echo "== demo with change"; (case "$run" in *cd\ *) cd $wt;; *) cd $wt/$cp;; esac; timeout 600 bash -c "$run" 2>&1 | tail -3)
  rm $wt/$cp/zz_demo_test.go
  echo "== suite with change ($mod)"; (cd $mod && timeout 1500 go test -count=1 ./... 2>&1 | grep -v "^ok\|no test files" | tail -5)
else
  git -C $wt apply $d/patch.diff || { echo "PATCH DOES NOT APPLY"; exit 2; }
fi
cd /verif
out=$(VERIF_REPO=$wt timeout 1200 bin/check $id --tier quick 2>&1); rc=$?
mkdir -p /verif/build/seedtest; echo "$out" > /verif/build/seedtest/$(basename $d).log
h=$(python3 -c "import hashlib,os,sys;print(hashlib.md5(os.path.realpath(sys.argv[1]).encode()).hexdigest()[:6])" $wt)
b=/verif/build/$id-alt-$h   # only this run's own scratch build directory (concurrent seedtests of one property must not disturb each other)
[ -d "$b" ] && { mkdir -p /verif/build/seedtest/$(basename $d); cp $b/${id}_*.json /verif/build/seedtest/$(basename $d)/ 2>/dev/null; rm -rf "$b"; }
echo "$out" | grep -E "VIOLATION|KNOWN-FINDING|done:" | tail -5
if [ $rc -ne 0 ] && echo "$out" | grep -q "^VIOLATION property=$id"; then echo "RESULT $(basename $d) $id DETECTED"; else echo "RESULT $(basename $d) $id MISSED rc=$rc"; fi
