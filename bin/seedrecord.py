#!/usr/bin/env python3
"""seedrecord.py <seeded-dir> <DETECTED|MISSED> "<by what: oracle / correspondence / proof obligation>"  — records the lead's own confirmation in meta.json and seeded/RESULTS.md"""
import json, os, sys, subprocess, time
d, res, how = sys.argv[1].rstrip("/"), sys.argv[2], sys.argv[3]
m = json.load(open(d + "/meta.json"))
head = subprocess.run(["git", "-C", "/repo", "log", "-1", "--format=%h"], capture_output=True, text=True).stdout.strip()
m["lead_confirmation"] = {"applies_to_repo_commit": head, "ran": ["bin/seedtest.sh %s --demo: demo passes without the change, fails with it; module suite passes with it" % d,
                          "quick check against the patched scratch worktree: " + res], "result": res, "how": how}
json.dump(m, open(d + "/meta.json", "w"), indent=1)
V = os.path.dirname(os.path.dirname(os.path.abspath(__file__)))
rows = {}
p = os.path.join(V, "seeded", "RESULTS.md")
if os.path.exists(p):
    for l in open(p):
        if l.startswith("| C"):
            rows[l.split("|")[1].strip()] = l
name = os.path.basename(d)
rows[name] = "| %s | %s | %s | %s | %s |\n" % (name, m["property"], m.get("needs", "")[:110].replace("|", "/"), res, how.replace("|", "/"))
open(p, "w").write("# Seeded changes and which check catches them (confirmed by the lead in scratch worktrees)\n\n| seed | property | needs | quick check | how it is caught |\n|---|---|---|---|---|\n" + "".join(rows[k] for k in sorted(rows)))
