#!/bin/bash
# One-time build after a fresh restore (offline): full .vo build of the Coq development,
# warm build of the Go harnesses and the translator. Every check rebuilds what it needs again.
set -u
cd "$(dirname "$0")/.."
export GOFLAGS=-mod=mod GOPROXY=off GOSUMDB=off GOTOOLCHAIN=local
mkdir -p build/bin evidence replays
bash bin/coqmake.sh > build/setup_coq.log 2>&1 || { tail -40 build/setup_coq.log; echo "coq build had failures (each check reports its own)"; }
cat /repo/*/go.sum | LC_ALL=C sort -u > harness/go.sum
for d in harness/cmd/*/; do
  n=$(basename "$d")
  (cd harness && go build -tags verif -o ../build/bin/hx-$n ./cmd/$n) || echo "harness $n failed to build (its check rebuilds it and reports)"
done
(cd translator && for d in */; do n=$(basename "$d"); go build -o ../build/bin/$n ./$n || echo "tool $n failed to build"; done)
echo "setup ok"
