#!/bin/bash
# seedprep2.sh <ID>: second seeding round — refresh the worktree to /repo's main, list the earlier seeds' sites so that new ones differ
id=$1
start=${2:-4}
n1=$start; n2=$((start+1)); n3=$((start+2))
bash /verif/bin/seedprep.sh $id >/dev/null
git -C /tmp/seed/$id/wt checkout -q --detach main && git -C /tmp/seed/$id/wt clean -fdq
python3 - "$id" <<'PY'
import glob, json, sys
i = sys.argv[1]
rows = []
for m in sorted(glob.glob('/verif/seeded/%s-m*/meta.json' % i)):
    d = json.load(open(m))
    rows.append("- %s: files %s — %s" % (m.split('/')[-2], d.get('files'), (d.get('what') or '')[:400]))
open('/tmp/seed/%s/PREVIOUS.md' % i, 'w').write("# Changes already written for this property (yours must differ in site AND trigger kind)\n\n" + "\n".join(rows) + "\n")
PY
rm -rf /tmp/seed/$id/m[0-9]*
cp /tmp/seed/$id/TASK.md /tmp/seed/$id/TASK.md.bak 2>/dev/null; bash /verif/bin/seedprep.sh $id >/dev/null
python3 - "$id" "$n1" "$n2" "$n3" <<'PY'
import re,sys
i,a,b,c=sys.argv[1:5]
p='/tmp/seed/%s/TASK.md'%i
s=open(p).read()
s=s.split("\n## Second round")[0]
s=re.sub(r"`m\d+`, `m\d+`, `m\d+`", "`m%s`, `m%s`, `m%s`"%(a,b,c), s)
open(p,'w').write(s)
PY
cat >> /tmp/seed/$id/TASK.md <<T

## Second round
Earlier authors already wrote the changes listed in PREVIOUS.md. Name yours m$n1, m$n2, m$n3. Each must differ from all of those in code
site AND in the kind of trigger. Prefer what is still uncovered: other functions/files among the property's anchors, other clauses of
the statement, other option settings, error/fault paths, re-entrancy (callbacks calling back into the object), lifecycle edges
(restart, reuse after close/clear/shutdown), boundary sizes (0, 1, capacity, capacity+1), and pairs of cooperating edits.
Files named verif_*.go and calls to verifYield in the source are test instrumentation behind a build tag: leave them alone.
T
echo /tmp/seed/$id ready
