#!/bin/bash
# Serialised (flock) build of the Coq development: bin/coqmake.sh [make targets relative to coq/, e.g. C07_Seq/Proofs.vo]
# With no target builds everything (keeps going past failures of unrelated files).
cd "$(dirname "$0")/.." || exit 2
mkdir -p build
exec 9> build/.coq.lock
flock 9
bash bin/mkcoqproject.sh || exit 2
if [ $# -eq 0 ]; then
  timeout 7200 make -C coq -j16 -k
else
  timeout 7200 make -C coq -j16 "$@"
fi
