#!/bin/bash
# Build of the Coq development (full .vo, never -vos).
#   bin/coqmake.sh                      -> everything (setup; keeps going past failures of unrelated files), global lock
#   bin/coqmake.sh D1/F1.vo D2/F2.vo …  -> these targets and what they need, through a PRIVATE makefile + dependency file for the
#                                          model directories involved, under a per-directory lock (properties do not block each other)
cd "$(dirname "$0")/.." || exit 2
mkdir -p build
WARN="-arg -w -arg -notation-overridden,-deprecated-hint-without-locality,-deprecated-instance-without-locality,-ambiguous-paths,-redundant-canonical-projection"
if [ $# -eq 0 ]; then
  exec 9> build/.coq.lock; flock 9
  bash bin/mkcoqproject.sh || exit 2
  timeout 7200 make -C coq -j16 -k
  exit $?
fi
key=$(dirname "$1" | tr '/' '_')
exec 9> build/.coq.$key.lock; flock 9
cd coq || exit 2
files=""
for t in "$@"; do
  d=$(dirname "$t")
  if [ "$d" = "Properties" ]; then files="$files ${t%o}"; else files="$files $(ls $d/*.v 2>/dev/null)"; fi
done
files=$(echo $files | tr ' ' '\n' | LC_ALL=C sort -u | tr '\n' ' ')
# Properties files may import model directories that are not among the targets' directories: add them
for f in $files; do
  for m in $(grep -ho "Verif\.[A-Za-z0-9_]*" $f 2>/dev/null | sort -u | sed 's/Verif\.//'); do
    [ -d "$m" ] && case " $files " in *" $m/"*) ;; *) files="$files $(ls $m/*.v)";; esac
  done
done
files=$(echo $files | tr ' ' '\n' | LC_ALL=C sort -u | tr '\n' ' ')
coq_makefile -Q . Verif $WARN $files -o Makefile.$key > /dev/null || exit 2
timeout 3000 make -f Makefile.$key -j8 "$@"
