#!/bin/bash
# Runs every claimed check's quick command once (seed from VERIF_SEED, default 1), prints one line per check.
cd "$(dirname "$0")/.."
for i in $(python3 -c "import json;print(' '.join(c['property_id'] for c in json.load(open('MANIFEST.json'))['checks']))"); do
  s=$(date +%s); out=$(bin/check $i --tier quick 2>&1); rc=$?; e=$(date +%s)
  echo "$i rc=$rc wall=$((e-s))s $(echo "$out" | grep -cE '^VIOLATION') violation(s) $(echo "$out" | grep -c '^KNOWN-FINDING') known"
done
