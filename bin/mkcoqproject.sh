#!/bin/bash
# Regenerates coq/_CoqProject from the .v files present (so that new model directories need no shared edit).
cd "$(dirname "$0")/../coq" || exit 2
{
  echo "-Q . Verif"
  echo "-arg -w -arg -notation-overridden,-deprecated-hint-without-locality,-deprecated-instance-without-locality,-ambiguous-paths,-redundant-canonical-projection"
  find . -name '*.v' ! -path './Scratch/*' | sed 's|^\./||' | LC_ALL=C sort
} > _CoqProject.new
if ! cmp -s _CoqProject.new _CoqProject 2>/dev/null; then mv _CoqProject.new _CoqProject; coq_makefile -f _CoqProject -o Makefile >/dev/null; else rm _CoqProject.new; fi
[ -f Makefile ] || coq_makefile -f _CoqProject -o Makefile >/dev/null
