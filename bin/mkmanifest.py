#!/usr/bin/env python3
"""Assembles /verif/MANIFEST.json from notes/Cxx.manifest.json (one per claimed property). A property is claimed only if
its entry exists, its check module exists and evidence/Cxx.json exists; every other property goes to not_applicable
with the reason given in notes/Cxx.na (one line) or a default. Validates against the schema."""
import glob, json, os, subprocess, sys
V = os.path.dirname(os.path.dirname(os.path.abspath(__file__)))
ids = [json.loads(l)["id"] for l in open(os.path.join(V, "properties.jsonl"))]
old = json.load(open(os.path.join(V, "MANIFEST.json")))
checks, na = [], []
for i in ids:
    p = os.path.join(V, "notes", i + ".manifest.json")
    ok = os.path.exists(p) and os.path.exists(os.path.join(V, "checks", i.lower() + ".py"))
    if ok and "--force" not in sys.argv and not os.path.exists(os.path.join(V, "evidence", i + ".json")):
        ok = False
    if ok:
        c = json.load(open(p))
        if isinstance(c, list):
            c = c[0]
        c["property_id"] = i
        c.setdefault("quick_cmd", "bin/check %s --tier quick" % i)
        c.setdefault("thorough_cmd", "bin/check %s --tier thorough" % i)
        c["evidence_file"] = "evidence/%s.json" % i
        c.setdefault("replay_cmd_template", "bin/check %s --replay {path}" % i)
        c["engine"] = "coq-proof+tie"
        c.setdefault("technique", "Coq proof over executable model + correspondence check")
        if isinstance(c.get("level_claimed"), dict):
            c["level_claimed"].setdefault("category", "proof")
        checks.append(c)
    else:
        r = os.path.join(V, "notes", i + ".na")
        reason = open(r).read().strip() if os.path.exists(r) else "check under construction (see DESIGN.md §7); will be claimed once its model, theorems and correspondence run"
        na.append({"property_id": i, "reason": reason})
hooks = old["hooks"]
hp = os.path.join(V, "notes", "hooks.json")
if os.path.exists(hp):
    hooks.update(json.load(open(hp)))
m = {"version": 1, "setup_cmd": old["setup_cmd"], "hooks": hooks,
     "engines": [{"name": "coq-proof+tie", "path": "bin/check", "serves_properties": [c["property_id"] for c in checks],
                  "kind_free_text": old["engines"][0]["kind_free_text"]}],
     "checks": checks, "notes": old.get("notes", ""), "not_applicable": na}
json.dump(m, open(os.path.join(V, "MANIFEST.json"), "w"), indent=1)
print("claimed:", [c["property_id"] for c in checks]); print("not_applicable:", [x["property_id"] for x in na])
r = subprocess.run(["python3-vt", "-c", "import json,jsonschema; jsonschema.validate(json.load(open('%s/MANIFEST.json')), json.load(open('/root/.vp/MANIFEST.schema.json'))); print('manifest valid')" % V])
sys.exit(r.returncode)
