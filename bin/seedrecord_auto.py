#!/usr/bin/env python3
"""Records results for all seeds that have a log in build/seedtest/<seed>.log (written by bin/seedtest.sh)."""
import glob, os, re, subprocess, sys
V = os.path.dirname(os.path.dirname(os.path.abspath(__file__)))
names = {"impl": "Go-side property oracle on the implementation (concrete failing input)", "corr": "model/implementation correspondence mismatch",
         "proof": "proof obligation / Coq build", "harness": "harness watchdog (hang/crash of the implementation)", "unlisted": "unlisted finding signature",
         "crash": "check crashed", "audit": "audit", "coqchk": "coqchk"}
for log in sorted(glob.glob(os.path.join(V, "build", "seedtest", "*.log"))):
    seed = os.path.basename(log)[:-4]
    if sys.argv[1:] and seed not in sys.argv[1:]:
        continue
    d = os.path.join(V, "seeded", seed)
    if not os.path.isdir(d):
        continue
    txt = open(log).read()
    tags = {}
    for m in re.finditer(r"^VIOLATION property=\S+ replay=\S*/C\d\d_([a-z]+)\d+_\d+\.json( no-failing-input-found)?", txt, re.M):
        tags[m.group(1)] = tags.get(m.group(1), 0) + 1
    res = "DETECTED" if tags else "MISSED"
    how = "; ".join("%s x%d" % (names.get(k, k), v) for k, v in sorted(tags.items())) or "no VIOLATION line"
    subprocess.run([os.path.join(V, "bin", "seedrecord.py"), d, res, how])
