// safemath2coq translates core/safemath/safe_math.go into shallow Gallina definitions
// over the Go integer semantics of Verif.C19_SafeMath.GoInt.  Supported fragment: straight-line
// code with :=, =, var, if/else (with or without returns), return, the operators
// + - * / << >> & == != < <= > >= && || ! unary-minus, conversions int64()/uint64(),
// bits.Mul64, lo.Return1(bits.Div64(..)) and the ierrors.WithMessagef(ErrX, ..) error returns.
// Anything else aborts the translation (exit 3) instead of guessing.
package main

import (
	"fmt"
	"go/ast"
	"go/parser"
	"go/token"
	"os"
	"sort"
	"strings"
)

var fset = token.NewFileSet()

func fail(n ast.Node, format string, a ...any) {
	pos := ""
	if n != nil {
		pos = fset.Position(n.Pos()).String() + ": "
	}
	fmt.Fprintf(os.Stderr, "safemath2coq: unsupported: "+pos+format+"\n", a...)
	os.Exit(3)
}

type env struct {
	types map[string]string // Go variable -> Go type name ("T", "uint64", "int64", "uint8", "bool")
}

func (e *env) clone() *env {
	c := &env{types: map[string]string{}}
	for k, v := range e.types {
		c.types[k] = v
	}
	return c
}

func ity(goType string, n ast.Node) string {
	switch goType {
	case "T":
		return "t"
	case "uint8", "uint16", "uint32", "uint64":
		return "u" + goType[4:]
	case "int8", "int16", "int32", "int64":
		return "i" + goType[3:]
	}
	fail(n, "no integer type for %q", goType)
	return ""
}

func v(name string) string { return "v_" + name }

// expression result
type ex struct {
	s      string   // Coq term
	ty     string   // Go type; "" = untyped constant; "bool"
	guards []string // Coq bool terms: true = the Go expression panics
}

func unify(a, b ex, n ast.Node) string {
	if a.ty == "" {
		return b.ty
	}
	if b.ty == "" || a.ty == b.ty {
		return a.ty
	}
	fail(n, "operand types differ: %s vs %s", a.ty, b.ty)
	return ""
}

func (e *env) expr(x ast.Expr) ex {
	switch x := x.(type) {
	case *ast.ParenExpr:
		return e.expr(x.X)
	case *ast.Ident:
		switch x.Name {
		case "true", "false":
			return ex{s: x.Name, ty: "bool"}
		}
		ty, ok := e.types[x.Name]
		if !ok {
			fail(x, "unknown identifier %s", x.Name)
		}
		return ex{s: v(x.Name), ty: ty}
	case *ast.BasicLit:
		if x.Kind != token.INT {
			fail(x, "literal %s", x.Value)
		}
		return ex{s: x.Value, ty: ""}
	case *ast.UnaryExpr:
		a := e.expr(x.X)
		switch x.Op {
		case token.SUB:
			if a.ty == "" {
				return ex{s: "(-" + a.s + ")", ty: ""}
			}
			return ex{s: fmt.Sprintf("(neg %s %s)", ity(a.ty, x), a.s), ty: a.ty, guards: a.guards}
		case token.NOT:
			if a.ty != "bool" {
				fail(x, "! on non-bool")
			}
			return ex{s: "(negb " + a.s + ")", ty: "bool", guards: a.guards}
		}
		fail(x, "unary operator %s", x.Op)
	case *ast.BinaryExpr:
		a, b := e.expr(x.X), e.expr(x.Y)
		switch x.Op {
		case token.LAND, token.LOR:
			if a.ty != "bool" || b.ty != "bool" {
				fail(x, "%s on non-bool", x.Op)
			}
			// short circuit: the right operand's panics only count when it is evaluated
			g := append([]string{}, a.guards...)
			for _, gb := range b.guards {
				if x.Op == token.LAND {
					g = append(g, fmt.Sprintf("(%s && %s)", a.s, gb))
				} else {
					g = append(g, fmt.Sprintf("(negb %s && %s)", a.s, gb))
				}
			}
			op := "&&"
			if x.Op == token.LOR {
				op = "||"
			}
			return ex{s: fmt.Sprintf("(%s %s %s)", a.s, op, b.s), ty: "bool", guards: g}
		case token.EQL, token.NEQ, token.LSS, token.LEQ, token.GTR, token.GEQ:
			g := append(append([]string{}, a.guards...), b.guards...)
			if a.ty == "bool" || b.ty == "bool" {
				if a.ty != b.ty {
					fail(x, "comparison of bool with non-bool")
				}
				switch x.Op {
				case token.EQL:
					return ex{s: fmt.Sprintf("(Bool.eqb %s %s)", a.s, b.s), ty: "bool", guards: g}
				case token.NEQ:
					return ex{s: fmt.Sprintf("(negb (Bool.eqb %s %s))", a.s, b.s), ty: "bool", guards: g}
				}
				fail(x, "ordering on bool")
			}
			unify(a, b, x)
			m := map[token.Token]string{token.EQL: "(%s =? %s)", token.NEQ: "(negb (%s =? %s))", token.LSS: "(%s <? %s)",
				token.LEQ: "(%s <=? %s)", token.GTR: "(%s >? %s)", token.GEQ: "(%s >=? %s)"}
			return ex{s: fmt.Sprintf(m[x.Op], a.s, b.s), ty: "bool", guards: g}
		case token.SHL, token.SHR:
			if a.ty == "" || a.ty == "bool" {
				fail(x, "shift of untyped/bool operand")
			}
			if b.ty != "" && !strings.HasPrefix(b.ty, "uint") {
				fail(x, "shift count must be unsigned or constant, is %s", b.ty)
			}
			f := "shl"
			if x.Op == token.SHR {
				f = "shr"
			}
			g := append(append([]string{}, a.guards...), b.guards...)
			return ex{s: fmt.Sprintf("(%s %s %s %s)", f, ity(a.ty, x), a.s, b.s), ty: a.ty, guards: g}
		case token.ADD, token.SUB, token.MUL, token.QUO, token.AND:
			ty := unify(a, b, x)
			if ty == "" || ty == "bool" {
				fail(x, "arithmetic on untyped constants/bools is not supported")
			}
			f := map[token.Token]string{token.ADD: "add", token.SUB: "sub", token.MUL: "mul", token.QUO: "quot", token.AND: "band"}[x.Op]
			g := append(append([]string{}, a.guards...), b.guards...)
			if x.Op == token.QUO {
				g = append(g, fmt.Sprintf("(%s =? 0)", b.s))
			}
			return ex{s: fmt.Sprintf("(%s %s %s %s)", f, ity(ty, x), a.s, b.s), ty: ty, guards: g}
		}
		fail(x, "binary operator %s", x.Op)
	case *ast.CallExpr:
		// conversions
		if id, ok := x.Fun.(*ast.Ident); ok && len(x.Args) == 1 {
			switch id.Name {
			case "int8", "int16", "int32", "int64", "uint8", "uint16", "uint32", "uint64":
				a := e.expr(x.Args[0])
				if a.ty == "bool" {
					fail(x, "conversion of bool")
				}
				return ex{s: fmt.Sprintf("(conv %s %s)", ity(id.Name, x), a.s), ty: id.Name, guards: a.guards}
			}
		}
		// lo.Return1(bits.Div64(hi, lo, d))
		if sel, ok := x.Fun.(*ast.SelectorExpr); ok && selName(sel) == "lo.Return1" && len(x.Args) == 1 {
			if inner, ok := x.Args[0].(*ast.CallExpr); ok {
				if s2, ok := inner.Fun.(*ast.SelectorExpr); ok && selName(s2) == "bits.Div64" && len(inner.Args) == 3 {
					hi, lo, d := e.expr(inner.Args[0]), e.expr(inner.Args[1]), e.expr(inner.Args[2])
					for _, a := range []ex{hi, lo, d} {
						if a.ty != "uint64" {
							fail(x, "bits.Div64 argument is not uint64")
						}
					}
					g := append(append(append([]string{}, hi.guards...), lo.guards...), d.guards...)
					g = append(g, fmt.Sprintf("(%s <=? %s)", d.s, hi.s)) // covers d = 0 as hi >= 0
					return ex{s: fmt.Sprintf("(div64_quo %s %s %s)", hi.s, lo.s, d.s), ty: "uint64", guards: g}
				}
			}
		}
		fail(x, "call")
	}
	fail(x, "expression %T", x)
	return ex{}
}

func selName(s *ast.SelectorExpr) string {
	if id, ok := s.X.(*ast.Ident); ok {
		return id.Name + "." + s.Sel.Name
	}
	return "?"
}

func guard(gs []string, body string) string {
	if len(gs) == 0 {
		return body
	}
	return fmt.Sprintf("if (%s) then Panic else %s", strings.Join(gs, " || "), body)
}

func hasReturn(s ast.Stmt) bool {
	found := false
	ast.Inspect(s, func(n ast.Node) bool {
		if _, ok := n.(*ast.ReturnStmt); ok {
			found = true
		}
		return !found
	})
	return found
}

func assigned(stmts []ast.Stmt, set map[string]bool) {
	for _, s := range stmts {
		switch s := s.(type) {
		case *ast.AssignStmt:
			if s.Tok == token.DEFINE {
				fail(s, ":= inside a branch that is merged back (not supported)")
			}
			for _, l := range s.Lhs {
				id, ok := l.(*ast.Ident)
				if !ok {
					fail(s, "assignment target")
				}
				set[id.Name] = true
			}
		case *ast.IfStmt:
			if s.Init != nil {
				fail(s, "if with init")
			}
			assigned(s.Body.List, set)
			if s.Else != nil {
				assigned(elseList(s.Else), set)
			}
		default:
			fail(s, "statement %T in merged branch", s)
		}
	}
}

func elseList(s ast.Stmt) []ast.Stmt {
	switch s := s.(type) {
	case *ast.BlockStmt:
		return s.List
	case *ast.IfStmt:
		return []ast.Stmt{s}
	}
	fail(s, "else form")
	return nil
}

func tuple(vars []string) string {
	if len(vars) == 1 {
		return v(vars[0])
	}
	vs := make([]string, len(vars))
	for i, x := range vars {
		vs[i] = v(x)
	}
	return "(" + strings.Join(vs, ", ") + ")"
}

func pattern(vars []string) string {
	if len(vars) == 1 {
		return v(vars[0])
	}
	return "'" + tuple(vars)
}

// mut translates return-free statements into a term computing the tuple of vars; a panic guard inside is
// not supported there (none occurs in the fragment) and aborts.
func (e *env) mut(stmts []ast.Stmt, vars []string, ind string) string {
	if len(stmts) == 0 {
		return tuple(vars)
	}
	rest := stmts[1:]
	switch s := stmts[0].(type) {
	case *ast.AssignStmt:
		if len(s.Lhs) != 1 || len(s.Rhs) != 1 {
			fail(s, "multi-assignment in merged branch")
		}
		r := e.expr(s.Rhs[0])
		if len(r.guards) > 0 {
			fail(s, "possibly panicking expression in merged branch")
		}
		name := s.Lhs[0].(*ast.Ident).Name
		if r.ty != "" && e.types[name] != r.ty {
			fail(s, "assignment changes type of %s", name)
		}
		return fmt.Sprintf("let %s := %s in\n%s%s", v(name), r.s, ind, e.mut(rest, vars, ind))
	case *ast.IfStmt:
		c := e.expr(s.Cond)
		if len(c.guards) > 0 {
			fail(s, "possibly panicking condition in merged branch")
		}
		set := map[string]bool{}
		assigned([]ast.Stmt{s}, set)
		inner := sortedKeys(set)
		var els []ast.Stmt
		if s.Else != nil {
			els = elseList(s.Else)
		}
		return fmt.Sprintf("let %s :=\n%s  if %s then\n%s    %s\n%s  else\n%s    %s in\n%s%s", pattern(inner), ind, c.s,
			ind, e.mut(s.Body.List, inner, ind+"    "), ind, ind, e.mut(els, inner, ind+"    "), ind, e.mut(rest, vars, ind))
	}
	fail(stmts[0], "statement %T in merged branch", stmts[0])
	return ""
}

func sortedKeys(m map[string]bool) []string {
	out := []string{}
	for k := range m {
		out = append(out, k)
	}
	sort.Strings(out)
	return out
}

// block translates a statement list that must end in a return on every path.
func (e *env) block(stmts []ast.Stmt, ind string) string {
	if len(stmts) == 0 {
		fail(nil, "control reaches the end of a function without return")
	}
	rest := stmts[1:]
	switch s := stmts[0].(type) {
	case *ast.ReturnStmt:
		if len(s.Results) != 2 {
			fail(s, "return arity")
		}
		if id, ok := s.Results[1].(*ast.Ident); ok && id.Name == "nil" {
			r := e.expr(s.Results[0])
			return guard(r.guards, "Ok "+r.s)
		}
		call, ok := s.Results[1].(*ast.CallExpr)
		if !ok {
			fail(s, "error result")
		}
		sel, ok := call.Fun.(*ast.SelectorExpr)
		if !ok || selName(sel) != "ierrors.WithMessagef" || len(call.Args) < 1 {
			fail(s, "error result is not ierrors.WithMessagef(Err.., ..)")
		}
		id, ok := call.Args[0].(*ast.Ident)
		if !ok {
			fail(s, "error value")
		}
		switch id.Name {
		case "ErrIntegerOverflow":
			return "ErrOverflow"
		case "ErrIntegerDivisionByZero":
			return "ErrDivZero"
		}
		fail(s, "unknown error %s", id.Name)
	case *ast.DeclStmt:
		gd, ok := s.Decl.(*ast.GenDecl)
		if !ok || gd.Tok != token.VAR || len(gd.Specs) != 1 {
			fail(s, "declaration")
		}
		vs := gd.Specs[0].(*ast.ValueSpec)
		if len(vs.Names) != 1 || len(vs.Values) != 1 || vs.Type == nil {
			fail(s, "var form")
		}
		tid, ok := vs.Type.(*ast.Ident)
		if !ok {
			fail(s, "var type")
		}
		r := e.expr(vs.Values[0])
		if r.ty != "" && r.ty != tid.Name {
			fail(s, "var initialiser type")
		}
		e.types[vs.Names[0].Name] = tid.Name
		return guard(r.guards, fmt.Sprintf("let %s := %s in\n%s%s", v(vs.Names[0].Name), r.s, ind, e.block(rest, ind)))
	case *ast.AssignStmt:
		if len(s.Lhs) == 2 && len(s.Rhs) == 1 {
			call, ok := s.Rhs[0].(*ast.CallExpr)
			if ok {
				if sel, ok := call.Fun.(*ast.SelectorExpr); ok && selName(sel) == "bits.Mul64" && len(call.Args) == 2 {
					a, b := e.expr(call.Args[0]), e.expr(call.Args[1])
					if a.ty != "uint64" || b.ty != "uint64" {
						fail(s, "bits.Mul64 argument is not uint64")
					}
					hi, lo := s.Lhs[0].(*ast.Ident).Name, s.Lhs[1].(*ast.Ident).Name
					e.types[hi], e.types[lo] = "uint64", "uint64"
					return guard(append(a.guards, b.guards...), fmt.Sprintf("let %s := mul64_hi %s %s in\n%slet %s := mul64_lo %s %s in\n%s%s",
						v(hi), a.s, b.s, ind, v(lo), a.s, b.s, ind, e.block(rest, ind)))
				}
			}
			fail(s, "two-value assignment")
		}
		if len(s.Lhs) != 1 || len(s.Rhs) != 1 {
			fail(s, "assignment arity")
		}
		name := s.Lhs[0].(*ast.Ident).Name
		r := e.expr(s.Rhs[0])
		if s.Tok == token.DEFINE {
			if r.ty == "" {
				fail(s, ":= of an untyped constant")
			}
			e.types[name] = r.ty
		} else if s.Tok == token.ASSIGN {
			if r.ty != "" && e.types[name] != r.ty {
				fail(s, "assignment changes type of %s", name)
			}
		} else {
			fail(s, "assignment operator %s", s.Tok)
		}
		return guard(r.guards, fmt.Sprintf("let %s := %s in\n%s%s", v(name), r.s, ind, e.block(rest, ind)))
	case *ast.IfStmt:
		if s.Init != nil {
			fail(s, "if with init")
		}
		if hasReturn(s) {
			c := e.expr(s.Cond)
			var els []ast.Stmt
			if s.Else != nil {
				els = elseList(s.Else)
			}
			thenB := e.clone().block(append(append([]ast.Stmt{}, s.Body.List...), rest...), ind+"  ")
			elseB := e.clone().block(append(append([]ast.Stmt{}, els...), rest...), ind+"  ")
			return guard(c.guards, fmt.Sprintf("if %s then\n%s  %s\n%selse\n%s  %s", c.s, ind, thenB, ind, ind, elseB))
		}
		set := map[string]bool{}
		assigned([]ast.Stmt{s}, set)
		vars := sortedKeys(set)
		c := e.expr(s.Cond)
		var els []ast.Stmt
		if s.Else != nil {
			els = elseList(s.Else)
		}
		return guard(c.guards, fmt.Sprintf("let %s :=\n%s  if %s then\n%s    %s\n%s  else\n%s    %s in\n%s%s", pattern(vars), ind, c.s,
			ind, e.mut(s.Body.List, vars, ind+"    "), ind, ind, e.mut(els, vars, ind+"    "), ind, e.block(rest, ind)))
	}
	fail(stmts[0], "statement %T", stmts[0])
	return ""
}

func main() {
	if len(os.Args) != 3 {
		fmt.Fprintln(os.Stderr, "usage: safemath2coq <safe_math.go> <Generated.v>")
		os.Exit(2)
	}
	f, err := parser.ParseFile(fset, os.Args[1], nil, 0)
	if err != nil {
		fmt.Fprintln(os.Stderr, err)
		os.Exit(3)
	}
	var sb strings.Builder
	sb.WriteString("(* GENERATED by /verif/translator/safemath2coq from core/safemath/safe_math.go - do not edit. *)\n")
	sb.WriteString("From Coq Require Import ZArith Bool.\nFrom Verif.C19_SafeMath Require Import GoInt.\nOpen Scope Z_scope.\nOpen Scope bool_scope.\n\n")
	var names []string
	for _, d := range f.Decls {
		fd, ok := d.(*ast.FuncDecl)
		if !ok || fd.Recv != nil || !fd.Name.IsExported() {
			continue
		}
		e := &env{types: map[string]string{}}
		generic := false
		if fd.Type.TypeParams != nil {
			if len(fd.Type.TypeParams.List) != 1 || len(fd.Type.TypeParams.List[0].Names) != 1 || fd.Type.TypeParams.List[0].Names[0].Name != "T" {
				fail(fd, "type parameters other than [T Integer]")
			}
			if id, ok := fd.Type.TypeParams.List[0].Type.(*ast.Ident); !ok || id.Name != "Integer" {
				fail(fd, "type constraint is not Integer")
			}
			generic = true
		}
		var params []string
		for _, p := range fd.Type.Params.List {
			tid, ok := p.Type.(*ast.Ident)
			if !ok {
				fail(p, "parameter type")
			}
			if tid.Name == "T" && !generic {
				fail(p, "T without type parameter")
			}
			ity(tid.Name, p)
			for _, n := range p.Names {
				e.types[n.Name] = tid.Name
				params = append(params, v(n.Name))
			}
		}
		if fd.Type.Results == nil || len(fd.Type.Results.List) != 2 {
			fail(fd, "result arity")
		}
		sb.WriteString("Definition " + fd.Name.Name)
		if generic {
			sb.WriteString(" (t : ity)")
		}
		sb.WriteString(" (" + strings.Join(params, " ") + " : Z) : res :=\n  ")
		sb.WriteString(e.block(fd.Body.List, "  "))
		sb.WriteString(".\n\n")
		names = append(names, fd.Name.Name)
	}
	sb.WriteString("(* translated functions: " + strings.Join(names, " ") + " *)\n")
	if err := os.WriteFile(os.Args[2], []byte(sb.String()), 0o644); err != nil {
		fmt.Fprintln(os.Stderr, err)
		os.Exit(2)
	}
}
