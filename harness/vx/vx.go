// Package vx holds the glue shared by all correspondence harnesses:
// one splitmix64 PRNG (every random choice of a run derives from it),
// printers for Coq terms, and the stats/evidence side channel.
package vx

import (
	"encoding/json"
	"fmt"
	"math/big"
	"os"
	"sort"
	"strconv"
	"strings"
)

// ---------- PRNG ----------

type Rng struct{ s uint64 }

// NewRng: the start state is a full mix of the seed (a state of seed*gamma+c would make the stream of seed+1 the stream of
// seed shifted by one draw, i.e. consecutive VERIF_SEED values would explore nearly the same cases).
func NewRng(seed uint64) *Rng {
	z := seed ^ 0x6A09E667F3BCC909
	z = (z ^ (z >> 30)) * 0xBF58476D1CE4E5B9
	z = (z ^ (z >> 27)) * 0x94D049BB133111EB
	z = (z ^ (z >> 31)) * 0xD6E8FEB86659FD93
	return &Rng{s: z ^ (z >> 32)}
}

func (r *Rng) U64() uint64 {
	r.s += 0x9E3779B97F4A7C15
	z := r.s
	z = (z ^ (z >> 30)) * 0xBF58476D1CE4E5B9
	z = (z ^ (z >> 27)) * 0x94D049BB133111EB
	return z ^ (z >> 31)
}

// Intn returns a value in [0,n).
func (r *Rng) Intn(n int) int {
	if n <= 0 {
		return 0
	}
	return int(r.U64() % uint64(n))
}

func (r *Rng) Bool() bool { return r.U64()&1 == 1 }

// Chance returns true with probability num/den.
func (r *Rng) Chance(num, den int) bool { return r.Intn(den) < num }

// Fork derives an independent generator (so that sub-generators do not shift each other).
func (r *Rng) Fork() *Rng { return &Rng{s: r.U64()} }

func Pick[T any](r *Rng, xs []T) T { return xs[r.Intn(len(xs))] }

// ---------- Coq term printers ----------

func Z(v int64) string {
	if v < 0 {
		return "(" + strconv.FormatInt(v, 10) + ")%Z"
	}
	return strconv.FormatInt(v, 10) + "%Z"
}

func ZBig(v *big.Int) string {
	if v.Sign() < 0 {
		return "(" + v.String() + ")%Z"
	}
	return v.String() + "%Z"
}

func ZU(v uint64) string { return strconv.FormatUint(v, 10) + "%Z" }
func N(v uint64) string  { return strconv.FormatUint(v, 10) + "%N" }
func Nat(v int) string   { return strconv.Itoa(v) + "%nat" }

func Bool(b bool) string {
	if b {
		return "true"
	}
	return "false"
}

func List(items []string) string {
	if len(items) == 0 {
		return "[]"
	}
	return "[" + strings.Join(items, "; ") + "]"
}

func ListOf[T any](xs []T, f func(T) string) string {
	out := make([]string, len(xs))
	for i, x := range xs {
		out[i] = f(x)
	}
	return List(out)
}

// Bytes prints a byte string as a Coq `list N`.
func Bytes(b []byte) string {
	out := make([]string, len(b))
	for i, x := range b {
		out[i] = strconv.Itoa(int(x))
	}
	if len(out) == 0 {
		return "([]:list N)"
	}
	return "[" + strings.Join(out, "; ") + "]%N"
}

func Opt(present bool, s string) string {
	if !present {
		return "None"
	}
	return "(Some " + s + ")"
}

func Pair(a, b string) string { return "(" + a + ", " + b + ")" }

func App(f string, args ...string) string {
	return "(" + f + " " + strings.Join(args, " ") + ")"
}

// CoqString prints a Go string as a Coq string literal (ASCII printable only; others escaped as ?).
func CoqString(s string) string {
	var sb strings.Builder
	sb.WriteByte('"')
	for _, c := range []byte(s) {
		switch {
		case c == '"':
			sb.WriteString(`""`)
		case c >= 32 && c < 127:
			sb.WriteByte(c)
		default:
			sb.WriteByte('?')
		}
	}
	sb.WriteString(`"%string`)
	return sb.String()
}

// ---------- cases file ----------

// CasesFile accumulates a Coq file of the shape
//
//	<header>
//	Definition cases : list T := [ c1; c2; ... ].
//	<footer>
//
// split in chunks so that coqc parses fast.
type CasesFile struct {
	Header string
	Type   string
	Footer string
	items  []string
}

func (c *CasesFile) Add(term string) { c.items = append(c.items, term) }
func (c *CasesFile) Len() int        { return len(c.items) }

func (c *CasesFile) Write(path string) error {
	var sb strings.Builder
	sb.WriteString(c.Header)
	sb.WriteString("\n")
	const chunk = 50
	nchunks := 0
	for i := 0; i < len(c.items); i += chunk {
		j := i + chunk
		if j > len(c.items) {
			j = len(c.items)
		}
		fmt.Fprintf(&sb, "Definition cases_%d : list (%s) := [\n  ", nchunks, c.Type)
		sb.WriteString(strings.Join(c.items[i:j], ";\n  "))
		sb.WriteString("\n].\n")
		nchunks++
	}
	fmt.Fprintf(&sb, "Definition cases : list (%s) := ", c.Type)
	if nchunks == 0 {
		sb.WriteString("[]")
	}
	for k := 0; k < nchunks; k++ {
		if k > 0 {
			sb.WriteString(" ++ ")
		}
		fmt.Fprintf(&sb, "cases_%d", k)
	}
	sb.WriteString(".\n")
	sb.WriteString(c.Footer)
	sb.WriteString("\n")
	return os.WriteFile(path, []byte(sb.String()), 0o644)
}

// ---------- stats ----------

// Stats is the side channel to the python driver: counts, histograms, samples, direct-oracle failures.
type Stats struct {
	Evaluations        int            `json:"evaluations"`
	DistinctNontrivial int            `json:"distinct_nontrivial"`
	Rule               string         `json:"rule"`
	Hist               map[string]int `json:"hist"`
	Samples            []any          `json:"samples"`
	// OracleFailures: cases on which the implementation itself violates the property (judged in Go,
	// independently of the Coq model). Each entry is a replayable description.
	OracleFailures []any `json:"oracle_failures"`
	// Known: signatures of known findings reproduced by directed cases.
	Known []string `json:"known"`
	// CaseIndex maps the index in cases.v to a replayable description of the case.
	CaseIndex []any          `json:"case_index,omitempty"`
	Extra     map[string]any `json:"extra,omitempty"`
	distinct  map[string]bool
}

func NewStats(rule string) *Stats {
	return &Stats{Rule: rule, Hist: map[string]int{}, distinct: map[string]bool{}, Extra: map[string]any{}}
}

func (s *Stats) Count(key string) { s.Hist[key]++ }

// Case records one evaluated case; key identifies it for distinctness, nontrivial by the property's rule.
func (s *Stats) Case(key string, nontrivial bool) {
	s.Evaluations++
	if nontrivial && !s.distinct[key] {
		s.distinct[key] = true
		s.DistinctNontrivial++
	}
}

func (s *Stats) Sample(v any, max int) {
	if len(s.Samples) < max {
		s.Samples = append(s.Samples, v)
	}
}

func (s *Stats) Fail(v any) { s.OracleFailures = append(s.OracleFailures, v) }

func (s *Stats) Write(path string) error {
	keys := make([]string, 0, len(s.Hist))
	for k := range s.Hist {
		keys = append(keys, k)
	}
	sort.Strings(keys)
	b, err := json.MarshalIndent(s, "", " ")
	if err != nil {
		return err
	}
	return os.WriteFile(path, b, 0o644)
}

func Die(format string, a ...any) {
	fmt.Fprintf(os.Stderr, "harness: "+format+"\n", a...)
	os.Exit(2)
}
