package main

import (
	"context"
	"fmt"
	"math/big"

	"github.com/iotaledger/hive.go/serializer/v2/serix"
)

type qS struct {
	A int8 `serix:""`
}
type qM struct {
	MP map[string]*qS `serix:",omitempty"`
	MI map[string]any `serix:",omitempty"`
	SP []*qS          `serix:",omitempty"`
	SI []any          `serix:",omitempty"`
	MK map[int32]int8 `serix:",omitempty"`
	Bg *big.Int       `serix:",omitempty"`
	BgO *big.Int       `serix:",optional"`
}

func tryEncode(api *serix.API, v any) (out string) {
	defer func() {
		if r := recover(); r != nil {
			out = fmt.Sprintf("PANIC %v", r)
		}
	}()
	b, err := api.JSONEncode(context.Background(), v)
	if err != nil {
		return "ERR " + err.Error()
	}
	return "OK " + string(b)
}

func probe2() {
	api := serix.NewAPI()
	must(api.RegisterTypeSettings(qS{}, serix.TypeSettings{}.WithObjectType(uint8(7))))
	must(api.RegisterInterfaceObjects((*any)(nil), qS{}))
	fmt.Println("enc MP:", tryEncode(api, &qM{MP: map[string]*qS{"k": {A: 1}}}))
	fmt.Println("enc MI:", tryEncode(api, &qM{MI: map[string]any{"k": qS{A: 1}}}))
	fmt.Println("enc SP:", tryEncode(api, &qM{SP: []*qS{{A: 1}}}))
	fmt.Println("enc SI:", tryEncode(api, &qM{SI: []any{qS{A: 1}}}))
	fmt.Println("enc MK:", tryEncode(api, &qM{MK: map[int32]int8{1: 1}}))
	fmt.Println("enc Bg nil non-omit:", tryEncode(api, &struct {
		Bg *big.Int `serix:""`
	}{}))
	outs := map[string]int{}
	for i := 0; i < 30; i++ {
		outs[tryEncode(api, &qM{MK: nil, MP: map[string]*qS{"a": {A: 1}, "b": {A: 2}, "c": {A: 3}, "d": {A: 4}, "e": {A: 5}}})]++
	}
	fmt.Println("enc same map 30x: distinct outputs =", len(outs))
	fmt.Println("dec MP:", tryDecode(api, `{"mP":{"k":{"type":7,"a":1}}}`, &qM{}))
	fmt.Println("dec MI:", tryDecode(api, `{"mI":{"k":{"type":7,"a":1}}}`, &qM{}))
	fmt.Println("dec SP:", tryDecode(api, `{"sP":[{"type":7,"a":1}]}`, &qM{}))
	fmt.Println("dec SI:", tryDecode(api, `{"sI":[{"type":7,"a":1}]}`, &qM{}))
	fmt.Println("dec SI notype:", tryDecode(api, `{"sI":[{"a":1}]}`, &qM{}))
	fmt.Println("dec SP notype:", tryDecode(api, `{"sP":[{"a":1}]}`, &qM{}))
	fmt.Println("dec SP type 7.9:", tryDecode(api, `{"sP":[{"type":7.9,"a":1}]}`, &qM{}))
	fmt.Println("dec SI type 4294967303:", tryDecode(api, `{"sI":[{"type":4294967303,"a":1}]}`, &qM{}))
}
