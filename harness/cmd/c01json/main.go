// c01json harness: JSON (map) form of serix (parts c01json of C01 and c02json of C02).
//
// Generates random type shapes (Schema) -> Go types via reflect.StructOf/SliceOf/ArrayOf/MapOf/PointerTo with
// serix tags, object codes and interface alternatives registered on a fresh serix.API per case; prints the
// same shape as a Coq schema. Subcommands:
//
//	enc : random well-typed boundary-biased values: JSONEncode (output parsed into a tree) and
//	      JSONDecode(JSONEncode v), both compared with the model; Go-side oracle: the round trip gives v back.
//	mut : well-formed documents of the wrong shape (every sub-tree replaced by other JSON kinds, numeric and
//	      string edge cases, missing/extra keys, wrong type codes, aliasing map keys) fed to JSONDecode under
//	      recover; Go-side oracle: no panic.
//	probe : prints what the hand-written probe types do (used to reproduce D02b on the pinned tree).
package main

import (
	"context"
	"flag"
	"fmt"
	"math"
	"math/big"
	"os"
	"reflect"
	"runtime"
	"strconv"
	"time"

	"encoding/json"

	"github.com/iotaledger/hive.go/serializer/v2/serix"

	"verif/harness/vx"
)

func replaceKey(doc, key, raw string) string {
	var m map[string]json.RawMessage
	if err := json.Unmarshal([]byte(doc), &m); err != nil {
		panic(err)
	}
	m[key] = json.RawMessage(raw)
	b, _ := json.Marshal(m)
	return string(b)
}

// ---------- schema generation ----------

type gen struct {
	nbSpec    *Schema      // object code / field key registered for the zoo type zooNB in this case (set on first use)
	bytesSpec *Schema      // non-nil: []byte has a registered object code in this case (every bytes leaf is coded)
	barrx  map[int]*Schema // per array length: the registered object code / field key shared by every [N]byte of the case
	r      *vx.Rng
	nField int
	nCode  int64
	alts   []*Schema
	codeU8 bool
}

var numKinds = []string{"I8", "I16", "I32", "U8", "U16", "U32"}
var nameSuffix = []string{"", "", "", "a", "ID", "URL", "NFTx", "HRP", "Xy", "IDs"}

// barrxSchema: [N]byte with a registered object code (N in 3,5,6: never used by plain byte arrays) by value or
// behind a pointer, or a pointer to a plain byte array.
func (g *gen) barrxSchema() *Schema {
	if g.r.Chance(1, 4) {
		return &Schema{Kind: "barrx", Ptr: true, Code: -1, N: vx.Pick(g.r, []int{0, 1, 2, 4, 32})}
	}
	n := vx.Pick(g.r, []int{3, 5, 6})
	if g.barrx == nil {
		g.barrx = map[int]*Schema{}
	}
	spec := g.barrx[n]
	if spec == nil {
		spec = &Schema{Code: g.nCode, CodeU8: g.codeU8, RegKey: vx.Pick(g.r, []string{"", "pk", "pubKeyHash", "k"})}
		g.nCode += 1 + int64(g.r.Intn(3))
		g.barrx[n] = spec
	}
	return &Schema{Kind: "barrx", Ptr: g.r.Bool(), N: n, Code: spec.Code, CodeU8: spec.CodeU8, RegKey: spec.RegKey}
}

// namedBytes: the zoo type []zooB (named byte element type) with a registered object code.
func (g *gen) namedBytes() *Schema {
	if g.nbSpec == nil {
		g.nbSpec = &Schema{Code: g.nCode, CodeU8: g.codeU8, RegKey: vx.Pick(g.r, []string{"", "hx", "nb"})}
		g.nCode += 1 + int64(g.r.Intn(3))
	}
	return &Schema{Kind: "bytes", Coded: true, Named: true, Code: g.nbSpec.Code, CodeU8: g.nbSpec.CodeU8, RegKey: g.nbSpec.RegKey}
}

func (g *gen) leaf() *Schema {
	switch g.r.Intn(14) {
	case 12:
		return g.namedBytes()
	case 11:
		return g.barrxSchema()
	case 0:
		return &Schema{Kind: "bool"}
	case 1, 2, 3:
		return &Schema{Kind: "num", NK: vx.Pick(g.r, numKinds)}
	case 4:
		return &Schema{Kind: "i64"}
	case 5:
		return &Schema{Kind: "u64"}
	case 6:
		return &Schema{Kind: "str"}
	case 7:
		if g.bytesSpec != nil {
			return &Schema{Kind: "bytes", Coded: true, Code: g.bytesSpec.Code, CodeU8: g.bytesSpec.CodeU8, RegKey: g.bytesSpec.RegKey}
		}
		return &Schema{Kind: "bytes"}
	case 8:
		return &Schema{Kind: "barr", N: vx.Pick(g.r, []int{0, 1, 2, 2, 4, 32})}
	case 9:
		return &Schema{Kind: "u256"}
	case 10:
		return &Schema{Kind: "time"}
	}
	return &Schema{Kind: "num", NK: vx.Pick(g.r, numKinds)}
}

func (g *gen) keySchema() *Schema {
	if g.r.Chance(1, 8) {
		// key types whose map form is not a string (small ints, bool): no JSON object form; the encoder must return
		// an error for a non-empty map (it panicked before 9d20a03), the decoder rejects every key
		if g.r.Chance(1, 4) {
			return &Schema{Kind: "bool"}
		}
		return &Schema{Kind: "num", NK: vx.Pick(g.r, numKinds)}
	}
	switch g.r.Intn(6) {
	case 0, 1:
		return &Schema{Kind: "str"}
	case 2:
		return &Schema{Kind: "i64"}
	case 3:
		return &Schema{Kind: "u64"}
	case 4:
		return &Schema{Kind: "barr", N: vx.Pick(g.r, []int{1, 2, 4})}
	}
	return &Schema{Kind: "time"}
}

func (g *gen) structSchema(depth int, iface bool, ptr bool, code bool) *Schema {
	return g.structSchemaT(depth, iface, ptr, code, true)
}

// structSchemaT: allowType=false forbids every use of the "type" key (own code, tag keys, inlined codes): the struct is
// flattened into an object that already has one.
func (g *gen) structSchemaT(depth int, iface bool, ptr bool, code bool, allowType bool) *Schema {
	s := &Schema{Kind: "struct", Ptr: ptr, Code: -1}
	usesType := code || !allowType
	if code {
		s.Code, s.CodeU8 = g.nCode, g.codeU8
		g.nCode += 1 + int64(g.r.Intn(3))
	}
	n := g.r.Intn(5)
	if depth == 0 || (code && n == 0) { // struct{} is one shared type: it cannot carry a code of its own
		n = 1 + g.r.Intn(5)
	}
	for i := 0; i < n; i++ {
		g.nField++
		f := &Field{Name: fmt.Sprintf("F%d%s", g.nField, vx.Pick(g.r, nameSuffix))}
		if g.r.Chance(1, 4) {
			f.TagKey = fmt.Sprintf("k%d", g.nField)
			if g.r.Chance(1, 8) && !usesType {
				f.TagKey = "type"
				usesType = true
			}
		}
		if depth < 2 && g.r.Chance(1, 7) {
			// inlined / embedded struct (by value or pointer): entries flattened into this struct's object
			f.TagKey = ""
			switch g.r.Intn(3) {
			case 0:
				f.Inline = true
			case 1:
				f.Emb = true
				f.Name = fmt.Sprintf("E%d", g.nField)
			default:
				f.Inline, f.Emb = true, true
				f.Name = fmt.Sprintf("E%d", g.nField)
			}
			plainEmb := f.Emb && !f.Inline
			if f.Inline && g.r.Chance(1, 3) {
				// "key,inlined": an ordinary nested field under that key (fixed 18e6a53: the decoder read it flat)
				f.TagKey = fmt.Sprintf("k%d", g.nField)
				f.S = g.structSchemaT(depth+1, iface, g.r.Bool(), g.r.Chance(1, 3), true)
				s.Fields = append(s.Fields, f)
				continue
			}
			// a plain embedded struct may have a registered code (it is ignored); an inlined one writes its code
			childCode := g.r.Chance(1, 3) && (plainEmb || !usesType)
			f.S = g.structSchemaT(depth+1, iface, g.r.Bool(), childCode, !usesType)
			if f.S.hasTypeKey(plainEmb) {
				usesType = true
			}
			s.Fields = append(s.Fields, f)
			continue
		}
		f.S = g.schema(depth+1, iface)
		if f.S.Kind == "u256" || f.S.Kind == "iface" || ((f.S.Kind == "struct" || f.S.Kind == "barrx") && f.S.Ptr) {
			f.Opt = g.r.Chance(1, 2)
		}
		if f.TagKey == "type" && ((f.S.Kind == "barrx" && !f.S.Ptr && f.S.Code >= 0) || (f.S.Kind == "bytes" && f.S.Coded)) {
			f.TagKey = fmt.Sprintf("k%d", g.nField) // the tag key is also the inner key: it would overwrite the code
		}
		// omitempty: on every kind whose emptiness the model value determines (not maps, arrays, by-value structs)
		if !f.Opt && f.S.Kind != "map" && f.S.Kind != "arr" && !(f.S.Kind == "struct" && !f.S.Ptr) && g.r.Chance(1, 4) {
			f.Omit = true
		}
		s.Fields = append(s.Fields, f)
	}
	return s
}

func (g *gen) schema(depth int, iface bool) *Schema {
	if depth >= 3 || g.r.Chance(1, 2) {
		return g.leaf()
	}
	switch g.r.Intn(8) {
	case 0, 1:
		return g.structSchema(depth, iface, g.r.Bool(), g.r.Chance(1, 3))
	case 2, 3:
		e := g.schema(depth+1, iface)
		for e.Kind == "num" && e.NK == "U8" { // []uint8 is the bytes form
			e = g.leaf()
		}
		if iface && len(g.alts) > 0 && g.r.Chance(1, 6) {
			e = &Schema{Kind: "iface", Alts: g.alts}
		}
		return &Schema{Kind: "slice", Elem: e}
	case 4:
		e := g.schema(depth+1, iface)
		for e.Kind == "num" && e.NK == "U8" {
			e = g.leaf()
		}
		return &Schema{Kind: "arr", N: g.r.Intn(4), Elem: e}
	case 5, 6:
		m := &Schema{Kind: "map", Key: g.keySchema(), Elem: g.schema(depth+1, iface)}
		if iface && len(g.alts) > 0 && g.r.Chance(1, 4) {
			m.Elem = &Schema{Kind: "iface", Alts: g.alts} // interface-typed map values
		}
		return m
	}
	if iface {
		return &Schema{Kind: "iface", Alts: g.alts}
	}
	return g.leaf()
}

// newCase: a fresh top-level struct schema with its alternatives, built and registered on a fresh API.
func newCase(r *vx.Rng) (*Schema, *serix.API) {
	g := &gen{r: r, nCode: int64(r.Intn(3)), codeU8: r.Bool()}
	if !g.codeU8 && r.Chance(1, 3) {
		g.nCode = 4294967295 - 60
	}
	if r.Chance(1, 6) {
		g.bytesSpec = &Schema{Code: g.nCode, CodeU8: g.codeU8, RegKey: vx.Pick(r, []string{"", "hx", "data", "b"})}
		g.nCode += 1 + int64(r.Intn(3))
	}
	for i, n := 0, vx.Pick(r, []int{0, 1, 2, 3}); i < n; i++ {
		// alternatives: structs by value or behind a pointer (the usual registration style `(*T)(nil)`), and byte
		// arrays with a registered object code, by value or behind a pointer (one per array length: the code is per type)
		if r.Chance(1, 4) {
			a := g.barrxSchema()
			dup := a.Code < 0
			for _, o := range g.alts {
				if o.Kind == "barrx" && o.N == a.N {
					dup = true
				}
			}
			if !dup {
				g.alts = append(g.alts, a)
				continue
			}
		}
		g.alts = append(g.alts, g.structSchema(1, false, r.Bool(), true))
	}
	if r.Chance(1, 6) {
		g.alts = append(g.alts, g.namedBytes())
	}
	if g.bytesSpec != nil && r.Chance(1, 2) {
		// []byte with its registered object code as an alternative
		g.alts = append(g.alts, &Schema{Kind: "bytes", Coded: true, Code: g.bytesSpec.Code, CodeU8: g.bytesSpec.CodeU8, RegKey: g.bytesSpec.RegKey})
	}
	top := g.structSchema(0, true, false, r.Chance(1, 4))
	return top, setup(top)
}

func setup(top *Schema) *serix.API {
	top.build()
	api := serix.NewAPI()
	top.register(api, map[*Schema]bool{})
	return api
}

// ---------- value generation ----------

var strPool = []string{"", "a", "héllo", `q"uo\te`, "<>&", " x", "日本", "\n\t\x01", "0x01", "type", "12", "�", "a b"}

func big256() *big.Int { return new(big.Int).Lsh(big.NewInt(1), 256) }

func genValue(r *vx.Rng, s *Schema, dst reflect.Value) {
	switch s.Kind {
	case "bool":
		dst.SetBool(r.Bool())
	case "num":
		bits := map[string]uint{"I8": 8, "I16": 16, "I32": 32, "U8": 8, "U16": 16, "U32": 32}[s.NK]
		if s.NK[0] == 'U' {
			maxv := uint64(1)<<bits - 1
			dst.SetUint(vx.Pick(r, []uint64{0, 1, maxv, maxv - 1, maxv / 2, maxv/2 + 1, r.U64() & maxv}))
		} else {
			lim := int64(1) << (bits - 1)
			dst.SetInt(vx.Pick(r, []int64{0, 1, -1, lim - 1, -lim, int64(r.U64()%uint64(2*lim)) - lim}))
		}
	case "i64":
		dst.SetInt(vx.Pick(r, []int64{0, 1, -1, math.MaxInt64, math.MinInt64, int64(r.U64()), 9007199254740993}))
	case "u64":
		dst.SetUint(vx.Pick(r, []uint64{0, 1, math.MaxUint64, 1 << 63, r.U64(), 9007199254740993}))
	case "str":
		dst.SetString(vx.Pick(r, strPool))
	case "bytes":
		switch r.Intn(5) {
		case 0: // nil
		case 1:
			dst.SetBytes([]byte{})
		default:
			b := make([]byte, 1+r.Intn(5))
			for i := range b {
				b[i] = vx.Pick(r, []byte{0, 1, 15, 16, 255, byte(r.U64())})
			}
			dst.SetBytes(b)
		}
	case "barr":
		for i := 0; i < s.N; i++ {
			dst.Index(i).SetUint(uint64(vx.Pick(r, []byte{0, 0, 1, 255, 171, byte(r.U64())})))
		}
	case "barrx":
		if s.Ptr {
			dst.Set(reflect.New(s.T.Elem()))
			dst = dst.Elem()
		}
		for i := 0; i < s.N; i++ {
			dst.Index(i).SetUint(uint64(vx.Pick(r, []byte{0, 0, 1, 255, 171, byte(r.U64())})))
		}
	case "u256":
		m1 := new(big.Int).Sub(big256(), big.NewInt(1))
		rnd := new(big.Int).SetUint64(r.U64())
		rnd.Lsh(rnd, uint(r.Intn(193)))
		dst.Set(reflect.ValueOf(vx.Pick(r, []*big.Int{big.NewInt(0), big.NewInt(1), big.NewInt(255), big.NewInt(256), new(big.Int).Lsh(big.NewInt(1), 64), m1, rnd, big.NewInt(16)})))
	case "time":
		n := vx.Pick(r, []int64{0, 1, math.MaxInt64, 1_700_000_000_123_456_789, int64(r.U64() >> 1), 999_999_999, 1_000_000_000})
		dst.Set(reflect.ValueOf(time.Unix(0, n).UTC()))
	case "struct":
		if s.Ptr {
			dst.Set(reflect.New(s.T.Elem()))
			dst = dst.Elem()
		}
		for i, f := range s.Fields {
			nilP := 1
			if f.Opt || f.Omit {
				nilP = 12
			}
			if (f.S.Kind == "u256" || f.S.Kind == "iface" || ((f.S.Kind == "struct" || f.S.Kind == "barrx") && f.S.Ptr)) && r.Chance(nilP, 30) {
				continue // leave nil (an error of the encoder when the field is neither optional nor omitempty)
			}
			if f.Omit && r.Chance(1, 3) {
				continue // leave the zero value (the zero time.Time included): the encoder omits the key
			}
			genValue(r, f.S, dst.Field(i))
		}
	case "slice":
		n := r.Intn(4)
		if n == 0 && r.Bool() {
			return
		}
		sl := reflect.MakeSlice(s.T, n, n)
		for i := 0; i < n; i++ {
			genValue(r, s.Elem, sl.Index(i))
		}
		dst.Set(sl)
	case "arr":
		for i := 0; i < s.N; i++ {
			genValue(r, s.Elem, dst.Index(i))
		}
	case "map":
		n := r.Intn(4)
		if n == 0 && r.Bool() {
			return
		}
		m := reflect.MakeMap(s.T)
		for i := 0; i < n; i++ {
			k, v := reflect.New(s.Key.T).Elem(), reflect.New(s.Elem.T).Elem()
			genValue(r, s.Key, k)
			genValue(r, s.Elem, v)
			m.SetMapIndex(k, v)
		}
		dst.Set(m)
	case "iface":
		if len(s.Alts) == 0 {
			return
		}
		a := vx.Pick(r, s.Alts)
		v := reflect.New(a.T).Elem()
		genValue(r, a, v)
		dst.Set(v)
	}
}

// ---------- running the real code ----------

type outcome struct {
	class string // ok err panic
	doc   []byte
	val   reflect.Value
	msg   string
}

func runEncode(api *serix.API, ptr reflect.Value, val bool) (o outcome) {
	defer func() {
		if r := recover(); r != nil {
			o = outcome{class: "panic", msg: fmt.Sprint(r)}
		}
	}()
	var opts []serix.Option
	if val {
		opts = append(opts, serix.WithValidation())
	}
	b, err := api.JSONEncode(context.Background(), ptr.Interface(), opts...)
	if err != nil {
		return outcome{class: "err", msg: err.Error()}
	}
	return outcome{class: "ok", doc: b}
}

func runDecode(api *serix.API, s *Schema, doc []byte, val bool) (o outcome) {
	defer func() {
		if r := recover(); r != nil {
			o = outcome{class: "panic", msg: fmt.Sprint(r)}
		}
	}()
	var opts []serix.Option
	if val {
		opts = append(opts, serix.WithValidation())
	}
	dst := reflect.New(s.T)
	if err := api.JSONDecode(context.Background(), doc, dst.Interface(), opts...); err != nil {
		return outcome{class: "err", msg: err.Error()}
	}
	return outcome{class: "ok", val: dst.Elem()}
}

func obsValue(s *Schema, o outcome) string {
	switch o.class {
	case "ok":
		return "(Ok " + term(s, o.val) + ")"
	case "err":
		return "(Err EShape)"
	}
	return "Panic"
}

func short(s string, n int) string {
	if len(s) > n {
		return s[:n] + "..."
	}
	return s
}

// ---------- harness ----------

type harness struct {
	cf *vx.CasesFile
	st *vx.Stats
}

func (h *harness) add(termStr string, desc map[string]any, key string, nontrivial bool) {
	h.cf.Add(termStr)
	h.st.CaseIndex = append(h.st.CaseIndex, desc)
	h.st.Case(key, nontrivial)
}

func nontrivial(s *Schema, doc string) bool { return s.depth() >= 3 || len(doc) >= 60 }

// encCase: one (schema, value): JSONEncode vs jencode_top, then JSONDecode of the output vs jdecode_top and vs v.
func (h *harness) encCase(r *vx.Rng, s *Schema, api *serix.API, ptr reflect.Value, val bool, oracle bool, tag string) []byte {
	vt := term(s, ptr.Elem())
	sc := s.coq()
	e := runEncode(api, ptr, val)
	h.st.Count("enc:" + e.class)
	obs := "Panic"
	var tree *jt
	switch e.class {
	case "ok":
		var err error
		tree, err = parseJT(e.doc)
		if err != nil {
			vx.Die("JSONEncode produced unparsable JSON: %v", err)
		}
		// Go-map objects are expected in the order of their encoded keys (the value term lists them so): not re-sorted here
		obs = "(Ok " + tree.coq() + ")"
		if oracle {
			for i := 0; i < 3; i++ { // same value, same bytes, whatever the map iteration order
				if e2 := runEncode(api, ptr, val); e2.class != "ok" || string(e2.doc) != string(e.doc) {
					h.st.Fail(map[string]any{"what": "JSONEncode of the same value gave different documents", "a": short(string(e.doc), 300), "b": short(string(e2.doc), 300)})
					break
				}
			}
		}
	case "err":
		obs = "(Err EType)"
	case "panic":
		// outside C01's statement proper (no JSON form exists for such a value) but a fixed robustness defect: regression oracle
		h.st.Fail(map[string]any{"sig": "json-encode-panic", "what": "JSONEncode panicked: " + short(e.msg, 200), "schema": short(sc, 400), "value": short(vt, 400), "validation": val})
	}
	desc := map[string]any{"mode": "enc", "tag": tag, "validation": val, "schema": sc, "value": vt, "go_outcome": e.class, "doc": short(string(e.doc), 400), "msg": short(e.msg, 120)}
	h.add("CEnc "+sc+" "+vt+" "+obs, desc, sc+vt, nontrivial(s, string(e.doc)))
	if e.class != "ok" {
		return nil
	}
	d := runDecode(api, s, e.doc, val)
	h.st.Count("dec-of-enc:" + d.class)
	desc2 := map[string]any{"mode": "dec-of-enc", "tag": tag, "validation": val, "schema": sc, "doc": short(string(e.doc), 400), "go_outcome": d.class, "msg": short(d.msg, 120)}
	h.add("CDec "+sc+" "+tree.coq()+" "+obsValue(s, d), desc2, sc+string(e.doc), nontrivial(s, string(e.doc)))
	if oracle {
		if d.class != "ok" {
			h.st.Fail(map[string]any{"what": "JSONDecode rejects (or panics on) the output of JSONEncode", "case": desc2})
		} else if got := term(s, d.val); got != vt {
			desc2["want"], desc2["got"] = vt, got
			h.st.Fail(map[string]any{"what": "JSONDecode(JSONEncode v) != v", "case": desc2})
		}
	}
	h.st.Sample(map[string]any{"schema": short(sc, 200), "doc": short(string(e.doc), 200)}, 4)
	return e.doc
}

// decCase: one (schema, document): JSONDecode under recover vs jdecode_top; oracle: no panic.
func (h *harness) decCase(s *Schema, api *serix.API, doc *jt, val bool, tag string) string {
	text := doc.String()
	d := runDecode(api, s, []byte(text), val)
	h.st.Count("dec:" + d.class)
	h.st.Count("mut:" + tag)
	sc := s.coq()
	desc := map[string]any{"mode": "dec", "tag": tag, "validation": val, "schema": sc, "doc": short(text, 400), "go_outcome": d.class, "msg": short(d.msg, 120)}
	h.add("CDec "+sc+" "+doc.coq()+" "+obsValue(s, d), desc, sc+text, nontrivial(s, text))
	if d.class == "panic" {
		h.st.Fail(map[string]any{"what": "JSONDecode panicked on a well-formed JSON document", "case": desc})
	}
	return d.class
}

// ---------- directed cases ----------

// directedSchema: the probe type of D02b as a schema.
func directedSchema() *Schema {
	in := func(ptr bool) *Schema {
		return &Schema{Kind: "struct", Ptr: ptr, Code: -1, Fields: []*Field{{Name: "A", S: &Schema{Kind: "num", NK: "I8"}}}}
	}
	alt := &Schema{Kind: "struct", Code: 7, CodeU8: true, Fields: []*Field{{Name: "Q", S: &Schema{Kind: "num", NK: "U16"}}}}
	f := func(name string, s *Schema) *Field { return &Field{Name: name, S: s} }
	opt := func(name string, s *Schema) *Field { return &Field{Name: name, S: s, Opt: true} }
	return &Schema{Kind: "struct", Code: -1, Fields: []*Field{
		f("I8", &Schema{Kind: "num", NK: "I8"}), f("U32", &Schema{Kind: "num", NK: "U32"}), f("I64", &Schema{Kind: "i64"}),
		f("B", &Schema{Kind: "bool"}), f("Bs", &Schema{Kind: "bytes"}), f("Arr", &Schema{Kind: "barr", N: 2}),
		f("Sl", &Schema{Kind: "slice", Elem: &Schema{Kind: "num", NK: "I8"}}), f("T", &Schema{Kind: "time"}),
		f("Big", &Schema{Kind: "u256"}), f("In", in(false)), opt("Opt", in(true)),
		f("M", &Schema{Kind: "map", Key: &Schema{Kind: "str"}, Elem: &Schema{Kind: "num", NK: "I8"}}),
		f("AI", &Schema{Kind: "arr", N: 2, Elem: &Schema{Kind: "num", NK: "I8"}}),
		opt("If", &Schema{Kind: "iface", Alts: []*Schema{alt}}),
		f("MP", &Schema{Kind: "map", Key: &Schema{Kind: "i64"}, Elem: in(true)}),
		f("U64", &Schema{Kind: "u64"}),
	}}
}

const directedGood = `{"i8":1,"u32":2,"i64":"3","b":true,"bs":"0x01","arr":"0x0102","sl":[1,2],"t":"5","big":"0x7","in":{"a":1},"m":{"k":1},"aI":[1,2],"if":{"type":7,"q":9},"mP":{"5":{"a":1}},"u64":"9"}`

// every line: key := replacement; the first block are the inputs that panicked on the pinned tree (D02b, arrays, GetByValue).
var directedMut = [][2]string{
	{"i8", `"x"`}, {"i8", `null`}, {"u32", `"x"`}, {"i64", `3`}, {"b", `"x"`}, {"b", `null`}, {"bs", `1`}, {"arr", `1`},
	{"sl", `1`}, {"sl", `null`}, {"sl", `""`}, {"sl", `{}`}, {"sl", `"ab"`}, {"sl", `{"a":1}`}, {"t", `5`}, {"aI", `1`},
	{"if", `{"type":"x","q":9}`}, {"u64", `9`}, {"aI", `[5,6]`}, {"mP", `{"5":{"a":1},"6":{"a":2}}`},
	{"big", `7`}, {"in", `1`}, {"m", `1`}, {"aI", `[5,6,7]`}, {"aI", `[]`},
	{"i8", `300`}, {"i8", `1.9`}, {"i8", `-1.9`}, {"i8", `3e9`}, {"i8", `1e30`}, {"i8", `-129`}, {"i8", `-0`},
	{"u32", `-1`}, {"u32", `5e9`}, {"u32", `1e19`}, {"u32", `1e30`}, {"u32", `-1e30`}, {"u32", `9007199254740993`}, {"u32", `4294967303`},
	{"i64", `"+5"`}, {"i64", `"-0"`}, {"i64", `""`}, {"i64", `"9223372036854775808"`}, {"i64", `"-9223372036854775808"`}, {"i64", `"-"`},
	{"t", `"18446744073709551615"`}, {"t", `"18446744073709551616"`}, {"t", `"-1"`},
	{"big", `"0x"`}, {"big", `"0x00"`}, {"big", `"0x0"`}, {"big", `"0XfF"`}, {"big", `""`}, {"big", `"ff"`},
	{"big", `"0x10000000000000000000000000000000000000000000000000000000000000000"`},
	{"big", `"0xffffffffffffffffffffffffffffffffffffffffffffffffffffffffffffffff"`},
	{"arr", `"0x010203"`}, {"arr", `"0x01"`}, {"arr", `""`}, {"arr", `"0x"`}, {"arr", `"0102"`},
	{"bs", `"0X0a"`}, {"bs", `"0x0A"`}, {"bs", `"0x"`}, {"bs", `"0x1"`}, {"bs", `"0xzz"`}, {"bs", `""`},
	{"if", `{"type":7.9,"q":9}`}, {"if", `{"type":4294967303,"q":9}`}, {"if", `{"type":8,"q":9}`}, {"if", `{"q":9}`}, {"if", `null`}, {"if", `7`},
	{"mP", `{"5":{"a":1},"+5":{"a":2}}`}, {"mP", `{"x":{"a":1}}`}, {"mP", `{"5":null}`},
	{"m", `{"k":1,"l":"x"}`}, {"in", `{"a":1,"zz":[1e400]}`}, {"in", `{}`}, {"opt", `null`}, {"opt", `{"a":2}`},
}

func (h *harness) directed() {
	s := directedSchema()
	api := setup(s)
	good, err := parseJT([]byte(directedGood))
	must(err)
	if c := h.decCase(s, api, good, false, "directed-good"); c != "ok" {
		h.st.Fail(map[string]any{"what": "directed valid document rejected", "doc": directedGood})
	}
	for _, m := range directedMut {
		d := good.clone()
		raw, err := parseJT([]byte(m[1]))
		must(err)
		found := false
		for i, k := range d.keys {
			if k == m[0] {
				d.vals[i], found = raw, true
			}
		}
		if !found {
			d.keys, d.vals = append(d.keys, m[0]), append(d.vals, raw)
		}
		h.decCase(s, api, d, false, "directed")
	}
	for _, top := range []string{`null`, `[]`, `3`, `"x"`, `{}`, `true`, `{"i8":1e400}`, `{"zz":1e400}`} {
		d, err := parseJT([]byte(top))
		must(err)
		h.decCase(s, api, d, false, "directed-top")
	}
	// a valid value through the encoder, then out-of-guard times (clamped by design: no oracle)
	ptr := reflect.New(s.T)
	if o := runDecode(api, s, []byte(directedGood), false); o.class != "ok" {
		return // already reported by the directed-good case above
	} else {
		ptr.Elem().Set(o.val)
	}
	h.encCase(nil, s, api, ptr, false, true, "directed")
	for _, tm := range []time.Time{time.Unix(-5, 0).UTC(), time.Date(3000, 1, 1, 0, 0, 0, 0, time.UTC), time.Date(1500, 1, 1, 0, 0, 0, 0, time.UTC)} {
		ptr.Elem().Field(7).Set(reflect.ValueOf(tm))
		h.encCase(nil, s, api, ptr, false, false, "directed-time-clamped")
	}
	// fixed 9d20a03: maps whose key type does not encode to a JSON string made MapEncode/JSONEncode panic
	// (`k.(string)`): [1]map[uint16]bool, map[int32]string, map[bool]string; an empty such map is still `{}`
	for _, ks := range []*Schema{{Kind: "num", NK: "U16"}, {Kind: "num", NK: "I32"}, {Kind: "bool"}} {
		for _, wrap := range []bool{true, false} {
			for _, fill := range []bool{true, false} {
				ms := &Schema{Kind: "map", Key: &Schema{Kind: ks.Kind, NK: ks.NK}, Elem: &Schema{Kind: "bool"}}
				fsch := ms
				if wrap {
					fsch = &Schema{Kind: "arr", N: 1, Elem: ms}
				}
				ts := &Schema{Kind: "struct", Code: -1, Fields: []*Field{{Name: "M", S: fsch}}}
				tapi := setup(ts)
				p := reflect.New(ts.T)
				if fill {
					m := reflect.MakeMap(ms.T)
					k := reflect.New(ms.Key.T).Elem()
					if ks.Kind == "bool" {
						k.SetBool(true)
					} else if ks.NK[0] == 'U' {
						k.SetUint(1)
					} else {
						k.SetInt(-1)
					}
					m.SetMapIndex(k, reflect.ValueOf(true))
					if wrap {
						p.Elem().Field(0).Index(0).Set(m)
					} else {
						p.Elem().Field(0).Set(m)
					}
				}
				h.encCase(nil, ts, tapi, p, false, !fill, "directed-nonstring-map-key")
				for _, doc := range []string{`{"m":{"1":true}}`, `{"m":[{"1":true}]}`, `{"m":{"true":true}}`, `{"m":{}}`, `{"m":[{}]}`} {
					h.decCase(ts, tapi, lit(doc), false, "directed-nonstring-map-key")
				}
			}
		}
	}
	// collections with interface-typed elements: map[string]any, []any, [1]any (the decoder looks up the type settings of
	// the freshly created nil element before decoding it); non-empty documents, right and wrong shapes
	{
		alt := &Schema{Kind: "struct", Code: 7, CodeU8: true, Fields: []*Field{{Name: "Q", S: &Schema{Kind: "num", NK: "U16"}}}}
		alts := []*Schema{alt}
		ifc := func() *Schema { return &Schema{Kind: "iface", Alts: alts} }
		ts := &Schema{Kind: "struct", Code: -1, Fields: []*Field{
			{Name: "M", S: &Schema{Kind: "map", Key: &Schema{Kind: "str"}, Elem: ifc()}},
			{Name: "S", S: &Schema{Kind: "slice", Elem: ifc()}},
			{Name: "A", S: &Schema{Kind: "arr", N: 1, Elem: ifc()}},
			{Name: "K", S: &Schema{Kind: "map", Key: &Schema{Kind: "u64"}, Elem: ifc()}},
		}}
		tapi := setup(ts)
		for _, doc := range []string{
			`{"m":{"k":{"type":7,"q":1}},"s":[{"type":7,"q":2}],"a":[{"type":7,"q":3}],"k":{"5":{"type":7,"q":4}}}`,
			`{"m":{"k":5},"s":[],"a":[{"type":7,"q":3}],"k":{}}`,
			`{"m":{"k":{"type":9,"q":1}},"s":[],"a":[{"type":7,"q":3}],"k":{}}`,
			`{"m":{"k":null},"s":[],"a":[{"type":7,"q":3}],"k":{}}`,
			`{"m":{"k":{}},"s":[],"a":[{"type":7,"q":3}],"k":{}}`,
			`{"m":{},"s":[null],"a":[{"type":7,"q":3}],"k":{}}`,
			`{"m":{},"s":[],"a":[5],"k":{}}`,
			`{"m":{},"s":[],"a":[{"type":7,"q":3}],"k":{"x":{"type":7,"q":4}}}`,
			`{"m":{},"s":[],"a":[{"type":7,"q":3}],"k":{"5":"x"}}`,
			`{"m":{"a":{"type":7,"q":1},"b":{"type":7,"q":2}},"s":[{"type":7,"q":2},{"type":7,"q":5}],"a":[{"type":7,"q":3}],"k":{}}`,
		} {
			h.decCase(ts, tapi, lit(doc), false, "directed-iface-elements")
		}
		p := reflect.New(ts.T)
		genValue(vx.NewRng(11), ts, p.Elem())
		h.encCase(nil, ts, tapi, p, false, false, "directed-iface-elements")
	}
	// fixed 18e6a53: `serix:"in,inlined"` is written as a nested object under "in" but was decoded from the enclosing
	// object (missing map entry); embedded and named, by value and by pointer; then the flat forms
	for _, emb := range []bool{true, false} {
		for _, ptr := range []bool{false, true} {
			for _, key := range []string{"in", ""} {
				inner := &Schema{Kind: "struct", Ptr: ptr, Code: -1, Fields: []*Field{{Name: "A", S: &Schema{Kind: "num", NK: "I8"}}}}
				name := "I"
				if emb {
					name = "EInner"
				}
				ts := &Schema{Kind: "struct", Code: -1, Fields: []*Field{{Name: name, TagKey: key, Inline: true, Emb: emb, S: inner}, {Name: "B", S: &Schema{Kind: "num", NK: "I8"}}}}
				tapi := setup(ts)
				p := reflect.New(ts.T)
				in := p.Elem().Field(0)
				if ptr {
					in.Set(reflect.New(inner.T.Elem()))
					in = in.Elem()
				}
				in.Field(0).SetInt(5)
				p.Elem().Field(1).SetInt(6)
				h.encCase(nil, ts, tapi, p, false, true, "directed-keyed-inlined")
				for _, doc := range []string{`{"in":{"a":5},"b":6}`, `{"a":5,"b":6}`, `{"in":{"a":5},"a":7,"b":6}`, `{"in":5,"b":6}`, `{"b":6}`} {
					h.decCase(ts, tapi, lit(doc), false, "directed-keyed-inlined")
				}
			}
		}
	}
	// fixed b4a46ea: *[4]byte without type settings is written as a bare hex string, which the decoder refused ("missing
	// type settings"); fixed 74faee1: a by-value [N]byte with a registered object code is written as an object
	// {"type":..,key:hex}, which only the pointer path of the decoder understood (field with / without explicit tag
	// key, slice element, map value)
	{
		ts := &Schema{Kind: "struct", Code: -1, Fields: []*Field{
			{Name: "A", S: &Schema{Kind: "barrx", Ptr: true, Code: -1, N: 4}},
			{Name: "B", TagKey: "bk", S: &Schema{Kind: "barrx", N: 3, Code: 3, CodeU8: true, RegKey: "pubKeyHash"}},
			{Name: "C", S: &Schema{Kind: "barrx", N: 3, Code: 3, CodeU8: true, RegKey: "pubKeyHash"}},
			{Name: "D", S: &Schema{Kind: "slice", Elem: &Schema{Kind: "barrx", N: 3, Code: 3, CodeU8: true, RegKey: "pubKeyHash"}}},
			{Name: "E", S: &Schema{Kind: "map", Key: &Schema{Kind: "str"}, Elem: &Schema{Kind: "barrx", Ptr: true, N: 3, Code: 3, CodeU8: true, RegKey: "pubKeyHash"}}},
			{Name: "F", Opt: true, S: &Schema{Kind: "barrx", Ptr: true, N: 3, Code: 3, CodeU8: true, RegKey: "pubKeyHash"}},
			// 83b7f6c: a by-value coded array held in an interface field with a tag key (the tag key was taken for the inner key)
			{Name: "G", TagKey: "gk", S: &Schema{Kind: "iface", Alts: []*Schema{{Kind: "barrx", N: 3, Code: 3, CodeU8: true, RegKey: "pubKeyHash"}}}},
			// c9f8064: []byte with a registered object code (field with / without tag key, slice element)
			{Name: "H", TagKey: "hk", S: &Schema{Kind: "bytes", Coded: true, Code: 9, CodeU8: true, RegKey: "hx"}},
			{Name: "I", Omit: true, S: &Schema{Kind: "bytes", Coded: true, Code: 9, CodeU8: true, RegKey: "hx"}},
			{Name: "J", Omit: true, S: &Schema{Kind: "slice", Elem: &Schema{Kind: "bytes", Coded: true, Code: 9, CodeU8: true, RegKey: "hx"}}},
			// c016509: slice of a named byte type with an object code (field with tag key, slice element)
			{Name: "K", TagKey: "kk", S: &Schema{Kind: "bytes", Coded: true, Named: true, Code: 11, CodeU8: true, RegKey: "nb"}},
			{Name: "L", Omit: true, S: &Schema{Kind: "slice", Elem: &Schema{Kind: "bytes", Coded: true, Named: true, Code: 11, CodeU8: true, RegKey: "nb"}}},
		}}
		tapi := setup(ts)
		p := reflect.New(ts.T)
		genValue(vx.NewRng(7), ts, p.Elem())
		h.encCase(nil, ts, tapi, p, false, true, "directed-bytearray-forms")
		for _, doc := range []string{
			`{"a":"0x01020304","b":{"type":3,"bk":"0x010203"},"c":{"type":3,"pubKeyHash":"0x010203"},"d":[{"type":3,"pubKeyHash":"0x01"}],"e":{"x":{"type":3,"pubKeyHash":"0x02"}},"gk":{"type":3,"pubKeyHash":"0x05"}}`,
			`{"a":"0x01","b":"0x01","c":"0x01","d":[],"e":{},"gk":{"type":3,"gk":"0x05"}}`,
			`{"a":"0x01","b":"0x01","c":"0x01","d":[],"e":{},"gk":{"type":3,"pubKeyHash":"0x05"},"hk":{"type":9,"hk":"0x0102"},"i":{"type":9,"hx":""},"j":[{"type":9,"hx":"0x03"},"0x04"]}`,
			`{"a":"0x01","b":"0x01","c":"0x01","d":[],"e":{},"gk":{"type":3,"pubKeyHash":"0x05"},"hk":"0x0102","i":{"hx":"0x01"},"j":[{"type":9}]}`,
			`{"a":"0x01","b":"0x01","c":"0x01","d":[],"e":{},"gk":{"type":3,"pubKeyHash":"0x05"},"hk":{"type":9,"hx":"0x0102"}}`,
			`{"a":"0x01","b":"0x01","c":"0x01","d":[],"e":{},"gk":{"type":3,"pubKeyHash":"0x05"},"hk":5,"i":null}`,
			// 221b25a: wrong / missing / non-number / fractional type code in the object form of by-value arrays and byte slices
			`{"a":"0x01","b":{"type":99,"bk":"0x01"},"c":"0x01","d":[],"e":{},"gk":{"type":3,"pubKeyHash":"0x05"},"hk":"0x01","kk":[]}`,
			`{"a":"0x01","b":{"bk":"0x01"},"c":"0x01","d":[],"e":{},"gk":{"type":3,"pubKeyHash":"0x05"},"hk":"0x01","kk":[]}`,
			`{"a":"0x01","b":{"type":"3","bk":"0x01"},"c":"0x01","d":[],"e":{},"gk":{"type":3,"pubKeyHash":"0x05"},"hk":"0x01","kk":[]}`,
			`{"a":"0x01","b":{"type":3.7,"bk":"0x01"},"c":"0x01","d":[{"type":4,"pubKeyHash":"0x01"}],"e":{},"gk":{"type":3,"pubKeyHash":"0x05"},"hk":"0x01","kk":[]}`,
			`{"a":"0x01","b":"0x01","c":"0x01","d":[],"e":{},"gk":{"type":3,"pubKeyHash":"0x05"},"hk":{"type":8,"hk":"0x01"},"kk":[]}`,
			`{"a":"0x01","b":"0x01","c":"0x01","d":[],"e":{},"gk":{"type":3,"pubKeyHash":"0x05"},"hk":{"hk":"0x01"},"kk":[]}`,
			`{"a":"0x01","b":"0x01","c":"0x01","d":[],"e":{"x":{"type":77,"pubKeyHash":"0x02"}},"gk":{"type":3,"pubKeyHash":"0x05"},"hk":"0x01","kk":[]}`,
			// 56e687c: the pointer shape (*[3]byte with code 3: optional field f, map values e) verifies the type code too
			`{"a":"0x01","b":"0x01","c":"0x01","d":[],"e":{},"gk":{"type":3,"pubKeyHash":"0x05"},"hk":"0x01","kk":[],"f":{"type":3,"pubKeyHash":"0x0a"}}`,
			`{"a":"0x01","b":"0x01","c":"0x01","d":[],"e":{},"gk":{"type":3,"pubKeyHash":"0x05"},"hk":"0x01","kk":[],"f":{"type":99,"pubKeyHash":"0x0a"}}`,
			`{"a":"0x01","b":"0x01","c":"0x01","d":[],"e":{},"gk":{"type":3,"pubKeyHash":"0x05"},"hk":"0x01","kk":[],"f":{"pubKeyHash":"0x0a"}}`,
			`{"a":"0x01","b":"0x01","c":"0x01","d":[],"e":{"x":{"pubKeyHash":"0x02"},"y":{"type":"3","pubKeyHash":"0x02"}},"gk":{"type":3,"pubKeyHash":"0x05"},"hk":"0x01","kk":[]}`,
			// c016509: named byte slice: object form, list of numbers, not a bare string; type code verified
			`{"a":"0x01","b":"0x01","c":"0x01","d":[],"e":{},"gk":{"type":3,"pubKeyHash":"0x05"},"hk":"0x01","kk":{"type":11,"kk":"0x0102"},"l":[{"type":11,"nb":"0x03"},[4,5]]}`,
			`{"a":"0x01","b":"0x01","c":"0x01","d":[],"e":{},"gk":{"type":3,"pubKeyHash":"0x05"},"hk":"0x01","kk":[1,300,2.5]}`,
			`{"a":"0x01","b":"0x01","c":"0x01","d":[],"e":{},"gk":{"type":3,"pubKeyHash":"0x05"},"hk":"0x01","kk":"0x0102"}`,
			`{"a":"0x01","b":"0x01","c":"0x01","d":[],"e":{},"gk":{"type":3,"pubKeyHash":"0x05"},"hk":"0x01","kk":{"type":12,"kk":"0x0102"}}`,
			`{"a":"0x01","b":"0x01","c":"0x01","d":[],"e":{},"gk":{"type":3,"pubKeyHash":"0x05"},"hk":"0x01","kk":{"kk":"0x0102"}}`,
			`{"a":"0x01","b":"0x01","c":"0x01","d":[],"e":{},"gk":{"type":3,"pubKeyHash":"0x05"},"hk":"0x01","kk":[1,"x"]}`,
			`{"a":"0x01","b":"0x01","c":"0x01","d":[],"e":{},"gk":{"type":3,"pubKeyHash":"0x05"},"hk":"0x01","kk":null}`,
			`{"a":{"data":"0x01"},"b":"0x01","c":"0x02","d":["0x03"],"e":{"x":"0x04"}}`,
			`{"a":"0x01","b":{"type":9,"bk":"0x01"},"c":{"pubKeyHash":"0x01"},"d":[],"e":{}}`,
			`{"a":"0x01","b":{"type":3,"pubKeyHash":"0x01"},"c":"0x","d":[],"e":{}}`,
			`{"a":"0x01","b":"0x01","c":{"type":3},"d":[],"e":{}}`,
			`{"a":"0x01","b":"0x01","c":{"type":3,"pubKeyHash":5},"d":[],"e":{}}`,
			`{"a":null,"b":"0x01","c":"0x01","d":[],"e":{}}`,
			`{"a":"0x01","b":"0x01","c":"0x01","d":[null],"e":{}}`,
			`{"a":"0x01","b":"0x01","c":"0x01","d":[],"e":{"x":null},"f":null}`,
			`{"a":"0x01","b":"0x01","c":"0x01","d":[],"e":{},"f":"0x01"}`,
		} {
			h.decCase(ts, tapi, lit(doc), false, "directed-bytearray-forms")
		}
	}
	// Go-side oracles only (shapes outside the model):
	// b9e1ae8: the field-level maxLen of an interface field still reaches its element (a 4-byte *[4]byte under maxLen=2
	// is rejected with validation, accepted without); c016509: arrays of a named byte type round-trip
	{
		type a4 [4]byte
		type tI struct {
			A any `serix:"a,maxLen=2"`
		}
		dapi := serix.NewAPI()
		must(dapi.RegisterTypeSettings(a4{}, serix.TypeSettings{}.WithObjectType(uint8(8))))
		must(dapi.RegisterInterfaceObjects((*any)(nil), (*a4)(nil)))
		doc := []byte(`{"a":{"type":8,"data":"0x01020304"}}`)
		var o1, o2 tI
		e1 := dapi.JSONDecode(context.Background(), doc, &o1, serix.WithValidation())
		e2 := dapi.JSONDecode(context.Background(), doc, &o2)
		h.st.Count(fmt.Sprintf("directed-go:iface-field-maxlen:validated-err=%v,plain-err=%v", e1 != nil, e2 != nil))
		if e1 == nil || e2 != nil {
			h.st.Fail(map[string]any{"sig": "json-iface-field-validation", "what": fmt.Sprintf("interface field tagged maxLen=2 holding a 4-byte *[4]byte: with validation err=%v (want an error), without err=%v (want none)", e1, e2)})
		}
		type tN struct {
			B zooNA   `serix:"b"`
			C *zooNP  `serix:"c"`
			D []zooNA `serix:"d"`
		}
		napi := serix.NewAPI()
		must(napi.RegisterTypeSettings(zooNA{}, serix.TypeSettings{}.WithObjectType(uint8(5))))
		must(napi.RegisterTypeSettings(zooNP{}, serix.TypeSettings{}.WithObjectType(uint8(6)).WithFieldKey("pp")))
		v := &tN{B: zooNA{3, 4, 5}, C: &zooNP{6, 7}, D: []zooNA{{8, 9, 10}}}
		enc := runEncode(napi, reflect.ValueOf(v), false)
		var back tN
		var derr error
		if enc.class == "ok" {
			derr = napi.JSONDecode(context.Background(), enc.doc, &back)
		}
		okRT := enc.class == "ok" && derr == nil && reflect.DeepEqual(v, &back)
		h.st.Count(fmt.Sprintf("directed-go:named-byte-arrays-roundtrip=%v", okRT))
		if !okRT {
			h.st.Fail(map[string]any{"sig": "json-named-byte-array-roundtrip", "what": fmt.Sprintf("arrays of a named byte type with an object type do not round-trip: encode %s %s %s, decode err %v", enc.class, short(string(enc.doc), 200), short(enc.msg, 120), derr)})
		}
	}
	// fixed d7c084d (Go-side oracle only, no model case): a slice of non-byte elements whose type settings carry an object
	// type made the JSON encoder panic (reflect.Value.Bytes of non-byte slice); it has no map form: an error now
	{
		type dirSl []uint16
		type dirT struct {
			A dirSl `serix:"a"`
		}
		dapi := serix.NewAPI()
		must(dapi.RegisterTypeSettings(dirSl{}, serix.TypeSettings{}.WithObjectType(uint8(4)).WithLengthPrefixType(serix.LengthPrefixTypeAsByte)))
		o := runEncode(dapi, reflect.ValueOf(&dirT{A: dirSl{1, 2}}), false)
		h.st.Count("directed-go:nonbyte-slice-objecttype:" + o.class)
		if o.class != "err" {
			h.st.Fail(map[string]any{"sig": "json-encode-panic", "what": "JSONEncode of []uint16 with an object type: expected an error, got " + o.class + " " + short(o.msg, 200)})
		}
	}
	// fixed bb76e84: a nil non-optional *big.Int made the JSON encoder panic (nil dereference); the optional one is omitted
	for _, opt := range []bool{false, true} {
		ts := &Schema{Kind: "struct", Code: -1, Fields: []*Field{{Name: "B", S: &Schema{Kind: "u256"}, Opt: opt}, {Name: "X", S: &Schema{Kind: "num", NK: "I8"}}}}
		tapi := setup(ts)
		h.encCase(nil, ts, tapi, reflect.New(ts.T), false, opt, "directed-nil-bigint")
	}
}

// ---------- mutation of documents ----------

var otherKind = []string{`null`, `true`, `false`, `0`, `1`, `-1`, `1.5`, `300`, `"x"`, `""`, `"0x"`, `"0x00"`, `"7"`, `[]`, `[1]`, `[null]`, `{}`, `{"a":1}`, `{"type":1}`, `[[]]`, `"0x0102"`}
var numEdge = []string{`1e400`, `-1e400`, `-0`, `9007199254740993`, `4294967296`, `4294967295`, `2147483648`, `2147483647`, `-2147483648`, `-2147483649`, `1e19`, `-1e19`, `0.5`, `-0.5`, `255`, `256`, `-129`, `128`, `65536`, `32768`, `1e-400`, `9223372036854775807`, `9223372036854775808`, `1e308`, `4294967303.7`}
var strEdge = []string{`"+5"`, `"-5"`, `"-0"`, `"05"`, `"18446744073709551615"`, `"18446744073709551616"`, `"9223372036854775807"`, `"9223372036854775808"`, `"-9223372036854775808"`, `"-9223372036854775809"`, `"0x0"`, `"0x1"`, `"0X0a"`, `"0x0A0b"`, `"0xg0"`, `"0x0102030405"`, `"1_0"`, `" 5"`, `"5 "`, `"0x00ff"`, `"١"`, `"é"`, `"+"`, `"-"`, `"0xffffffffffffffffffffffffffffffffffffffffffffffffffffffffffffffff"`, `"0x10000000000000000000000000000000000000000000000000000000000000000"`, `"0x0000000000000000000000000000000000000000000000000000000000000000000000"`}

func lit(s string) *jt {
	j, err := parseJT([]byte(s))
	must(err)
	return j
}

// mutate returns a mutated copy of doc and a tag naming the operator.
func mutate(r *vx.Rng, doc *jt) (*jt, string) {
	d := doc.clone()
	var sl []slot
	d.slots(&sl)
	if len(sl) == 0 || r.Chance(1, 25) {
		return lit(vx.Pick(r, []string{`null`, `[]`, `3`, `"x"`, `{}`, `true`, `{"zz":1e400}`})), "top"
	}
	// the object form of a byte array / byte slice ({"type": code, key: hex}: two entries): wrong, missing, non-number type code
	if r.Chance(1, 8) {
		var objs []slot
		for _, s := range sl {
			if c := s.get(); c.k == 'o' && len(c.keys) == 2 && c.get("type") != nil {
				objs = append(objs, s)
			}
		}
		if len(objs) > 0 {
			cur := vx.Pick(r, objs).get()
			for i, k := range cur.keys {
				if k != "type" {
					continue
				}
				if r.Chance(1, 3) {
					cur.keys = append(cur.keys[:i:i], cur.keys[i+1:]...)
					cur.vals = append(cur.vals[:i:i], cur.vals[i+1:]...)
					return d, "byteobj-type-missing"
				}
				old := cur.vals[i].num
				if cur.vals[i].k != '#' {
					old = "1"
				}
				cur.vals[i] = lit(vx.Pick(r, []string{`0`, `99`, old + `.5`, `"` + old + `"`, `null`, `4294967296`, `-1`, `[` + old + `]`}))
				return d, "byteobj-type-code"
			}
		}
	}
	op := r.Intn(10)
	for try := 0; try < 40; try++ {
		if try%10 == 9 {
			op = r.Intn(10)
		}
		s := vx.Pick(r, sl)
		cur := s.get()
		switch op {
		case 0, 1, 2:
			s.set(lit(vx.Pick(r, otherKind)))
			return d, "other-kind"
		case 3:
			if cur.k == '#' || r.Chance(1, 6) {
				s.set(lit(vx.Pick(r, numEdge)))
				return d, "num-edge"
			}
		case 4:
			if cur.k == 's' || r.Chance(1, 6) {
				s.set(lit(vx.Pick(r, strEdge)))
				return d, "str-edge"
			}
		case 5: // delete a key / an element
			p := s.parent
			if p.k == 'o' {
				p.keys = append(p.keys[:s.idx:s.idx], p.keys[s.idx+1:]...)
				p.vals = append(p.vals[:s.idx:s.idx], p.vals[s.idx+1:]...)
				return d, "del-key"
			}
			p.arr = append(p.arr[:s.idx:s.idx], p.arr[s.idx+1:]...)
			return d, "del-elem"
		case 6: // extra key / element
			if cur.k == 'o' {
				k := vx.Pick(r, []string{"zz", "type", "", "a"})
				if cur.get(k) == nil {
					cur.keys, cur.vals = append(cur.keys, k), append(cur.vals, lit(vx.Pick(r, otherKind)))
					return d, "extra-key"
				}
			} else if cur.k == 'a' {
				e := lit(vx.Pick(r, otherKind))
				if len(cur.arr) > 0 && r.Bool() {
					e = cur.arr[0].clone()
				}
				cur.arr = append(cur.arr, e)
				return d, "extra-elem"
			}
		case 7: // type code
			if cur.k == 'o' && cur.get("type") != nil {
				for i, k := range cur.keys {
					if k == "type" {
						old := cur.vals[i].num
						if cur.vals[i].k != '#' {
							old = "1"
						}
						cur.vals[i] = lit(vx.Pick(r, []string{`0`, `1`, `2`, `3`, `5`, old + `.5`, `"` + old + `"`, `4294967296`, `-1`, `null`, `4294967291`, `1e400`}))
					}
				}
				return d, "type-code"
			}
		case 8: // aliasing key in an object (a second spelling of a map key)
			if s.parent.k == 'o' {
				k := s.parent.keys[s.idx]
				nk := vx.Pick(r, []string{"+" + k, "0" + k, "0X" + trim0x(k), k + " "})
				if s.parent.get(nk) == nil {
					s.parent.keys, s.parent.vals = append(s.parent.keys, nk), append(s.parent.vals, cur.clone())
					return d, "alias-key"
				}
			}
		case 9: // swap with another sub-tree of the document
			o := vx.Pick(r, sl)
			s.set(o.get().clone())
			return d, "graft"
		}
	}
	return d, "none"
}

func trim0x(k string) string {
	if len(k) >= 2 && k[:2] == "0x" {
		return k[2:]
	}
	return k
}

// ---------- main ----------

func main() {
	if len(os.Args) < 2 {
		vx.Die("usage: hx-c01json enc|mut|probe [flags]")
	}
	if os.Args[1] == "probe" {
		probe()
		probe2()
		return
	}
	fs := flag.NewFlagSet(os.Args[1], flag.ExitOnError)
	n := fs.Int("n", 300, "number of (schema, value) pairs")
	k := fs.Int("k", 4, "mutants per valid document (mut)")
	seed := fs.Uint64("seed", 1, "seed")
	out := fs.String("out", "cases.v", "cases file")
	stats := fs.String("stats", "stats.json", "stats file")
	must(fs.Parse(os.Args[2:]))
	if runtime.GOARCH != "amd64" {
		fmt.Fprintln(os.Stderr, "warning: the float64->integer conversions of the model are those of gc/amd64")
	}
	h := &harness{
		cf: &vx.CasesFile{
			Header: "From Coq Require Import ZArith NArith List String.\nFrom Verif.C01_SerixJson Require Import Model Corr.\nImport ListNotations.\nOpen Scope Z_scope.\n",
			Type:   "case",
			Footer: "Definition M := Eval vm_compute in mismatches cases.\nPrint M.",
		},
		st: vx.NewStats("distinct (schema, input) pairs whose schema has depth >= 3 or whose document has >= 60 bytes"),
	}
	r := vx.NewRng(*seed)
	switch os.Args[1] {
	case "enc":
		h.directed()
		for i := 0; i < *n; i++ {
			cr := r.Fork()
			s, api := newCase(cr)
			for rep := 0; rep < 2; rep++ {
				ptr := reflect.New(s.T)
				genValue(cr, s, ptr.Elem())
				h.encCase(cr, s, api, ptr, cr.Chance(1, 3), true, "random")
			}
		}
	case "mut":
		h.directed()
		for i := 0; i < *n; i++ {
			cr := r.Fork()
			s, api := newCase(cr)
			var doc *jt
			for try := 0; try < 5 && doc == nil; try++ {
				ptr := reflect.New(s.T)
				genValue(cr, s, ptr.Elem())
				if e := runEncode(api, ptr, false); e.class == "ok" {
					doc, _ = parseJT(e.doc)
				}
			}
			if doc == nil {
				h.st.Count("mut:no-valid-doc")
				continue
			}
			for j := 0; j < *k; j++ {
				m, tag := mutate(cr, doc)
				if cr.Chance(1, 4) {
					m, tag = mutate(cr, m)
					tag = "double"
				}
				h.decCase(s, api, m, cr.Chance(1, 3), tag)
			}
		}
	default:
		vx.Die("unknown subcommand %s", os.Args[1])
	}
	h.st.Extra["goarch"] = runtime.GOARCH
	h.st.Extra["go"] = runtime.Version()
	_ = strconv.Itoa
	must(h.cf.Write(*out))
	must(h.st.Write(*stats))
}
