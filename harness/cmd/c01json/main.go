package main

import (
	"encoding/json"
	"os"
)

func replaceKey(doc, key, raw string) string {
	var m map[string]json.RawMessage
	if err := json.Unmarshal([]byte(doc), &m); err != nil {
		panic(err)
	}
	m[key] = json.RawMessage(raw)
	b, _ := json.Marshal(m)
	return string(b)
}

func main() {
	if len(os.Args) > 1 && os.Args[1] == "probe" {
		probe()
		return
	}
}
