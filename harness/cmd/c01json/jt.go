package main

import (
	"bytes"
	"encoding/json"
	"math"
	"math/big"
	"strconv"
	"strings"

	"verif/harness/vx"
)

// jt is a JSON tree that keeps object key order and the raw number literals.
type jt struct {
	k    byte // 'n' null, 'b' bool, '#' number, 's' string, 'a' array, 'o' object
	b    bool
	num  string
	s    string
	arr  []*jt
	keys []string
	vals []*jt
}

func jNull() *jt         { return &jt{k: 'n'} }
func jBool(b bool) *jt   { return &jt{k: 'b', b: b} }
func jNum(lit string) *jt { return &jt{k: '#', num: lit} }
func jStr(s string) *jt  { return &jt{k: 's', s: s} }
func jArr(a ...*jt) *jt  { return &jt{k: 'a', arr: a} }
func jObj(kv ...any) *jt {
	o := &jt{k: 'o'}
	for i := 0; i+1 < len(kv); i += 2 {
		o.keys = append(o.keys, kv[i].(string))
		o.vals = append(o.vals, kv[i+1].(*jt))
	}
	return o
}

func parseJT(b []byte) (*jt, error) {
	dec := json.NewDecoder(bytes.NewReader(b))
	dec.UseNumber()
	return readJT(dec)
}

func readJT(dec *json.Decoder) (*jt, error) {
	tok, err := dec.Token()
	if err != nil {
		return nil, err
	}
	switch t := tok.(type) {
	case json.Delim:
		if t == '[' {
			n := &jt{k: 'a'}
			for dec.More() {
				e, err := readJT(dec)
				if err != nil {
					return nil, err
				}
				n.arr = append(n.arr, e)
			}
			_, err = dec.Token()
			return n, err
		}
		n := &jt{k: 'o'}
		for dec.More() {
			kt, err := dec.Token()
			if err != nil {
				return nil, err
			}
			e, err := readJT(dec)
			if err != nil {
				return nil, err
			}
			n.keys = append(n.keys, kt.(string))
			n.vals = append(n.vals, e)
		}
		_, err = dec.Token()
		return n, err
	case bool:
		return jBool(t), nil
	case json.Number:
		return jNum(string(t)), nil
	case string:
		return jStr(t), nil
	}
	return jNull(), nil
}

func (j *jt) clone() *jt {
	c := *j
	c.arr = nil
	c.vals = nil
	c.keys = append([]string(nil), j.keys...)
	for _, e := range j.arr {
		c.arr = append(c.arr, e.clone())
	}
	for _, e := range j.vals {
		c.vals = append(c.vals, e.clone())
	}
	return &c
}

func (j *jt) get(key string) *jt {
	for i, k := range j.keys {
		if k == key {
			return j.vals[i]
		}
	}
	return nil
}

// text serialises the tree as a JSON document.
func (j *jt) text(sb *strings.Builder) {
	switch j.k {
	case 'n':
		sb.WriteString("null")
	case 'b':
		sb.WriteString(strconv.FormatBool(j.b))
	case '#':
		sb.WriteString(j.num)
	case 's':
		b, _ := json.Marshal(j.s)
		sb.Write(b)
	case 'a':
		sb.WriteByte('[')
		for i, e := range j.arr {
			if i > 0 {
				sb.WriteByte(',')
			}
			e.text(sb)
		}
		sb.WriteByte(']')
	case 'o':
		sb.WriteByte('{')
		for i, e := range j.vals {
			if i > 0 {
				sb.WriteByte(',')
			}
			b, _ := json.Marshal(j.keys[i])
			sb.Write(b)
			sb.WriteByte(':')
			e.text(sb)
		}
		sb.WriteByte('}')
	}
}

func (j *jt) String() string {
	var sb strings.Builder
	j.text(&sb)
	return sb.String()
}

// coq prints the tree as Model.json: a number literal becomes the float64 encoding/json makes of it.
func (j *jt) coq() string {
	switch j.k {
	case 'n':
		return "JNull"
	case 'b':
		return "(JBool " + vx.Bool(j.b) + ")"
	case '#':
		f, err := strconv.ParseFloat(j.num, 64)
		if err != nil || math.IsInf(f, 0) {
			return "JHuge"
		}
		t := math.Trunc(f)
		bi, _ := new(big.Float).SetFloat64(t).Int(nil)
		if t == f {
			return "(JNum " + vx.ZBig(bi) + ")"
		}
		return "(JFrac " + vx.ZBig(bi) + ")"
	case 's':
		return "(JStr " + coqStr(j.s) + ")"
	case 'a':
		if len(j.arr) == 0 {
			return "(JArr [])"
		}
		return "(JArr " + vx.ListOf(j.arr, func(e *jt) string { return e.coq() }) + ")"
	}
	if len(j.keys) == 0 {
		return "(JObj [])"
	}
	items := make([]string, len(j.keys))
	for i := range j.keys {
		items[i] = vx.Pair(coqStr(j.keys[i]), j.vals[i].coq())
	}
	return "(JObj " + vx.List(items) + ")"
}

// paths enumerates the sub-trees (parent, index) of a document, the root excluded.
type slot struct {
	parent *jt
	idx    int
}

func (j *jt) slots(out *[]slot) {
	for i, e := range j.arr {
		*out = append(*out, slot{j, i})
		e.slots(out)
	}
	for i, e := range j.vals {
		*out = append(*out, slot{j, i})
		e.slots(out)
	}
}

func (s slot) get() *jt {
	if s.parent.k == 'a' {
		return s.parent.arr[s.idx]
	}
	return s.parent.vals[s.idx]
}

func (s slot) set(v *jt) {
	if s.parent.k == 'a' {
		s.parent.arr[s.idx] = v
	} else {
		s.parent.vals[s.idx] = v
	}
}
