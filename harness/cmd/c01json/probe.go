package main

import (
	"context"
	"fmt"
	"math/big"
	"reflect"
	"time"

	"github.com/iotaledger/hive.go/serializer/v2/serix"
)

// probe: reproduces the pinned-tree defects (D02b) on hand-written types and prints conversion facts.
type pInner struct {
	A int8 `serix:""`
}
type pT struct {
	I8   int8           `serix:""`
	U32  uint32         `serix:""`
	I64  int64          `serix:""`
	B    bool           `serix:""`
	Bs   []byte         `serix:""`
	Arr  [2]byte        `serix:""`
	Sl   []int8         `serix:""`
	T    time.Time      `serix:""`
	Big  *big.Int       `serix:""`
	In   pInner         `serix:""`
	Opt  *pInner        `serix:",optional"`
	M    map[string]int8 `serix:""`
	AI   [2]int8        `serix:""`
	If   any            `serix:",optional"`
}

func tryDecode(api *serix.API, doc string, dst any) (out string) {
	defer func() {
		if r := recover(); r != nil {
			out = fmt.Sprintf("PANIC %v", r)
		}
	}()
	if err := api.JSONDecode(context.Background(), []byte(doc), dst); err != nil {
		s := err.Error()
		if len(s) > 90 {
			s = s[:90]
		}
		return "ERR " + s
	}
	return fmt.Sprintf("OK %+v", reflect.ValueOf(dst).Elem().Interface())
}

func probe() {
	api := serix.NewAPI()
	good := `{"i8":1,"u32":2,"i64":"3","b":true,"bs":"0x01","arr":"0x0102","sl":[1,2],"t":"5","big":"0x7","in":{"a":1},"m":{"k":1},"aI":[1,2]}`
	v := pT{I8: 1, U32: 2, I64: 3, B: true, Bs: []byte{1}, Arr: [2]byte{1, 2}, Sl: []int8{1, 2}, T: time.Unix(0, 5), Big: big.NewInt(7), In: pInner{1}, M: map[string]int8{"k": 1}, AI: [2]int8{1, 2}}
	b, err := api.JSONEncode(context.Background(), &v)
	fmt.Println("ENC", string(b), err)
	fmt.Println("good:", tryDecode(api, good, &pT{}))
	for _, c := range [][2]string{
		{"i8", `"x"`}, {"i8", `null`}, {"u32", `"x"`}, {"i64", `3`}, {"b", `"x"`}, {"b", `null`}, {"bs", `1`}, {"arr", `1`},
		{"sl", `1`}, {"sl", `null`}, {"sl", `""`}, {"sl", `{}`}, {"sl", `"ab"`}, {"sl", `{"a":1}`}, {"t", `5`}, {"big", `7`}, {"in", `1`}, {"m", `1`}, {"aI", `1`},
		{"i8", `300`}, {"i8", `1.9`}, {"i8", `-1.9`}, {"i8", `3e9`}, {"i8", `1e30`}, {"u32", `-1`}, {"u32", `5e9`}, {"u32", `1e19`}, {"u32", `1e30`}, {"u32", `-1e30`},
		{"i64", `"+5"`}, {"i64", `"-0"`}, {"i64", `""`}, {"i64", `"9223372036854775808"`}, {"t", `"18446744073709551615"`}, {"big", `"0x"`}, {"big", `"0x00"`}, {"arr", `"0x010203"`}, {"arr", `"0x01"`}, {"arr", `""`}, {"bs", `"0X0a"`}, {"bs", `"0x0A"`}, {"bs", `"0x"`},
		{"aI", `[5,6]`}, {"aI", `[5,6,7]`},
	} {
		var m map[string]any
		_ = m
		doc := replaceKey(good, c[0], c[1])
		fmt.Printf("%-4s := %-26s %s\n", c[0], c[1], tryDecode(api, doc, &pT{}))
	}
	fmt.Println("missing i8:", tryDecode(api, `{}`, &pT{}))
	fmt.Println("toplevel null:", tryDecode(api, `null`, &pT{}))
	fmt.Println("toplevel arr:", tryDecode(api, `[]`, &pT{}))
	fmt.Println("huge:", tryDecode(api, `{"zz":1e400}`, &pT{}))
	// conversions
	for _, f := range []float64{300, -129, 1.9, -1.9, 3e9, -3e9, 5e9, 1e19, -1e19, 1e30, 4294967296 + 7, 9007199254740992, -1, 65536 + 3, 2147483648, -2147483649} {
		fmt.Printf("f=%v i8=%d i16=%d i32=%d u8=%d u16=%d u32=%d\n", f, cvI8(f), cvI16(f), cvI32(f), cvU8(f), cvU16(f), cvU32(f))
	}
}

//go:noinline
func cvI8(f float64) int8 { return int8(f) }

//go:noinline
func cvI16(f float64) int16 { return int16(f) }

//go:noinline
func cvI32(f float64) int32 { return int32(f) }

//go:noinline
func cvU8(f float64) uint8 { return uint8(f) }

//go:noinline
func cvU16(f float64) uint16 { return uint16(f) }

//go:noinline
func cvU32(f float64) uint32 { return uint32(f) }
