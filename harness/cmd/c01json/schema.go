package main

import (
	"fmt"
	"math/big"
	"reflect"
	"sort"
	"strconv"
	"strings"
	"time"

	"github.com/iotaledger/hive.go/serializer/v2/serix"

	"verif/harness/vx"
)

// Schema is the random type shape; the Go type is built from it with reflect and the same shape is printed
// as a Coq term of type Model.schema, so the two cannot drift.
type Schema struct {
	Kind   string // bool num i64 u64 str bytes barr u256 time struct slice arr map iface barrx
	RegKey string // barrx / coded bytes: field key in the registered type settings ("" = none: the default key "data")
	Coded  bool   // bytes: []byte has registered type settings with an object code in this case (object form)
	Named  bool   // bytes (always Coded): the hand-written zoo type zooNB = []zooB with `type zooB uint8` (not assignable to []byte)
	NK     string // I8 I16 I32 U8 U16 U32
	N      int    // barr / arr length
	Ptr    bool   // struct behind a pointer
	Code   int64  // object code (-1: none)
	CodeU8 bool   // registered as uint8 (else uint32)
	Fields []*Field
	Elem   *Schema
	Key    *Schema
	Alts   []*Schema // iface: the registered alternatives (shared per case)
	T      reflect.Type
}

type Field struct {
	Name   string
	TagKey string // explicit key in the serix tag ("" = derived from the name)
	Opt    bool
	Omit   bool // serix tag "omitempty" (never together with Opt)
	Inline bool // serix tag "inlined" (struct by value or pointer): its entries live in the enclosing object
	Emb    bool // embedded (anonymous) struct field; without Inline its entries are flattened too and its object code is ignored
	S      *Schema
}

// flat: the entries of the field's struct are written into / read from the enclosing object: a plain embedded struct,
// or an inlined field WITHOUT an explicit key (with a key, "inlined" makes it an ordinary nested field under that key;
// the decoder disagreed before 18e6a53).
func (f *Field) flat() bool { return (f.Emb && !f.Inline) || (f.Inline && f.TagKey == "") }

// hasTypeKey: the flattened keys of the struct include "type" (its own code counts unless it is a plain embedded struct).
func (s *Schema) hasTypeKey(plainEmb bool) bool {
	if s.Code >= 0 && !plainEmb {
		return true
	}
	for _, f := range s.Fields {
		if f.flat() {
			if f.S.hasTypeKey(f.Emb && !f.Inline) {
				return true
			}
		} else if f.Key() == "type" {
			return true
		}
	}
	return false
}

var (
	tBool   = reflect.TypeOf(false)
	tString = reflect.TypeOf("")
	tBytes  = reflect.TypeOf([]byte(nil))
	tBig    = reflect.TypeOf((*big.Int)(nil))
	tTime   = reflect.TypeOf(time.Time{})
	tAny    = reflect.TypeOf((*any)(nil)).Elem()
	numT    = map[string]reflect.Type{
		"I8": reflect.TypeOf(int8(0)), "I16": reflect.TypeOf(int16(0)), "I32": reflect.TypeOf(int32(0)),
		"U8": reflect.TypeOf(uint8(0)), "U16": reflect.TypeOf(uint16(0)), "U32": reflect.TypeOf(uint32(0)),
	}
)

// zoo of hand-written named types (reflect cannot create named types)
type zooB uint8
type zooNB []zooB
type zooNA [3]zooB
type zooNP [2]zooB

var tZooNB = reflect.TypeOf(zooNB(nil))

// expectKey: the JSON key serix derives from a field name (written independently of serix.FieldKeyString).
func expectKey(name string) string {
	for _, kw := range [][2]string{{"ID", "Id"}, {"NFT", "Nft"}, {"URL", "Url"}, {"HRP", "Hrp"}} {
		name = strings.ReplaceAll(name, kw[0], kw[1])
	}
	return strings.ToLower(name[:1]) + name[1:]
}

func (f *Field) Key() string {
	if f.TagKey != "" {
		return f.TagKey
	}
	return expectKey(f.Name)
}

// build computes the Go types bottom-up.
func (s *Schema) build() reflect.Type {
	if s.T != nil {
		return s.T
	}
	switch s.Kind {
	case "bool":
		s.T = tBool
	case "num":
		s.T = numT[s.NK]
	case "i64":
		s.T = reflect.TypeOf(int64(0))
	case "u64":
		s.T = reflect.TypeOf(uint64(0))
	case "str":
		s.T = tString
	case "bytes":
		s.T = tBytes
		if s.Named {
			s.T = tZooNB
		}
	case "barr":
		s.T = reflect.ArrayOf(s.N, numT["U8"])
	case "barrx": // [N]byte with registered object code and/or behind a pointer
		s.T = reflect.ArrayOf(s.N, numT["U8"])
		if s.Ptr {
			s.T = reflect.PointerTo(s.T)
		}
	case "u256":
		s.T = tBig
	case "time":
		s.T = tTime
	case "struct":
		fs := make([]reflect.StructField, len(s.Fields))
		for i, f := range s.Fields {
			tag := f.TagKey
			if f.Opt {
				tag += ",optional"
			}
			if f.Omit {
				tag += ",omitempty"
			}
			if f.Inline {
				tag += ",inlined"
			}
			fs[i] = reflect.StructField{Name: f.Name, Type: f.S.build(), Tag: reflect.StructTag(`serix:"` + tag + `"`), Anonymous: f.Emb}
		}
		s.T = reflect.StructOf(fs)
		if s.Ptr {
			s.T = reflect.PointerTo(s.T)
		}
	case "slice":
		s.T = reflect.SliceOf(s.Elem.build())
	case "arr":
		s.T = reflect.ArrayOf(s.N, s.Elem.build())
	case "map":
		s.T = reflect.MapOf(s.Key.build(), s.Elem.build())
	case "iface":
		for _, a := range s.Alts {
			a.build()
		}
		s.T = tAny
	default:
		panic("kind " + s.Kind)
	}
	return s.T
}

func (s *Schema) structType() reflect.Type {
	if s.Ptr {
		return s.T.Elem()
	}
	return s.T
}

// register walks the schema and registers object codes / interface alternatives on the fresh API.
func (s *Schema) register(api *serix.API, seen map[*Schema]bool) {
	if seen[s] {
		return
	}
	seen[s] = true
	switch s.Kind {
	case "struct":
		if s.Code >= 0 {
			var code any = uint32(s.Code)
			if s.CodeU8 {
				code = uint8(s.Code)
			}
			must(api.RegisterTypeSettings(reflect.New(s.structType()).Elem().Interface(), serix.TypeSettings{}.WithObjectType(code)))
		}
		for _, f := range s.Fields {
			f.S.register(api, seen)
		}
	case "bytes":
		if s.Coded {
			var code any = uint32(s.Code)
			if s.CodeU8 {
				code = uint8(s.Code)
			}
			ts := serix.TypeSettings{}.WithObjectType(code)
			if s.RegKey != "" {
				ts = ts.WithFieldKey(s.RegKey)
			}
			if s.Named {
				_ = api.RegisterTypeSettings(zooNB(nil), ts)
			} else {
				_ = api.RegisterTypeSettings([]byte(nil), ts) // one registration per case: every []byte of the case is coded
			}
		}
	case "barrx":
		if s.Code >= 0 {
			var code any = uint32(s.Code)
			if s.CodeU8 {
				code = uint8(s.Code)
			}
			ts := serix.TypeSettings{}.WithObjectType(code)
			if s.RegKey != "" {
				ts = ts.WithFieldKey(s.RegKey)
			}
			// all [N]byte of one case share the array type and hence the settings: a second registration is refused
			_ = api.RegisterTypeSettings(reflect.New(reflect.ArrayOf(s.N, numT["U8"])).Elem().Interface(), ts)
		}
	case "slice", "arr":
		s.Elem.register(api, seen)
	case "map":
		s.Key.register(api, seen)
		s.Elem.register(api, seen)
	case "iface":
		if len(s.Alts) > 0 && !seen[s.Alts[0]] {
			objs := []any{}
			for _, a := range s.Alts {
				a.register(api, seen)
				objs = append(objs, reflect.New(a.T).Elem().Interface())
			}
			must(api.RegisterInterfaceObjects((*any)(nil), objs...))
		}
	}
}

func (s *Schema) depth() int {
	d := 0
	for _, f := range s.Fields {
		d = max(d, f.S.depth())
	}
	if s.Elem != nil {
		d = max(d, s.Elem.depth())
	}
	if s.Kind == "iface" {
		for _, a := range s.Alts {
			d = max(d, a.depth())
		}
	}
	return d + 1
}

// ---------- Coq printing ----------

func coqStr(s string) string {
	plain := true
	for _, c := range []byte(s) {
		if c < 32 || c > 126 {
			plain = false
		}
	}
	if plain {
		return `"` + strings.ReplaceAll(s, `"`, `""`) + `"%string`
	}
	return "(bs " + vx.Bytes([]byte(s)) + ")"
}

func (s *Schema) coq() string { return s.coqCode(true) }

// coqCode prints the schema; withCode=false drops the object code of a struct (plain embedded struct).
func (s *Schema) coqCode(withCode bool) string {
	switch s.Kind {
	case "bool":
		return "SBool"
	case "num":
		return "(SNum " + s.NK + ")"
	case "i64":
		return "SI64"
	case "u64":
		return "SU64"
	case "str":
		return "SString"
	case "bytes":
		if s.Coded {
			key := s.RegKey
			if key == "" {
				key = "data"
			}
			return "(SBytesO " + vx.N(uint64(s.Code)) + " " + coqStr(key) + " " + vx.Bool(s.Named) + ")"
		}
		return "SBytes"
	case "barr":
		return "(SByteArr " + vx.Nat(s.N) + ")"
	case "barrx":
		key := s.RegKey
		if key == "" {
			key = "data"
		}
		return s.coqBarrx(key)
	case "u256":
		return "SU256"
	case "time":
		return "STime"
	case "struct":
		code := "None"
		if s.Code >= 0 && withCode {
			code = "(Some " + vx.N(uint64(s.Code)) + ")"
		}
		fs := vx.ListOf(s.Fields, func(f *Field) string {
			m := "FReq"
			if f.Opt {
				m = "FOptional"
			}
			if f.Omit {
				m = "FOmit"
			}
			if f.flat() {
				// the field key is unused; the type settings (object code) of a plain embedded struct are not consulted
				return `(""%string, FInline, ` + f.S.coqCode(f.Inline) + ")"
			}
			if f.S.Kind == "bytes" && f.S.Coded && f.TagKey != "" {
				return "(" + coqStr(f.Key()) + ", " + m + ", (SBytesO " + vx.N(uint64(f.S.Code)) + " " + coqStr(f.TagKey) + " " + vx.Bool(f.S.Named) + "))"
			}
			if f.S.Kind == "barrx" && !f.S.Ptr && f.S.Code >= 0 && f.TagKey != "" {
				// a by-value array in a struct field: the field's type settings are merged over the registered ones, so
				// an explicit tag key also becomes the key of the hex string inside the object
				return "(" + coqStr(f.Key()) + ", " + m + ", " + f.S.coqBarrx(f.TagKey) + ")"
			}
			return "(" + coqStr(f.Key()) + ", " + m + ", " + f.S.coq() + ")"
		})
		if len(s.Fields) == 0 {
			fs = "[]"
		}
		return "(SStruct " + vx.Bool(s.Ptr) + " " + code + " " + fs + ")"
	case "slice":
		return "(SSlice " + s.Elem.coq() + ")"
	case "arr":
		return "(SArr " + vx.Nat(s.N) + " " + s.Elem.coq() + ")"
	case "map":
		return "(SMap " + s.Key.coq() + " " + s.Elem.coq() + ")"
	case "iface":
		as := vx.ListOf(s.Alts, func(a *Schema) string { return "(" + vx.N(uint64(a.Code)) + ", " + a.coq() + ")" })
		if len(s.Alts) == 0 {
			as = "[]"
		}
		return "(SIface " + as + ")"
	}
	panic("kind")
}

func (s *Schema) coqBarrx(key string) string {
	code := "None"
	if s.Code >= 0 {
		code = "(Some " + vx.N(uint64(s.Code)) + ")"
	}
	return "(SByteArrO " + vx.Bool(s.Ptr) + " " + vx.Nat(s.N) + " " + code + " " + coqStr(key) + ")"
}

func timeNanos(t time.Time) *big.Int {
	n := new(big.Int).Mul(big.NewInt(t.Unix()), big.NewInt(1_000_000_000))
	return n.Add(n, big.NewInt(int64(t.Nanosecond())))
}

// keyString is the canonical JSON key of a map key value (written independently of serix), used to sort.
func keyString(s *Schema, v reflect.Value) string {
	switch s.Kind {
	case "str":
		return v.String()
	case "i64":
		return strconv.FormatInt(v.Int(), 10)
	case "u64":
		return strconv.FormatUint(v.Uint(), 10)
	case "barr":
		if s.N == 0 {
			return ""
		}
		b := make([]byte, s.N)
		reflect.Copy(reflect.ValueOf(b), v)
		return "0x" + fmt.Sprintf("%x", b)
	case "time":
		n := timeNanos(v.Interface().(time.Time))
		return n.String()
	}
	return fmt.Sprint(v.Interface())
}

// term prints a Go value of the schema's type as a Coq Model.value (nil and empty slices coincide;
// map entries sorted by canonical key).
func term(s *Schema, v reflect.Value) string {
	switch s.Kind {
	case "bool":
		return "(VBool " + vx.Bool(v.Bool()) + ")"
	case "num", "i64":
		if s.Kind == "num" && s.NK[0] == 'U' {
			return "(VInt " + vx.ZU(v.Uint()) + ")"
		}
		return "(VInt " + vx.Z(v.Int()) + ")"
	case "u64":
		return "(VInt " + vx.ZU(v.Uint()) + ")"
	case "str":
		return "(VStr " + coqStr(v.String()) + ")"
	case "bytes":
		return "(VStr " + coqStr(string(v.Bytes())) + ")"
	case "barr":
		b := make([]byte, s.N)
		reflect.Copy(reflect.ValueOf(b), v)
		return "(VStr " + coqStr(string(b)) + ")"
	case "barrx":
		if s.Ptr {
			if v.IsNil() {
				return "VNil"
			}
			v = v.Elem()
		}
		b := make([]byte, s.N)
		reflect.Copy(reflect.ValueOf(b), v)
		if s.Ptr {
			return "(VPtr (VStr " + coqStr(string(b)) + "))"
		}
		return "(VStr " + coqStr(string(b)) + ")"
	case "u256":
		if v.IsNil() {
			return "VNil"
		}
		return "(VInt " + vx.ZBig(v.Interface().(*big.Int)) + ")"
	case "time":
		return "(VInt " + vx.ZBig(timeNanos(v.Interface().(time.Time))) + ")"
	case "struct":
		if s.Ptr {
			if v.IsNil() {
				return "VNil"
			}
			v = v.Elem()
		}
		items := make([]string, len(s.Fields))
		for i, f := range s.Fields {
			items[i] = term(f.S, v.Field(i))
		}
		body := "(VList " + vx.List(items) + ")"
		if len(items) == 0 {
			body = "(VList [])"
		}
		if s.Ptr {
			return "(VPtr " + body + ")"
		}
		return body
	case "slice", "arr":
		items := make([]string, v.Len())
		for i := range items {
			items[i] = term(s.Elem, v.Index(i))
		}
		if len(items) == 0 {
			return "(VList [])"
		}
		return "(VList " + vx.List(items) + ")"
	case "map":
		type kv struct{ k, t string }
		var es []kv
		it := v.MapRange()
		for it.Next() {
			es = append(es, kv{keyString(s.Key, it.Key()), vx.Pair(term(s.Key, it.Key()), term(s.Elem, it.Value()))})
		}
		sort.Slice(es, func(i, j int) bool { return es[i].k < es[j].k })
		if len(es) == 0 {
			return "(VMap [])"
		}
		return "(VMap " + vx.ListOf(es, func(e kv) string { return e.t }) + ")"
	case "iface":
		if v.IsNil() {
			return "VNil"
		}
		e := v.Elem()
		for _, a := range s.Alts {
			if a.T == e.Type() {
				return "(VIface " + vx.N(uint64(a.Code)) + " " + term(a, e) + ")"
			}
		}
		return "(VIface 999999%N VNil)"
	}
	panic("kind")
}

func must(err error) {
	if err != nil {
		panic(err)
	}
}
