// Concurrent families of the C07 harness, each run over every store configuration (env.go):
// conc    - free-running goroutines: several callers on the sequence under test, other sequences (different keys) on the
//
//	same view and on sibling views, sibling views being opened meanwhile; on a buffering store Flush faults and a
//	final phase in which every Flush fails; then power loss, restart, further draws.
//
// windows - a second operation is started at every store-operation boundary of the first caller's operations.
package main

import (
	"fmt"
	"runtime"
	"sync"
	"sync/atomic"
	"time"

	"github.com/iotaledger/hive.go/kvstore"

	"verif/harness/vx"
)

type concSpec struct {
	Callers    int    `json:"callers_on_sequence"`
	Per        int    `json:"next_calls_per_caller"`
	Interval   uint64 `json:"interval"`
	ViewDecoys int    `json:"other_sequences_on_same_view"`
	SibDecoys  int    `json:"other_sequences_on_sibling_views"`
	DecoyPer   int    `json:"ops_per_other_sequence"`
	Siblings   bool   `json:"sibling_views_opened_meanwhile"`
	FaultEvery int    `json:"every_kth_flush_fails,omitempty"`
	Tail       int    `json:"ops_per_goroutine_while_every_flush_fails,omitempty"`
}

var concViewKeys = []string{"sq0", "sq1", "sq2", "sq3", "sq4", "sq5", "sq6", "sq7", "s", "seqq"}

// concRun returns false when the run was judged a failure.
func concRun(st *vx.Stats, c cfg, sp concSpec) bool {
	c.Drop = false // with concurrent writers a failed Flush that discards the whole buffer would lose other writers' accepted Sets
	done := make(chan string, 1)
	var en *env
	go func() { done <- concBody(c, sp, &en) }()
	var why string
	select {
	case why = <-done:
	case <-time.After(60 * time.Second):
		why = "hang: the run did not finish within 60 s"
	}
	st.Count("conc:runs:" + c.family())
	if why == "" {
		return true
	}
	f := map[string]any{"sig": "", "kind": "concurrent callers / concurrent sequences on one store", "store": c, "spec": sp, "why": why}
	if en != nil && why[:4] != "hang" {
		f["other_sequences"] = en.decoyReport()
	}
	st.Fail(f)
	return false
}

func concBody(c cfg, sp concSpec, out **env) string {
	en := newEnv(c)
	*out = en
	seq, _ := kvstore.NewSequence(en.view, key, sp.Interval)
	for i := 0; i < sp.ViewDecoys; i++ {
		en.addDecoy(en.view, en.prefix, concViewKeys[i%len(concViewKeys)], 1+uint64(i%4)/3)
	}
	for i := 0; i < sp.SibDecoys; i++ {
		s, p := en.sibling(siblingNames[i%len(siblingNames)], i%3 == 1)
		en.addDecoy(s, p, []string{"seq", "sb1", "sb2"}[i%3], 1)
	}
	fixed := append([]*decoy(nil), en.decoys...)
	if en.core != nil && sp.FaultEvery > 0 {
		en.core.failEvery = sp.FaultEvery
	}
	outs := make([][]uint64, sp.Callers)
	errs := make([]int, sp.Callers)
	phase := func(per, dper int, withSiblings bool) {
		var wg sync.WaitGroup
		var live atomic.Int32
		for j := 0; j < sp.Callers; j++ {
			wg.Add(1)
			live.Add(1)
			go func(j int) {
				defer wg.Done()
				defer live.Add(-1)
				for k := 0; k < per; k++ {
					if v, err := seq.Next(); err == nil {
						outs[j] = append(outs[j], v)
					} else {
						errs[j]++
					}
				}
			}(j)
		}
		for _, d := range fixed {
			wg.Add(1)
			live.Add(1)
			go func(d *decoy) {
				defer wg.Done()
				defer live.Add(-1)
				for k := 1; k <= dper; k++ {
					switch {
					case k%257 == 0:
						d.op("restart")
					case k%64 == 0:
						d.op("release")
					default:
						d.next()
					}
				}
			}(d)
		}
		if withSiblings {
			wg.Add(1)
			go func() {
				defer wg.Done()
				for n := 0; n < 48 && live.Load() > 0; n++ {
					s, p := en.sibling(siblingNames[n%len(siblingNames)], n%4 == 3)
					if d := en.addDecoy(s, p, fmt.Sprintf("t%02d", n), 2); d != nil {
						d.next()
						d.next()
						d.next()
					}
					ms, mp := en.openSibling("maint/", n%2 == 1)
					en.maintain(ms, mp, "fill")
					en.maintain(ms, mp, maintOps[n%len(maintOps)])
					runtime.Gosched()
				}
			}()
		}
		wg.Wait()
	}
	phase(sp.Per, sp.DecoyPer, sp.Siblings && len(c.Chain) > 0)
	if en.core != nil && sp.Tail > 0 {
		// the disk runs full: no reservation can be made durable any more; then power loss
		en.core.mu.Lock()
		en.core.stickyFail = true
		en.core.mu.Unlock()
		phase(sp.Tail, sp.Tail, false)
		en.core.mu.Lock()
		en.core.stickyFail = false
		en.core.failEvery = 0
		en.core.mu.Unlock()
	}
	en.crash()
	// restart of everything, numbers across one interval
	seen := map[uint64]bool{}
	var max uint64
	total := 0
	for j, l := range outs {
		for k, v := range l {
			if seen[v] {
				return fmt.Sprintf("number %d was handed out twice by the sequence under test", v)
			}
			if k > 0 && l[k-1] >= v {
				return fmt.Sprintf("caller %d received %d after %d", j, v, l[k-1])
			}
			seen[v] = true
			if v > max {
				max = v
			}
			total++
		}
	}
	if en.core == nil && total != sp.Callers*sp.Per {
		return fmt.Sprintf("%d numbers handed out, expected %d", total, sp.Callers*sp.Per)
	}
	seq2, _ := kvstore.NewSequence(en.view, key, sp.Interval)
	for k := uint64(0); k < 2*sp.Interval+2; k++ {
		v, err := seq2.Next()
		if err != nil {
			return "Next failed after the restart without any fault armed"
		}
		if total > 0 && v <= max {
			return fmt.Sprintf("after power loss and restart the sequence under test returned %d; %d had been handed out before", v, max)
		}
		max = v
		total++
	}
	for _, d := range en.decoys {
		d.seq = nil
		for k := uint64(0); k < 2*d.iv+2; k++ {
			d.next()
		}
	}
	if ok, why := en.judgeDecoys(); !ok {
		return why
	}
	if m, ok := en.mark(en.prefix, key); !ok || m <= max {
		return fmt.Sprintf("durable mark of the sequence under test is %d (present=%v) after %d was handed out", m, ok, max)
	}
	if stray := en.strayKeys(); len(stray) > 0 {
		return fmt.Sprintf("the store holds keys %q that belong to no sequence of this run", stray)
	}
	return ""
}

// concCfgs: the configuration shapes of the concurrent families (both ways of opening each level).
func concCfgs(r *vx.Rng) []cfg {
	l := func(n string, abs bool) level { return level{Name: n, Abs: abs} }
	return []cfg{
		{Store: "root"},
		{Store: "realm", Chain: []level{l("seq/", true)}},
		{Store: "realm", Chain: []level{l("db/", r.Bool()), l("seq/", true)}},
		{Store: "realm", Chain: []level{l("a/", true), l("seq/", false)}},
		{Store: "realm", Chain: []level{l("a/", r.Bool()), l("db/", true), l("seq/", false)}},
		{Store: "flush"},
		{Store: "flushrealm", Chain: []level{l("db/", r.Bool()), l("seq/", true)}},
		{Store: "flushrealm", Chain: []level{l("a/", true), l("seq/", false)}},
		{Store: "realm", Debug: vx.Pick(r, []string{"nil", "none", "get", "notset"}), DebugAt: vx.Pick(r, []string{"top", "view"}), Chain: []level{l("db/", r.Bool()), l("seq/", r.Bool())}},
		{Store: vx.Pick(r, []string{"root", "flush"}), Debug: vx.Pick(r, []string{"nil", "all", "set", "get"}), DebugAt: vx.Pick(r, []string{"top", "under"})},
	}
}

// conc: (1) the round-1 family - k goroutines on ONE sequence - on every configuration, now with other sequences and
// sibling views around it; (2) many sequences with different keys hammering one view / sibling views (interval 1..2, so
// nearly every Next goes to the store).
func conc(r *vx.Rng, st *vx.Stats, runs, multiOps int) {
	cfgs := concCfgs(r)
	for i := 0; i < runs; i++ {
		c := cfgs[i%len(cfgs)]
		sp := concSpec{Callers: 2 + r.Intn(7), Per: 50, Interval: vx.Pick(r, []uint64{1, 2, 3, 10})}
		if c.Store != "root" {
			sp.ViewDecoys, sp.SibDecoys, sp.DecoyPer, sp.Siblings = r.Intn(3), r.Intn(3), 60, true
		}
		if c.flush() {
			if r.Bool() {
				sp.FaultEvery = 3 + r.Intn(9)
			}
			sp.Tail = 4 + r.Intn(2*int(sp.Interval)+2)
		}
		concRun(st, c, sp)
	}
	for _, c := range cfgs[1:] {
		sp := concSpec{Callers: 1, Per: multiOps, Interval: 1 + uint64(r.Intn(2)), ViewDecoys: 5 + r.Intn(3), SibDecoys: 1 + r.Intn(3),
			DecoyPer: multiOps, Siblings: r.Bool()}
		if c.flush() {
			sp.Per, sp.DecoyPer = multiOps/4, multiOps/4
			sp.Tail = 6
		}
		st.Count("conc:multi-sequence runs")
		if !concRun(st, c, sp) {
			break // one concrete failing run is enough; the remaining configurations would repeat it
		}
	}
}

// hookStore calls on() before and after every Get/Set of the wrapped store (the store-operation boundaries).
type hookStore struct {
	kvstore.KVStore
	on func()
}

func (h *hookStore) Get(k kvstore.Key) (kvstore.Value, error) {
	h.on()
	v, err := h.KVStore.Get(k)
	h.on()
	return v, err
}

func (h *hookStore) Set(k kvstore.Key, v kvstore.Value) error {
	h.on()
	err := h.KVStore.Set(k, v)
	h.on()
	return err
}

// windows: a second caller (Next or Release on the same object; on the other configurations also "env": a sibling view is
// opened and other sequences on it and on the same view draw numbers) is started exactly at a store-operation boundary of
// the first caller's Next/Release (on a buffering store also before/after the backend's Set and Flush) and given 20 ms to
// run. With the object's mutex held across the store access (as the model assumes: operations on one object are serial)
// an intruder on the same object just blocks until the first caller is done; if some store access happens outside the
// critical section the intruder runs inside the window. Afterwards power loss, a new object, and enough numbers are
// drawn to cross one interval: no number may ever repeat.
func windows(r *vx.Rng, st *vx.Stats, lists int, c cfg) {
	for i := 0; i < lists; i++ {
		interval := vx.Pick(r, []uint64{2, 3, 10})
		nops := 2 + r.Intn(4)
		ops := make([]string, nops)
		for j := range ops {
			ops[j] = vx.Pick(r, []string{"next", "next", "release"})
		}
		intruders := []string{"next", "release"}
		if c.Store != "root" {
			intruders = append(intruders, "env")
		}
		// dry run counts the store-operation boundaries of this op list; then every boundary x intruder is tried
		n := windowRun(st, c, interval, ops, -1, "")
		for at := int64(0); at < n; at++ {
			for _, op := range intruders {
				windowRun(st, c, interval, ops, at, op)
			}
		}
	}
}

func windowRun(st *vx.Stats, c cfg, interval uint64, ops []string, at int64, intruder string) int64 {
	en := newEnv(c)
	hs := &hookStore{KVStore: en.view, on: func() {}}
	if en.core != nil {
		en.core.on = func() { hs.on() }
	}
	seq, _ := kvstore.NewSequence(hs, key, interval)
	var viewDecoy *decoy
	if c.Store != "root" {
		viewDecoy = en.addDecoy(en.view, en.prefix, "sq1", 1)
	}
	var mu sync.Mutex
	var all []uint64
	record := func(v uint64) { mu.Lock(); all = append(all, v); mu.Unlock() }
	var calls atomic.Int64
	var intruding atomic.Bool
	var wg sync.WaitGroup
	hs.on = func() {
		if intruding.Load() {
			return
		}
		if calls.Add(1)-1 != at {
			return
		}
		done := make(chan struct{})
		wg.Add(1)
		intruding.Store(true)
		go func() {
			defer wg.Done()
			switch intruder {
			case "next":
				if v, err := seq.Next(); err == nil {
					record(v)
				}
			case "release":
				_ = seq.Release()
			case "env":
				s, p := en.sibling(siblingNames[int(at)%len(siblingNames)], at%3 == 2)
				if d := en.addDecoy(s, p, sibKeys[int(at)%len(sibKeys)], 1); d != nil {
					d.next()
					d.next()
				}
				viewDecoy.next()
				ms, mp := en.openSibling("maint/", at%2 == 1)
				en.maintain(ms, mp, "fill")
				en.maintain(ms, mp, maintOps[int(at)%len(maintOps)])
			}
			intruding.Store(false)
			close(done)
		}()
		select {
		case <-done:
		case <-time.After(20 * time.Millisecond):
		}
	}
	for _, op := range ops {
		if op == "next" {
			if v, err := seq.Next(); err == nil {
				record(v)
			}
		} else {
			_ = seq.Release()
		}
		wg.Wait()
	}
	hs.on = func() {}
	en.crash()
	seq2, _ := kvstore.NewSequence(hs, key, interval)
	for k := uint64(0); k < 2*interval+2; k++ {
		if v, err := seq2.Next(); err == nil {
			record(v)
		}
	}
	for _, d := range en.decoys {
		d.seq = nil
		d.next()
		d.next()
	}
	if at < 0 {
		return calls.Load()
	}
	seen := map[uint64]bool{}
	why := ""
	for _, v := range all {
		if seen[v] {
			why = "a number was handed out twice"
		}
		seen[v] = true
	}
	if why == "" {
		if ok, w := en.judgeDecoys(); !ok {
			why = w
		} else if stray := en.strayKeys(); len(stray) > 0 {
			why = fmt.Sprintf("the store holds keys %q that belong to no sequence of this run", stray)
		}
	}
	st.Count("windows:runs:" + c.family())
	if why != "" {
		st.Fail(map[string]any{"sig": "", "kind": "second operation started at a store-operation boundary of the first", "store": c, "interval": interval,
			"ops": ops, "intruder": intruder, "at_store_boundary": at, "returned": all, "why": why, "other_sequences": en.decoyReport()})
	}
	return calls.Load()
}
