// Store configurations for the C07 harness (round 4): the Sequence is run not only on a bare root mapdb but on the
// stores a deployment uses: nested realm views (WithRealm / WithExtendedRealm chains whose realm slices have spare
// capacity, sibling views opened while the Sequence is alive, several Sequences with different keys on one view and on
// sibling views) and a flushkv store over a harness-made write-buffering backend that loses unflushed writes at a crash
// (power-loss model) and whose Flush can fail after the Set was accepted.
//
// In every configuration the harness reads the DURABLE mark of a sequence directly from the bare root mapdb under the
// full key (realm prefix ++ key) it computed itself from its own strings - never through the view under test.
package main

import (
	"encoding/binary"
	"errors"
	"fmt"
	"sort"
	"strings"
	"sync"
	"sync/atomic"

	"github.com/iotaledger/hive.go/kvstore"
	"github.com/iotaledger/hive.go/kvstore/debug"
	"github.com/iotaledger/hive.go/kvstore/flushkv"
	"github.com/iotaledger/hive.go/kvstore/mapdb"
)

var errFlush = errors.New("injected flush fault")
var errUnsupported = errors.New("not supported by the harness backend")

// ---------------------------------------------------------------- write-buffering backend

type pend struct {
	under kvstore.KVStore // the mapdb view the write belongs to
	full  string
	key   []byte
	val   []byte
}

// bufCore: root = what is durable; pending = accepted but unflushed writes (lost at a crash).
type bufCore struct {
	mu         sync.Mutex
	root       kvstore.KVStore
	pending    []pend
	failFlush  bool // one-shot: the next Flush fails
	stickyFail bool // every Flush fails
	failEvery  int  // every k-th Flush fails (0 = off)
	drop       bool // a failed Flush discards the buffer (failed commit is rolled back) instead of keeping it
	flushes    int
	failed     int
	on         func() // called before and after every backend Set / Flush (store-operation boundaries)
}

func (c *bufCore) hook() {
	if c.on != nil {
		c.on()
	}
}

func (c *bufCore) crash() {
	c.mu.Lock()
	c.pending = nil
	c.mu.Unlock()
}

func (c *bufCore) buffered() int {
	c.mu.Lock()
	defer c.mu.Unlock()
	return len(c.pending)
}

// bufStore is one view (realm) of the backend.
type bufStore struct {
	c     *bufCore
	under kvstore.KVStore
	realm []byte
}

func (b *bufStore) full(k []byte) string { return string(b.realm) + string(k) }

func (b *bufStore) WithRealm(realm kvstore.Realm) (kvstore.KVStore, error) {
	u, err := b.c.root.WithRealm(realm) // the caller's slice goes to mapdb unchanged
	if err != nil {
		return nil, err
	}
	return &bufStore{c: b.c, under: u, realm: append([]byte(nil), realm...)}, nil
}

func (b *bufStore) WithExtendedRealm(realm kvstore.Realm) (kvstore.KVStore, error) {
	u, err := b.under.WithExtendedRealm(realm)
	if err != nil {
		return nil, err
	}
	return &bufStore{c: b.c, under: u, realm: append(append([]byte(nil), b.realm...), realm...)}, nil
}

func (b *bufStore) Realm() kvstore.Realm { return append([]byte(nil), b.realm...) }

func (b *bufStore) Get(key kvstore.Key) (kvstore.Value, error) {
	f := b.full(key)
	b.c.mu.Lock()
	for i := len(b.c.pending) - 1; i >= 0; i-- {
		if p := b.c.pending[i]; p.full == f {
			b.c.mu.Unlock()
			if p.val == nil {
				return nil, kvstore.ErrKeyNotFound
			}
			return append([]byte(nil), p.val...), nil
		}
	}
	b.c.mu.Unlock()
	return b.under.Get(key)
}

func (b *bufStore) Has(key kvstore.Key) (bool, error) {
	_, err := b.Get(key)
	if errors.Is(err, kvstore.ErrKeyNotFound) {
		return false, nil
	}
	return err == nil, err
}

func (b *bufStore) put(key, val []byte) {
	b.c.hook()
	b.c.mu.Lock()
	b.c.pending = append(b.c.pending, pend{under: b.under, full: b.full(key), key: append([]byte(nil), key...), val: val})
	b.c.mu.Unlock()
	b.c.hook()
}

func (b *bufStore) Set(key kvstore.Key, value kvstore.Value) error {
	b.put(key, append([]byte{}, value...))
	return nil
}

func (b *bufStore) Delete(key kvstore.Key) error {
	b.put(key, nil)
	return nil
}

func (b *bufStore) Flush() error {
	b.c.hook()
	defer b.c.hook()
	b.c.mu.Lock()
	defer b.c.mu.Unlock()
	b.c.flushes++
	if b.c.failFlush || b.c.stickyFail || (b.c.failEvery > 0 && b.c.flushes%b.c.failEvery == 0) {
		b.c.failFlush = false
		b.c.failed++
		if b.c.drop {
			b.c.pending = nil
		}
		return errFlush
	}
	for _, p := range b.c.pending {
		var err error
		if p.val == nil {
			err = p.under.Delete(p.key)
		} else {
			err = p.under.Set(p.key, p.val)
		}
		if err != nil {
			return err
		}
	}
	b.c.pending = nil
	return nil
}

func (b *bufStore) Iterate(kvstore.KeyPrefix, kvstore.IteratorKeyValueConsumerFunc, ...kvstore.IterDirection) error {
	return errUnsupported
}
func (b *bufStore) IterateKeys(kvstore.KeyPrefix, kvstore.IteratorKeyConsumerFunc, ...kvstore.IterDirection) error {
	return errUnsupported
}
func (b *bufStore) Clear() error                               { return errUnsupported }
func (b *bufStore) DeletePrefix(kvstore.KeyPrefix) error       { return errUnsupported }
func (b *bufStore) Close() error                               { return nil }
func (b *bufStore) Batched() (kvstore.BatchedMutations, error) { return nil, errUnsupported }

// ---------------------------------------------------------------- configurations

type level struct {
	Name string `json:"realm"`
	Abs  bool   `json:"abs,omitempty"` // opened by top.WithRealm(whole prefix) instead of parent.WithExtendedRealm(name)
}

type cfg struct {
	Store string  `json:"store"` // root | realm | flush | flushrealm
	Drop  bool    `json:"failed_flush_drops_buffer,omitempty"`
	Chain []level `json:"chain,omitempty"`
	// Debug != "": a kvstore/debug tracing wrapper is part of the stack. nil = nil callback; otherwise a counting
	// callback with the commands filter all | none | get | set | notset (everything but Set).
	Debug string `json:"debug_wrapper,omitempty"`
	// DebugAt: top = debug.New(top store) (realm views are then opened through the wrapper); view = debug.New(final view);
	// under = flushkv.New(debug.New(backend)) (buffering stores only, otherwise as top)
	DebugAt string `json:"debug_at,omitempty"`
}

func (c cfg) flush() bool { return c.Store == "flush" || c.Store == "flushrealm" }

// family: the configuration family a run is counted under.
func (c cfg) family() string {
	if c.Debug != "" {
		return "debug"
	}
	return c.Store
}

var debugCalls atomic.Int64

func (c cfg) wrapDebug(s kvstore.KVStore) kvstore.KVStore {
	cb := func(debug.Command, ...[]byte) { debugCalls.Add(1) }
	switch c.Debug {
	case "nil":
		return debug.New(s, nil)
	case "all":
		return debug.New(s, cb)
	case "none":
		return debug.New(s, cb, debug.ShutdownCommand) // the empty filter
	case "get":
		return debug.New(s, cb, debug.GetCommand)
	case "set":
		return debug.New(s, cb, debug.SetCommand)
	case "notset":
		return debug.New(s, cb, debug.AllCommands&^debug.SetCommand)
	}
	return s
}

func (c cfg) String() string {
	s := c.Store
	if c.Debug != "" {
		s = "debug(" + c.Debug + "@" + c.DebugAt + ")+" + s
	}
	if c.flush() {
		if c.Drop {
			s += "/drop"
		} else {
			s += "/keep"
		}
	}
	for _, l := range c.Chain {
		if l.Abs {
			s += ":=" + l.Name
		} else {
			s += ":+" + l.Name
		}
	}
	return s
}

// spare returns the bytes of s in a slice with spare capacity (the shape `make([]byte,0,32)` + append gives).
func spare(s string) []byte {
	b := make([]byte, 0, 32+len(s))
	return append(b, s...)
}

type decoy struct {
	Key     string `json:"key"`
	Prefix  string `json:"realm"`
	store   kvstore.KVStore
	seq     *kvstore.Sequence
	iv      uint64
	base    uint64
	nums    []uint64
	retired bool // its realm was emptied by its owner
}

type env struct {
	cfg          cfg
	root         kvstore.KVStore // bare mapdb = the durable contents
	core         *bufCore
	top          kvstore.KVStore
	parent       kvstore.KVStore
	parentPrefix string
	view         kvstore.KVStore
	prefix       string
	decoys       []*decoy
	nsib         int
	sibs         []sibRef
	allowed      map[string]bool // further full keys the durable root may hold (data written by maintenance operations)
}

type sibRef struct {
	store  kvstore.KVStore
	prefix string
}

func must(s kvstore.KVStore, err error) kvstore.KVStore {
	if err != nil {
		panic(err)
	}
	return s
}

func newEnv(c cfg) *env {
	e := &env{cfg: c, root: mapdb.NewMapDB()}
	e.top = e.root
	e.allowed = map[string]bool{}
	if c.flush() {
		e.core = &bufCore{root: e.root, drop: c.Drop}
		var back kvstore.KVStore = &bufStore{c: e.core, under: e.root}
		if c.DebugAt == "under" {
			back = c.wrapDebug(back)
		}
		e.top = flushkv.New(back)
	}
	if c.DebugAt == "top" || (c.DebugAt == "under" && !c.flush()) {
		e.top = c.wrapDebug(e.top)
	}
	cur, prefix := e.top, ""
	for _, l := range c.Chain {
		e.parent, e.parentPrefix = cur, prefix
		if l.Abs {
			cur = must(e.top.WithRealm(spare(prefix + l.Name)))
		} else {
			cur = must(cur.WithExtendedRealm(spare(l.Name)))
		}
		prefix += l.Name
	}
	if c.DebugAt == "view" {
		cur = c.wrapDebug(cur)
	}
	e.view, e.prefix = cur, prefix
	return e
}

// mark reads the durable mark under prefix ++ key from the bare root store.
func (e *env) mark(prefix string, k []byte) (uint64, bool) {
	v, err := e.root.Get([]byte(prefix + string(k)))
	if err != nil || len(v) != 8 {
		return 0, false
	}
	return binary.BigEndian.Uint64(v), true
}

// crash: power loss. Unflushed writes are gone; on a buffering store every process (decoy objects too) is gone.
func (e *env) crash() {
	if e.core != nil {
		e.core.crash()
		for _, d := range e.decoys {
			d.seq = nil
		}
	}
}

func (e *env) disarm() {
	if e.core != nil {
		e.core.mu.Lock()
		e.core.failFlush = false
		e.core.mu.Unlock()
	}
}

func (e *env) armFlush() {
	e.core.mu.Lock()
	e.core.failFlush = true
	e.core.mu.Unlock()
}

// sibling opens a view next to the main one (same parent, realm name `name`; name may equal the main leaf: the same
// realm opened a second time).
func (e *env) sibling(name string, abs bool) (kvstore.KVStore, string) {
	s, p := e.openSibling(name, abs)
	e.sibs = append(e.sibs, sibRef{s, p})
	return s, p
}

func (e *env) openSibling(name string, abs bool) (kvstore.KVStore, string) {
	e.nsib++
	if e.parent == nil {
		return must(e.top.WithRealm(spare(name))), name
	}
	if abs {
		return must(e.top.WithRealm(spare(e.parentPrefix + name))), e.parentPrefix + name
	}
	return must(e.parent.WithExtendedRealm(spare(name))), e.parentPrefix + name
}

var maintOps = []string{"delprefix-empty", "delprefix", "clear", "batch", "iterate", "fill"}

// maintain: the owner of view s (realm prefix p) looks after its own data: fills in some keys, iterates, deletes by
// (empty / non-empty) prefix, clears the realm, commits a batch with deletes. Refused when the realm contains the key of
// the sequence under test; so on a store that keeps realms apart it cannot touch the mark. Other sequences living in
// that realm lose their marks legitimately: they are retired (no further use, judged on what they returned so far).
func (e *env) maintain(s kvstore.KVStore, p, op string) bool {
	if p == "" || strings.HasPrefix(e.prefix+string(key), p) {
		return false
	}
	// a write that was attempted may become durable even when the call reported an error: on a buffering store whose
	// failed Flush keeps the buffer, a later successful Flush (of any writer) carries it to the disk
	set := func(k string) {
		e.allowed[p+k] = true
		_ = s.Set([]byte(k), []byte{1, 2, 3})
	}
	retire := func(sub string) {
		for _, d := range e.decoys {
			if strings.HasPrefix(d.Prefix+d.Key, p+sub) {
				d.retired = true
			}
		}
	}
	switch op {
	case "fill":
		set("data1")
		set("data2")
		set("x")
	case "delprefix-empty":
		set("data1")
		retire("")
		_ = s.DeletePrefix(kvstore.EmptyPrefix)
	case "delprefix":
		set("data1")
		retire("s")
		_ = s.DeletePrefix([]byte("s"))
		_ = s.DeletePrefix([]byte("da"))
	case "clear":
		set("data2")
		retire("")
		_ = s.Clear()
	case "batch":
		set("data1")
		if b, err := s.Batched(); err == nil {
			retire("seq")
			_ = b.Delete([]byte("data1"))
			_ = b.Delete([]byte("seq"))
			e.allowed[p+"kept"] = true
			_ = b.Set([]byte("kept"), []byte{9})
			_ = b.Commit()
		}
	case "iterate":
		_ = s.Iterate(kvstore.EmptyPrefix, func(kvstore.Key, kvstore.Value) bool { return true })
		_ = s.IterateKeys([]byte("s"), func(kvstore.Key) bool { return true })
	}
	_ = s.Flush()
	return true
}

// addDecoy registers another Sequence (key k on store s whose realm is prefix). Its mark starts in a number range of
// its own, written directly into the durable root.
func (e *env) addDecoy(s kvstore.KVStore, prefix, k string, iv uint64) *decoy {
	full := prefix + k
	if full == e.prefix+string(key) {
		return nil
	}
	for _, d := range e.decoys {
		if d.Prefix+d.Key == full {
			return nil
		}
	}
	d := &decoy{Key: k, Prefix: prefix, store: s, iv: iv, base: uint64(len(e.decoys)+1) << 40}
	var buf [8]byte
	binary.BigEndian.PutUint64(buf[:], d.base)
	_ = e.root.Set([]byte(full), buf[:])
	e.decoys = append(e.decoys, d)
	return d
}

func (d *decoy) next() {
	if d.retired {
		return
	}
	if d.seq == nil {
		d.seq, _ = kvstore.NewSequence(d.store, []byte(d.Key), d.iv)
	}
	if v, err := d.seq.Next(); err == nil {
		d.nums = append(d.nums, v)
	}
}

func (d *decoy) op(op string) {
	if d.retired {
		return
	}
	switch op {
	case "next":
		d.next()
	case "release":
		if d.seq != nil {
			_ = d.seq.Release()
		}
	case "restart":
		d.seq = nil
	}
}

// judgeDecoys: the property for every other sequence (strictly increasing over all its lifetimes) and isolation (its
// numbers stay in the range its own mark started in: it never adopted another sequence's mark).
func (e *env) judgeDecoys() (bool, string) {
	for _, d := range e.decoys {
		for i, v := range d.nums {
			if i > 0 && v <= d.nums[i-1] {
				return false, fmt.Sprintf("sequence %q in realm %q returned %d after %d", d.Key, d.Prefix, v, d.nums[i-1])
			}
			if v < d.base || v >= d.base+(1<<39) {
				return false, fmt.Sprintf("sequence %q in realm %q (own range starts at %d) returned %d: it read a mark that is not its own", d.Key, d.Prefix, d.base, v)
			}
		}
	}
	return true, ""
}

// strayKeys: keys in the durable root that belong to no sequence of this run (a mark written into a foreign realm).
func (e *env) strayKeys() []string {
	want := map[string]bool{e.prefix + string(key): true}
	for _, d := range e.decoys {
		want[d.Prefix+d.Key] = true
	}
	for k := range e.allowed {
		want[k] = true
	}
	var stray []string
	_ = e.root.IterateKeys(kvstore.EmptyPrefix, func(k kvstore.Key) bool {
		if !want[string(k)] {
			stray = append(stray, string(k))
		}
		return true
	})
	sort.Strings(stray)
	return stray
}

func (e *env) decoyReport() []map[string]any {
	var r []map[string]any
	for _, d := range e.decoys {
		n := d.nums
		if len(n) > 12 {
			n = n[len(n)-12:]
		}
		r = append(r, map[string]any{"key": d.Key, "realm": d.Prefix, "first_mark": d.base, "last_returned": n})
	}
	return r
}
