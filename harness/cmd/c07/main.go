// C07 harness: runs kvstore.Sequence over a store configuration (bare mapdb, nested realm views, flushkv over a
// write-buffering backend: env.go) wrapped by a store that injects faults / crash points, on random event histories;
// records the output of every event and the DURABLE mark after every event.
package main

import (
	"errors"
	"flag"
	"fmt"
	"os"
	"strings"

	"github.com/iotaledger/hive.go/kvstore"

	"verif/harness/vx"
)

var errInjected = errors.New("injected store fault")

// faultStore embeds the real store; Get/Set on the sequence key can be armed to fail.
type faultStore struct {
	kvstore.KVStore
	failGet, failSet bool // return an error without touching the store
	setThenFail      bool // apply the write, then report an error (the process "dies" after the write)
	gets, sets       int
}

func (f *faultStore) Get(k kvstore.Key) (kvstore.Value, error) {
	f.gets++
	if f.failGet {
		f.failGet = false
		return nil, errInjected
	}
	return f.KVStore.Get(k)
}

func (f *faultStore) Set(k kvstore.Key, v kvstore.Value) error {
	f.sets++
	if f.failSet {
		f.failSet = false
		return errInjected
	}
	if f.setThenFail {
		f.setThenFail = false
		if err := f.KVStore.Set(k, v); err != nil {
			return err
		}
		return errInjected
	}
	return f.KVStore.Set(k, v)
}

func (f *faultStore) disarm() { f.failGet, f.failSet, f.setThenFail = false, false, false }

type ev struct {
	Kind string `json:"k"` // new next nextcrash release abandon | environment (not seen by the model): sib dnew dop smaint (F = maintenance op of the owner of sibling view I)
	I    uint64 `json:"i,omitempty"`
	F    string `json:"f,omitempty"` // NoFault FailGet FailSet | AfterRead AfterWrite | fails | sib: realm name | dop: next release restart
	// Via = "flush": the fault is a Flush of the backend that fails after the Set was accepted into the write buffer
	// (FailSet / AfterRead / fails: nothing became durable) instead of a Set that fails before touching the store.
	Via string `json:"via,omitempty"`
	Key string `json:"key,omitempty"` // sib, dnew: key of the other sequence
	Abs bool   `json:"abs,omitempty"` // sib: opened by top.WithRealm(whole prefix)
}

// envEvent: the event acts on the environment of the sequence under test (sibling views, other sequences); the model
// does not see it because it must not influence the sequence.
func (e ev) envEvent() bool {
	return e.Kind == "sib" || e.Kind == "dnew" || e.Kind == "dop" || e.Kind == "smaint"
}

func modelEvents(h []ev) []ev {
	var m []ev
	for _, e := range h {
		if !e.envEvent() {
			m = append(m, e)
		}
	}
	return m
}

func (e ev) coq() string {
	switch e.Kind {
	case "new":
		return "ENew " + vx.N(e.I)
	case "next":
		return "ENext " + e.F
	case "nextcrash":
		return "ENextCrash " + e.F
	case "release":
		return "ERelease " + vx.Bool(e.F == "fails")
	}
	return "EAbandon"
}

var key = []byte("seq")

type obs struct {
	out  string // Coq term of type out
	num  uint64
	isN  bool
	disk string // Coq option N
	wrap bool   // mark + interval of the live object would pass 2^64: outside the no_wrap guard
}

func markTerm(e *env) string {
	m, ok := e.mark(e.prefix, key)
	if !ok {
		return "None"
	}
	return "(Some " + vx.N(m) + ")"
}

// runHistory executes h on the real code over store configuration c. One obs per model event.
func runHistory(c cfg, h []ev) ([]obs, *env) {
	en := newEnv(c)
	fs := &faultStore{KVStore: en.view}
	var seq *kvstore.Sequence
	var res []obs
	var curInterval uint64
	for _, e := range h {
		fs.disarm()
		en.disarm()
		switch e.Kind {
		case "sib":
			s, p := en.sibling(e.F, e.Abs)
			if d := en.addDecoy(s, p, e.Key, 1+e.I%3); d != nil {
				d.next()
			}
			continue
		case "dnew":
			if d := en.addDecoy(en.view, en.prefix, e.Key, 1+e.I%3); d != nil {
				d.next()
			}
			continue
		case "smaint":
			if len(en.sibs) > 0 {
				sb := en.sibs[int(e.I%uint64(len(en.sibs)))]
				en.maintain(sb.store, sb.prefix, e.F)
			}
			continue
		case "dop":
			if len(en.decoys) > 0 {
				en.decoys[int(e.I%uint64(len(en.decoys)))].op(e.F)
			}
			continue
		}
		o := obs{out: "ONone"}
		viaFlush := e.Via == "flush" && en.core != nil
		if (e.Kind == "next" || e.Kind == "nextcrash") && seq != nil {
			m, _ := en.mark(en.prefix, key)
			if m+curInterval < m || m+1 < m {
				o.wrap = true
			}
		}
		switch e.Kind {
		case "new":
			func() {
				defer func() {
					if r := recover(); r != nil {
						o.out = "OPanic"
					}
				}()
				s, err := kvstore.NewSequence(fs, key, e.I)
				if err != nil {
					o.out = "OErr"
					return
				}
				en.crash() // the previous object (if any) is gone with its process
				seq = s
				curInterval = e.I
			}()
		case "abandon":
			seq = nil
			en.crash()
		case "next":
			if seq != nil {
				switch {
				case e.F == "FailGet":
					fs.failGet = true
				case e.F == "FailSet" && viaFlush:
					en.armFlush()
				case e.F == "FailSet":
					fs.failSet = true
				}
				v, err := seq.Next()
				if err != nil {
					o.out = "OErr"
				} else {
					o.out, o.num, o.isN = "(ONum "+vx.N(v)+")", v, true
				}
			}
		case "nextcrash":
			if seq != nil {
				// the process stops inside Next: after the store read (= nothing becomes durable: the Set never happens,
				// or it is only buffered and the Flush does not complete) or right after the (durable) write
				switch {
				case e.F == "AfterRead" && viaFlush:
					en.armFlush()
				case e.F == "AfterRead":
					fs.failSet = true
				default:
					fs.setThenFail = true
				}
				sets := fs.sets
				v, err := seq.Next()
				_ = v
				if err == nil && fs.sets != sets {
					// a store write happened and was not intercepted: impossible by construction
					o.out = "OErr"
				}
				// whatever Next returned is lost with the process (a number handed out here would be a
				// completed Next followed by a crash, which the generator expresses as next+abandon)
				seq = nil
				en.crash()
			}
		case "release":
			if seq != nil {
				if e.F == "fails" {
					if viaFlush {
						en.armFlush()
					} else {
						fs.failSet = true
					}
				}
				if err := seq.Release(); err != nil {
					o.out = "OErr"
				}
			}
		}
		o.disk = markTerm(en)
		res = append(res, o)
	}
	return res, en
}

var intervals = []uint64{1, 1, 2, 3, 10, 1 << 62, 1 << 63, ^uint64(0)}

var siblingNames = []string{"log/", "idx/", "seq/", "sq/", "journal/"}
var viewKeys = []string{"sq1", "sq2", "s", "seqq"}
var sibKeys = []string{"seq", "sq1"}

// genCfg picks a store configuration. Realm chains end in "seq/"; each level is opened either by
// parent.WithExtendedRealm(name) or by top.WithRealm(whole prefix), always from a slice with spare capacity.
func genCfg(r *vx.Rng, store string) cfg {
	c := cfg{Store: store}
	if store == "debug" {
		// the tracing wrapper alone and stacked with realm views / flushkv
		c.Store = vx.Pick(r, []string{"root", "realm", "realm", "flush", "flushrealm"})
		store = c.Store
		c.Debug = vx.Pick(r, []string{"nil", "all", "none", "get", "set", "notset"})
		c.DebugAt = vx.Pick(r, []string{"top", "view", "under"})
	}
	if c.flush() {
		c.Drop = r.Bool()
	}
	if store == "realm" || store == "flushrealm" {
		names := vx.Pick(r, [][]string{{"seq/"}, {"a/", "seq/"}, {"db/", "seq/"}, {"a/", "db/", "seq/"}})
		for _, n := range names {
			c.Chain = append(c.Chain, level{Name: n, Abs: r.Chance(1, 3)})
		}
	}
	return c
}

func genEnvEvent(r *vx.Rng, c cfg) ev {
	switch k := r.Intn(10); {
	case k < 3:
		return ev{Kind: "sib", F: vx.Pick(r, siblingNames), Key: vx.Pick(r, sibKeys), I: uint64(r.Intn(3)), Abs: r.Chance(1, 4)}
	case k < 4:
		return ev{Kind: "smaint", I: uint64(r.Intn(6)), F: vx.Pick(r, maintOps)}
	case k < 6:
		return ev{Kind: "dnew", Key: vx.Pick(r, viewKeys), I: uint64(r.Intn(3))}
	default:
		return ev{Kind: "dop", I: uint64(r.Intn(8)), F: vx.Pick(r, []string{"next", "next", "next", "release", "restart"})}
	}
}

// genHistory: n model events; on every configuration but the bare root, environment events (sibling views opened,
// other sequences created / used / restarted) are interleaved.
func genHistory(r *vx.Rng, n int, c cfg) []ev {
	h := []ev{}
	nm := 0
	via := func() string {
		if c.flush() && r.Chance(2, 3) {
			return "flush"
		}
		return ""
	}
	faultDen := 8
	if c.flush() {
		faultDen = 5
	}
	for nm < n {
		if c.Store != "root" && r.Chance(2, 5) {
			h = append(h, genEnvEvent(r, c))
			continue
		}
		nm++
		k := r.Intn(100)
		forced := false
		switch {
		case k < 14:
			iv := vx.Pick(r, intervals[:5])
			if r.Chance(1, 8) {
				iv = vx.Pick(r, intervals[5:])
			}
			if r.Chance(1, 40) {
				iv = 0
			}
			h = append(h, ev{Kind: "new", I: iv})
		case k < 64:
			e := ev{Kind: "next", F: "NoFault"}
			if r.Chance(1, faultDen) {
				e.F = vx.Pick(r, []string{"FailGet", "FailSet"})
				if e.F == "FailSet" {
					e.Via = via()
				}
			}
			h = append(h, e)
			forced = e.Via == "flush"
		case k < 74:
			e := ev{Kind: "nextcrash", F: vx.Pick(r, []string{"AfterRead", "AfterWrite"})}
			if e.F == "AfterRead" {
				e.Via = via()
			}
			h = append(h, e)
		case k < 90:
			e := ev{Kind: "release", F: "ok"}
			if r.Chance(1, 6) {
				e.F = "fails"
				e.Via = via()
			}
			h = append(h, e)
			forced = e.Via == "flush"
		default:
			h = append(h, ev{Kind: "abandon"})
		}
		// a failed Flush that KEEPS the write buffer leaves reads (buffer) and durable contents apart; the model has one
		// mark, so on that backend the process is stopped (power loss) right after the failed call
		if forced && !c.Drop {
			h = append(h, ev{Kind: "abandon"})
			nm++
		}
	}
	// epilogue: power loss, restart, one number (turns every reservation that is not durable into an observed reuse)
	if r.Chance(3, 4) {
		h = append(h, ev{Kind: "abandon"}, ev{Kind: "new", I: vx.Pick(r, intervals[:5])}, ev{Kind: "next", F: "NoFault"})
	}
	return h
}

// oracle: the property itself on the implementation's outputs (independent of the Coq model):
// returned numbers strictly increasing unless the history wrapped (a returned number went down after passing 2^63
// the guard is evaluated on the observed marks: mark + interval of the live object must stay below 2^64).
func judge(h []ev, o []obs) (bool, string) {
	var last uint64
	have := false
	for i, x := range o {
		if x.wrap {
			return true, "" // mark + interval passes 2^64: outside the no_wrap guard
		}
		if x.isN {
			if have && x.num <= last {
				return false, fmt.Sprintf("event %d returned %d after %d", i, x.num, last)
			}
			last, have = x.num, true
		}
	}
	return true, ""
}

type dcase struct {
	c cfg
	h []ev
}

func directed() []dcase {
	root := cfg{Store: "root"}
	n := ev{Kind: "next", F: "NoFault"}
	d := []dcase{
		// D07 (repaired): Release on a fresh object
		{root, []ev{{Kind: "new", I: 10}, n, {Kind: "abandon"}, {Kind: "new", I: 10}, {Kind: "release", F: "ok"}, {Kind: "abandon"}, {Kind: "new", I: 10}, n}},
		// Release on an exhausted object, then restart
		{root, []ev{{Kind: "new", I: 1}, n, {Kind: "release", F: "ok"}, {Kind: "abandon"}, {Kind: "new", I: 2}, n}},
		// crash at both points
		{root, []ev{{Kind: "new", I: 3}, n, {Kind: "nextcrash", F: "AfterRead"}, {Kind: "new", I: 3}, n, n, n, {Kind: "nextcrash", F: "AfterWrite"}, {Kind: "new", I: 1}, n}},
		// the suite's own maximal interval
		{root, []ev{{Kind: "new", I: ^uint64(0)}, n, n, {Kind: "release", F: "ok"}, {Kind: "abandon"}, {Kind: "new", I: 5}, n}},
	}
	// the same lifecycle on every other configuration shape: lease, sibling views and other sequences in between,
	// lease renewal, every crash point / flush fault, restart
	envd := []ev{{Kind: "new", I: 2}, n, {Kind: "dnew", Key: "sq1"}, {Kind: "sib", F: "log/", Key: "seq"}, {Kind: "sib", F: "seq/", Key: "sq2", Abs: true}, n, n,
		{Kind: "smaint", I: 0, F: "fill"}, {Kind: "smaint", I: 0, F: "iterate"}, {Kind: "smaint", I: 0, F: "delprefix"}, {Kind: "sib", F: "idx/", Key: "sq1"}, {Kind: "smaint", I: 2, F: "batch"}, n,
		{Kind: "smaint", I: 0, F: "delprefix-empty"}, {Kind: "smaint", I: 2, F: "clear"}, {Kind: "smaint", I: 1, F: "clear"},
		{Kind: "dop", I: 0, F: "next"}, {Kind: "dop", I: 1, F: "next"}, n, {Kind: "release", F: "ok"}, {Kind: "dop", I: 1, F: "restart"}, {Kind: "dop", I: 1, F: "next"}, n,
		{Kind: "abandon"}, {Kind: "new", I: 3}, n, n, n, {Kind: "next", F: "FailSet", Via: "flush"}, {Kind: "abandon"}, {Kind: "new", I: 3}, n,
		{Kind: "nextcrash", F: "AfterWrite"}, {Kind: "new", I: 1}, n, {Kind: "nextcrash", F: "AfterRead", Via: "flush"}, {Kind: "new", I: 2}, n, {Kind: "dop", I: 0, F: "next"}, {Kind: "dop", I: 2, F: "next"}}
	for _, c := range []cfg{
		{Store: "realm", Chain: []level{{Name: "seq/", Abs: true}}},
		{Store: "realm", Chain: []level{{Name: "db/", Abs: true}, {Name: "seq/"}}},
		{Store: "realm", Chain: []level{{Name: "a/"}, {Name: "db/"}, {Name: "seq/"}}},
		{Store: "flush"}, {Store: "flush", Drop: true},
		{Store: "flushrealm", Chain: []level{{Name: "db/", Abs: true}, {Name: "seq/"}}},
		{Store: "flushrealm", Drop: true, Chain: []level{{Name: "a/"}, {Name: "seq/", Abs: true}}},
		{Store: "root", Debug: "nil", DebugAt: "top"}, {Store: "root", Debug: "get", DebugAt: "view"},
		{Store: "realm", Debug: "notset", DebugAt: "top", Chain: []level{{Name: "db/"}, {Name: "seq/"}}},
		{Store: "realm", Debug: "none", DebugAt: "view", Chain: []level{{Name: "a/", Abs: true}, {Name: "seq/"}}},
		{Store: "flushrealm", Debug: "set", DebugAt: "under", Chain: []level{{Name: "db/"}, {Name: "seq/", Abs: true}}},
		{Store: "flush", Debug: "all", DebugAt: "top"},
	} {
		d = append(d, dcase{c, envd})
	}
	return d
}

func emit(cf *vx.CasesFile, st *vx.Stats, c cfg, h []ev, tag string) {
	o, en := runHistory(c, h)
	mh := modelEvents(h)
	obsTerms := make([]string, len(o))
	nums := 0
	for i, x := range o {
		obsTerms[i] = vx.Pair(x.out, x.disk)
		if x.isN {
			nums++
		}
	}
	cf.Add(fmt.Sprintf("mk %s %s", vx.ListOf(mh, ev.coq), vx.List(obsTerms)))
	keyParts := make([]string, 0, len(h)+1)
	keyParts = append(keyParts, c.String())
	for _, e := range h {
		if e.envEvent() {
			keyParts = append(keyParts, e.Kind+":"+e.F+":"+e.Key+fmt.Sprint(e.I, e.Abs))
		} else {
			keyParts = append(keyParts, e.coq()+e.Via)
		}
		st.Count("ev:" + e.Kind)
		if e.Via != "" {
			st.Count("ev:" + e.Kind + ":via-" + e.Via)
		}
	}
	st.Count("store:" + c.family())
	st.Case(strings.Join(keyParts, ";"), nums >= 2)
	st.CaseIndex = append(st.CaseIndex, map[string]any{"tag": tag, "store": c, "history": h})
	st.Sample(map[string]any{"store": c.String(), "history": keyParts, "observed": obsTerms}, 3)
	fail := func(why string) {
		st.Fail(map[string]any{"sig": "", "store": c, "history": h, "why": why, "other_sequences": en.decoyReport()})
	}
	if ok, why := judge(mh, o); !ok {
		fail(why)
	} else if ok, why := en.judgeDecoys(); !ok {
		fail(why)
	} else if stray := en.strayKeys(); len(stray) > 0 {
		fail(fmt.Sprintf("the store holds keys %q that belong to no sequence of this run (a mark was written under a foreign realm)", stray))
	}
}

func main() {
	if len(os.Args) < 2 || os.Args[1] != "hist" {
		vx.Die("usage: hx-c07 hist --n N --len L --seed S --out cases.v --stats stats.json")
	}
	fs := flag.NewFlagSet("hist", flag.ExitOnError)
	n := fs.Int("n", 400, "")
	maxLen := fs.Int("len", 30, "")
	seed := fs.Uint64("seed", 1, "")
	out := fs.String("out", "cases.v", "")
	stats := fs.String("stats", "stats.json", "")
	replay := fs.String("replay", "", "JSON history to replay")
	concRuns := fs.Int("conc", 32, "free-running runs with several callers on one sequence")
	multiOps := fs.Int("multi-ops", 100000, "operations per sequence in the many-sequences-on-one-store runs")
	winLists := fs.Int("windows", 10, "op lists of the store-boundary family on the root store (a third of it on each other configuration)")
	_ = fs.Parse(os.Args[2:])
	r := vx.NewRng(*seed)
	st := vx.NewStats("random event histories (New with intervals {1,2,3,10,2^62,2^63,2^64-1,0}, Next with Get/Set faults, crash inside Next after the read / after the write, Release ok/failing, Abandon) over 4 store configurations: bare root mapdb; nested mapdb realm views (realm slices with spare capacity, sibling views opened and other sequences with other keys used between the events); flushkv over a write-buffering backend that loses unflushed writes at every abandon/crash and whose Flush can fail after the Set (failed flush keeps or drops the buffer); realm views of that flushkv store. distinct = distinct (configuration, history); non-trivial = at least two numbers handed out")
	cf := &vx.CasesFile{
		Header: "From Coq Require Import NArith List.\nFrom Verif.C07_Seq Require Import Model Corr.\nImport ListNotations.\nOpen Scope N_scope.\n",
		Type:   "case",
		Footer: "Definition M := Eval vm_compute in mismatches cases.\nPrint M.\n",
	}
	_ = replay
	for _, d := range directed() {
		emit(cf, st, d.c, d.h, "directed")
	}
	stores := []string{"root", "root", "realm", "flush", "flushrealm", "debug"}
	for i := 0; cf.Len() < *n; i++ {
		hr := r.Fork()
		c := genCfg(hr, stores[i%len(stores)])
		emit(cf, st, c, genHistory(hr, 3+r.Intn(*maxLen), c), "random")
	}
	conc(r.Fork(), st, *concRuns, *multiOps)
	wr := r.Fork()
	windows(wr, st, *winLists, cfg{Store: "root"})
	for _, s := range []string{"realm", "flush", "flushrealm", "debug"} {
		windows(wr, st, (*winLists+2)/3, genCfg(wr, s))
	}
	if err := cf.Write(*out); err != nil {
		vx.Die("%v", err)
	}
	if err := st.Write(*stats); err != nil {
		vx.Die("%v", err)
	}
}
