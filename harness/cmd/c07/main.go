// C07 harness: runs kvstore.Sequence over a mapdb wrapped by a store that injects faults / crash points,
// on random event histories; records the output of every event and the stored mark after every event.
package main

import (
	"encoding/binary"
	"errors"
	"flag"
	"fmt"
	"os"
	"strings"
	"sync"
	"sync/atomic"
	"time"

	"github.com/iotaledger/hive.go/kvstore"
	"github.com/iotaledger/hive.go/kvstore/mapdb"

	"verif/harness/vx"
)

var errInjected = errors.New("injected store fault")

// faultStore embeds the real store; Get/Set on the sequence key can be armed to fail.
type faultStore struct {
	kvstore.KVStore
	failGet, failSet bool // return an error without touching the store
	setThenFail      bool // apply the write, then report an error (the process "dies" after the write)
	gets, sets       int
}

func (f *faultStore) Get(k kvstore.Key) (kvstore.Value, error) {
	f.gets++
	if f.failGet {
		f.failGet = false
		return nil, errInjected
	}
	return f.KVStore.Get(k)
}

func (f *faultStore) Set(k kvstore.Key, v kvstore.Value) error {
	f.sets++
	if f.failSet {
		f.failSet = false
		return errInjected
	}
	if f.setThenFail {
		f.setThenFail = false
		if err := f.KVStore.Set(k, v); err != nil {
			return err
		}
		return errInjected
	}
	return f.KVStore.Set(k, v)
}

func (f *faultStore) disarm() { f.failGet, f.failSet, f.setThenFail = false, false, false }

type ev struct {
	Kind string `json:"k"` // new next nextcrash release abandon
	I    uint64 `json:"i,omitempty"`
	F    string `json:"f,omitempty"` // NoFault FailGet FailSet | AfterRead AfterWrite | fails
}

func (e ev) coq() string {
	switch e.Kind {
	case "new":
		return "ENew " + vx.N(e.I)
	case "next":
		return "ENext " + e.F
	case "nextcrash":
		return "ENextCrash " + e.F
	case "release":
		return "ERelease " + vx.Bool(e.F == "fails")
	}
	return "EAbandon"
}

var key = []byte("seq")

type obs struct {
	out  string // Coq term of type out
	num  uint64
	isN  bool
	disk string // Coq option N
	wrap bool   // mark + interval of the live object would pass 2^64: outside the no_wrap guard
}

func readMark(inner kvstore.KVStore) string {
	v, err := inner.Get(key)
	if err != nil {
		return "None"
	}
	return "(Some " + vx.N(binary.BigEndian.Uint64(v)) + ")"
}

// runHistory executes h on the real code.
func runHistory(h []ev) []obs {
	inner := mapdb.NewMapDB()
	fs := &faultStore{KVStore: inner}
	var seq *kvstore.Sequence
	var res []obs
	var curInterval uint64
	for _, e := range h {
		o := obs{out: "ONone"}
		fs.disarm()
		if (e.Kind == "next" || e.Kind == "nextcrash") && seq != nil {
			var m uint64
			if v, err := inner.Get(key); err == nil {
				m = binary.BigEndian.Uint64(v)
			}
			if m+curInterval < m || m+1 < m {
				o.wrap = true
			}
		}
		switch e.Kind {
		case "new":
			func() {
				defer func() {
					if r := recover(); r != nil {
						o.out = "OPanic"
					}
				}()
				s, err := kvstore.NewSequence(fs, key, e.I)
				if err != nil {
					o.out = "OErr"
					return
				}
				seq = s
				curInterval = e.I
			}()
		case "abandon":
			seq = nil
		case "next":
			if seq != nil {
				switch e.F {
				case "FailGet":
					fs.failGet = true
				case "FailSet":
					fs.failSet = true
				}
				v, err := seq.Next()
				if err != nil {
					o.out = "OErr"
				} else {
					o.out, o.num, o.isN = "(ONum "+vx.N(v)+")", v, true
				}
			}
		case "nextcrash":
			if seq != nil {
				// the process stops inside Next: after the store read (= the write never happens) or right after the write
				if e.F == "AfterRead" {
					fs.failSet = true
				} else {
					fs.setThenFail = true
				}
				sets := fs.sets
				v, err := seq.Next()
				_ = v
				if err == nil && fs.sets != sets {
					// a store write happened and was not intercepted: impossible by construction
					o.out = "OErr"
				}
				// whatever Next returned is lost with the process (a number handed out here would be a
				// completed Next followed by a crash, which the generator expresses as next+abandon)
				if err == nil {
					// Next served from memory: the crash happens before the caller sees the number
					o.out = "ONone"
				}
				seq = nil
			}
		case "release":
			if seq != nil {
				if e.F == "fails" {
					fs.failSet = true
				}
				if err := seq.Release(); err != nil {
					o.out = "OErr"
				}
			}
		}
		o.disk = readMark(inner)
		res = append(res, o)
	}
	return res
}

var intervals = []uint64{1, 1, 2, 3, 10, 1 << 62, 1 << 63, ^uint64(0)}

func genHistory(r *vx.Rng, n int) []ev {
	h := []ev{}
	for len(h) < n {
		k := r.Intn(100)
		switch {
		case k < 14:
			iv := vx.Pick(r, intervals[:5])
			if r.Chance(1, 8) {
				iv = vx.Pick(r, intervals[5:])
			}
			if r.Chance(1, 40) {
				iv = 0
			}
			h = append(h, ev{Kind: "new", I: iv})
		case k < 64:
			f := "NoFault"
			if r.Chance(1, 8) {
				f = vx.Pick(r, []string{"FailGet", "FailSet"})
			}
			h = append(h, ev{Kind: "next", F: f})
		case k < 74:
			h = append(h, ev{Kind: "nextcrash", F: vx.Pick(r, []string{"AfterRead", "AfterWrite"})})
		case k < 90:
			f := "ok"
			if r.Chance(1, 6) {
				f = "fails"
			}
			h = append(h, ev{Kind: "release", F: f})
		default:
			h = append(h, ev{Kind: "abandon"})
		}
	}
	return h
}

// oracle: the property itself on the implementation's outputs (independent of the Coq model):
// returned numbers strictly increasing unless the history wrapped (a returned number went down after passing 2^63
// the guard is evaluated on the observed marks: mark + interval of the live object must stay below 2^64).
func judge(h []ev, o []obs) (bool, string) {
	var last uint64
	have := false
	for i, x := range o {
		if x.wrap {
			return true, "" // mark + interval passes 2^64: outside the no_wrap guard
		}
		if x.isN {
			if have && x.num <= last {
				return false, fmt.Sprintf("event %d returned %d after %d", i, x.num, last)
			}
			last, have = x.num, true
		}
	}
	return true, ""
}

func directed() [][]ev {
	return [][]ev{
		// D07 (repaired): Release on a fresh object
		{{Kind: "new", I: 10}, {Kind: "next", F: "NoFault"}, {Kind: "abandon"}, {Kind: "new", I: 10}, {Kind: "release", F: "ok"}, {Kind: "abandon"}, {Kind: "new", I: 10}, {Kind: "next", F: "NoFault"}},
		// Release on an exhausted object, then restart
		{{Kind: "new", I: 1}, {Kind: "next", F: "NoFault"}, {Kind: "release", F: "ok"}, {Kind: "abandon"}, {Kind: "new", I: 2}, {Kind: "next", F: "NoFault"}},
		// crash at both points
		{{Kind: "new", I: 3}, {Kind: "next", F: "NoFault"}, {Kind: "nextcrash", F: "AfterRead"}, {Kind: "new", I: 3}, {Kind: "next", F: "NoFault"}, {Kind: "next", F: "NoFault"}, {Kind: "next", F: "NoFault"}, {Kind: "nextcrash", F: "AfterWrite"}, {Kind: "new", I: 1}, {Kind: "next", F: "NoFault"}},
		// the suite's own maximal interval
		{{Kind: "new", I: ^uint64(0)}, {Kind: "next", F: "NoFault"}, {Kind: "next", F: "NoFault"}, {Kind: "release", F: "ok"}, {Kind: "abandon"}, {Kind: "new", I: 5}, {Kind: "next", F: "NoFault"}},
	}
}

func emit(cf *vx.CasesFile, st *vx.Stats, h []ev, tag string) {
	o := runHistory(h)
	obsTerms := make([]string, len(o))
	nums := 0
	for i, x := range o {
		obsTerms[i] = vx.Pair(x.out, x.disk)
		if x.isN {
			nums++
		}
	}
	cf.Add(fmt.Sprintf("mk %s %s", vx.ListOf(h, ev.coq), vx.List(obsTerms)))
	keyParts := make([]string, len(h))
	for i, e := range h {
		keyParts[i] = e.coq()
		st.Count("ev:" + e.Kind)
	}
	st.Case(strings.Join(keyParts, ";"), nums >= 2)
	st.CaseIndex = append(st.CaseIndex, map[string]any{"tag": tag, "history": h})
	st.Sample(map[string]any{"history": keyParts, "observed": obsTerms}, 3)
	if ok, why := judge(h, o); !ok {
		st.Fail(map[string]any{"sig": "", "history": h, "why": why})
	}
}

// conc: k goroutines call Next on one Sequence; all numbers distinct, per-caller increasing.
func conc(r *vx.Rng, st *vx.Stats, runs int) {
	for i := 0; i < runs; i++ {
		inner := mapdb.NewMapDB()
		seq, _ := kvstore.NewSequence(inner, key, vx.Pick(r, []uint64{1, 2, 3, 10}))
		g := 2 + r.Intn(7)
		per := 50
		outs := make([][]uint64, g)
		var wg sync.WaitGroup
		for j := 0; j < g; j++ {
			wg.Add(1)
			go func(j int) {
				defer wg.Done()
				for k := 0; k < per; k++ {
					v, err := seq.Next()
					if err == nil {
						outs[j] = append(outs[j], v)
					}
				}
			}(j)
		}
		wg.Wait()
		seen := map[uint64]bool{}
		ok := true
		for _, l := range outs {
			for k, v := range l {
				if seen[v] || (k > 0 && l[k-1] >= v) {
					ok = false
				}
				seen[v] = true
			}
		}
		st.Count("conc:runs")
		if !ok || len(seen) != g*per {
			st.Fail(map[string]any{"sig": "", "kind": "concurrent Next callers", "goroutines": g, "distinct": len(seen), "expected": g * per})
		}
	}
}

// hookStore calls on() before and after every Get/Set of the wrapped store (the store-operation boundaries).
type hookStore struct {
	kvstore.KVStore
	on func()
}

func (h *hookStore) Get(k kvstore.Key) (kvstore.Value, error) {
	h.on()
	v, err := h.KVStore.Get(k)
	h.on()
	return v, err
}

func (h *hookStore) Set(k kvstore.Key, v kvstore.Value) error {
	h.on()
	err := h.KVStore.Set(k, v)
	h.on()
	return err
}

// windows: a second caller (Next or Release on the same object) is started exactly at a store-operation boundary of the
// first caller's Next/Release and given 25 ms to run. With the object's mutex held across the store access (as the model
// assumes: operations on one object are serial) the intruder just blocks until the first caller is done; if some store
// access happens outside the critical section the intruder runs inside the window. Afterwards the object is abandoned
// (crash), a new one is created and enough numbers are drawn to cross one interval: no number may ever repeat.
func windows(r *vx.Rng, st *vx.Stats, lists int) {
	for i := 0; i < lists; i++ {
		interval := vx.Pick(r, []uint64{2, 3, 10})
		nops := 2 + r.Intn(4)
		ops := make([]string, nops)
		for j := range ops {
			ops[j] = vx.Pick(r, []string{"next", "next", "release"})
		}
		// dry run counts the store-operation boundaries of this op list; then every boundary x {next, release} is tried
		n := windowRun(st, interval, ops, -1, "")
		for at := int64(0); at < n; at++ {
			for _, op := range []string{"next", "release"} {
				windowRun(st, interval, ops, at, op)
			}
		}
	}
}

func windowRun(st *vx.Stats, interval uint64, ops []string, at int64, intruder string) int64 {
	inner := mapdb.NewMapDB()
	hs := &hookStore{KVStore: inner, on: func() {}}
	seq, _ := kvstore.NewSequence(hs, key, interval)
	var mu sync.Mutex
	var all []uint64
	record := func(v uint64) { mu.Lock(); all = append(all, v); mu.Unlock() }
	var calls atomic.Int64
	var intruding atomic.Bool
	var wg sync.WaitGroup
	hs.on = func() {
		if intruding.Load() {
			return
		}
		if calls.Add(1)-1 != at {
			return
		}
		done := make(chan struct{})
		wg.Add(1)
		intruding.Store(true)
		go func() {
			defer wg.Done()
			if intruder == "next" {
				if v, err := seq.Next(); err == nil {
					record(v)
				}
			} else {
				_ = seq.Release()
			}
			intruding.Store(false)
			close(done)
		}()
		select {
		case <-done:
		case <-time.After(20 * time.Millisecond):
		}
	}
	for _, op := range ops {
		if op == "next" {
			if v, err := seq.Next(); err == nil {
				record(v)
			}
		} else {
			_ = seq.Release()
		}
		wg.Wait()
	}
	hs.on = func() {}
	seq2, _ := kvstore.NewSequence(hs, key, interval)
	for k := uint64(0); k < 2*interval+2; k++ {
		if v, err := seq2.Next(); err == nil {
			record(v)
		}
	}
	if at < 0 {
		return calls.Load()
	}
	seen := map[uint64]bool{}
	dup := false
	for _, v := range all {
		if seen[v] {
			dup = true
		}
		seen[v] = true
	}
	st.Count("windows:runs")
	if dup {
		st.Fail(map[string]any{"sig": "", "kind": "second caller started at a store-operation boundary of the first", "interval": interval,
			"ops": ops, "intruder": intruder, "at_store_boundary": at, "returned": all, "why": "a number was handed out twice"})
	}
	return calls.Load()
}

func main() {
	if len(os.Args) < 2 || os.Args[1] != "hist" {
		vx.Die("usage: hx-c07 hist --n N --len L --seed S --out cases.v --stats stats.json")
	}
	fs := flag.NewFlagSet("hist", flag.ExitOnError)
	n := fs.Int("n", 400, "")
	maxLen := fs.Int("len", 30, "")
	seed := fs.Uint64("seed", 1, "")
	out := fs.String("out", "cases.v", "")
	stats := fs.String("stats", "stats.json", "")
	replay := fs.String("replay", "", "JSON history to replay")
	_ = fs.Parse(os.Args[2:])
	r := vx.NewRng(*seed)
	st := vx.NewStats("random event histories (New with intervals {1,2,3,10,2^62,2^63,2^64-1,0}, Next with Get/Set faults, crash inside Next after the read / after the write, Release ok/failing, Abandon) on a fresh mapdb; distinct = distinct histories; non-trivial = at least two numbers handed out")
	cf := &vx.CasesFile{
		Header: "From Coq Require Import NArith List.\nFrom Verif.C07_Seq Require Import Model Corr.\nImport ListNotations.\nOpen Scope N_scope.\n",
		Type:   "case",
		Footer: "Definition M := Eval vm_compute in mismatches cases.\nPrint M.\n",
	}
	_ = replay
	for _, h := range directed() {
		emit(cf, st, h, "directed")
	}
	for cf.Len() < *n {
		emit(cf, st, genHistory(r.Fork(), 3+r.Intn(*maxLen)), "random")
	}
	conc(r.Fork(), st, 20)
	windows(r.Fork(), st, 10)
	if err := cf.Write(*out); err != nil {
		vx.Die("%v", err)
	}
	if err := st.Write(*stats); err != nil {
		vx.Die("%v", err)
	}
}
