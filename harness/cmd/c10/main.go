// hx-c10: three-way lockstep of ds.NewList(true), ds.NewList() and container/list on random operation
// histories; every call's result and all observations after it are written as Coq terms (cases.v) and
// compared with the model there; the Go-side oracle compares the two ds flavours with container/list.
package main

import (
	"encoding/json"
	"flag"
	"fmt"
	"os"
	"reflect"
	"strings"
	"time"

	"verif/harness/vx"
)

const (
	NIL = -1000000 // the nil handle
	UNK = -2000000 // a pointer the harness has never seen
)

type op struct {
	K string `json:"k"`
	L int    `json:"l"`
	O int    `json:"o"`
	V int    `json:"v"`
	E int    `json:"e"` // element handle id (>= 0) or -(l+1) for the sentinel of list l
	M int    `json:"m"`
}

func ptrCoq(id int) string {
	if id >= 0 {
		return fmt.Sprintf("(El %d%%nat)", id)
	}
	return fmt.Sprintf("(Root %d%%nat)", -id-1)
}

func optPtrCoq(id int) string {
	if id == NIL {
		return "None"
	}
	if id == UNK {
		return "(Some (El 999999%nat))"
	}
	return "(Some " + ptrCoq(id) + ")"
}

func (o op) coq() string {
	switch o.K {
	case "Init":
		return fmt.Sprintf("Init %d%%nat", o.L)
	case "PushFront", "PushBack":
		return fmt.Sprintf("%s %d%%nat %s", o.K, o.L, vx.Z(int64(o.V)))
	case "Remove", "MoveToFront", "MoveToBack":
		return fmt.Sprintf("%s %d%%nat %s", o.K, o.L, ptrCoq(o.E))
	case "InsertBefore", "InsertAfter":
		return fmt.Sprintf("%s %d%%nat %s %s", o.K, o.L, vx.Z(int64(o.V)), ptrCoq(o.M))
	case "MoveBefore", "MoveAfter":
		return fmt.Sprintf("%s %d%%nat %s %s", o.K, o.L, ptrCoq(o.E), ptrCoq(o.M))
	case "PushBackList", "PushFrontList":
		return fmt.Sprintf("%s %d%%nat %d%%nat", o.K, o.L, o.O)
	}
	panic("bad op " + o.K)
}

// ---------- per-implementation bookkeeping: raw handles <-> ids ----------

type tracker struct {
	w     W
	nl    int
	ids   map[uintptr]int
	hs    []H
	roots map[int]H
	errs  []string
}

func newTracker(w W, nl int) *tracker {
	return &tracker{w: w, nl: nl, ids: map[uintptr]int{}, roots: map[int]H{}}
}

func (t *tracker) errf(f string, a ...any) { t.errs = append(t.errs, fmt.Sprintf(f, a...)) }

func (t *tracker) id(h H) int {
	if h == nil {
		return NIL
	}
	k := t.w.Key(h)
	if k == 0 {
		t.errf("typed-nil handle returned")
		return UNK
	}
	if id, ok := t.ids[k]; ok {
		return id
	}
	for l := 0; l < t.nl; l++ {
		if k == t.w.RootKey(l) {
			t.roots[l] = h
			return -(l + 1)
		}
	}
	t.errf("unknown pointer returned")
	return UNK
}

func (t *tracker) known(h H) bool {
	if h == nil {
		return false
	}
	k := t.w.Key(h)
	if _, ok := t.ids[k]; ok {
		return true
	}
	for l := 0; l < t.nl; l++ {
		if k == t.w.RootKey(l) {
			return true
		}
	}
	return false
}

func (t *tracker) reg(h H) int {
	id := len(t.hs)
	t.ids[t.w.Key(h)] = id
	t.hs = append(t.hs, h)
	return id
}

func (t *tracker) raw(id int) H {
	if id >= 0 {
		return t.hs[id]
	}
	return t.roots[-id-1]
}

func (t *tracker) newHandleOut(h H) string {
	if h == nil {
		return "OHandle None"
	}
	if t.w.Key(h) == 0 || t.known(h) {
		t.errf("insert returned a handle that is not new")
		return "OHandle " + optPtrCoq(t.id(h))
	}
	return "OHandle (Some " + ptrCoq(t.reg(h)) + ")"
}

// apply runs one call; "undiscoverable" means the elements created by a whole-list push could not be
// found again through Back/Prev resp. Front/Next (only possible in post-Init zombie states).
func (t *tracker) apply(o op) (out string, undiscoverable bool) {
	w := t.w
	switch o.K {
	case "Init":
		if w.Init(o.L) {
			return fmt.Sprintf("OList %d%%nat", o.L), false
		}
		return "OList 99%nat", false
	case "PushFront":
		return t.newHandleOut(w.PushFront(o.L, o.V)), false
	case "PushBack":
		return t.newHandleOut(w.PushBack(o.L, o.V)), false
	case "Remove":
		return "OVal " + vx.Z(int64(w.Remove(o.L, t.raw(o.E)))), false
	case "InsertBefore":
		return t.newHandleOut(w.InsertBefore(o.L, o.V, t.raw(o.M))), false
	case "InsertAfter":
		return t.newHandleOut(w.InsertAfter(o.L, o.V, t.raw(o.M))), false
	case "MoveToFront":
		w.MoveToFront(o.L, t.raw(o.E))
	case "MoveToBack":
		w.MoveToBack(o.L, t.raw(o.E))
	case "MoveBefore":
		w.MoveBefore(o.L, t.raw(o.E), t.raw(o.M))
	case "MoveAfter":
		w.MoveAfter(o.L, t.raw(o.E), t.raw(o.M))
	case "PushBackList", "PushFrontList":
		n := w.Len(o.O)
		var cur H
		if o.K == "PushBackList" {
			w.PushBackList(o.L, o.O)
			cur = w.Back(o.L)
		} else {
			w.PushFrontList(o.L, o.O)
			cur = w.Front(o.L)
		}
		// the model numbers the copies in creation order: walk back from the newest
		var found []H
		for i := 0; i < n; i++ {
			if cur == nil || t.w.Key(cur) == 0 || t.known(cur) {
				return "ONone", true
			}
			found = append(found, cur)
			if o.K == "PushBackList" {
				cur = w.Prev(cur)
			} else {
				cur = w.Next(cur)
			}
		}
		for i := len(found) - 1; i >= 0; i-- {
			t.reg(found[i])
		}
	default:
		panic("bad op " + o.K)
	}
	return "ONone", false
}

type lobs struct {
	Len, Front, Back int
	Ids              []int // ids met walking Front..Next (bounded)
	Vals, RVals      []int
}
type hobs struct{ Prev, Next, Val int }
type obs struct {
	Lists  []lobs
	Hs     []hobs
	Cyclic bool
}

func (t *tracker) observe() obs {
	w := t.w
	var ob obs
	bound := len(t.hs) + 3
	for l := 0; l < t.nl; l++ {
		lo := lobs{Len: w.Len(l), Front: t.id(w.Front(l)), Back: t.id(w.Back(l)), Ids: []int{}}
		steps := 0
		for e := w.Front(l); e != nil; e = w.Next(e) {
			lo.Ids = append(lo.Ids, t.id(e))
			if steps++; steps > bound {
				ob.Cyclic = true
				break
			}
		}
		steps = 0
		for e := w.Back(l); e != nil; e = w.Prev(e) {
			if steps++; steps > bound {
				ob.Cyclic = true
				break
			}
		}
		if !ob.Cyclic {
			var why string
			if lo.Vals, why = w.Values(l); why != "" {
				t.errf("%s", why)
			}
			if lo.RVals, why = w.RValues(l); why != "" {
				t.errf("%s", why)
			}
		}
		ob.Lists = append(ob.Lists, lo)
	}
	for _, h := range t.hs {
		ob.Hs = append(ob.Hs, hobs{Prev: t.id(w.Prev(h)), Next: t.id(w.Next(h)), Val: w.Value(h)})
	}
	return ob
}

// ---------- watchdog ----------

var slowOps, hangsSeen int

// guarded runs f in its own goroutine: "ok", "panic", or "hang" (no return within 300 ms, confirmed by
// a further 4 s of grace so that a merely busy machine is not mistaken for a deadlock).
func guarded(f func()) string {
	done := make(chan string, 1)
	go func() {
		defer func() {
			if r := recover(); r != nil {
				done <- "panic"
			}
		}()
		f()
		done <- "ok"
	}()
	t := time.NewTimer(300 * time.Millisecond)
	defer t.Stop()
	select {
	case k := <-done:
		return k
	case <-t.C:
	}
	grace := 4 * time.Second
	if hangsSeen >= 3 {
		grace = 700 * time.Millisecond // a real deadlock is established; do not spend 4 s on every further one
	}
	select {
	case k := <-done:
		slowOps++
		return k
	case <-time.After(grace):
		hangsSeen++
		return "hang"
	}
}

type stepRes struct {
	Kind  string // ok | panic | hang | undiscoverable | cyclic
	Out   string
	Obs   obs
	Errs  []string
	Alloc int
}

func (t *tracker) step(o op) stepRes {
	var r stepRes
	var und bool
	r.Kind = guarded(func() { r.Out, und = t.apply(o) })
	if r.Kind == "ok" && und {
		r.Kind = "undiscoverable"
	}
	if r.Kind == "ok" {
		k := guarded(func() { r.Obs = t.observe() })
		if k != "ok" {
			r.Kind = k + "-in-observation"
		} else if r.Obs.Cyclic {
			r.Kind = "cyclic"
		}
	}
	r.Errs, t.errs = t.errs, nil
	r.Alloc = len(t.hs)
	return r
}

// ---------- lockstep run of one history (given or generated on the fly) ----------

type stepRec struct {
	Op   op
	Res  stepRes // of ds.NewList(true), the flavour the model transcribes
	Hang bool    // the thread-safe flavour hung
}

type runResult struct {
	Steps []stepRec
	Fail  string // Go-side oracle: the ds flavours differ from container/list
	End   string // why the history ended early (panic, cyclic, ...)
}

type chooser func(step int, ref *stepRes, alloc int, leaked []int) (op, bool)

func sameRes(a, b stepRes) string {
	if a.Kind != b.Kind {
		return fmt.Sprintf("outcome %s vs %s", a.Kind, b.Kind)
	}
	if a.Kind == "panic" || a.Kind == "undiscoverable" || a.Kind == "cyclic" {
		return ""
	}
	if a.Out != b.Out {
		return fmt.Sprintf("result %s vs %s", a.Out, b.Out)
	}
	if !reflect.DeepEqual(a.Obs, b.Obs) {
		return fmt.Sprintf("observations %+v vs %+v", a.Obs, b.Obs)
	}
	return ""
}

func lockstep(nl int, next chooser) runResult {
	plain := newTracker(newDsWorld(nl, true), nl)
	ts := newTracker(newDsWorld(nl, false), nl)
	ref := newTracker(newClWorld(nl), nl)
	var rr runResult
	var last *stepRes
	for i := 0; ; i++ {
		var leaked []int
		for l := 0; l < nl; l++ {
			if plain.roots[l] != nil && ts.roots[l] != nil && ref.roots[l] != nil {
				leaked = append(leaked, -(l + 1))
			}
		}
		o, ok := next(i, last, len(ref.hs), leaked)
		if !ok {
			return rr
		}
		rp, rt, rc := plain.step(o), ts.step(o), ref.step(o)
		rec := stepRec{Op: o, Res: rp, Hang: rt.Kind == "hang"}
		for _, e := range [][]string{rp.Errs, rt.Errs, rc.Errs} {
			if len(e) > 0 && rr.Fail == "" {
				rr.Fail = "harness-visible inconsistency: " + strings.Join(e, "; ")
			}
		}
		if d := sameRes(rp, rc); d != "" && rr.Fail == "" {
			rr.Fail = fmt.Sprintf("step %d %s: ds.NewList(true) vs container/list: %s", i, o.coq(), d)
		}
		if d := sameRes(rt, rc); d != "" && rr.Fail == "" {
			rr.Fail = fmt.Sprintf("step %d %s: ds.NewList() vs container/list: %s", i, o.coq(), d)
		}
		switch {
		case rp.Kind == "undiscoverable" || rp.Kind == "cyclic":
			rr.End = rp.Kind // not representable as a case: stop before this step
			return rr
		case rp.Kind != "ok" && rp.Kind != "panic":
			if rr.Fail == "" {
				rr.Fail = fmt.Sprintf("step %d %s: ds.NewList(true): %s", i, o.coq(), rp.Kind)
			}
			rr.End = rp.Kind
			return rr
		}
		rr.Steps = append(rr.Steps, rec)
		if rp.Kind == "panic" || rr.Fail != "" || rt.Kind != "ok" || rc.Kind != "ok" {
			rr.End = rp.Kind + "/" + rt.Kind + "/" + rc.Kind
			return rr
		}
		cp := rc
		last = &cp
	}
}

// ---------- generator ----------

type gen struct {
	r      *vx.Rng
	nl     int
	maxLen int
	zombie bool // may pass handles orphaned by Init and leaked sentinels
	orph   map[int]bool
	vnext  int
	lists  [][]int
}

func (g *gen) pick(l int, alloc int, leaked []int) (int, string) {
	if alloc == 0 {
		return 0, ""
	}
	inList := map[int]bool{}
	var other, removed, orph []int
	for k, ids := range g.lists {
		for _, id := range ids {
			if id >= 0 {
				inList[id] = true
				if k != l {
					other = append(other, id)
				}
			}
		}
	}
	for id := 0; id < alloc; id++ {
		if g.orph[id] && !inList[id] {
			orph = append(orph, id)
		} else if !inList[id] {
			removed = append(removed, id)
		}
	}
	var live []int
	for _, id := range g.lists[l] {
		if id >= 0 && !g.orph[id] {
			live = append(live, id)
		}
	}
	roll := g.r.Intn(100)
	switch {
	case roll < 64 && len(live) > 0:
		return vx.Pick(g.r, live), "live"
	case roll < 76 && len(other) > 0:
		return vx.Pick(g.r, other), "other-list"
	case roll < 88 && len(removed) > 0:
		return vx.Pick(g.r, removed), "removed"
	case roll < 95 && g.zombie && len(orph) > 0:
		return vx.Pick(g.r, orph), "orphan"
	case roll < 98 && g.zombie && len(leaked) > 0:
		return vx.Pick(g.r, leaked), "sentinel"
	}
	for tries := 0; tries < 20; tries++ {
		id := g.r.Intn(alloc)
		if g.zombie || !g.orph[id] {
			if inList[id] {
				return id, "live-any"
			}
			return id, "removed"
		}
	}
	return -999, ""
}

var kinds = []struct {
	k string
	w int
}{{"PushFront", 10}, {"PushBack", 12}, {"Remove", 11}, {"InsertBefore", 9}, {"InsertAfter", 9}, {"MoveToFront", 7},
	{"MoveToBack", 7}, {"MoveBefore", 11}, {"MoveAfter", 11}, {"PushBackList", 4}, {"PushFrontList", 4}, {"Init", 2}}

func (g *gen) choose(st *vx.Stats) chooser {
	return func(step int, ref *stepRes, alloc int, leaked []int) (op, bool) {
		if step >= g.maxLen {
			return op{}, false
		}
		g.lists = make([][]int, g.nl)
		if ref != nil {
			for l := range ref.Obs.Lists {
				g.lists[l] = ref.Obs.Lists[l].Ids
			}
		}
		for tries := 0; tries < 50; tries++ {
			tot := 0
			for _, k := range kinds {
				tot += k.w
			}
			x := g.r.Intn(tot)
			var k string
			for _, c := range kinds {
				if x < c.w {
					k = c.k
					break
				}
				x -= c.w
			}
			o := op{K: k, L: g.r.Intn(g.nl)}
			creates := 0
			switch k {
			case "PushFront", "PushBack":
				g.vnext++
				o.V, creates = g.vnext, 1
			case "InsertBefore", "InsertAfter":
				g.vnext++
				o.V, creates = g.vnext, 1
				var cat string
				if o.M, cat = g.pick(o.L, alloc, leaked); cat == "" {
					continue
				}
				st.Count("handle:" + cat)
			case "Remove", "MoveToFront", "MoveToBack":
				var cat string
				if o.E, cat = g.pick(o.L, alloc, leaked); cat == "" {
					continue
				}
				st.Count("handle:" + cat)
			case "MoveBefore", "MoveAfter":
				var c1, c2 string
				if o.E, c1 = g.pick(o.L, alloc, leaked); c1 == "" {
					continue
				}
				if g.r.Chance(1, 8) {
					o.M, c2 = o.E, "same"
				} else if o.M, c2 = g.pick(o.L, alloc, leaked); c2 == "" {
					continue
				}
				st.Count("handle:" + c1)
				st.Count("mark:" + c2)
			case "PushBackList", "PushFrontList":
				o.O = g.r.Intn(g.nl)
				if g.r.Chance(1, 3) {
					o.O = o.L
				}
				creates = len(g.lists[o.O])
				if o.O == o.L {
					st.Count("pushlist:self")
				}
			case "Init":
				for _, id := range g.lists[o.L] {
					if id >= 0 {
						g.orph[id] = true
					}
				}
			}
			if creates > 0 && alloc+creates > 16 {
				continue
			}
			return o, true
		}
		return op{}, false
	}
}

// ---------- directed histories (every defect found, and the corner cases of the contract) ----------

func directed() [][]op {
	pb := func(l, v int) op { return op{K: "PushBack", L: l, V: v} }
	abc := []op{pb(0, 1), pb(0, 2), pb(0, 3)}
	cat := func(a []op, b ...op) []op { return append(append([]op{}, a...), b...) }
	return [][]op{
		cat(abc, op{K: "MoveBefore", L: 0, E: 2, M: 0}, op{K: "MoveAfter", L: 0, E: 0, M: 2}), // D10a
		cat(abc, op{K: "MoveAfter", L: 0, E: 0, M: 2}, op{K: "MoveBefore", L: 0, E: 1, M: 0}),
		cat(abc, op{K: "MoveBefore", L: 0, E: 1, M: 2}, op{K: "MoveAfter", L: 0, E: 1, M: 0}, op{K: "MoveBefore", L: 0, E: 1, M: 1}), // adjacent: no-ops
		{pb(0, 1), pb(0, 2), {K: "PushBackList", L: 0, O: 0}, {K: "PushFrontList", L: 0, O: 0}},                                      // D10b
		{pb(0, 1), pb(1, 2), pb(1, 3), {K: "PushFrontList", L: 0, O: 1}, {K: "PushBackList", L: 1, O: 0}},
		{pb(0, 1), {K: "Init", L: 0}, {K: "Init", L: 1}, pb(0, 2)},                                                                                                                                      // D10c
		{pb(0, 1), {K: "Init", L: 0}, {K: "InsertAfter", L: 0, V: 2, M: 0}, {K: "Remove", L: 0, E: -1}, {K: "PushBackList", L: 1, O: 0}},                                                                // D10d (sentinel leaks)
		{pb(0, 1), pb(1, 2), {K: "Remove", L: 1, E: 0}, {K: "MoveToFront", L: 1, E: 0}, {K: "InsertBefore", L: 1, V: 3, M: 0}, {K: "MoveBefore", L: 0, E: 0, M: 1}, {K: "MoveAfter", L: 1, E: 1, M: 0}}, // foreign handles
		{pb(0, 1), pb(0, 2), {K: "Remove", L: 0, E: 0}, {K: "Remove", L: 0, E: 0}, {K: "InsertAfter", L: 0, V: 3, M: 0}, {K: "MoveToBack", L: 0, E: 0}, {K: "MoveBefore", L: 0, E: 1, M: 0}},            // removed handles
		cat(abc, op{K: "MoveToFront", L: 0, E: 2}, op{K: "MoveToFront", L: 0, E: 2}, op{K: "MoveToBack", L: 0, E: 2}, op{K: "MoveToBack", L: 0, E: 2}, op{K: "Remove", L: 0, E: 0}, op{K: "Remove", L: 0, E: 1}, op{K: "Remove", L: 0, E: 2}),
		{pb(0, 1), {K: "Init", L: 0}, {K: "Remove", L: 0, E: 0}, {K: "PushFront", L: 0, V: 2}, {K: "PushBackList", L: 1, O: 0}}, // orphan removed: Len = -1 then 0
	}
}

func scripted(h []op) chooser {
	return func(step int, _ *stepRes, _ int, _ []int) (op, bool) {
		if step >= len(h) {
			return op{}, false
		}
		return h[step], true
	}
}

// ---------- emission ----------

func intsCoq(xs []int) string {
	return vx.ListOf(xs, func(v int) string { return vx.Z(int64(v)) })
}

func encPtr(id int) int {
	if id == UNK {
		return 999999
	}
	return id // NIL = -1000000, El n = n, Root l = -(l+1): the encoding of Corr.enc_ptr
}

// fingerprint = Corr.fp: multiplicative hash modulo 2^63, top 30 bits.
func fingerprint(mul, start uint64, xs []int) uint64 {
	const mask = 1<<63 - 1
	h := start
	for _, x := range xs {
		h = (h*mul + uint64(x+2000000)) & mask
	}
	return h >> 33
}

func stepCoq(s stepRec, full bool) string {
	if s.Res.Kind == "panic" {
		return fmt.Sprintf("so None %s false []", vx.Bool(s.Hang))
	}
	var flat []int
	for _, l := range s.Res.Obs.Lists {
		flat = append(flat, l.Len, encPtr(l.Front), encPtr(l.Back), len(l.Vals))
		flat = append(flat, l.Vals...)
		flat = append(flat, len(l.RVals))
		flat = append(flat, l.RVals...)
	}
	for _, h := range s.Res.Obs.Hs {
		flat = append(flat, encPtr(h.Prev), encPtr(h.Next), h.Val)
	}
	if !full {
		return fmt.Sprintf("so (Some (%s)) %s true [%d;%d]", s.Res.Out, vx.Bool(s.Hang), fingerprint(1000003, 17, flat), fingerprint(69069, 23, flat))
	}
	parts := make([]string, len(flat))
	for i, v := range flat {
		if v < 0 {
			parts[i] = fmt.Sprintf("(%d)", v)
		} else {
			parts[i] = fmt.Sprintf("%d", v)
		}
	}
	return fmt.Sprintf("so (Some (%s)) %s false [%s]", s.Res.Out, vx.Bool(s.Hang), strings.Join(parts, ";"))
}

func emit(cf *vx.CasesFile, st *vx.Stats, nl int, rr runResult, tag string, zombie bool, full bool) {
	ops := make([]op, len(rr.Steps))
	keyParts := make([]string, len(rr.Steps))
	maxLive, handleOps := 0, 0
	for i, s := range rr.Steps {
		ops[i] = s.Op
		keyParts[i] = s.Op.coq()
		st.Count("op:" + s.Op.K)
		for _, l := range s.Res.Obs.Lists {
			if len(l.Ids) > maxLive {
				maxLive = len(l.Ids)
			}
		}
		switch s.Op.K {
		case "Remove", "InsertBefore", "InsertAfter", "MoveToFront", "MoveToBack", "MoveBefore", "MoveAfter":
			handleOps++
		}
	}
	if rr.End != "" {
		st.Count("ended-early:" + rr.End)
	}
	if zombie {
		st.Count("history:zombie-handles-allowed")
	} else {
		st.Count("history:zombie-free")
	}
	cf.Add(fmt.Sprintf("mkc %d%%nat %s %s", nl, vx.ListOf(ops, op.coq), vx.ListOf(rr.Steps, func(s stepRec) string { return stepCoq(s, full) })))
	if full {
		st.Count("observations:full")
	} else {
		st.Count("observations:fingerprint")
	}
	st.Case(strings.Join(keyParts, ";"), maxLive >= 2 && handleOps >= 1)
	st.CaseIndex = append(st.CaseIndex, map[string]any{"tag": tag, "lists": nl, "history": ops})
	st.Sample(map[string]any{"history": keyParts}, 3)
	if rr.Fail != "" {
		st.Fail(map[string]any{"sig": "", "lists": nl, "history": ops, "why": rr.Fail})
	}
}

func main() {
	if len(os.Args) > 1 && os.Args[1] == "probe" {
		probe()
		return
	}
	if len(os.Args) < 2 || os.Args[1] != "hist" {
		vx.Die("usage: hx-c10 hist --n N --len L --full K --seed S --out cases.v --stats stats.json [--replay file.json]")
	}
	fs := flag.NewFlagSet("hist", flag.ExitOnError)
	n := fs.Int("n", 500, "")
	maxLen := fs.Int("len", 30, "")
	seed := fs.Uint64("seed", 1, "")
	out := fs.String("out", "cases.v", "")
	stats := fs.String("stats", "stats.json", "")
	nfull := fs.Int("full", 100, "number of random histories written with the full observation lists (the rest carry fingerprints)")
	replay := fs.String("replay", "", "JSON file {lists, history} to replay instead of generating")
	_ = fs.Parse(os.Args[2:])
	r := vx.NewRng(*seed)
	st := vx.NewStats("random operation histories over 2 lists (all 12 mutating methods; handle arguments live / other list / removed / orphaned by Init / leaked sentinel; values distinct) run in lockstep on ds.NewList(true), ds.NewList() and container/list; distinct = distinct histories; non-trivial = some list held >= 2 elements and at least one handle-relative call")
	cf := &vx.CasesFile{
		Header: "From Coq Require Import ZArith List.\nFrom Verif.C10_List Require Import Model Corr.\nImport ListNotations.\nOpen Scope Z_scope.\n",
		Type:   "case",
		Footer: "Definition M := Eval vm_compute in mismatches cases.\nPrint M.\n",
	}
	if *replay != "" {
		b, err := os.ReadFile(*replay)
		if err != nil {
			vx.Die("%v", err)
		}
		var obj struct {
			Case struct {
				Lists   int  `json:"lists"`
				History []op `json:"history"`
			} `json:"case"`
			Lists   int  `json:"lists"`
			History []op `json:"history"`
		}
		if err := json.Unmarshal(b, &obj); err != nil {
			vx.Die("%v", err)
		}
		if obj.History == nil {
			obj.Lists, obj.History = obj.Case.Lists, obj.Case.History
		}
		if obj.Lists == 0 {
			obj.Lists = 2
		}
		rr := lockstep(obj.Lists, scripted(obj.History))
		emit(cf, st, obj.Lists, rr, "replay", true, true)
		fmt.Printf("replayed %d steps; end=%q; oracle: %q\n", len(rr.Steps), rr.End, rr.Fail)
	} else {
		for _, h := range directed() {
			emit(cf, st, 2, lockstep(2, scripted(h)), "directed", true, true)
		}
		for cf.Len() < *n {
			g := &gen{r: r.Fork(), nl: 2, maxLen: 4 + r.Intn(*maxLen-3), zombie: r.Chance(1, 4), orph: map[int]bool{}}
			emit(cf, st, 2, lockstep(2, g.choose(st)), "random", g.zombie, *nfull > 0)
			*nfull--
		}
	}
	st.Extra["slow_ops_over_300ms"] = slowOps
	if err := cf.Write(*out); err != nil {
		vx.Die("%v", err)
	}
	if err := st.Write(*stats); err != nil {
		vx.Die("%v", err)
	}
}
