// hx-c10: three-way lockstep of ds.NewList(true), ds.NewList() and container/list on random operation
// histories; every call's result and all observations after it are written as Coq terms (cases.v) and
// compared with the model there; the Go-side oracle compares the two ds flavours with container/list.
package main

import (
	"encoding/json"
	"flag"
	"fmt"
	"os"
	"reflect"
	"strings"
	"time"

	"verif/harness/vx"
)

const (
	NIL = -1000000 // the nil handle
	UNK = -2000000 // a pointer the harness has never seen
)

type op struct {
	K string `json:"k"`
	L int    `json:"l"`
	O int    `json:"o"`
	V int    `json:"v"`
	E int    `json:"e"` // element handle id (>= 0) or -(l+1) for the sentinel of list l
	M int    `json:"m"`
	// K == "Iter": one of the iteration methods of list L with a scripted callback
	Rev    bool    `json:"rev,omitempty"`    // ForEachReverse / RangeReverse
	FE     bool    `json:"fe,omitempty"`     // ForEach kinds (the callback may abort with an error); else Range kinds
	Script []cbact `json:"script,omitempty"` // what the callback does at its visit 0, 1, 2, ... (nothing afterwards)
}

// rel names a handle from inside a callback: the visited element, its Next(), its Prev(), or a fixed handle id.
type rel struct {
	K string `json:"k"` // cur | nxt | prv | abs
	P int    `json:"p,omitempty"`
}

// cbact is what the scripted callback does at one visit: nothing, abort (return an error), or one call.
type cbact struct {
	A string `json:"a"`           // nop | abort | panic | push | remove | insert | moveend | move | pushlist | init
	B bool   `json:"b,omitempty"` // push/moveend/pushlist: back (else front); insert/move: after (else before)
	L int    `json:"l"`
	V int    `json:"v,omitempty"`
	R rel    `json:"r"`
	M rel    `json:"m"`
	O int    `json:"o,omitempty"`
}

func (r rel) coq() string {
	switch r.K {
	case "cur":
		return "Cur"
	case "nxt":
		return "Nxt"
	case "prv":
		return "Prv"
	}
	return "(Abs " + ptrCoq(r.P) + ")"
}

func (a cbact) coq() string {
	switch a.A {
	case "nop":
		return "CNop"
	case "abort":
		return "CAbort"
	case "panic":
		return "CPanic"
	case "push":
		return fmt.Sprintf("(CPush %s %d%%nat %s)", vx.Bool(a.B), a.L, vx.Z(int64(a.V)))
	case "remove":
		return fmt.Sprintf("(CRemove %d%%nat %s)", a.L, a.R.coq())
	case "insert":
		return fmt.Sprintf("(CInsert %s %d%%nat %s %s)", vx.Bool(a.B), a.L, vx.Z(int64(a.V)), a.R.coq())
	case "moveend":
		return fmt.Sprintf("(CMoveEnd %s %d%%nat %s)", vx.Bool(a.B), a.L, a.R.coq())
	case "move":
		return fmt.Sprintf("(CMove %s %d%%nat %s %s)", vx.Bool(a.B), a.L, a.R.coq(), a.M.coq())
	case "pushlist":
		return fmt.Sprintf("(CPushList %s %d%%nat %d%%nat)", vx.Bool(a.B), a.L, a.O)
	case "init":
		return fmt.Sprintf("(CInit %d%%nat)", a.L)
	}
	panic("bad callback action " + a.A)
}

// writes reports whether the action calls a mutating method (of list a.L)
func (a cbact) writes() bool { return a.A != "nop" && a.A != "abort" && a.A != "panic" }

// callCoq: the history entry (Corr.call): an ordinary call or an iteration with its script
func (o op) callCoq() string {
	if o.K == "Iter" {
		return fmt.Sprintf("Iter %d%%nat %s %s %s", o.L, vx.Bool(o.Rev), vx.Bool(o.FE), vx.ListOf(o.Script, cbact.coq))
	}
	return "Call (" + o.coq() + ")"
}

func ptrCoq(id int) string {
	if id >= 0 {
		return fmt.Sprintf("(El %d%%nat)", id)
	}
	return fmt.Sprintf("(Root %d%%nat)", -id-1)
}

func optPtrCoq(id int) string {
	if id == NIL {
		return "None"
	}
	if id == UNK {
		return "(Some (El 999999%nat))"
	}
	return "(Some " + ptrCoq(id) + ")"
}

func (o op) coq() string {
	switch o.K {
	case "Init":
		return fmt.Sprintf("Init %d%%nat", o.L)
	case "PushFront", "PushBack":
		return fmt.Sprintf("%s %d%%nat %s", o.K, o.L, vx.Z(int64(o.V)))
	case "Remove", "MoveToFront", "MoveToBack":
		return fmt.Sprintf("%s %d%%nat %s", o.K, o.L, ptrCoq(o.E))
	case "InsertBefore", "InsertAfter":
		return fmt.Sprintf("%s %d%%nat %s %s", o.K, o.L, vx.Z(int64(o.V)), ptrCoq(o.M))
	case "MoveBefore", "MoveAfter":
		return fmt.Sprintf("%s %d%%nat %s %s", o.K, o.L, ptrCoq(o.E), ptrCoq(o.M))
	case "PushBackList", "PushFrontList":
		return fmt.Sprintf("%s %d%%nat %d%%nat", o.K, o.L, o.O)
	}
	panic("bad op " + o.K)
}

// ---------- per-implementation bookkeeping: raw handles <-> ids ----------

type tracker struct {
	w     W
	nl    int
	ids   map[uintptr]int
	hs    []H
	roots map[int]H
	errs  []string
	// set by a scripted callback: the walk did not end within the bound / the visited element could not be
	// told from its value / a whole-list push inside a callback created elements that could not be found
	runaway, ambiguous, cbUndisc bool
}

func newTracker(w W, nl int) *tracker {
	return &tracker{w: w, nl: nl, ids: map[uintptr]int{}, roots: map[int]H{}}
}

func (t *tracker) errf(f string, a ...any) { t.errs = append(t.errs, fmt.Sprintf(f, a...)) }

func (t *tracker) id(h H) int {
	if h == nil {
		return NIL
	}
	k := t.w.Key(h)
	if k == 0 {
		t.errf("typed-nil handle returned")
		return UNK
	}
	if id, ok := t.ids[k]; ok {
		return id
	}
	for l := 0; l < t.nl; l++ {
		if k == t.w.RootKey(l) {
			t.roots[l] = h
			return -(l + 1)
		}
	}
	t.errf("unknown pointer returned")
	return UNK
}

func (t *tracker) known(h H) bool {
	if h == nil {
		return false
	}
	k := t.w.Key(h)
	if _, ok := t.ids[k]; ok {
		return true
	}
	for l := 0; l < t.nl; l++ {
		if k == t.w.RootKey(l) {
			return true
		}
	}
	return false
}

func (t *tracker) reg(h H) int {
	id := len(t.hs)
	t.ids[t.w.Key(h)] = id
	t.hs = append(t.hs, h)
	return id
}

func (t *tracker) raw(id int) H {
	if id >= 0 {
		return t.hs[id]
	}
	return t.roots[-id-1]
}

func (t *tracker) newHandleOut(h H) string {
	if h == nil {
		return "OHandle None"
	}
	if t.w.Key(h) == 0 || t.known(h) {
		t.errf("insert returned a handle that is not new")
		return "OHandle " + optPtrCoq(t.id(h))
	}
	return "OHandle (Some " + ptrCoq(t.reg(h)) + ")"
}

// apply runs one call; "undiscoverable" means the elements created by a whole-list push could not be
// found again through Back/Prev resp. Front/Next (only possible in post-Init zombie states).
func (t *tracker) apply(o op) (out string, undiscoverable bool) {
	var e, m H
	switch o.K {
	case "Remove", "MoveToFront", "MoveToBack":
		e = t.raw(o.E)
	case "InsertBefore", "InsertAfter":
		m = t.raw(o.M)
	case "MoveBefore", "MoveAfter":
		e, m = t.raw(o.E), t.raw(o.M)
	}
	return t.applyRaw(o, e, m)
}

// applyRaw: the call o with its handle arguments given as raw handles (e = element, m = mark / position)
func (t *tracker) applyRaw(o op, e, m H) (out string, undiscoverable bool) {
	w := t.w
	switch o.K {
	case "Init":
		if w.Init(o.L) {
			return fmt.Sprintf("OList %d%%nat", o.L), false
		}
		return "OList 99%nat", false
	case "PushFront":
		return t.newHandleOut(w.PushFront(o.L, o.V)), false
	case "PushBack":
		return t.newHandleOut(w.PushBack(o.L, o.V)), false
	case "Remove":
		return "OVal " + vx.Z(int64(w.Remove(o.L, e))), false
	case "InsertBefore":
		return t.newHandleOut(w.InsertBefore(o.L, o.V, m)), false
	case "InsertAfter":
		return t.newHandleOut(w.InsertAfter(o.L, o.V, m)), false
	case "MoveToFront":
		w.MoveToFront(o.L, e)
	case "MoveToBack":
		w.MoveToBack(o.L, e)
	case "MoveBefore":
		w.MoveBefore(o.L, e, m)
	case "MoveAfter":
		w.MoveAfter(o.L, e, m)
	case "PushBackList", "PushFrontList":
		n := w.Len(o.O)
		var cur H
		if o.K == "PushBackList" {
			w.PushBackList(o.L, o.O)
			cur = w.Back(o.L)
		} else {
			w.PushFrontList(o.L, o.O)
			cur = w.Front(o.L)
		}
		// the model numbers the copies in creation order: walk back from the newest
		var found []H
		for i := 0; i < n; i++ {
			if cur == nil || t.w.Key(cur) == 0 || t.known(cur) {
				return "ONone", true
			}
			found = append(found, cur)
			if o.K == "PushBackList" {
				cur = w.Prev(cur)
			} else {
				cur = w.Next(cur)
			}
		}
		for i := len(found) - 1; i >= 0; i-- {
			t.reg(found[i])
		}
	case "Iter":
		return t.iter(o), t.cbUndisc
	default:
		panic("bad op " + o.K)
	}
	return "ONone", false
}

type runawayWalk struct{}

// resolve turns a relative handle into a raw one (nil, false = the callback has nothing to act on: Next()/Prev() is nil)
func (t *tracker) resolve(r rel, cur func() H) (H, bool) {
	switch r.K {
	case "abs":
		h := t.raw(r.P)
		return h, h != nil
	case "cur":
		c := cur()
		return c, c != nil
	case "nxt", "prv":
		c := cur()
		if c == nil {
			return nil, false
		}
		var n H
		if r.K == "nxt" {
			n = t.w.Next(c)
		} else {
			n = t.w.Prev(c)
		}
		if n == nil {
			return nil, false
		}
		if !t.known(n) {
			t.errf("Next/Prev inside a callback returned an unknown pointer")
			return nil, false
		}
		return n, true
	}
	panic("bad rel " + r.K)
}

// iter runs one iteration method with the scripted callback; the result is the visit log and whether the
// iteration was aborted. The callback's own calls go through apply (so new elements get their ids in creation order).
func (t *tracker) iter(o op) string {
	visited := []int{}
	bound := len(t.hs) + 4*len(o.Script) + 24
	t.runaway, t.ambiguous, t.cbUndisc = false, false, false
	aborted, why := t.w.Iter(o.L, o.Rev, o.FE, func(v int, exact H) bool {
		j := len(visited)
		visited = append(visited, v)
		if j > bound {
			t.runaway = true
			panic(runawayWalk{})
		}
		if j >= len(o.Script) {
			return false
		}
		a := o.Script[j]
		if a.A == "abort" {
			return true // (Range kinds ignore it)
		}
		if a.A == "nop" {
			return false
		}
		if a.A == "panic" {
			panic("scripted panic of the callback")
		}
		cur := func() H { // the visited element: the reference loop knows it, ds passes only the value
			var found H
			n := 0
			for _, h := range t.hs {
				if t.w.Value(h) == v {
					found = h
					n++
				}
			}
			if n != 1 || (exact != nil && t.w.Key(exact) != t.w.Key(found)) {
				t.ambiguous = true
				return nil
			}
			return found
		}
		c := op{L: a.L, V: a.V, O: a.O}
		var h1, h2 H
		ok1, ok2 := true, true
		switch a.A {
		case "push":
			c.K = map[bool]string{true: "PushBack", false: "PushFront"}[a.B]
		case "remove":
			c.K = "Remove"
			h1, ok1 = t.resolve(a.R, cur)
		case "insert":
			c.K = map[bool]string{true: "InsertAfter", false: "InsertBefore"}[a.B]
			h2, ok2 = t.resolve(a.R, cur)
		case "moveend":
			c.K = map[bool]string{true: "MoveToBack", false: "MoveToFront"}[a.B]
			h1, ok1 = t.resolve(a.R, cur)
		case "move":
			c.K = map[bool]string{true: "MoveAfter", false: "MoveBefore"}[a.B]
			h1, ok1 = t.resolve(a.R, cur)
			h2, ok2 = t.resolve(a.M, cur)
		case "pushlist":
			c.K = map[bool]string{true: "PushBackList", false: "PushFrontList"}[a.B]
		case "init":
			c.K = "Init"
		default:
			panic("bad callback action " + a.A)
		}
		if !ok1 || !ok2 || t.ambiguous {
			return false
		}
		if _, und := t.applyRaw(c, h1, h2); und {
			t.cbUndisc = true
		}
		return false
	})
	if why != "" {
		t.errf("%s", why)
	}
	return fmt.Sprintf("CIter %s %s", intsCoq(visited), vx.Bool(aborted))
}

type lobs struct {
	Len, Front, Back int
	Ids              []int // ids met walking Front..Next (bounded)
	Vals, RVals      []int
}
type hobs struct{ Prev, Next, Val int }
type obs struct {
	Lists  []lobs
	Hs     []hobs
	Cyclic bool
}

func (t *tracker) observe() obs {
	w := t.w
	var ob obs
	bound := len(t.hs) + 3
	for l := 0; l < t.nl; l++ {
		lo := lobs{Len: w.Len(l), Front: t.id(w.Front(l)), Back: t.id(w.Back(l)), Ids: []int{}}
		steps := 0
		for e := w.Front(l); e != nil; e = w.Next(e) {
			lo.Ids = append(lo.Ids, t.id(e))
			if steps++; steps > bound {
				ob.Cyclic = true
				break
			}
		}
		steps = 0
		for e := w.Back(l); e != nil; e = w.Prev(e) {
			if steps++; steps > bound {
				ob.Cyclic = true
				break
			}
		}
		if !ob.Cyclic {
			var why string
			if lo.Vals, why = w.Values(l); why != "" {
				t.errf("%s", why)
			}
			if lo.RVals, why = w.RValues(l); why != "" {
				t.errf("%s", why)
			}
		}
		ob.Lists = append(ob.Lists, lo)
	}
	for _, h := range t.hs {
		ob.Hs = append(ob.Hs, hobs{Prev: t.id(w.Prev(h)), Next: t.id(w.Next(h)), Val: w.Value(h)})
	}
	return ob
}

// ---------- watchdog ----------

var slowOps, hangsSeen int

// guarded runs f in its own goroutine: "ok", "panic", or "hang" (no return within 300 ms, confirmed by
// a further 4 s of grace so that a merely busy machine is not mistaken for a deadlock).
func guarded(f func()) string {
	done := make(chan string, 1)
	go func() {
		defer func() {
			if r := recover(); r != nil {
				done <- "panic"
			}
		}()
		f()
		done <- "ok"
	}()
	t := time.NewTimer(300 * time.Millisecond)
	defer t.Stop()
	select {
	case k := <-done:
		return k
	case <-t.C:
	}
	grace := 4 * time.Second
	if hangsSeen >= 3 {
		grace = 700 * time.Millisecond // a real deadlock is established; do not spend 4 s on every further one
	}
	select {
	case k := <-done:
		slowOps++
		return k
	case <-time.After(grace):
		hangsSeen++
		return "hang"
	}
}

type stepRes struct {
	Kind  string // ok | panic | hang | undiscoverable | cyclic
	Out   string
	Obs   obs
	Errs  []string
	Alloc int
}

func (t *tracker) step(o op) stepRes {
	var r stepRes
	var und bool
	t.runaway, t.ambiguous = false, false
	r.Kind = guarded(func() { r.Out, und = t.apply(o) })
	switch {
	case t.runaway:
		r.Kind = "cyclic" // the walk went on beyond every bound (only possible in post-Init zombie states)
	case r.Kind == "ok" && t.ambiguous:
		r.Kind = "ambiguous" // the visited element could not be told from its value (duplicate values)
	case r.Kind == "ok" && und:
		r.Kind = "undiscoverable"
	}
	if o.K != "Iter" {
		r.Out = "COut (" + r.Out + ")"
	}
	if r.Kind == "ok" {
		k := guarded(func() { r.Obs = t.observe() })
		if k != "ok" {
			r.Kind = k + "-in-observation"
		} else if r.Obs.Cyclic {
			r.Kind = "cyclic"
		}
	}
	r.Errs, t.errs = t.errs, nil
	r.Alloc = len(t.hs)
	return r
}

// ---------- lockstep run of one history (given or generated on the fly) ----------

type stepRec struct {
	Op   op
	Res  stepRes // of ds.NewList(true), the flavour the model transcribes
	Hang bool    // the thread-safe flavour hung
}

type runResult struct {
	Steps  []stepRec
	Fail   string // Go-side oracle: the ds flavours differ from container/list
	End    string // why the history ended early (panic, cyclic, ...)
	WithTS bool   // the thread-safe flavour took part (not in histories whose callbacks write the iterated list)
}

type chooser func(step int, ref *stepRes, alloc int, leaked []int) (op, bool)

func sameRes(a, b stepRes) string {
	if a.Kind != b.Kind {
		return fmt.Sprintf("outcome %s vs %s", a.Kind, b.Kind)
	}
	if a.Kind == "panic" || a.Kind == "undiscoverable" || a.Kind == "cyclic" || a.Kind == "ambiguous" {
		return ""
	}
	if a.Out != b.Out {
		return fmt.Sprintf("result %s vs %s", a.Out, b.Out)
	}
	if !reflect.DeepEqual(a.Obs, b.Obs) {
		return fmt.Sprintf("observations %+v vs %+v", a.Obs, b.Obs)
	}
	return ""
}

// usable: after the history every list of the world must still take a mutating call and a read (a method that
// returned - normally, with an error, or by a panic out of a callback - must not keep the lock it took)
func usable(t *tracker, nl int) string {
	for l := 0; l < nl; l++ {
		var n1, n2, n3 int
		k := guarded(func() {
			n1 = t.w.Len(l)
			h := t.w.PushBack(l, 0)
			n2 = t.w.Len(l)
			t.w.Remove(l, h)
			n3 = t.w.Len(l)
		})
		if k == "hang" {
			return fmt.Sprintf("%s: list %d is not usable after the history (a lock was kept): Len/PushBack/Remove did not return", t.w.Name(), l)
		}
		if k == "ok" && (n2 != n1+1 || n3 != n1) {
			return fmt.Sprintf("%s: list %d after the history: Len %d, after PushBack %d, after Remove %d", t.w.Name(), l, n1, n2, n3)
		}
	}
	return ""
}

func lockstep(nl int, next chooser, withTS bool) (rr runResult) {
	plain := newTracker(newDsWorld(nl, true), nl)
	ts := newTracker(newDsWorld(nl, false), nl)
	ref := newTracker(newClWorld(nl), nl)
	rr.WithTS = withTS
	tsAlive := withTS
	defer func() {
		if rr.Fail == "" && tsAlive {
			rr.Fail = usable(ts, nl)
		}
	}()
	var last *stepRes
	for i := 0; ; i++ {
		var leaked []int
		for l := 0; l < nl; l++ {
			if plain.roots[l] != nil && (!withTS || ts.roots[l] != nil) && ref.roots[l] != nil {
				leaked = append(leaked, -(l + 1))
			}
		}
		o, ok := next(i, last, len(ref.hs), leaked)
		if !ok {
			return rr
		}
		rp := plain.step(o)
		rt := rp
		if withTS {
			rt = ts.step(o)
		}
		rc := ref.step(o)
		rec := stepRec{Op: o, Res: rp, Hang: withTS && rt.Kind == "hang"}
		if rt.Kind == "hang" || rt.Kind == "hang-in-observation" {
			tsAlive = false // already reported; a goroutine still sits in the list
		}
		for _, e := range [][]string{rp.Errs, rt.Errs, rc.Errs} {
			if len(e) > 0 && rr.Fail == "" {
				rr.Fail = "harness-visible inconsistency: " + strings.Join(e, "; ")
			}
		}
		if d := sameRes(rp, rc); d != "" && rr.Fail == "" {
			rr.Fail = fmt.Sprintf("step %d %s: ds.NewList(true) vs container/list: %s", i, o.callCoq(), d)
		}
		if d := sameRes(rt, rc); d != "" && rr.Fail == "" {
			rr.Fail = fmt.Sprintf("step %d %s: ds.NewList() vs container/list: %s", i, o.callCoq(), d)
		}
		switch {
		case rp.Kind == "undiscoverable" || rp.Kind == "cyclic" || rp.Kind == "ambiguous":
			rr.End = rp.Kind // not representable as a case: stop before this step
			return rr
		case rp.Kind != "ok" && rp.Kind != "panic":
			if rr.Fail == "" {
				rr.Fail = fmt.Sprintf("step %d %s: ds.NewList(true): %s", i, o.callCoq(), rp.Kind)
			}
			rr.End = rp.Kind
			return rr
		}
		rr.Steps = append(rr.Steps, rec)
		if rp.Kind == "panic" || rr.Fail != "" || rt.Kind != "ok" || rc.Kind != "ok" {
			rr.End = rp.Kind + "/" + rt.Kind + "/" + rc.Kind
			return rr
		}
		cp := rc
		last = &cp
	}
}

// ---------- generator ----------

type gen struct {
	r         *vx.Rng
	nl        int
	maxLen    int
	zombie    bool // may pass handles orphaned by Init and leaked sentinels
	reentrant bool // callbacks may call mutating methods of the list being iterated (lock-free flavour only)
	orph      map[int]bool
	vnext     int
	lists     [][]int
}

// tsSafe: no callback of the history writes the list it is iterating (the thread-safe flavour holds that list's
// read lock while the callback runs, so such a call can never return there)
func tsSafe(h []op) bool {
	for _, o := range h {
		for _, a := range o.Script {
			if o.K == "Iter" && a.writes() && a.L == o.L {
				return false
			}
		}
	}
	return true
}

// script generates the callback of one iteration of list o.L: mostly nothing, at one to three visits an abort
// or a call (on the iterated list itself in re-entrant histories, else on the other list)
func (g *gen) script(o *op, st *vx.Stats, ref *stepRes, alloc int, leaked []int) (creates int) {
	n := len(g.lists[o.L])
	script := make([]cbact, 1+g.r.Intn(n+2))
	for i := range script {
		script[i] = cbact{A: "nop"}
	}
	relOK := true // the visited element is found through its value: needs distinct values
	if ref != nil {
		seen := map[int]bool{}
		for _, h := range ref.Obs.Hs {
			if seen[h.Val] {
				relOK = false
			}
			seen[h.Val] = true
		}
	}
	withPushList := g.r.Chance(1, 6)
	if withPushList {
		relOK = false // (the copies repeat values)
	}
	pickRel := func(l int) (rel, bool) {
		x := g.r.Intn(100)
		switch {
		case relOK && x < 40:
			return rel{K: "cur"}, true
		case relOK && x < 65:
			return rel{K: map[bool]string{false: "nxt", true: "prv"}[o.Rev]}, true // the walk's successor
		case relOK && x < 80:
			return rel{K: map[bool]string{false: "prv", true: "nxt"}[o.Rev]}, true
		}
		id, cat := g.pick(l, alloc, leaked)
		if cat == "" {
			return rel{}, false
		}
		return rel{K: "abs", P: id}, true
	}
	nact := 1 + g.r.Intn(3)
	for k := 0; k < nact; k++ {
		j := g.r.Intn(len(script))
		tl := o.L
		if !g.reentrant || g.r.Chance(1, 5) {
			tl = (o.L + 1 + g.r.Intn(g.nl-1)) % g.nl
		}
		a := cbact{L: tl}
		x := g.r.Intn(100)
		if !g.reentrant {
			x = g.r.Intn(160) // more aborts where the lock discipline is what is exercised
		}
		ok := true
		switch {
		case x < 12:
			a.A, a.B = "push", g.r.Bool()
			g.vnext++
			a.V = g.vnext
			creates++
		case x < 30:
			a.A = "remove"
			a.R, ok = pickRel(tl)
		case x < 48:
			a.A, a.B = "insert", g.r.Bool()
			g.vnext++
			a.V = g.vnext
			creates++
			a.R, ok = pickRel(tl)
		case x < 60:
			a.A, a.B = "moveend", g.r.Bool()
			a.R, ok = pickRel(tl)
		case x < 76:
			a.A, a.B = "move", g.r.Bool()
			var ok2 bool
			a.R, ok = pickRel(tl)
			a.M, ok2 = pickRel(tl)
			ok = ok && ok2
		case x < 84 && withPushList:
			a.A, a.B, a.O = "pushlist", g.r.Bool(), g.r.Intn(g.nl)
			creates += len(g.lists[a.O]) + creates
		case x < 87 && g.zombie:
			a.A = "init"
			for _, id := range g.lists[tl] {
				if id >= 0 {
					g.orph[id] = true
				}
			}
		case x < 91:
			a = cbact{A: "panic"} // (ends the history: every world panics; the lists must stay usable)
		default:
			a = cbact{A: "abort"}
		}
		if !ok {
			continue
		}
		script[j] = a
	}
	for _, a := range script {
		st.Count("callback:" + a.A)
		if a.writes() && a.L == o.L {
			st.Count("callback:writes-the-iterated-list")
		}
		for _, r := range []rel{a.R, a.M} {
			if r.K != "" {
				st.Count("callback-handle:" + r.K)
			}
		}
	}
	o.Script = script
	return creates
}

func (g *gen) pick(l int, alloc int, leaked []int) (int, string) {
	if alloc == 0 {
		return 0, ""
	}
	inList := map[int]bool{}
	var other, removed, orph []int
	for k, ids := range g.lists {
		for _, id := range ids {
			if id >= 0 {
				inList[id] = true
				if k != l {
					other = append(other, id)
				}
			}
		}
	}
	for id := 0; id < alloc; id++ {
		if g.orph[id] && !inList[id] {
			orph = append(orph, id)
		} else if !inList[id] {
			removed = append(removed, id)
		}
	}
	var live []int
	for _, id := range g.lists[l] {
		if id >= 0 && !g.orph[id] {
			live = append(live, id)
		}
	}
	roll := g.r.Intn(100)
	switch {
	case roll < 64 && len(live) > 0:
		return vx.Pick(g.r, live), "live"
	case roll < 76 && len(other) > 0:
		return vx.Pick(g.r, other), "other-list"
	case roll < 88 && len(removed) > 0:
		return vx.Pick(g.r, removed), "removed"
	case roll < 95 && g.zombie && len(orph) > 0:
		return vx.Pick(g.r, orph), "orphan"
	case roll < 98 && g.zombie && len(leaked) > 0:
		return vx.Pick(g.r, leaked), "sentinel"
	}
	for tries := 0; tries < 20; tries++ {
		id := g.r.Intn(alloc)
		if g.zombie || !g.orph[id] {
			if inList[id] {
				return id, "live-any"
			}
			return id, "removed"
		}
	}
	return -999, ""
}

var kinds = []struct {
	k string
	w int
}{{"PushFront", 10}, {"PushBack", 12}, {"Remove", 11}, {"InsertBefore", 9}, {"InsertAfter", 9}, {"MoveToFront", 7},
	{"MoveToBack", 7}, {"MoveBefore", 11}, {"MoveAfter", 11}, {"PushBackList", 4}, {"PushFrontList", 4}, {"Init", 2}, {"Iter", 14}}

func (g *gen) choose(st *vx.Stats) chooser {
	return func(step int, ref *stepRes, alloc int, leaked []int) (op, bool) {
		if step >= g.maxLen {
			return op{}, false
		}
		g.lists = make([][]int, g.nl)
		if ref != nil {
			for l := range ref.Obs.Lists {
				g.lists[l] = ref.Obs.Lists[l].Ids
			}
		}
		for tries := 0; tries < 50; tries++ {
			tot := 0
			for _, k := range kinds {
				tot += k.w
			}
			x := g.r.Intn(tot)
			var k string
			for _, c := range kinds {
				if x < c.w {
					k = c.k
					break
				}
				x -= c.w
			}
			o := op{K: k, L: g.r.Intn(g.nl)}
			creates := 0
			switch k {
			case "PushFront", "PushBack":
				g.vnext++
				o.V, creates = g.vnext, 1
			case "InsertBefore", "InsertAfter":
				g.vnext++
				o.V, creates = g.vnext, 1
				var cat string
				if o.M, cat = g.pick(o.L, alloc, leaked); cat == "" {
					continue
				}
				st.Count("handle:" + cat)
			case "Remove", "MoveToFront", "MoveToBack":
				var cat string
				if o.E, cat = g.pick(o.L, alloc, leaked); cat == "" {
					continue
				}
				st.Count("handle:" + cat)
			case "MoveBefore", "MoveAfter":
				var c1, c2 string
				if o.E, c1 = g.pick(o.L, alloc, leaked); c1 == "" {
					continue
				}
				if g.r.Chance(1, 8) {
					o.M, c2 = o.E, "same"
				} else if o.M, c2 = g.pick(o.L, alloc, leaked); c2 == "" {
					continue
				}
				st.Count("handle:" + c1)
				st.Count("mark:" + c2)
			case "PushBackList", "PushFrontList":
				o.O = g.r.Intn(g.nl)
				if g.r.Chance(1, 3) {
					o.O = o.L
				}
				creates = len(g.lists[o.O])
				if o.O == o.L {
					st.Count("pushlist:self")
				}
			case "Init":
				for _, id := range g.lists[o.L] {
					if id >= 0 {
						g.orph[id] = true
					}
				}
			case "Iter":
				o.Rev, o.FE = g.r.Chance(2, 5), g.r.Chance(2, 3)
				creates = g.script(&o, st, ref, alloc, leaked)
			}
			if creates > 0 && alloc+creates > 16 {
				continue
			}
			return o, true
		}
		return op{}, false
	}
}

// ---------- directed histories (every defect found, and the corner cases of the contract) ----------

func directed() [][]op {
	pb := func(l, v int) op { return op{K: "PushBack", L: l, V: v} }
	abc := []op{pb(0, 1), pb(0, 2), pb(0, 3)}
	cat := func(a []op, b ...op) []op { return append(append([]op{}, a...), b...) }
	return [][]op{
		cat(abc, op{K: "MoveBefore", L: 0, E: 2, M: 0}, op{K: "MoveAfter", L: 0, E: 0, M: 2}), // D10a
		cat(abc, op{K: "MoveAfter", L: 0, E: 0, M: 2}, op{K: "MoveBefore", L: 0, E: 1, M: 0}),
		cat(abc, op{K: "MoveBefore", L: 0, E: 1, M: 2}, op{K: "MoveAfter", L: 0, E: 1, M: 0}, op{K: "MoveBefore", L: 0, E: 1, M: 1}), // adjacent: no-ops
		{pb(0, 1), pb(0, 2), {K: "PushBackList", L: 0, O: 0}, {K: "PushFrontList", L: 0, O: 0}},                                      // D10b
		{pb(0, 1), pb(1, 2), pb(1, 3), {K: "PushFrontList", L: 0, O: 1}, {K: "PushBackList", L: 1, O: 0}},
		{pb(0, 1), {K: "Init", L: 0}, {K: "Init", L: 1}, pb(0, 2)},                                                                                                                                      // D10c
		{pb(0, 1), {K: "Init", L: 0}, {K: "InsertAfter", L: 0, V: 2, M: 0}, {K: "Remove", L: 0, E: -1}, {K: "PushBackList", L: 1, O: 0}},                                                                // D10d (sentinel leaks)
		{pb(0, 1), pb(1, 2), {K: "Remove", L: 1, E: 0}, {K: "MoveToFront", L: 1, E: 0}, {K: "InsertBefore", L: 1, V: 3, M: 0}, {K: "MoveBefore", L: 0, E: 0, M: 1}, {K: "MoveAfter", L: 1, E: 1, M: 0}}, // foreign handles
		{pb(0, 1), pb(0, 2), {K: "Remove", L: 0, E: 0}, {K: "Remove", L: 0, E: 0}, {K: "InsertAfter", L: 0, V: 3, M: 0}, {K: "MoveToBack", L: 0, E: 0}, {K: "MoveBefore", L: 0, E: 1, M: 0}},            // removed handles
		cat(abc, op{K: "MoveToFront", L: 0, E: 2}, op{K: "MoveToFront", L: 0, E: 2}, op{K: "MoveToBack", L: 0, E: 2}, op{K: "MoveToBack", L: 0, E: 2}, op{K: "Remove", L: 0, E: 0}, op{K: "Remove", L: 0, E: 1}, op{K: "Remove", L: 0, E: 2}),
		{pb(0, 1), {K: "Init", L: 0}, {K: "Remove", L: 0, E: 0}, {K: "PushFront", L: 0, V: 2}, {K: "PushBackList", L: 1, O: 0}}, // orphan removed: Len = -1 then 0
		// iteration with callbacks that call back into the list (the walk must read the successor after the callback)
		cat(abc, iter(0, false, false, nop, nop, cbact{A: "push", B: true, L: 0, V: 4}), iter(0, true, false, cbact{A: "push", B: false, L: 0, V: 5})),
		cat(abc, pb(0, 4), iter(0, false, false, nop, cbact{A: "remove", L: 0, R: cur}), iter(0, false, true, nop, cbact{A: "remove", L: 0, R: nxt}, nop)),
		cat(abc, pb(0, 4), iter(0, true, true, nop, cbact{A: "remove", L: 0, R: prv}, cbact{A: "insert", L: 0, V: 9, R: cur}), iter(0, false, true, cbact{A: "insert", B: true, L: 0, V: 7, R: cur}, cbact{A: "moveend", B: true, L: 0, R: cur}, nop, abort)),
		cat(abc, iter(0, false, false, cbact{A: "moveend", B: true, L: 0, R: cur}, cbact{A: "move", B: true, L: 0, R: cur, M: nxt}, cbact{A: "move", L: 0, R: nxt, M: cur}), iter(0, true, false, cbact{A: "moveend", L: 0, R: cur}, nop, cbact{A: "pushlist", B: true, L: 0, O: 0})),
		// an aborted iteration must stop, hand the error back and leave the list usable (all three worlds)
		cat(abc, iter(0, false, true, nop, abort), pb(0, 5), iter(0, true, true, abort), op{K: "MoveToBack", L: 0, E: 0}, op{K: "Remove", L: 0, E: 1}, iter(0, false, false, abort, nop)),
		cat(abc, iter(0, false, true, nop, cbact{A: "panic"})), cat(abc, iter(0, true, true, cbact{A: "panic"})),
		cat(abc, iter(0, false, false, nop, nop, cbact{A: "panic"})), cat(abc, iter(0, true, false, nop, cbact{A: "panic"})),
		cat(abc, pb(1, 4), iter(0, false, true, cbact{A: "push", B: true, L: 1, V: 5}, cbact{A: "remove", L: 1, R: rel{K: "abs", P: 3}}, abort), iter(1, true, true, cbact{A: "pushlist", L: 0, O: 1}, abort), op{K: "Init", L: 0}, op{K: "Init", L: 1}),
	}
}

var (
	nop   = cbact{A: "nop"}
	abort = cbact{A: "abort"}
	cur   = rel{K: "cur"}
	nxt   = rel{K: "nxt"}
	prv   = rel{K: "prv"}
)

func iter(l int, rev, fe bool, script ...cbact) op {
	return op{K: "Iter", L: l, Rev: rev, FE: fe, Script: script}
}

func scripted(h []op) chooser {
	return func(step int, _ *stepRes, _ int, _ []int) (op, bool) {
		if step >= len(h) {
			return op{}, false
		}
		return h[step], true
	}
}

// ---------- emission ----------

func intsCoq(xs []int) string {
	return vx.ListOf(xs, func(v int) string { return vx.Z(int64(v)) })
}

func encPtr(id int) int {
	if id == UNK {
		return 999999
	}
	return id // NIL = -1000000, El n = n, Root l = -(l+1): the encoding of Corr.enc_ptr
}

// fingerprint = Corr.fp: multiplicative hash modulo 2^63, top 30 bits.
func fingerprint(mul, start uint64, xs []int) uint64 {
	const mask = 1<<63 - 1
	h := start
	for _, x := range xs {
		h = (h*mul + uint64(x+2000000)) & mask
	}
	return h >> 33
}

func stepCoq(s stepRec, full bool) string {
	if s.Res.Kind == "panic" {
		return fmt.Sprintf("so None %s false []", vx.Bool(s.Hang))
	}
	var flat []int
	for _, l := range s.Res.Obs.Lists {
		flat = append(flat, l.Len, encPtr(l.Front), encPtr(l.Back), len(l.Vals))
		flat = append(flat, l.Vals...)
		flat = append(flat, len(l.RVals))
		flat = append(flat, l.RVals...)
	}
	for _, h := range s.Res.Obs.Hs {
		flat = append(flat, encPtr(h.Prev), encPtr(h.Next), h.Val)
	}
	if !full {
		return fmt.Sprintf("so (Some (%s)) %s true [%d;%d]", s.Res.Out, vx.Bool(s.Hang), fingerprint(1000003, 17, flat), fingerprint(69069, 23, flat))
	}
	parts := make([]string, len(flat))
	for i, v := range flat {
		if v < 0 {
			parts[i] = fmt.Sprintf("(%d)", v)
		} else {
			parts[i] = fmt.Sprintf("%d", v)
		}
	}
	return fmt.Sprintf("so (Some (%s)) %s false [%s]", s.Res.Out, vx.Bool(s.Hang), strings.Join(parts, ";"))
}

func emit(cf *vx.CasesFile, st *vx.Stats, nl int, rr runResult, tag string, zombie bool, full bool) {
	ops := make([]op, len(rr.Steps))
	keyParts := make([]string, len(rr.Steps))
	maxLive, handleOps := 0, 0
	for i, s := range rr.Steps {
		ops[i] = s.Op
		keyParts[i] = s.Op.callCoq()
		st.Count("op:" + s.Op.K)
		for _, l := range s.Res.Obs.Lists {
			if len(l.Ids) > maxLive {
				maxLive = len(l.Ids)
			}
		}
		switch s.Op.K {
		case "Remove", "InsertBefore", "InsertAfter", "MoveToFront", "MoveToBack", "MoveBefore", "MoveAfter":
			handleOps++
		case "Iter":
			st.Count(map[bool]string{true: "iter:ForEach", false: "iter:Range"}[s.Op.FE] + map[bool]string{true: "Reverse", false: ""}[s.Op.Rev])
			if strings.HasSuffix(s.Res.Out, "true") {
				st.Count("iter:aborted")
			}
		}
	}
	if rr.WithTS {
		st.Count("history:three-worlds")
	} else {
		st.Count("history:re-entrant-callbacks(no-thread-safe-world)")
	}
	if rr.End != "" {
		st.Count("ended-early:" + rr.End)
	}
	if zombie {
		st.Count("history:zombie-handles-allowed")
	} else {
		st.Count("history:zombie-free")
	}
	cf.Add(fmt.Sprintf("mkc %d%%nat %s %s %s", nl, vx.Bool(rr.WithTS), vx.ListOf(ops, op.callCoq), vx.ListOf(rr.Steps, func(s stepRec) string { return stepCoq(s, full) })))
	if full {
		st.Count("observations:full")
	} else {
		st.Count("observations:fingerprint")
	}
	st.Case(strings.Join(keyParts, ";"), maxLive >= 2 && handleOps >= 1)
	st.CaseIndex = append(st.CaseIndex, map[string]any{"tag": tag, "lists": nl, "history": ops})
	st.Sample(map[string]any{"history": keyParts}, 3)
	if rr.Fail != "" {
		st.Fail(map[string]any{"sig": "", "lists": nl, "history": ops, "why": rr.Fail})
		fails++
	}
}

var fails int

func main() {
	if len(os.Args) > 1 && os.Args[1] == "probe" {
		probe()
		return
	}
	if len(os.Args) > 1 && os.Args[1] == "free" {
		freeMain(os.Args[2:])
		return
	}
	if len(os.Args) > 1 && os.Args[1] == "misuse" {
		misuseMain(os.Args[2:])
		return
	}
	if len(os.Args) < 2 || os.Args[1] != "hist" {
		vx.Die("usage: hx-c10 hist --n N --len L --full K --seed S --out cases.v --stats stats.json [--replay file.json]")
	}
	fs := flag.NewFlagSet("hist", flag.ExitOnError)
	n := fs.Int("n", 500, "")
	maxLen := fs.Int("len", 30, "")
	seed := fs.Uint64("seed", 1, "")
	out := fs.String("out", "cases.v", "")
	stats := fs.String("stats", "stats.json", "")
	nfull := fs.Int("full", 100, "number of random histories written with the full observation lists (the rest carry fingerprints)")
	replay := fs.String("replay", "", "JSON file {lists, history} to replay instead of generating")
	_ = fs.Parse(os.Args[2:])
	r := vx.NewRng(*seed)
	st := vx.NewStats("random operation histories over 2 lists (all 12 mutating methods and the four iteration methods ForEach/ForEachReverse/Range/RangeReverse with scripted callbacks: abort with an error at visit j, or one call at visit j on the visited element / its Next / its Prev / a fixed handle; in 2 of 5 histories the callbacks write the iterated list itself and only the lock-free flavour runs; handle arguments live / other list / removed / orphaned by Init / leaked sentinel; values distinct) run in lockstep on ds.NewList(true), ds.NewList() and container/list (iteration = the loop for e := l.Front(); e != nil; e = e.Next()); every list of the thread-safe world must still be usable after the history; distinct = distinct histories; non-trivial = some list held >= 2 elements and at least one handle-relative call")
	cf := &vx.CasesFile{
		Header: "From Coq Require Import ZArith List.\nFrom Verif.C10_List Require Import Model Corr.\nImport ListNotations.\nOpen Scope Z_scope.\n",
		Type:   "case",
		Footer: "Definition M := Eval vm_compute in mismatches cases.\nPrint M.\n",
	}
	if *replay != "" {
		b, err := os.ReadFile(*replay)
		if err != nil {
			vx.Die("%v", err)
		}
		var obj struct {
			Case struct {
				Lists   int  `json:"lists"`
				History []op `json:"history"`
			} `json:"case"`
			Lists   int  `json:"lists"`
			History []op `json:"history"`
		}
		if err := json.Unmarshal(b, &obj); err != nil {
			vx.Die("%v", err)
		}
		if obj.History == nil {
			obj.Lists, obj.History = obj.Case.Lists, obj.Case.History
		}
		if obj.Lists == 0 {
			obj.Lists = 2
		}
		rr := lockstep(obj.Lists, scripted(obj.History), tsSafe(obj.History))
		emit(cf, st, obj.Lists, rr, "replay", true, true)
		fmt.Printf("replayed %d steps; end=%q; oracle: %q\n", len(rr.Steps), rr.End, rr.Fail)
	} else {
		for _, h := range directed() {
			emit(cf, st, 2, lockstep(2, scripted(h), tsSafe(h)), "directed", true, true)
		}
		for cf.Len() < *n && fails < 8 { // (eight failing histories are evidence enough; every hang costs seconds)
			g := &gen{r: r.Fork(), nl: 2, maxLen: 4 + r.Intn(*maxLen-3), zombie: r.Chance(1, 4), orph: map[int]bool{}}
			g.reentrant = r.Chance(2, 5)
			emit(cf, st, 2, lockstep(2, g.choose(st), !g.reentrant), "random", g.zombie, *nfull > 0)
			*nfull--
		}
	}
	st.Extra["slow_ops_over_300ms"] = slowOps
	if err := cf.Write(*out); err != nil {
		vx.Die("%v", err)
	}
	if err := st.Write(*stats); err != nil {
		vx.Die("%v", err)
	}
}
