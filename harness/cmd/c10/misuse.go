package main

// Misuse family (round 5, seed C10-m14): PANICKING ARGUMENTS. Every method of both flavours that takes a handle, a
// list or a callback is called with an argument that makes the inner method panic (nil handle, a ListElement
// implementation of the harness, a nil list, a List implementation of the harness, a nil callback) in the middle of an
// ordinary history; the caller recovers, as it may with container/list, and goes on. Laws (Go-side oracle, no Coq cases):
//   - the outcome class (returns / panics) is the same for ds.NewList(true) and ds.NewList(); no call hangs;
//   - where ds returns, result and contents are those of the lock-free flavour and - where container/list has a
//     counterpart of the argument (nil) and returns too - those of container/list;
//   - after a recovered panic the list still answers (Len, forward and backward walk under the watchdog) and its
//     contents are what they were before the call (the type assertion fails before anything is touched);
//   - the rest of the history runs as on container/list, and at the end the thread-safe list takes Len/PushBack/Remove.
// The wrapper lock model (Model.xstep_ts_gen, C10_ts_releases_bad_arg) says the same for all lock states.

import (
	"container/list"
	"encoding/json"
	"flag"
	"fmt"
	"os"
	"reflect"

	"github.com/iotaledger/hive.go/ds"

	"verif/harness/vx"
)

type mstep struct {
	K   string `json:"k"`             // method
	V   int    `json:"v,omitempty"`   // value
	I   int    `json:"i,omitempty"`   // element handle (index into the handles pushed so far)
	J   int    `json:"j,omitempty"`   // mark handle
	Bad string `json:"bad,omitempty"` // "" | nil | alien | broken (a List whose every method panics) | nilcb
	Pos string `json:"pos,omitempty"` // which argument is bad: e | m
}

func (s mstep) String() string {
	if s.Bad == "" {
		return fmt.Sprintf("%s(v=%d,e=%d,m=%d)", s.K, s.V, s.I, s.J)
	}
	return fmt.Sprintf("%s(%s %s;v=%d,e=%d,m=%d)", s.K, s.Bad, s.Pos, s.V, s.I, s.J)
}

// a ListElement implementation that is not the package's own
type alienElement struct{ v int }

func (a *alienElement) Prev() ds.ListElement[int] { return nil }
func (a *alienElement) Next() ds.ListElement[int] { return a }
func (a *alienElement) Value() int                { return a.v }

// a List implementation that is not the package's own: n elements of the alien kind (every other method: nil dereference)
type alienList struct {
	ds.List[int]
	n int
}

func (a *alienList) Len() int                   { return a.n }
func (a *alienList) Front() ds.ListElement[int] { return &alienElement{v: 7} }
func (a *alienList) Back() ds.ListElement[int]  { return &alienElement{v: 7} }

// brokenList: every method panics (nil embedded interface)
type brokenList struct{ ds.List[int] }

type mres struct {
	Kind string // ok | panic | hang | n/a
	Out  string
	Len  int
	Vals []int
	RVal []int
}

type mworld interface {
	name() string
	do(s mstep) string // may panic
	contents() (n int, vals, rvals []int)
	probe() (int, int, int)
}

// ---- ds ----

type mds struct {
	nm    string
	l, o  ds.List[int]
	hs    []ds.ListElement[int]
	bound int
}

func newMds(lockFree bool) *mds {
	w := &mds{nm: "ds.NewList()", l: ds.NewList[int](lockFree), o: ds.NewList[int](lockFree)}
	if lockFree {
		w.nm = "ds.NewList(true)"
	}
	w.o.PushBack(901)
	w.o.PushBack(902)
	return w
}

func (w *mds) name() string { return w.nm }

func (w *mds) h(i int, bad bool, kind string) ds.ListElement[int] {
	if bad {
		if kind == "alien" {
			return &alienElement{v: 5}
		}
		return nil
	}
	if len(w.hs) == 0 {
		return nil // (no handle yet: nil in every world)
	}
	return w.hs[i%len(w.hs)]
}

func (w *mds) reg(e ds.ListElement[int]) string {
	if e == nil {
		return "nil"
	}
	w.hs = append(w.hs, e)
	return fmt.Sprintf("new(%d)", e.Value())
}

func (w *mds) do(s mstep) string {
	be, bm := s.Bad != "" && s.Pos == "e", s.Bad != "" && s.Pos == "m"
	switch s.K {
	case "PushBack":
		return w.reg(w.l.PushBack(s.V))
	case "PushFront":
		return w.reg(w.l.PushFront(s.V))
	case "Remove":
		return fmt.Sprint(w.l.Remove(w.h(s.I, be, s.Bad)))
	case "InsertBefore":
		return w.reg(w.l.InsertBefore(s.V, w.h(s.J, bm, s.Bad)))
	case "InsertAfter":
		return w.reg(w.l.InsertAfter(s.V, w.h(s.J, bm, s.Bad)))
	case "MoveToFront":
		w.l.MoveToFront(w.h(s.I, be, s.Bad))
	case "MoveToBack":
		w.l.MoveToBack(w.h(s.I, be, s.Bad))
	case "MoveBefore":
		w.l.MoveBefore(w.h(s.I, be, s.Bad), w.h(s.J, bm, s.Bad))
	case "MoveAfter":
		w.l.MoveAfter(w.h(s.I, be, s.Bad), w.h(s.J, bm, s.Bad))
	case "PushBackList", "PushFrontList":
		other := w.o
		switch s.Bad {
		case "nil":
			other = nil
		case "alien":
			other = &alienList{n: 2}
		case "broken":
			other = &brokenList{}
		}
		if s.K == "PushBackList" {
			w.l.PushBackList(other)
		} else {
			w.l.PushFrontList(other)
		}
	case "ForEach":
		return fmt.Sprint(w.l.ForEach(nil))
	case "ForEachReverse":
		return fmt.Sprint(w.l.ForEachReverse(nil))
	case "Range":
		w.l.Range(nil)
	case "RangeReverse":
		w.l.RangeReverse(nil)
	default:
		panic("harness: bad misuse step " + s.K)
	}
	return ""
}

func (w *mds) contents() (int, []int, []int) {
	n := w.l.Len()
	var vals, rvals []int
	for e, i := w.l.Front(), 0; e != nil && i < w.bound; e, i = e.Next(), i+1 {
		vals = append(vals, e.Value())
	}
	for e, i := w.l.Back(), 0; e != nil && i < w.bound; e, i = e.Prev(), i+1 {
		rvals = append(rvals, e.Value())
	}
	return n, vals, rvals
}

func (w *mds) probe() (int, int, int) {
	n1 := w.l.Len()
	h := w.l.PushBack(0)
	n2 := w.l.Len()
	w.l.Remove(h)
	return n1, n2, w.l.Len()
}

// ---- container/list (nil arguments only) ----

type mcl struct {
	l, o  *list.List
	hs    []*list.Element
	bound int
}

func newMcl() *mcl {
	w := &mcl{l: list.New(), o: list.New()}
	w.o.PushBack(901)
	w.o.PushBack(902)
	return w
}

func (w *mcl) name() string { return "container/list" }

func (w *mcl) h(i int, bad bool) *list.Element {
	if bad || len(w.hs) == 0 {
		return nil
	}
	return w.hs[i%len(w.hs)]
}

func (w *mcl) reg(e *list.Element) string {
	if e == nil {
		return "nil"
	}
	w.hs = append(w.hs, e)
	return fmt.Sprintf("new(%d)", e.Value)
}

func (w *mcl) do(s mstep) string {
	be, bm := s.Bad != "" && s.Pos == "e", s.Bad != "" && s.Pos == "m"
	switch s.K {
	case "PushBack":
		return w.reg(w.l.PushBack(s.V))
	case "PushFront":
		return w.reg(w.l.PushFront(s.V))
	case "Remove":
		return fmt.Sprint(w.l.Remove(w.h(s.I, be)))
	case "InsertBefore":
		return w.reg(w.l.InsertBefore(s.V, w.h(s.J, bm)))
	case "InsertAfter":
		return w.reg(w.l.InsertAfter(s.V, w.h(s.J, bm)))
	case "MoveToFront":
		w.l.MoveToFront(w.h(s.I, be))
	case "MoveToBack":
		w.l.MoveToBack(w.h(s.I, be))
	case "MoveBefore":
		w.l.MoveBefore(w.h(s.I, be), w.h(s.J, bm))
	case "MoveAfter":
		w.l.MoveAfter(w.h(s.I, be), w.h(s.J, bm))
	case "PushBackList", "PushFrontList":
		other := w.o
		if s.Bad == "nil" {
			other = nil
		}
		if s.K == "PushBackList" {
			w.l.PushBackList(other)
		} else {
			w.l.PushFrontList(other)
		}
	default:
		panic("harness: bad misuse step " + s.K)
	}
	return ""
}

func (w *mcl) contents() (int, []int, []int) {
	var vals, rvals []int
	for e, i := w.l.Front(), 0; e != nil && i < w.bound; e, i = e.Next(), i+1 {
		vals = append(vals, e.Value.(int))
	}
	for e, i := w.l.Back(), 0; e != nil && i < w.bound; e, i = e.Prev(), i+1 {
		rvals = append(rvals, e.Value.(int))
	}
	return w.l.Len(), vals, rvals
}

func (w *mcl) probe() (int, int, int) { return 0, 1, 0 }

// ---- one step on one world: the call, then (also after a recovered panic) the contents, both under the watchdog ----

func mrun(w mworld, s mstep) mres {
	var r mres
	r.Kind = guarded(func() { r.Out = w.do(s) })
	if r.Kind == "hang" {
		return r
	}
	if k := guarded(func() { r.Len, r.Vals, r.RVal = w.contents() }); k != "ok" {
		if r.Kind == "panic" {
			r.Kind = "panic-then-" + k // the list no longer answers after the recovered panic
		} else {
			r.Kind = k + "-in-observation"
		}
	}
	return r
}

func sameContents(a, b mres) bool {
	return a.Len == b.Len && reflect.DeepEqual(a.Vals, b.Vals) && reflect.DeepEqual(a.RVal, b.RVal)
}

// hasRef: container/list has a counterpart of the step (ordinary calls and nil handles / nil lists)
func (s mstep) hasRef() bool { return s.Bad == "" || (s.Bad == "nil" && s.K != "ForEach" && s.K != "ForEachReverse" && s.K != "Range" && s.K != "RangeReverse") }

// misuseRun runs one script on the three worlds; "" or the first law that fails
func misuseRun(script []mstep, st *vx.Stats) string {
	plain, ts, ref := newMds(true), newMds(false), newMcl()
	bound := 4*len(script) + 16
	plain.bound, ts.bound, ref.bound = bound, bound, bound
	var pp, pt mres // previous observations
	refAlive := true
	for i, s := range script {
		rp, rt := mrun(plain, s), mrun(ts, s)
		rc := mres{Kind: "n/a"}
		if s.hasRef() && refAlive {
			rc = mrun(ref, s)
		}
		at := fmt.Sprintf("step %d %s", i, s)
		if s.Bad != "" {
			st.Count("misuse:" + s.K + ":" + s.Bad + s.Pos + ":" + rp.Kind + "/" + rt.Kind + "/" + rc.Kind)
		}
		for _, x := range []struct {
			w    mworld
			r, p mres
		}{{plain, rp, pp}, {ts, rt, pt}} {
			switch x.r.Kind {
			case "ok":
			case "panic":
				if !sameContents(x.r, x.p) {
					return fmt.Sprintf("%s: %s: the call panicked and the caller recovered, but the list changed: Len %d forward %v backward %v, before the call Len %d forward %v backward %v",
						at, x.w.name(), x.r.Len, x.r.Vals, x.r.RVal, x.p.Len, x.p.Vals, x.p.RVal)
				}
			case "hang":
				return fmt.Sprintf("%s: %s: the call did not return", at, x.w.name())
			default:
				return fmt.Sprintf("%s: %s: %s: after the call the list does not answer Len / a walk any more (a panic that was recovered by the caller must not keep the lock)", at, x.w.name(), x.r.Kind)
			}
		}
		if rp.Kind != rt.Kind {
			return fmt.Sprintf("%s: ds.NewList(true) %s, ds.NewList() %s", at, rp.Kind, rt.Kind)
		}
		if rp.Out != rt.Out || !sameContents(rp, rt) {
			return fmt.Sprintf("%s: the flavours differ: ds.NewList(true) %q Len %d %v %v, ds.NewList() %q Len %d %v %v", at, rp.Out, rp.Len, rp.Vals, rp.RVal, rt.Out, rt.Len, rt.Vals, rt.RVal)
		}
		if rc.Kind != "n/a" {
			if rc.Kind != "ok" && rc.Kind != "panic" {
				return fmt.Sprintf("%s: container/list: %s (harness)", at, rc.Kind)
			}
			switch {
			case rp.Kind == "ok" && rc.Kind == "ok":
				if rp.Out != rc.Out {
					return fmt.Sprintf("%s: ds returns %q, container/list %q", at, rp.Out, rc.Out)
				}
			case rp.Kind == "panic" && rc.Kind == "ok":
				st.Count("misuse-note:ds panics where container/list returns:" + s.K + ":" + s.Bad + s.Pos)
			case rp.Kind == "ok" && rc.Kind == "panic":
				st.Count("misuse-note:ds returns where container/list panics:" + s.K + ":" + s.Bad + s.Pos)
			}
			// (a panic changes nothing in either world, so the contents agree in all four combinations - unless the
			// one that returned did something, which only the ok/ok combination may)
			if !sameContents(rp, rc) && !(rp.Kind != rc.Kind) {
				return fmt.Sprintf("%s: contents differ: ds Len %d forward %v backward %v, container/list Len %d forward %v backward %v", at, rp.Len, rp.Vals, rp.RVal, rc.Len, rc.Vals, rc.RVal)
			}
			if rp.Kind != rc.Kind {
				refAlive = false // the worlds have left each other (recorded as a note above): the two flavours go on alone
			}
		}
		pp, pt = rp, rt
	}
	var n1, n2, n3 int
	k := guarded(func() { n1, n2, n3 = ts.probe() })
	if k != "ok" || n2 != n1+1 || n3 != n1 {
		return fmt.Sprintf("after the history: ds.NewList(): Len/PushBack/Remove: %s, Len %d -> %d -> %d (a lock was kept)", k, n1, n2, n3)
	}
	return ""
}

// every (method, bad argument) combination
func misuseKinds() []mstep {
	var out []mstep
	for _, bad := range []string{"nil", "alien"} {
		for _, k := range []string{"Remove", "MoveToFront", "MoveToBack"} {
			out = append(out, mstep{K: k, Bad: bad, Pos: "e"})
		}
		for _, k := range []string{"InsertBefore", "InsertAfter"} {
			out = append(out, mstep{K: k, V: 77, Bad: bad, Pos: "m"})
		}
		for _, k := range []string{"MoveBefore", "MoveAfter"} {
			out = append(out, mstep{K: k, Bad: bad, Pos: "e"}, mstep{K: k, Bad: bad, Pos: "m"})
		}
	}
	for _, k := range []string{"PushBackList", "PushFrontList"} {
		for _, bad := range []string{"nil", "alien", "broken"} {
			out = append(out, mstep{K: k, Bad: bad, Pos: "o"})
		}
	}
	for _, k := range []string{"ForEach", "ForEachReverse", "Range", "RangeReverse"} {
		out = append(out, mstep{K: k, Bad: "nilcb", Pos: "cb"})
	}
	return out
}

func misuseRandomStep(r *vx.Rng, nh int, v int) mstep {
	if nh == 0 {
		return mstep{K: []string{"PushBack", "PushFront"}[r.Intn(2)], V: v}
	}
	ks := []string{"PushBack", "PushFront", "PushBack", "Remove", "InsertBefore", "InsertAfter", "MoveToFront", "MoveToBack", "MoveBefore", "MoveAfter", "PushBackList", "PushFrontList"}
	return mstep{K: ks[r.Intn(len(ks))], V: v, I: r.Intn(nh), J: r.Intn(nh)}
}

func misuseMain(args []string) {
	fs := flag.NewFlagSet("misuse", flag.ExitOnError)
	n := fs.Int("n", 150, "random scripts")
	seed := fs.Uint64("seed", 1, "")
	_ = fs.String("out", "", "unused: this family has no Coq cases")
	stats := fs.String("stats", "stats.json", "")
	replay := fs.String("replay", "", "JSON file {script} or {case:{script}} to replay")
	_ = fs.Parse(args)
	st := vx.NewStats("panicking arguments: ordinary histories on one list per world with calls whose handle / list / callback argument makes the inner method panic (nil handle, a ListElement implementation of the harness, " +
		"nil list, List implementations of the harness, nil callback; every method of both flavours that takes such an argument, element and mark position), the caller recovers and goes on; run on ds.NewList(true), ds.NewList() and " +
		"(ordinary calls, nil arguments) container/list; laws: same outcome class in both flavours, nothing hangs, a recovered panic leaves the contents unchanged and the list answering, where all return the results are container/list's, " +
		"the thread-safe list is usable at the end; non-trivial = the script has a panicking call on a list of >= 2 elements followed by further calls")
	var scripts [][]mstep
	if *replay != "" {
		b, err := os.ReadFile(*replay)
		if err != nil {
			vx.Die("%v", err)
		}
		var obj struct {
			Case struct {
				Script []mstep `json:"script"`
			} `json:"case"`
			Script []mstep `json:"script"`
		}
		if err := json.Unmarshal(b, &obj); err != nil {
			vx.Die("%v", err)
		}
		if obj.Script == nil {
			obj.Script = obj.Case.Script
		}
		scripts = append(scripts, obj.Script)
	} else {
		r := vx.NewRng(*seed ^ 0x6d697375)
		// directed: every combination on a never-used list, on one element, on three (with a removed handle as the good argument too)
		for _, bad := range misuseKinds() {
			scripts = append(scripts, []mstep{bad, {K: "PushBack", V: 1}, {K: "PushFront", V: 2}})
			one := []mstep{{K: "PushBack", V: 1}, bad, {K: "PushBack", V: 2}, {K: "Remove", I: 0}}
			scripts = append(scripts, one)
			for _, good := range []int{0, 1, 3} { // handle 3 is removed before the misuse
				b := bad
				b.I, b.J = good, good
				scripts = append(scripts, []mstep{{K: "PushBack", V: 1}, {K: "PushBack", V: 2}, {K: "PushFront", V: 3}, {K: "PushBack", V: 4}, {K: "Remove", I: 3}, b,
					{K: "MoveToFront", I: 1}, {K: "InsertAfter", V: 5, J: 0}, {K: "Remove", I: 2}, {K: "PushBackList"}})
			}
		}
		kinds := misuseKinds()
		for i := 0; i < *n; i++ {
			var s []mstep
			nh, ln := 0, 3+r.Intn(20)
			for j := 0; j < ln; j++ {
				if nh > 0 && r.Chance(1, 4) {
					b := kinds[r.Intn(len(kinds))]
					b.I, b.J, b.V = r.Intn(nh), r.Intn(nh), 1000+j
					s = append(s, b)
					continue
				}
				x := misuseRandomStep(r, nh, 10+j)
				s = append(s, x)
				if x.K == "PushBack" || x.K == "PushFront" {
					nh++ // (inserts may return nil: their handles are only used modulo the number registered)
				}
			}
			scripts = append(scripts, s)
		}
	}
	nfail := 0
	for _, s := range scripts {
		why := misuseRun(s, st)
		nontriv := false
		sz := 0
		for j, x := range s {
			if x.Bad != "" && sz >= 2 && j+1 < len(s) {
				nontriv = true
			}
			if x.K == "PushBack" || x.K == "PushFront" {
				sz++
			}
		}
		st.Case(fmt.Sprint(s), nontriv)
		if why != "" {
			st.Fail(map[string]any{"sig": "", "kind": "a call with a panicking argument, recovered by the caller, leaves the list unusable / changed, or the two flavours differ", "c10_misuse": true, "script": s, "why": why,
				"replay_note": "deterministic: bin/check C10 --replay <this file> (hx-c10 misuse --replay)"})
			nfail++
			if nfail >= 4 { // every hang costs seconds
				break
			}
		}
	}
	if *replay != "" {
		fmt.Printf("replayed %d steps; oracle failures: %d\n", len(scripts[0]), nfail)
	}
	st.Extra["c10_misuse_scripts"] = len(scripts)
	if err := st.Write(*stats); err != nil {
		vx.Die("%v", err)
	}
}
