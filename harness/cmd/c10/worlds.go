package main

import (
	"container/list"
	"errors"
	"reflect"
	"unsafe"

	"github.com/iotaledger/hive.go/ds"
)

// H is a raw element handle of one implementation (nil = the nil handle).
type H = any

// W is one implementation of `nl` doubly linked lists behind a common face.
type W interface {
	Name() string
	Init(l int) bool // true iff Init returned the receiver
	PushFront(l, v int) H
	PushBack(l, v int) H
	Remove(l int, h H) int
	InsertBefore(l, v int, h H) H
	InsertAfter(l, v int, h H) H
	MoveToFront(l int, h H)
	MoveToBack(l int, h H)
	MoveBefore(l int, h, m H)
	MoveAfter(l int, h, m H)
	PushBackList(l, o int)
	PushFrontList(l, o int)
	Len(l int) int
	Front(l int) H
	Back(l int) H
	Values(l int) ([]int, string)  // forward values; the string reports an internal inconsistency
	RValues(l int) ([]int, string) // backward values
	Next(h H) H
	Prev(h H) H
	Value(h H) int
	Key(h H) uintptr // identity of the element (0 = typed nil)
	RootKey(l int) uintptr
	// Iter walks list l (rev: from the back) and hands every visited value to cb; cb returning true asks for an
	// abort (honoured by the ForEach kinds, fe = true; Range cannot abort). cur is the visited element where the
	// world knows it (the reference loop), nil where only the value is passed (ds). Returns (aborted, inconsistency).
	Iter(l int, rev, fe bool, cb func(v int, cur H) bool) (bool, string)
}

var errAbort = errors.New("scripted abort")

// ---------- ds.List (both flavours) ----------

type dsWorld struct {
	name     string
	lockFree bool
	ls       []ds.List[int]
}

func newDsWorld(nl int, lockFree bool) *dsWorld {
	w := &dsWorld{name: "ds.NewList()", lockFree: lockFree}
	if lockFree {
		w.name = "ds.NewList(true)"
	}
	for i := 0; i < nl; i++ {
		w.ls = append(w.ls, ds.NewList[int](lockFree))
	}
	return w
}

func dsH(e ds.ListElement[int]) H {
	if e == nil {
		return nil
	}
	return e
}
func dsE(h H) ds.ListElement[int] { return h.(ds.ListElement[int]) }

func (w *dsWorld) Name() string                 { return w.name }
func (w *dsWorld) Init(l int) bool              { return w.ls[l].Init() == w.ls[l] }
func (w *dsWorld) PushFront(l, v int) H         { return dsH(w.ls[l].PushFront(v)) }
func (w *dsWorld) PushBack(l, v int) H          { return dsH(w.ls[l].PushBack(v)) }
func (w *dsWorld) Remove(l int, h H) int        { return w.ls[l].Remove(dsE(h)) }
func (w *dsWorld) InsertBefore(l, v int, h H) H { return dsH(w.ls[l].InsertBefore(v, dsE(h))) }
func (w *dsWorld) InsertAfter(l, v int, h H) H  { return dsH(w.ls[l].InsertAfter(v, dsE(h))) }
func (w *dsWorld) MoveToFront(l int, h H)       { w.ls[l].MoveToFront(dsE(h)) }
func (w *dsWorld) MoveToBack(l int, h H)        { w.ls[l].MoveToBack(dsE(h)) }
func (w *dsWorld) MoveBefore(l int, h, m H)     { w.ls[l].MoveBefore(dsE(h), dsE(m)) }
func (w *dsWorld) MoveAfter(l int, h, m H)      { w.ls[l].MoveAfter(dsE(h), dsE(m)) }
func (w *dsWorld) PushBackList(l, o int)        { w.ls[l].PushBackList(w.ls[o]) }
func (w *dsWorld) PushFrontList(l, o int)       { w.ls[l].PushFrontList(w.ls[o]) }
func (w *dsWorld) Len(l int) int                { return w.ls[l].Len() }
func (w *dsWorld) Front(l int) H                { return dsH(w.ls[l].Front()) }
func (w *dsWorld) Back(l int) H                 { return dsH(w.ls[l].Back()) }
func (w *dsWorld) Next(h H) H                   { return dsH(dsE(h).Next()) }
func (w *dsWorld) Prev(h H) H                   { return dsH(dsE(h).Prev()) }
func (w *dsWorld) Value(h H) int                { return dsE(h).Value() }
func (w *dsWorld) Key(h H) uintptr              { return reflect.ValueOf(h).Pointer() }
func (w *dsWorld) RootKey(l int) uintptr {
	v := reflect.ValueOf(w.ls[l])
	if w.lockFree {
		return v.Pointer() // *list[T]: root is the first field
	}
	return v.Elem().Field(0).Pointer() // *threadSafeList[T]: first field is the embedded *list[T]
}

// Iter: ForEach / ForEachReverse (fe) or Range / RangeReverse of the real list with the scripted callback.
func (w *dsWorld) Iter(l int, rev, fe bool, cb func(v int, cur H) bool) (bool, string) {
	if !fe {
		f := func(v int) { cb(v, nil) }
		if rev {
			w.ls[l].RangeReverse(f)
		} else {
			w.ls[l].Range(f)
		}
		return false, ""
	}
	asked := false
	f := func(v int) error {
		if cb(v, nil) { // (a walk that goes on after the error shows in the visit log)
			asked = true
			return errAbort
		}
		return nil
	}
	var err error
	if rev {
		err = w.ls[l].ForEachReverse(f)
	} else {
		err = w.ls[l].ForEach(f)
	}
	switch {
	case err == nil && asked:
		return false, "ForEach swallowed the callback's error"
	case err != nil && !asked:
		return true, "ForEach returned an error no callback returned"
	case err != nil && !errors.Is(err, errAbort):
		return true, "ForEach returned a different error than the callback's"
	}
	return err != nil, ""
}

func eqInts(a, b []int) bool {
	if len(a) != len(b) {
		return false
	}
	for i := range a {
		if a[i] != b[i] {
			return false
		}
	}
	return true
}

// Values: the three forward iterators of ds.List must agree with each other.
func (w *dsWorld) Values(l int) ([]int, string) {
	vals := w.ls[l].Values()
	r := []int{}
	w.ls[l].Range(func(v int) { r = append(r, v) })
	f := []int{}
	_ = w.ls[l].ForEach(func(v int) error { f = append(f, v); return nil })
	if !eqInts(vals, r) || !eqInts(vals, f) {
		return vals, "Values/Range/ForEach disagree"
	}
	return vals, ""
}

func (w *dsWorld) RValues(l int) ([]int, string) {
	r := []int{}
	w.ls[l].RangeReverse(func(v int) { r = append(r, v) })
	f := []int{}
	_ = w.ls[l].ForEachReverse(func(v int) error { f = append(f, v); return nil })
	if !eqInts(r, f) {
		return r, "RangeReverse/ForEachReverse disagree"
	}
	return r, ""
}

// ---------- container/list (the reference) ----------

type clWorld struct{ ls []*list.List }

func newClWorld(nl int) *clWorld {
	w := &clWorld{}
	for i := 0; i < nl; i++ {
		w.ls = append(w.ls, list.New())
	}
	return w
}

func clH(e *list.Element) H {
	if e == nil {
		return nil
	}
	return e
}
func clE(h H) *list.Element { return h.(*list.Element) }
func clV(v any) int {
	if v == nil {
		return 0 // the sentinel's nil Value = ds's zero value
	}
	return v.(int)
}

func (w *clWorld) Name() string                 { return "container/list" }
func (w *clWorld) Init(l int) bool              { return w.ls[l].Init() == w.ls[l] }
func (w *clWorld) PushFront(l, v int) H         { return clH(w.ls[l].PushFront(v)) }
func (w *clWorld) PushBack(l, v int) H          { return clH(w.ls[l].PushBack(v)) }
func (w *clWorld) Remove(l int, h H) int        { return clV(w.ls[l].Remove(clE(h))) }
func (w *clWorld) InsertBefore(l, v int, h H) H { return clH(w.ls[l].InsertBefore(v, clE(h))) }
func (w *clWorld) InsertAfter(l, v int, h H) H  { return clH(w.ls[l].InsertAfter(v, clE(h))) }
func (w *clWorld) MoveToFront(l int, h H)       { w.ls[l].MoveToFront(clE(h)) }
func (w *clWorld) MoveToBack(l int, h H)        { w.ls[l].MoveToBack(clE(h)) }
func (w *clWorld) MoveBefore(l int, h, m H)     { w.ls[l].MoveBefore(clE(h), clE(m)) }
func (w *clWorld) MoveAfter(l int, h, m H)      { w.ls[l].MoveAfter(clE(h), clE(m)) }
func (w *clWorld) PushBackList(l, o int)        { w.ls[l].PushBackList(w.ls[o]) }
func (w *clWorld) PushFrontList(l, o int)       { w.ls[l].PushFrontList(w.ls[o]) }
func (w *clWorld) Len(l int) int                { return w.ls[l].Len() }
func (w *clWorld) Front(l int) H                { return clH(w.ls[l].Front()) }
func (w *clWorld) Back(l int) H                 { return clH(w.ls[l].Back()) }
func (w *clWorld) Next(h H) H                   { return clH(clE(h).Next()) }
func (w *clWorld) Prev(h H) H                   { return clH(clE(h).Prev()) }
func (w *clWorld) Value(h H) int                { return clV(clE(h).Value) }
func (w *clWorld) Key(h H) uintptr              { return uintptr(unsafe.Pointer(clE(h))) }
func (w *clWorld) RootKey(l int) uintptr        { return uintptr(unsafe.Pointer(w.ls[l])) } // root is the first field
func (w *clWorld) Values(l int) ([]int, string) {
	r := []int{}
	for e := w.ls[l].Front(); e != nil; e = e.Next() {
		r = append(r, clV(e.Value))
	}
	return r, ""
}
func (w *clWorld) RValues(l int) ([]int, string) {
	r := []int{}
	for e := w.ls[l].Back(); e != nil; e = e.Prev() {
		r = append(r, clV(e.Value))
	}
	return r, ""
}

// Iter: the reference loop `for e := l.Front(); e != nil; e = e.Next() { f(e) }` (successor read after the callback).
func (w *clWorld) Iter(l int, rev, fe bool, cb func(v int, cur H) bool) (bool, string) {
	if rev {
		for e := w.ls[l].Back(); e != nil; e = e.Prev() {
			if cb(clV(e.Value), e) && fe {
				return true, ""
			}
		}
		return false, ""
	}
	for e := w.ls[l].Front(); e != nil; e = e.Next() {
		if cb(clV(e.Value), e) && fe {
			return true, ""
		}
	}
	return false, ""
}
