// Free-running concurrent family for the thread-safe flavour ds.NewList[int]() (round 4, seed C10-m10).
//
// The C10 theorems quantify over SEQUENTIAL histories; C10_ts_equals_plain ASSUMES that every wrapper method of the
// thread-safe flavour is one atomic step (the RWMutex model: write lock for every mutator, read lock for every
// reader). This family ties that assumption to the code: 2-4 goroutines call the wrapper methods on ONE list for a
// fixed time on >= 2 cores, and everything is judged by laws that hold for EVERY schedule of atomic methods (so a
// busy machine cannot produce a false alarm, it can only lower the chance of meeting a bad interleaving):
//
//   - lane elements of goroutine g: only g pushes / inserts / moves / removes them, and only relative to the list's
//     ends or to other lane elements of g. g runs the same calls on a private container/list; in every snapshot g
//     takes (ForEach, ForEachReverse, Range, RangeReverse, Values) and at quiescence the subsequence of g's lane
//     elements must equal that private list (relative order is untouched by whatever the other goroutines do);
//   - free elements of g: pushed / removed by g only, but inserted and moved relative to ANY published handle (other
//     goroutines' lane and free elements, shared elements, removed handles), and moved by everybody: in every snapshot
//     of g and at quiescence each live one appears exactly once, a removed one never;
//   - shared elements (prefilled): moved by everybody, removed by anybody: absent from the moment somebody's Remove
//     returned, otherwise present exactly once at quiescence;
//   - template values copied in by PushBackList / PushFrontList(static list): in a snapshot all template values have the
//     same multiplicity (>= the caller's own completed calls), at quiescence exactly the number of completed calls;
//   - no snapshot holds a duplicate or an element nobody pushed, no walk is longer than the number of elements that
//     can be alive; Len() lies between the caller's own live elements and that bound; Front()/Back() are non-nil when
//     the caller owns a live element;
//   - at quiescence: bounded forward walk (Front/Next), bounded backward walk (Back/Prev), ForEach, ForEachReverse,
//     Values and Len agree, and the contents are exactly the multiset above; the list still takes Len/PushBack/Remove.
//
// Every walk is bounded (ForEach aborts with an error, Range panics with a private sentinel after `limit` visits;
// Values() cannot be bounded from outside: a heap monitor ends the process with a report when a corrupted ring makes it
// run away). Every goroutine runs under recover (a panic of the implementation is a reported outcome), the whole
// round under a watchdog, and every round in a child process of its own. The check runs the same subcommand from a
// -race build; a data race report there is a violation of its own. No Coq cases.
package main

import (
	"bytes"
	"container/list"
	"context"
	"encoding/json"
	"errors"
	"flag"
	"fmt"
	"os"
	"os/exec"
	"runtime"
	"runtime/debug"
	"runtime/metrics"
	"sort"
	"strings"
	"sync"
	"sync/atomic"
	"time"

	"github.com/iotaledger/hive.go/ds"

	"verif/harness/vx"
)

const (
	fwShared = 9 // "worker" id of the prefilled shared elements
	fwTmpl   = 8 // "worker" id of the template values copied by PushBackList / PushFrontList
	clLane   = 0
	clFree   = 1

	laneCap     = 8
	freeCap     = 8
	nShared     = 10
	nTmpl       = 3
	freeMaxOps  = 3000000 // per goroutine
	heapCeiling = 768 << 20
)

func fval(worker, class, seq int) int { return worker<<40 | class<<36 | seq }
func fvWorker(v int) int              { return v >> 40 & 0xff }
func fvClass(v int) int               { return v >> 36 & 0xf }
func fvSeq(v int) int                 { return v & (1<<36 - 1) }
func fvStr(v int) string {
	switch fvWorker(v) {
	case fwShared:
		return fmt.Sprintf("S%d", fvSeq(v))
	case fwTmpl:
		return fmt.Sprintf("T%d", fvSeq(v))
	}
	c := "L"
	if fvClass(v) == clFree {
		c = "F"
	}
	return fmt.Sprintf("g%d%s%d", fvWorker(v), c, fvSeq(v))
}
func fvList(vs []int) string {
	var sb strings.Builder
	sb.WriteString("[")
	for i, v := range vs {
		if i > 0 {
			sb.WriteString(" ")
		}
		if i >= 60 {
			fmt.Fprintf(&sb, "... %d more", len(vs)-i)
			break
		}
		sb.WriteString(fvStr(v))
	}
	sb.WriteString("]")
	return sb.String()
}

// the methods a round can focus on (half of all calls of the round)
var freeFoci = []string{"MoveToFront", "MoveToBack", "MoveBefore", "MoveAfter", "PushFront", "PushBack", "InsertBefore", "InsertAfter",
	"Remove", "PushBackList", "PushFrontList", "ForEach+ForEachReverse", "Range+RangeReverse+Values", "Len+Front+Back", "uniform"}

var freeMethods = []string{"MoveToFront", "MoveToBack", "MoveBefore", "MoveAfter", "PushFront", "PushBack", "InsertBefore", "InsertAfter",
	"Remove", "PushBackList", "PushFrontList", "ForEach", "ForEachReverse", "Range", "RangeReverse", "Values", "Len", "Front", "Back"}

type pubSlot struct{ h ds.ListElement[int] }

type freeWorld struct {
	l       ds.List[int]
	tmpl    ds.List[int]
	k       int
	focus   []string
	plCap   int
	bound   int // no more elements than this can be in the list at any time
	shared  []ds.ListElement[int]
	pubLane [][]atomic.Pointer[pubSlot]
	pubFree [][]atomic.Pointer[pubSlot]
	stop    atomic.Bool
	mu      sync.Mutex
	fails   []string
}

func (w *freeWorld) fail(format string, a ...any) {
	w.mu.Lock()
	if len(w.fails) < 6 {
		w.fails = append(w.fails, fmt.Sprintf(format, a...))
	}
	w.mu.Unlock()
	w.stop.Store(true)
}

type laneEl struct {
	h ds.ListElement[int]
	e *list.Element
	v int
}
type freeEl struct {
	h ds.ListElement[int]
	v int
}

type freeWorker struct {
	w        *freeWorld
	g        int
	r        *vx.Rng
	ref      *list.List
	lane     []laneEl // live
	laneDead []laneEl // some removed ones (arguments that must be no-ops)
	free     []freeEl // live
	freeLive map[int]bool
	freeDead []freeEl
	remSh    map[int]bool // shared elements this goroutine removed
	pl       int          // completed PushBackList/PushFrontList calls
	seq      int
	ops      int64
	hist     map[string]int
	cur      string // the call in flight (for panic reports)
}

type walkBound struct{}

var errWalkBound = errors.New("walk bound reached")

func (f *freeWorker) next(class int) int { f.seq++; return fval(f.g, class, f.seq) }

func (f *freeWorker) publish() {
	w := f.w
	if len(f.lane) > 0 {
		w.pubLane[f.g][f.r.Intn(len(w.pubLane[f.g]))].Store(&pubSlot{f.lane[f.r.Intn(len(f.lane))].h})
	}
	if len(f.free) > 0 {
		w.pubFree[f.g][f.r.Intn(len(w.pubFree[f.g]))].Store(&pubSlot{f.free[f.r.Intn(len(f.free))].h})
	}
}

// anyMark: a handle of any provenance, used as a POSITION only (or nil when none was found)
func (f *freeWorker) anyMark() ds.ListElement[int] {
	w, r := f.w, f.r
	for try := 0; try < 4; try++ {
		switch r.Intn(7) {
		case 0:
			if len(f.lane) > 0 {
				return f.lane[r.Intn(len(f.lane))].h
			}
		case 1:
			if len(f.free) > 0 {
				return f.free[r.Intn(len(f.free))].h
			}
		case 2:
			return w.shared[r.Intn(len(w.shared))]
		case 3:
			if s := w.pubLane[r.Intn(w.k)][r.Intn(laneCap)].Load(); s != nil {
				return s.h
			}
		case 4:
			if s := w.pubFree[r.Intn(w.k)][r.Intn(freeCap)].Load(); s != nil {
				return s.h
			}
		case 5:
			if len(f.freeDead) > 0 {
				return f.freeDead[r.Intn(len(f.freeDead))].h
			}
		case 6:
			if len(f.laneDead) > 0 {
				return f.laneDead[r.Intn(len(f.laneDead))].h
			}
		}
	}
	return w.shared[r.Intn(len(w.shared))]
}

// movable: an element everybody may MOVE (own free, shared, anybody's published free element, a removed one)
func (f *freeWorker) movable() ds.ListElement[int] {
	w, r := f.w, f.r
	for try := 0; try < 4; try++ {
		switch r.Intn(6) {
		case 0, 1:
			if len(f.free) > 0 {
				return f.free[r.Intn(len(f.free))].h
			}
		case 2, 3:
			return w.shared[r.Intn(len(w.shared))]
		case 4:
			if s := w.pubFree[r.Intn(w.k)][r.Intn(freeCap)].Load(); s != nil {
				return s.h
			}
		case 5:
			if len(f.freeDead) > 0 {
				return f.freeDead[r.Intn(len(f.freeDead))].h
			}
		}
	}
	return w.shared[r.Intn(len(w.shared))]
}

// laneArg: an own lane element, now and then a removed one (ok=false when there is none)
func (f *freeWorker) laneArg() (laneEl, bool) {
	if len(f.laneDead) > 0 && f.r.Chance(1, 8) {
		return f.laneDead[f.r.Intn(len(f.laneDead))], true
	}
	if len(f.lane) == 0 {
		return laneEl{}, false
	}
	return f.lane[f.r.Intn(len(f.lane))], true
}

func (f *freeWorker) laneAdd(h ds.ListElement[int], e *list.Element, v int, how string) {
	if (h == nil) != (e == nil) {
		f.w.fail("goroutine %d: %s of lane value %s: ds returned nil=%v, the private container/list nil=%v (only this goroutine touches the mark)", f.g, how, fvStr(v), h == nil, e == nil)
		return
	}
	if h == nil {
		return
	}
	if got := h.Value(); got != v {
		f.w.fail("goroutine %d: %s returned a handle with value %s, pushed %s", f.g, how, fvStr(got), fvStr(v))
	}
	f.lane = append(f.lane, laneEl{h, e, v})
}

func (f *freeWorker) freeAdd(h ds.ListElement[int], v int, how string, mustExist int) {
	if h == nil {
		if mustExist > 0 {
			f.w.fail("goroutine %d: %s of free value %s relative to an element only this goroutine can remove (and has not) returned nil", f.g, how, fvStr(v))
		}
		return
	}
	if mustExist < 0 {
		f.w.fail("goroutine %d: %s of free value %s relative to a handle this goroutine had removed returned an element", f.g, how, fvStr(v))
	}
	if got := h.Value(); got != v {
		f.w.fail("goroutine %d: %s returned a handle with value %s, pushed %s", f.g, how, fvStr(got), fvStr(v))
	}
	f.free = append(f.free, freeEl{h, v})
	f.freeLive[v] = true
}

func (f *freeWorker) laneRemove() {
	if len(f.lane) == 0 {
		return
	}
	i := f.r.Intn(len(f.lane))
	x := f.lane[i]
	f.cur = "Remove(lane)"
	if got := f.w.l.Remove(x.h); got != x.v {
		f.w.fail("goroutine %d: Remove(%s) returned %s", f.g, fvStr(x.v), fvStr(got))
	}
	f.ref.Remove(x.e)
	f.lane[i] = f.lane[len(f.lane)-1]
	f.lane = f.lane[:len(f.lane)-1]
	if len(f.laneDead) < 4 {
		f.laneDead = append(f.laneDead, x)
	} else {
		f.laneDead[f.r.Intn(4)] = x
	}
}

func (f *freeWorker) freeRemove() {
	if len(f.free) == 0 {
		return
	}
	i := f.r.Intn(len(f.free))
	x := f.free[i]
	f.cur = "Remove(free)"
	if got := f.w.l.Remove(x.h); got != x.v {
		f.w.fail("goroutine %d: Remove(%s) returned %s", f.g, fvStr(x.v), fvStr(got))
	}
	delete(f.freeLive, x.v)
	f.free[i] = f.free[len(f.free)-1]
	f.free = f.free[:len(f.free)-1]
	if len(f.freeDead) < 4 {
		f.freeDead = append(f.freeDead, x)
	} else {
		f.freeDead[f.r.Intn(4)] = x
	}
}

// ownFreeMark: 1 = own live free/lane element, -1 = own removed element, 0 = somebody else's / shared (unpredictable)
func (f *freeWorker) markFor() (ds.ListElement[int], int) {
	switch f.r.Intn(6) {
	case 0:
		if len(f.free) > 0 {
			return f.free[f.r.Intn(len(f.free))].h, 1
		}
	case 1:
		if len(f.lane) > 0 {
			return f.lane[f.r.Intn(len(f.lane))].h, 1
		}
	case 2:
		if len(f.freeDead) > 0 {
			return f.freeDead[f.r.Intn(len(f.freeDead))].h, -1
		}
	}
	return f.anyMark(), 0
}

func (f *freeWorker) call(m string) {
	w, l, r := f.w, f.w.l, f.r
	f.hist[m]++
	f.ops++
	lane := r.Bool()
	switch m {
	case "PushFront", "PushBack":
		if lane {
			if len(f.lane) >= laneCap {
				f.laneRemove()
				return
			}
			v := f.next(clLane)
			f.cur = m + "(lane)"
			if m == "PushFront" {
				f.laneAdd(l.PushFront(v), f.ref.PushFront(v), v, m)
			} else {
				f.laneAdd(l.PushBack(v), f.ref.PushBack(v), v, m)
			}
		} else {
			if len(f.free) >= freeCap {
				f.freeRemove()
				return
			}
			v := f.next(clFree)
			f.cur = m + "(free)"
			if m == "PushFront" {
				f.freeAdd(l.PushFront(v), v, m, 1)
			} else {
				f.freeAdd(l.PushBack(v), v, m, 1)
			}
		}
	case "InsertBefore", "InsertAfter":
		if lane {
			if len(f.lane) >= laneCap {
				f.laneRemove()
				return
			}
			mk, ok := f.laneArg()
			if !ok {
				f.call("PushBack")
				return
			}
			v := f.next(clLane)
			f.cur = m + "(lane, own lane mark)"
			if m == "InsertBefore" {
				f.laneAdd(l.InsertBefore(v, mk.h), f.ref.InsertBefore(v, mk.e), v, m)
			} else {
				f.laneAdd(l.InsertAfter(v, mk.h), f.ref.InsertAfter(v, mk.e), v, m)
			}
		} else {
			if len(f.free) >= freeCap {
				f.freeRemove()
				return
			}
			mk, must := f.markFor()
			v := f.next(clFree)
			f.cur = m + "(free, any mark)"
			if m == "InsertBefore" {
				f.freeAdd(l.InsertBefore(v, mk), v, m, must)
			} else {
				f.freeAdd(l.InsertAfter(v, mk), v, m, must)
			}
		}
	case "MoveToFront", "MoveToBack":
		if lane {
			x, ok := f.laneArg()
			if !ok {
				return
			}
			f.cur = m + "(lane)"
			if m == "MoveToFront" {
				l.MoveToFront(x.h)
				f.ref.MoveToFront(x.e)
			} else {
				l.MoveToBack(x.h)
				f.ref.MoveToBack(x.e)
			}
		} else {
			x := f.movable()
			f.cur = m + "(free/shared)"
			if m == "MoveToFront" {
				l.MoveToFront(x)
			} else {
				l.MoveToBack(x)
			}
		}
	case "MoveBefore", "MoveAfter":
		if lane {
			x, ok := f.laneArg()
			y, ok2 := f.laneArg()
			if !ok || !ok2 {
				return
			}
			f.cur = m + "(lane, own lane mark)"
			if m == "MoveBefore" {
				l.MoveBefore(x.h, y.h)
				f.ref.MoveBefore(x.e, y.e)
			} else {
				l.MoveAfter(x.h, y.h)
				f.ref.MoveAfter(x.e, y.e)
			}
		} else {
			x, y := f.movable(), f.anyMark()
			f.cur = m + "(free/shared, any mark)"
			if m == "MoveBefore" {
				l.MoveBefore(x, y)
			} else {
				l.MoveAfter(x, y)
			}
		}
	case "Remove":
		switch {
		case r.Chance(1, 40):
			i := r.Intn(len(w.shared))
			f.cur = "Remove(shared)"
			if got := l.Remove(w.shared[i]); got != fval(fwShared, 0, i) {
				w.fail("goroutine %d: Remove(S%d) returned %s", f.g, i, fvStr(got))
			}
			f.remSh[i] = true
		case lane && len(f.lane) > 0:
			f.laneRemove()
		case len(f.free) > 0:
			f.freeRemove()
		case len(f.lane) > 0:
			f.laneRemove()
		default:
			f.call("PushBack")
		}
	case "PushBackList", "PushFrontList":
		if f.pl >= w.plCap {
			f.call(freeMethods[r.Intn(9)])
			return
		}
		f.cur = m + "(static list)"
		if m == "PushBackList" {
			l.PushBackList(w.tmpl)
		} else {
			l.PushFrontList(w.tmpl)
		}
		f.pl++
	case "ForEach", "ForEachReverse", "Range", "RangeReverse", "Values":
		f.snapshot(m)
	case "Len":
		f.cur = m
		if n := l.Len(); n < len(f.lane)+len(f.free) || n > w.bound {
			w.fail("goroutine %d: Len() = %d, but this goroutine alone owns %d live elements and at most %d can be alive", f.g, n, len(f.lane)+len(f.free), w.bound)
		}
	case "Front", "Back":
		f.cur = m
		var e ds.ListElement[int]
		if m == "Front" {
			e = l.Front()
		} else {
			e = l.Back()
		}
		if e == nil {
			if len(f.lane)+len(f.free) > 0 {
				w.fail("goroutine %d: %s() = nil while this goroutine owns %d live elements", f.g, m, len(f.lane)+len(f.free))
			}
		} else if v := e.Value(); !w.plausible(v) {
			w.fail("goroutine %d: %s() holds value %d that nobody pushed", f.g, m, v)
		}
	}
	if f.ops%16 == 0 {
		f.publish()
	}
}

func (w *freeWorld) plausible(v int) bool {
	switch g := fvWorker(v); {
	case g == fwShared:
		return fvSeq(v) < nShared && fvClass(v) == 0
	case g == fwTmpl:
		return fvSeq(v) < nTmpl && fvClass(v) == 0
	default:
		return g < w.k && fvClass(v) <= clFree && fvSeq(v) > 0
	}
}

// collect runs one of the five iteration methods with a bounded callback; vals in FORWARD order of the list
func (w *freeWorld) collect(m string) (vals []int, note string) {
	limit := w.bound + 8
	vals = make([]int, 0, 64)
	add := func(v int) bool { vals = append(vals, v); return len(vals) > limit }
	switch m {
	case "ForEach", "ForEachReverse":
		cb := func(v int) error {
			if add(v) {
				return errWalkBound
			}
			return nil
		}
		var err error
		if m == "ForEach" {
			err = w.l.ForEach(cb)
		} else {
			err = w.l.ForEachReverse(cb)
		}
		if err != nil && err != errWalkBound {
			note = fmt.Sprintf("%s returned the error %v that no callback produced", m, err)
		}
	case "Range", "RangeReverse":
		func() {
			defer func() {
				if p := recover(); p != nil {
					if _, ok := p.(walkBound); !ok {
						panic(p)
					}
				}
			}()
			cb := func(v int) {
				if add(v) {
					panic(walkBound{})
				}
			}
			if m == "Range" {
				w.l.Range(cb)
			} else {
				w.l.RangeReverse(cb)
			}
		}()
	case "Values":
		vals = w.l.Values()
	}
	if len(vals) > limit {
		return vals[:limit], fmt.Sprintf("%s visited more than %d elements although at most %d can be alive (the walk does not come back to the sentinel)", m, limit, w.bound)
	}
	if strings.HasSuffix(m, "Reverse") {
		for i, j := 0, len(vals)-1; i < j; i, j = i+1, j-1 {
			vals[i], vals[j] = vals[j], vals[i]
		}
	}
	return vals, note
}

func (f *freeWorker) snapshot(m string) {
	w := f.w
	f.cur = m
	vals, note := w.collect(m)
	if note != "" {
		w.fail("goroutine %d: %s; first values %s", f.g, note, fvList(vals))
		return
	}
	seen := make(map[int]int, len(vals))
	var myLane []int
	tm := [nTmpl]int{}
	for _, v := range vals {
		if !w.plausible(v) {
			w.fail("goroutine %d: %s shows value %d that nobody pushed; snapshot %s", f.g, m, v, fvList(vals))
			return
		}
		seen[v]++
		g := fvWorker(v)
		if g == fwTmpl {
			tm[fvSeq(v)]++
			continue
		}
		if seen[v] > 1 {
			w.fail("goroutine %d: one %s snapshot (taken under the list's read lock) shows element %s twice: %s", f.g, m, fvStr(v), fvList(vals))
			return
		}
		switch {
		case g == f.g && fvClass(v) == clLane:
			myLane = append(myLane, v)
		case g == f.g && !f.freeLive[v]:
			w.fail("goroutine %d: %s shows free element %s that its owner had removed (or had not pushed yet): %s", f.g, m, fvStr(v), fvList(vals))
			return
		case g == fwShared && f.remSh[fvSeq(v)]:
			w.fail("goroutine %d: %s shows shared element %s after this goroutine's Remove of it had returned: %s", f.g, m, fvStr(v), fvList(vals))
			return
		}
	}
	for v := range f.freeLive {
		if seen[v] != 1 {
			w.fail("goroutine %d: live free element %s (pushed by this goroutine, removable by nobody else) is missing from its %s snapshot %s", f.g, fvStr(v), m, fvList(vals))
			return
		}
	}
	want := make([]int, 0, f.ref.Len())
	for e := f.ref.Front(); e != nil; e = e.Next() {
		want = append(want, e.Value.(int))
	}
	if !eqInts(myLane, want) {
		w.fail("goroutine %d: lane elements (touched by this goroutine only) read %s in its %s snapshot, its private container/list reads %s; snapshot %s", f.g, fvList(myLane), m, fvList(want), fvList(vals))
		return
	}
	for i := 1; i < nTmpl; i++ {
		if tm[i] != tm[0] {
			w.fail("goroutine %d: %s shows the template values %d/%d/%d times: a whole-list push was seen half done: %s", f.g, m, tm[0], tm[1], tm[2], fvList(vals))
			return
		}
	}
	if tm[0] < f.pl || tm[0] > w.k*w.plCap {
		w.fail("goroutine %d: %s shows %d copies of the template, this goroutine alone has completed %d whole-list pushes (at most %d happen)", f.g, m, tm[0], f.pl, w.k*w.plCap)
	}
}

func (f *freeWorker) run() {
	w, r := f.w, f.r
	for !w.stop.Load() && f.ops < freeMaxOps {
		var m string
		if r.Bool() {
			m = w.focus[r.Intn(len(w.focus))]
		} else {
			m = freeMethods[r.Intn(len(freeMethods))]
		}
		f.call(m)
	}
}

type freeResult struct {
	Focus  string         `json:"focus"`
	Config string         `json:"config"`
	Ops    int64          `json:"ops"`
	Hist   map[string]int `json:"hist"`
	Fails  []string       `json:"fails"`
}

func stackHead(b []byte) string {
	lines := strings.Split(string(b), "\n")
	var keep []string
	for _, ln := range lines {
		if strings.Contains(ln, "hive.go/ds.") || strings.Contains(ln, "list_impl.go") {
			keep = append(keep, strings.TrimSpace(ln))
			if len(keep) >= 4 {
				break
			}
		}
	}
	return strings.Join(keep, " | ")
}

// freeRound: one list, k goroutines, d running time. Everything judged in here is schedule-independent.
func freeRound(focus string, seed uint64, d time.Duration) freeResult {
	r := vx.NewRng(seed)
	k := 2 + r.Intn(3)
	w := &freeWorld{l: ds.NewList[int](), tmpl: ds.NewList[int](true), k: k, focus: strings.Split(focus, "+"), plCap: 3}
	if focus == "uniform" {
		w.focus = freeMethods
	}
	if strings.HasPrefix(focus, "Push") && strings.HasSuffix(focus, "List") {
		w.plCap = 24
	}
	w.bound = k*(laneCap+freeCap) + nShared + nTmpl*k*w.plCap
	for i := 0; i < nTmpl; i++ {
		w.tmpl.PushBack(fval(fwTmpl, 0, i))
	}
	for i := 0; i < nShared; i++ {
		w.shared = append(w.shared, w.l.PushBack(fval(fwShared, 0, i)))
	}
	w.pubLane = make([][]atomic.Pointer[pubSlot], k)
	w.pubFree = make([][]atomic.Pointer[pubSlot], k)
	workers := make([]*freeWorker, k)
	for g := 0; g < k; g++ {
		w.pubLane[g] = make([]atomic.Pointer[pubSlot], laneCap)
		w.pubFree[g] = make([]atomic.Pointer[pubSlot], freeCap)
		workers[g] = &freeWorker{w: w, g: g, r: r.Fork(), ref: list.New(), freeLive: map[int]bool{}, remSh: map[int]bool{}, hist: map[string]int{}}
	}
	res := freeResult{Focus: focus, Config: fmt.Sprintf("ds.NewList[int](), %d goroutines, half of the calls %s, %d shared elements, GOMAXPROCS=%d", k, focus, nShared, runtime.GOMAXPROCS(0))}
	var wg sync.WaitGroup
	start := make(chan struct{})
	for _, f := range workers {
		wg.Add(1)
		go func(f *freeWorker) {
			defer wg.Done()
			defer func() {
				if p := recover(); p != nil {
					w.fail("goroutine %d: the implementation panicked in %s: %v [%s]", f.g, f.cur, p, stackHead(debug.Stack()))
				}
			}()
			<-start
			f.run()
		}(f)
	}
	close(start)
	t0 := time.Now()
	for time.Since(t0) < d && !w.stop.Load() {
		time.Sleep(2 * time.Millisecond)
	}
	w.stop.Store(true)
	done := make(chan struct{})
	go func() { wg.Wait(); close(done) }()
	returned := true
	select {
	case <-done:
	case <-time.After(30 * time.Second):
		returned = false
		w.fail("the goroutines did not return within 30 s after the stop signal (a lock is held for ever or a walk inside the list does not end)")
	}
	res.Hist = map[string]int{}
	for _, f := range workers {
		res.Ops += f.ops
		for m, c := range f.hist {
			res.Hist[m] += c
		}
	}
	if returned {
		w.quiescent(workers)
	}
	res.Fails = w.fails
	return res
}

// quiescent: all goroutines have returned (wg.Wait orders their writes before these reads)
func (w *freeWorld) quiescent(workers []*freeWorker) {
	limit := w.bound + 8
	bad := func(format string, a ...any) {
		w.mu.Lock()
		if len(w.fails) < 8 {
			w.fails = append(w.fails, "at quiescence: "+fmt.Sprintf(format, a...))
		}
		w.mu.Unlock()
	}
	var fwd, bwd []int
	var n int
	r := guardedFor(20*time.Second, func() {
		n = w.l.Len()
		for e := w.l.Front(); e != nil && len(fwd) <= limit; e = e.Next() {
			fwd = append(fwd, e.Value())
		}
		for e := w.l.Back(); e != nil && len(bwd) <= limit; e = e.Prev() {
			bwd = append(bwd, e.Value())
		}
	})
	if r != "ok" {
		bad("Len / Front / Next / Back / Prev with no other caller around: %s (a lock was left held, or the ring is corrupted)", r)
		return
	}
	for i, j := 0, len(bwd)-1; i < j; i, j = i+1, j-1 {
		bwd[i], bwd[j] = bwd[j], bwd[i]
	}
	wellFormed := true
	if len(fwd) > limit || len(bwd) > limit {
		bad("a walk does not end within %d steps (at most %d elements can be alive): forward %s, backward %s", limit, w.bound, fvList(fwd), fvList(bwd))
		wellFormed = false
	} else if !eqInts(fwd, bwd) {
		bad("the forward walk (Front/Next) reads %s, the backward walk (Back/Prev) reversed reads %s", fvList(fwd), fvList(bwd))
		wellFormed = false
	}
	if n != len(fwd) {
		bad("Len() = %d, the forward walk has %d elements", n, len(fwd))
	}
	// expected contents
	expect := map[int]int{}
	removed := map[int]bool{}
	pl := 0
	for _, f := range workers {
		for e := f.ref.Front(); e != nil; e = e.Next() {
			expect[e.Value.(int)]++
		}
		for v := range f.freeLive {
			expect[v]++
		}
		for i := range f.remSh {
			removed[i] = true
		}
		pl += f.pl
	}
	for i := 0; i < nShared; i++ {
		if !removed[i] {
			expect[fval(fwShared, 0, i)]++
		}
	}
	for i := 0; i < nTmpl && pl > 0; i++ {
		expect[fval(fwTmpl, 0, i)] = pl
	}
	judge := func(what string, vals []int) {
		got := map[int]int{}
		for _, v := range vals {
			got[v]++
		}
		keys := make([]int, 0, len(expect)+len(got))
		for v := range expect {
			keys = append(keys, v)
		}
		for v := range got {
			if _, ok := expect[v]; !ok {
				keys = append(keys, v)
			}
		}
		sort.Ints(keys)
		shown := 0
		for _, v := range keys {
			if got[v] != expect[v] && shown < 3 {
				shown++
				switch {
				case expect[v] == 0 && !w.plausible(v):
					bad("%s holds value %d that nobody pushed", what, v)
				case expect[v] == 0:
					bad("%s holds %s (%d times) although it was removed (its Remove had returned) or never pushed", what, fvStr(v), got[v])
				case got[v] == 0:
					bad("%s lacks %s, which was pushed and never removed", what, fvStr(v))
				default:
					bad("%s holds %s %d times, expected %d", what, fvStr(v), got[v], expect[v])
				}
			}
		}
		if shown > 0 {
			bad("%s reads %s", what, fvList(vals))
		}
		for _, f := range workers {
			var mine, want []int
			for _, v := range vals {
				if fvWorker(v) == f.g && fvClass(v) == clLane {
					mine = append(mine, v)
				}
			}
			for e := f.ref.Front(); e != nil; e = e.Next() {
				want = append(want, e.Value.(int))
			}
			if !eqInts(mine, want) {
				bad("%s: the lane elements of goroutine %d (touched by that goroutine only) read %s, its private container/list reads %s", what, f.g, fvList(mine), fvList(want))
			}
		}
	}
	judge("the forward walk", fwd)
	if !eqInts(fwd, bwd) && len(bwd) <= limit {
		judge("the backward walk", bwd)
	}
	for _, f := range workers {
		for _, x := range f.lane {
			if x.h.Value() != x.v {
				bad("handle of %s now holds %s", fvStr(x.v), fvStr(x.h.Value()))
			}
		}
	}
	// the iteration methods (bounded ones always; Values only on a ring that is known to close)
	ms := []string{"ForEach", "ForEachReverse", "Range", "RangeReverse"}
	if wellFormed {
		ms = append(ms, "Values")
	}
	for _, m := range ms {
		var vals []int
		var note string
		if r := guardedFor(20*time.Second, func() { vals, note = w.collect(m) }); r != "ok" {
			bad("%s with no other caller around: %s", m, r)
			return
		}
		if note != "" {
			bad("%s", note)
		} else if !eqInts(vals, fwd) {
			bad("%s reads %s, the forward walk %s", m, fvList(vals), fvList(fwd))
		}
	}
	// the list must still take calls (no lock left behind by any interleaving)
	if r := guardedFor(20*time.Second, func() {
		h := w.l.PushBack(fval(0, clFree, 1<<35))
		w.l.MoveToFront(h)
		w.l.Remove(h)
	}); r != "ok" {
		bad("PushBack / MoveToFront / Remove with no other caller around: %s", r)
	}
}

func guardedFor(d time.Duration, f func()) string {
	done := make(chan string, 1)
	go func() {
		defer func() {
			if p := recover(); p != nil {
				done <- fmt.Sprintf("panic: %v [%s]", p, stackHead(debug.Stack()))
			}
		}()
		f()
		done <- "ok"
	}()
	select {
	case s := <-done:
		return s
	case <-time.After(d):
		return fmt.Sprintf("no return within %v", d)
	}
}

func freeMain(args []string) {
	fs := flag.NewFlagSet("free", flag.ExitOnError)
	ms := fs.Int("ms", 200, "running time of every round in milliseconds")
	rounds := fs.Int("rounds", 1, "rounds per focus")
	seed := fs.Uint64("seed", 1, "")
	only := fs.String("focus", "", "run only this focus (replay)")
	tag := fs.String("tag", "free", "key of the summary in the evidence")
	_ = fs.String("out", "", "unused: this family has no Coq cases")
	stats := fs.String("stats", "stats.json", "")
	child := fs.String("child", "", "internal: run one round with this focus and write its result to --stats")
	_ = fs.Parse(args)
	if runtime.GOMAXPROCS(0) < 2 {
		runtime.GOMAXPROCS(2)
	}
	d := time.Duration(*ms) * time.Millisecond
	if *child != "" {
		var once sync.Once
		write := func(res freeResult) {
			once.Do(func() {
				b, _ := json.Marshal(res)
				if err := os.WriteFile(*stats, b, 0o644); err != nil {
					vx.Die("%v", err)
				}
			})
		}
		// Values() on a ring that no longer closes appends for ever: end the process with a report instead
		go func() {
			s := []metrics.Sample{{Name: "/memory/classes/heap/objects:bytes"}}
			t0 := time.Now()
			for {
				time.Sleep(5 * time.Millisecond)
				metrics.Read(s)
				if s[0].Value.Kind() == metrics.KindUint64 && s[0].Value.Uint64() > heapCeiling {
					write(freeResult{Focus: *child, Config: "(stopped by the heap monitor)", Fails: []string{fmt.Sprintf(
						"the heap grew beyond %d MiB although the list never holds more than a few hundred elements: a walk inside the list (Values) no longer ends - the ring is corrupted", heapCeiling>>20)}})
					os.Exit(0)
				}
				if time.Since(t0) > d+75*time.Second {
					write(freeResult{Focus: *child, Config: "(stopped by the watchdog)", Fails: []string{"the round did not finish within its running time + 75 s"}})
					os.Exit(0)
				}
			}
		}()
		res := freeResult{Focus: *child, Config: "(panicked while inspecting the list at quiescence)"}
		func() {
			defer func() {
				if p := recover(); p != nil {
					res.Fails = append(res.Fails, fmt.Sprintf("after the goroutines had stopped, inspecting the list panicked (corrupted state): %v [%s]", p, stackHead(debug.Stack())))
				}
			}()
			res = freeRound(*child, *seed, d)
		}()
		write(res)
		return
	}
	st := vx.NewStats("free-running concurrent use of ONE thread-safe list ds.NewList[int]() by 2-4 goroutines for a fixed time on >= 2 cores (half of the calls of a round are the round's focus method(s), " +
		"the rest uniform over the 11 mutators and 8 readers; lane elements touched by their owner only and mirrored on a private container/list, free elements moved by everybody, shared elements moved and removed by everybody, " +
		"whole-list pushes from a static list), judged by laws that hold for every schedule of ATOMIC wrapper methods; non-trivial = the round made >= 1000 calls")
	st.Count(fmt.Sprintf("%s:GOMAXPROCS=%d", *tag, runtime.GOMAXPROCS(0)))
	if runtime.NumCPU() < 2 {
		st.Extra["c10_"+*tag] = "skipped: fewer than 2 CPUs, goroutines cannot overlap"
		if err := st.Write(*stats); err != nil {
			vx.Die("%v", err)
		}
		return
	}
	total := int64(0)
	nrounds := 0
	for fi, focus := range freeFoci {
		if *only != "" && *only != focus {
			continue
		}
		for i := 0; i < *rounds; i++ {
			cseed := vx.NewRng(*seed^uint64(fi+1)*0x9e3779b97f4a7c15^uint64(i+1)<<48).U64() >> 1
			tmp := fmt.Sprintf("%s.%d.%d.json", *stats, fi, i)
			_ = os.Remove(tmp)
			ctx, cancel := context.WithTimeout(context.Background(), d+90*time.Second)
			cmd := exec.CommandContext(ctx, os.Args[0], "free", "--child", focus, "--ms", fmt.Sprint(*ms), "--seed", fmt.Sprint(cseed), "--stats", tmp)
			var stderr bytes.Buffer
			cmd.Stderr = &stderr
			err := cmd.Run()
			cancel()
			var res freeResult
			b, rerr := os.ReadFile(tmp)
			_ = os.Remove(tmp)
			if err != nil || rerr != nil || json.Unmarshal(b, &res) != nil {
				msg := stderr.String()
				if len(msg) > 1500 {
					msg = msg[:1500]
				}
				res = freeResult{Focus: focus, Config: "(the round's process did not finish)",
					Fails: []string{fmt.Sprintf("the process running this round died or hung (%v); the Go runtime said: %s", err, msg)}}
			}
			nrounds++
			total += res.Ops
			st.Count(*tag + ":focus=" + focus)
			st.Case(fmt.Sprintf("%s %s %d %d", *tag, focus, cseed, i), res.Ops >= 1000)
			for m, c := range res.Hist {
				st.Hist[*tag+"-calls:"+m] += c
			}
			if len(res.Fails) > 0 {
				st.Fail(map[string]any{"sig": "", "kind": "free-running concurrent use of the thread-safe list: a law of atomic wrapper methods is violated",
					"c10_free": true, "focus": focus, "config": res.Config, "ms": *ms, "gen_seed": *seed, "round_seed": cseed, "calls": res.Ops, "why": res.Fails,
					"replay_note": fmt.Sprintf("schedule-dependent: `hx-c10 free --focus %s --seed %d --ms %d --rounds 5` (or bin/check C10 --replay <this file>) re-runs the same round configurations", focus, *seed, *ms)})
				fails++
				if fails >= 4 {
					break
				}
			}
		}
		if fails >= 4 {
			break
		}
	}
	st.Extra["c10_"+*tag] = map[string]any{"rounds": nrounds, "ms_per_round": *ms, "calls": total, "cpus": runtime.NumCPU(), "gomaxprocs": runtime.GOMAXPROCS(0)}
	if err := st.Write(*stats); err != nil {
		vx.Die("%v", err)
	}
}
