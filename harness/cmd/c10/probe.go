package main

import (
	"container/list"
	"fmt"

	"github.com/iotaledger/hive.go/ds"
)

func try(name string, f func()) {
	defer func() {
		if r := recover(); r != nil {
			fmt.Printf("%s -> PANIC %v\n", name, r)
		}
	}()
	f()
}

func probe() {
	for _, lockFree := range []bool{true, false} {
		l := ds.NewList[int](lockFree)
		fmt.Printf("lockFree=%v Init()==l: %v\n", lockFree, l.Init() == l)
		a := l.PushBack(1)
		l.Init()
		l.InsertAfter(2, a)
		r := l.Front()
		fmt.Printf("lockFree=%v leaked front: len=%d value=%v next=%v\n", lockFree, l.Len(), r.Value(), r.Next())
		try("ds Remove(sentinel)", func() { fmt.Println("ds Remove(sentinel) ->", l.Remove(r)) })
		try("ds PushBackList(zombie)", func() {
			m := ds.NewList[int](lockFree)
			m.PushBackList(l)
			fmt.Println("ds PushBackList(zombie) ->", m.Values())
		})
	}
	l := list.New()
	a := l.PushBack(1)
	l.Init()
	l.InsertAfter(2, a)
	r := l.Front()
	fmt.Printf("container/list leaked front: len=%d value=%v next=%v\n", l.Len(), r.Value, r.Next())
	try("cl Remove(sentinel)", func() { fmt.Println("cl Remove(sentinel) ->", l.Remove(r)) })
	try("cl PushBackList(zombie)", func() {
		m := list.New()
		m.PushBackList(l)
		fmt.Println("cl PushBackList(zombie) ->", m.Len(), m.Front().Value)
	})
}
