package main

import (
	"fmt"
	"time"

	"github.com/iotaledger/hive.go/ds"
)

// probe reproduces the two listed defects on the real code (D10a, D10b) and prints what it saw.
func probe() {
	for _, lockFree := range []bool{true, false} {
		l := ds.NewList[int](lockFree)
		a := l.PushBack(1)
		l.PushBack(2)
		c := l.PushBack(3)
		l.MoveBefore(c, a)
		fmt.Printf("lockFree=%v [1 2 3]; MoveBefore(c,a) -> %v (container/list: [3 1 2])\n", lockFree, l.Values())
		l.MoveAfter(a, c)
		fmt.Printf("lockFree=%v MoveAfter(a,c) -> %v\n", lockFree, l.Values())
	}
	for _, lockFree := range []bool{true, false} {
		l := ds.NewList[int](lockFree)
		l.PushBack(1)
		l.PushBack(2)
		done := make(chan struct{})
		go func() { l.PushBackList(l); close(done) }()
		select {
		case <-done:
			fmt.Printf("lockFree=%v l.PushBackList(l) -> %v\n", lockFree, l.Values())
		case <-time.After(300 * time.Millisecond):
			fmt.Printf("lockFree=%v l.PushBackList(l) -> HANG (300ms)\n", lockFree)
		}
	}
}
