// Free-running concurrent family (round 2, seed C12-m14): every container of this part carries a mutex and promises
// goroutine-safe methods (threadsafe Stack, Queue, RingBuffer, ShrinkingMap, RandomMap, PriorityQueue). 2-4 goroutines
// push / pop / set / delete for a fixed time on >= 2 cores; the oracles are conservation laws that hold for EVERY
// schedule of atomic methods (so a busy machine cannot produce a false alarm):
//   - every element handed in comes out at most once while running and exactly once after draining (stack, queue incl.
//     evictions, priority queue unless its removal handle was used), nothing comes out that was not put in;
//   - a consumer sees each producer's elements in the container's order (FIFO: increasing; ring newest-first: decreasing);
//   - keys written by one goroutine only behave sequentially for that goroutine (every return value is checked against
//     its private plain map) and at quiescence the contents are exactly the surviving last writes; a shared counter key
//     bumped through Compute ends at the number of bumps; sizes stay within bounds; readers only see values that were written.
// Every goroutine runs under recover (a panic is a reported outcome) and the whole family under a watchdog. The same
// subcommand is run a second time from a -race build by the check; a data race report there is a violation of its own.
// No Coq cases: the C12 theorems are about sequential histories, this family ties "methods are atomic" to the code.
package main

import (
	"bytes"
	"context"
	"encoding/json"
	"flag"
	"fmt"
	"os"
	"os/exec"
	"reflect"
	"runtime"
	"sort"
	"sync"
	"sync/atomic"
	"time"

	"github.com/iotaledger/hive.go/ds/priorityqueue"
	"github.com/iotaledger/hive.go/ds/queue"
	"github.com/iotaledger/hive.go/ds/randommap"
	"github.com/iotaledger/hive.go/ds/ringbuffer"
	"github.com/iotaledger/hive.go/ds/shrinkingmap"
	"github.com/iotaledger/hive.go/ds/stack"

	"verif/harness/vx"
)

const freeMaxOps = 400000 // per goroutine (bounds memory, also under the race detector)

type freeRun struct {
	name   string
	config string
	mu     sync.Mutex
	fails  []string
	ops    atomic.Int64
}

func (f *freeRun) fail(format string, a ...any) {
	f.mu.Lock()
	defer f.mu.Unlock()
	if len(f.fails) < 6 {
		f.fails = append(f.fails, fmt.Sprintf(format, a...))
	}
}

// workers runs the bodies concurrently for d; returns false when they did not all return within the watchdog.
func (f *freeRun) workers(d time.Duration, bodies ...func(stop *atomic.Bool)) bool {
	var stop atomic.Bool
	var wg sync.WaitGroup
	start := make(chan struct{})
	for i, b := range bodies {
		wg.Add(1)
		go func(i int, b func(*atomic.Bool)) {
			defer wg.Done()
			defer func() {
				if p := recover(); p != nil {
					f.fail("goroutine %d: the implementation panicked: %v", i, p)
				}
			}()
			<-start
			b(&stop)
		}(i, b)
	}
	close(start)
	time.Sleep(d)
	stop.Store(true)
	done := make(chan struct{})
	go func() { wg.Wait(); close(done) }()
	select {
	case <-done:
		return true
	case <-time.After(30 * time.Second):
		f.fail("goroutines did not return within 30 s after the stop signal (deadlock?)")
		return false
	}
}

func val(worker int, seq int64) int64 { return int64(worker)<<32 | seq }
func valWorker(v int64) int           { return int(v >> 32 & 0xff) }
func valSeq(v int64) int64            { return v & 0xffffffff }

// conservation: every value of `in` must occur exactly once in `out` (at most once when optional[v]); nothing else may occur
func (f *freeRun) conserve(what string, in []int64, out []int64, optional map[int64]bool) {
	cnt := make(map[int64]int, len(out))
	for _, v := range out {
		cnt[v]++
	}
	isIn := make(map[int64]bool, len(in))
	dups, lost := 0, 0
	for _, v := range in {
		isIn[v] = true
		switch c := cnt[v]; {
		case c > 1:
			if dups++; dups <= 2 {
				f.fail("%s: element %d (goroutine %d, #%d) came out %d times", what, v, valWorker(v), valSeq(v), c)
			}
		case c == 0 && !optional[v]:
			if lost++; lost <= 2 {
				f.fail("%s: element %d (goroutine %d, #%d) went in and never came out, not even after draining", what, v, valWorker(v), valSeq(v))
			}
		}
	}
	alien := 0
	for v := range cnt {
		if !isIn[v] {
			if alien++; alien <= 2 {
				f.fail("%s: element %d came out but was never put in", what, v)
			}
		}
	}
	if dups+lost+alien > 0 {
		f.fail("%s: %d went in, %d came out; %d duplicated, %d lost, %d alien", what, len(in), len(out), dups, lost, alien)
	}
}

// ---- Stack (threadsafe flavour)

func freeStack(r *vx.Rng, d time.Duration) *freeRun {
	np, nc := 1+r.Intn(2), 2
	f := &freeRun{name: "stack", config: fmt.Sprintf("stack.New(true), %d producers, %d consumers, prefilled", np, nc)}
	s := stack.New[int64](true)
	var in []int64
	for i := int64(0); i < 30000; i++ { // so that the consumers meet a non-empty stack from the start
		s.Push(val(9, i))
		in = append(in, val(9, i))
	}
	pushed := make([][]int64, np)
	popped := make([][]int64, nc)
	var bodies []func(*atomic.Bool)
	for p := 0; p < np; p++ {
		p := p
		bodies = append(bodies, func(stop *atomic.Bool) {
			for seq := int64(0); !stop.Load() && seq < freeMaxOps; seq++ {
				s.Push(val(p, seq))
				pushed[p] = append(pushed[p], val(p, seq))
				if seq%64 == 0 {
					if sz := s.Size(); sz < 0 {
						f.fail("Size() = %d", sz)
					}
				}
			}
		})
	}
	for c := 0; c < nc; c++ {
		c := c
		bodies = append(bodies, func(stop *atomic.Bool) {
			for n := 0; !stop.Load() && n < freeMaxOps; n++ {
				if v, ok := s.Pop(); ok {
					popped[c] = append(popped[c], v)
				} else {
					runtime.Gosched()
				}
				if n%97 == 0 {
					s.Peek()
					s.IsEmpty()
				}
			}
		})
	}
	if !f.workers(d, bodies...) {
		return f
	}
	var out []int64
	for _, p := range pushed {
		in = append(in, p...)
	}
	for _, p := range popped {
		out = append(out, p...)
	}
	func() {
		defer func() {
			if p := recover(); p != nil {
				f.fail("draining: the implementation panicked: %v", p)
			}
		}()
		for i := 0; i <= len(in); i++ {
			v, ok := s.Pop()
			if !ok {
				break
			}
			out = append(out, v)
		}
		if sz := s.Size(); sz != 0 {
			f.fail("Size() = %d after draining", sz)
		}
	}()
	f.ops.Store(int64(len(in) + len(out)))
	f.conserve("threadsafe stack", in, out, nil)
	return f
}

// ---- Queue

func increasingPerProducer(f *freeRun, what string, seen []int64, decreasing bool) {
	lastSeq := map[int]int64{}
	for _, v := range seen {
		w := valWorker(v)
		if l, ok := lastSeq[w]; ok && (!decreasing && valSeq(v) <= l || decreasing && valSeq(v) >= l) {
			f.fail("%s: elements of goroutine %d out of order: #%d after #%d", what, w, valSeq(v), l)
			return
		}
		lastSeq[w] = valSeq(v)
	}
}

func freeQueue(r *vx.Rng, d time.Duration) *freeRun {
	capacity := vx.Pick(r, []int{1, 2, 3, 8, 64})
	np, nc := 2, 1+r.Intn(2)
	f := &freeRun{name: "queue", config: fmt.Sprintf("queue.New(%d), %d producers (Offer/ForceOffer), %d consumers", capacity, np, nc)}
	q := queue.New[int64](capacity)
	accepted, evicted := make([][]int64, np), make([][]int64, np)
	polled := make([][]int64, nc)
	var bodies []func(*atomic.Bool)
	for p := 0; p < np; p++ {
		p := p
		force := p == 0
		bodies = append(bodies, func(stop *atomic.Bool) {
			for seq := int64(0); !stop.Load() && seq < freeMaxOps; seq++ {
				v := val(p, seq)
				if force && seq%3 == 0 {
					if ev, was := q.ForceOffer(v); was {
						evicted[p] = append(evicted[p], ev)
					}
					accepted[p] = append(accepted[p], v)
				} else if q.Offer(v) {
					accepted[p] = append(accepted[p], v)
				}
				if seq%32 == 0 {
					if sz := q.Size(); sz < 0 || sz > capacity {
						f.fail("Size() = %d with capacity %d", sz, capacity)
					}
				}
			}
		})
	}
	for c := 0; c < nc; c++ {
		c := c
		bodies = append(bodies, func(stop *atomic.Bool) {
			for n := 0; !stop.Load() && n < freeMaxOps; n++ {
				if v, ok := q.Poll(); ok {
					polled[c] = append(polled[c], v)
				} else {
					runtime.Gosched()
				}
			}
		})
	}
	if !f.workers(d, bodies...) {
		return f
	}
	var in, out []int64
	for p := range accepted {
		in = append(in, accepted[p]...)
		out = append(out, evicted[p]...)
	}
	for c := range polled {
		out = append(out, polled[c]...)
		increasingPerProducer(f, fmt.Sprintf("queue: Poll results of consumer %d", c), polled[c], false)
	}
	var drained []int64
	for i := 0; i <= capacity; i++ {
		v, ok := q.Poll()
		if !ok {
			break
		}
		drained = append(drained, v)
	}
	if len(drained) > capacity {
		f.fail("queue of capacity %d held more than %d elements", capacity, capacity)
	}
	increasingPerProducer(f, "queue: drained", drained, false)
	out = append(out, drained...)
	f.ops.Store(int64(len(in) + len(out)))
	f.conserve("queue (polled + evicted by ForceOffer + drained)", in, out, nil)
	return f
}

// ---- RingBuffer

func freeRing(r *vx.Rng, d time.Duration) *freeRun {
	capacity := vx.Pick(r, []int{1, 2, 3, 5, 8})
	np := 2
	f := &freeRun{name: "ringbuffer", config: fmt.Sprintf("NewRingBuffer(%d), %d adders, 1 reader", capacity, np)}
	rb := ringbuffer.NewRingBuffer[int64](capacity)
	started := make([]atomic.Int64, np) // number of Adds begun by each adder
	checkSlice := func(what string, sl []int64) {
		if len(sl) > capacity {
			f.fail("%s: ToSlice returned %d elements, capacity %d", what, len(sl), capacity)
		}
		seen := map[int64]bool{}
		for _, v := range sl {
			w := valWorker(v)
			if seen[v] || w >= np || valSeq(v) >= started[w].Load() {
				f.fail("%s: ToSlice = %v: element %d repeated or never added", what, sl, v)
				return
			}
			seen[v] = true
		}
		increasingPerProducer(f, what+": ToSlice (newest first)", sl, true)
		// the elements of one adder are its most recent ones up to one in flight: consecutive sequence numbers
		bySeq := map[int][]int64{}
		for _, v := range sl {
			bySeq[valWorker(v)] = append(bySeq[valWorker(v)], valSeq(v))
		}
		for w, seqs := range bySeq {
			for i := 1; i < len(seqs); i++ {
				if seqs[i] != seqs[i-1]-1 {
					f.fail("%s: ToSlice = %v: elements of adder %d are not consecutive (an older one survived a newer one)", what, sl, w)
					return
				}
			}
		}
	}
	var bodies []func(*atomic.Bool)
	for p := 0; p < np; p++ {
		p := p
		bodies = append(bodies, func(stop *atomic.Bool) {
			for seq := int64(0); !stop.Load() && seq < freeMaxOps; seq++ {
				started[p].Store(seq + 1)
				rb.Add(val(p, seq))
			}
		})
	}
	bodies = append(bodies, func(stop *atomic.Bool) {
		for n := 0; !stop.Load() && n < freeMaxOps; n++ {
			checkSlice("while adding", rb.ToSlice())
		}
	})
	if !f.workers(d, bodies...) {
		return f
	}
	total := int64(0)
	for p := range started {
		total += started[p].Load()
	}
	final := rb.ToSlice()
	checkSlice("at quiescence", final)
	want := int64(capacity)
	if total < want {
		want = total
	}
	if int64(len(final)) != want {
		f.fail("at quiescence ToSlice has %d elements after %d adds, capacity %d", len(final), total, capacity)
	}
	// each adder's survivors end with its last element
	lastOf := map[int]int64{}
	for _, v := range final {
		if s, ok := lastOf[valWorker(v)]; !ok || valSeq(v) > s {
			lastOf[valWorker(v)] = valSeq(v)
		}
	}
	for w, s := range lastOf {
		if s != started[w].Load()-1 {
			f.fail("at quiescence the newest element of adder %d is #%d, its last Add was #%d", w, s, started[w].Load()-1)
		}
	}
	f.ops.Store(total)
	return f
}

// ---- ShrinkingMap / RandomMap: single-writer keys + a shared counter key

const (
	freeKeysPerWriter = 4
	freeCounterKey    = 1000
	freeOnceKeyBase   = 2000
)

func freeSMap(r *vx.Rng, d time.Duration) *freeRun {
	o := smOptsAll[1+r.Intn(len(smOptsAll)-1)]
	nw := 2 + r.Intn(2)
	f := &freeRun{name: "shrinkingmap", config: fmt.Sprintf("options %s, %d writers on own keys + shared counter + GetOrCreate races, 1 reader", o.coq(), nw)}
	sm := shrinkingmap.New[int, int64](o.goOpts()...)
	refs := make([]map[int]int64, nw)
	bumps := make([]int64, nw)
	written := make([]atomic.Int64, nw)
	created := make([][]int, nw) // once-keys this writer created
	seeds := make([]*vx.Rng, nw)
	for w := range seeds {
		seeds[w] = r.Fork()
		refs[w] = map[int]int64{}
	}
	var round atomic.Int64 // all writers race for GetOrCreate(freeOnceKeyBase+round)
	var bodies []func(*atomic.Bool)
	for w := 0; w < nw; w++ {
		w := w
		bodies = append(bodies, func(stop *atomic.Bool) {
			rr, ref := seeds[w], refs[w]
			for seq := int64(1); !stop.Load() && seq < freeMaxOps; seq++ {
				k := w*freeKeysPerWriter + rr.Intn(freeKeysPerWriter)
				v := val(w, seq)
				cur, ex := ref[k]
				switch c := rr.Intn(100); {
				case c < 25:
					written[w].Store(seq)
					if got := sm.Set(k, v); got == ex {
						f.fail("writer %d: Set(%d) created=%v but its key existed=%v", w, k, got, ex)
					}
					ref[k] = v
				case c < 40:
					if got := sm.Delete(k); got != ex {
						f.fail("writer %d: Delete(%d) = %v, its key existed=%v", w, k, got, ex)
					}
					delete(ref, k)
				case c < 50:
					if got, ok := sm.DeleteAndReturn(k); ok != ex || ok && got != cur {
						f.fail("writer %d: DeleteAndReturn(%d) = %d,%v want %d,%v", w, k, got, ok, cur, ex)
					}
					delete(ref, k)
				case c < 60:
					written[w].Store(seq)
					got, cr := sm.GetOrCreate(k, func() int64 { return v })
					if cr == ex || ex && got != cur || !ex && got != v {
						f.fail("writer %d: GetOrCreate(%d) = %d,%v; own key was %d,%v", w, k, got, cr, cur, ex)
					}
					if !ex {
						ref[k] = v
					}
				case c < 70:
					written[w].Store(seq)
					got := sm.Compute(k, func(c2 int64, e2 bool) int64 {
						if e2 != ex || e2 && c2 != cur {
							f.fail("writer %d: Compute(%d) was shown %d,%v; own key was %d,%v", w, k, c2, e2, cur, ex)
						}
						return v
					})
					if got != v {
						f.fail("writer %d: Compute(%d) = %d want %d", w, k, got, v)
					}
					ref[k] = v
				case c < 80:
					if got, ok := sm.Get(k); ok != ex || ok && got != cur {
						f.fail("writer %d: Get(%d) = %d,%v; own key is %d,%v", w, k, got, ok, cur, ex)
					}
				case c < 92:
					sm.Compute(freeCounterKey, func(c2 int64, _ bool) int64 { return c2 + 1 })
					bumps[w]++
				default:
					ok := freeOnceKeyBase + int(round.Load())
					if got, cr := sm.GetOrCreate(ok, func() int64 { return int64(w) }); cr {
						if got != int64(w) {
							f.fail("writer %d created key %d but was handed %d", w, ok, got)
						}
						created[w] = append(created[w], ok)
						round.Add(1)
					}
				}
			}
		})
	}
	bodies = append(bodies, func(stop *atomic.Bool) {
		maxKeys := nw*freeKeysPerWriter + 1 + freeMaxOps
		for n := 0; !stop.Load() && n < freeMaxOps; n++ {
			k := n % (nw * freeKeysPerWriter)
			if got, ok := sm.Get(k); ok && (valWorker(got) != k/freeKeysPerWriter || valSeq(got) > written[k/freeKeysPerWriter].Load()) {
				f.fail("reader: Get(%d) = %d, a value its only writer never wrote", k, got)
			}
			if sz := sm.Size(); sz < 0 || sz > maxKeys {
				f.fail("reader: Size() = %d", sz)
			}
			if n%50 == 0 {
				seen := map[int]bool{}
				sm.ForEachKey(func(k int) bool {
					if seen[k] {
						f.fail("reader: ForEachKey visited key %d twice", k)
					}
					seen[k] = true
					return true
				})
			}
		}
	})
	if !f.workers(d, bodies...) {
		return f
	}
	want := map[int]int64{}
	total, nCreated := int64(0), 0
	for w := 0; w < nw; w++ {
		for k, v := range refs[w] {
			want[k] = v
		}
		total += bumps[w]
		for _, k := range created[w] {
			if _, dup := want[k]; dup {
				f.fail("key %d was created (created=true) by two GetOrCreate calls", k)
			}
			want[k] = int64(w)
			nCreated++
		}
	}
	if total > 0 {
		want[freeCounterKey] = total
	}
	got := sm.AsMap()
	if !eqKV(refContents(got), refContents(want)) {
		n := 0
		for k, v := range want {
			if gv, ok := got[k]; (!ok || gv != v) && n < 3 {
				n++
				f.fail("at quiescence key %d = %v (present %v), the surviving write is %d", k, gv, ok, v)
			}
		}
		for k, v := range got {
			if _, ok := want[k]; !ok && n < 3 {
				n++
				f.fail("at quiescence key %d = %d is present, its writer deleted it / nobody wrote it", k, v)
			}
		}
		f.fail("at quiescence the map has %d entries, the surviving writes are %d (counter bumps %d, once-keys %d)", len(got), len(want), total, nCreated)
	}
	if sm.Size() != len(want) {
		f.fail("at quiescence Size() = %d, %d entries expected", sm.Size(), len(want))
	}
	f.ops.Store(total + int64(nCreated))
	for w := range written {
		f.ops.Add(written[w].Load())
	}
	return f
}

func freeRMap(r *vx.Rng, d time.Duration) *freeRun {
	o := smOptsAll[1+r.Intn(len(smOptsAll)-1)]
	nw := 2 + r.Intn(2)
	f := &freeRun{name: "randommap", config: fmt.Sprintf("options %s, %d writers on own keys, 1 reader with random picks", o.coq(), nw)}
	rm := randommap.New[int, int64](o.goOpts()...)
	refs := make([]map[int]int64, nw)
	written := make([]atomic.Int64, nw)
	seeds := make([]*vx.Rng, nw)
	for w := range seeds {
		seeds[w] = r.Fork()
		refs[w] = map[int]int64{}
	}
	plausible := func(v int64) bool {
		w := valWorker(v)
		return w < nw && valSeq(v) >= 1 && valSeq(v) <= written[w].Load()
	}
	var bodies []func(*atomic.Bool)
	for w := 0; w < nw; w++ {
		w := w
		bodies = append(bodies, func(stop *atomic.Bool) {
			rr, ref := seeds[w], refs[w]
			for seq := int64(1); !stop.Load() && seq < freeMaxOps; seq++ {
				k := w*freeKeysPerWriter + rr.Intn(freeKeysPerWriter)
				v := val(w, seq)
				cur, ex := ref[k]
				switch c := rr.Intn(100); {
				case c < 45:
					written[w].Store(seq)
					rm.Set(k, v)
					ref[k] = v
				case c < 75:
					if got, ok := rm.Delete(k); ok != ex || ok && got != cur {
						f.fail("writer %d: Delete(%d) = %d,%v; own key was %d,%v", w, k, got, ok, cur, ex)
					}
					delete(ref, k)
				case c < 90:
					if got, ok := rm.Get(k); ok != ex || ok && got != cur {
						f.fail("writer %d: Get(%d) = %d,%v; own key is %d,%v", w, k, got, ok, cur, ex)
					}
				default:
					if rm.Has(k) != ex {
						f.fail("writer %d: Has(%d) = %v; own key exists=%v", w, k, !ex, ex)
					}
				}
			}
		})
	}
	bodies = append(bodies, func(stop *atomic.Bool) {
		universe := nw * freeKeysPerWriter
		for n := 0; !stop.Load() && n < freeMaxOps; n++ {
			switch n % 5 {
			case 0:
				if k, ok := rm.RandomKey(); ok && (k < 0 || k >= universe) {
					f.fail("reader: RandomKey() = %d, not a key anybody uses", k)
				}
			case 1:
				if v, ok := rm.RandomEntry(); ok && !plausible(v) {
					f.fail("reader: RandomEntry() = %d, a value nobody wrote", v)
				}
			case 2:
				vs := rm.RandomUniqueEntries(3)
				seen := map[int64]bool{}
				for _, v := range vs {
					if seen[v] || !plausible(v) {
						f.fail("reader: RandomUniqueEntries(3) = %v: repeated or never written value", vs)
					}
					seen[v] = true
				}
				if len(vs) > 3 {
					f.fail("reader: RandomUniqueEntries(3) returned %d entries", len(vs))
				}
			case 3:
				if sz := rm.Size(); sz < 0 || sz > universe {
					f.fail("reader: Size() = %d with %d keys in use", sz, universe)
				}
			default:
				ks := rm.Keys()
				seen := map[int]bool{}
				for _, k := range ks {
					if seen[k] || k < 0 || k >= universe {
						f.fail("reader: Keys() = %v: repeated or foreign key", ks)
					}
					seen[k] = true
				}
			}
		}
	})
	if !f.workers(d, bodies...) {
		return f
	}
	want := map[int]int64{}
	for w := 0; w < nw; w++ {
		for k, v := range refs[w] {
			want[k] = v
		}
		f.ops.Add(written[w].Load())
	}
	keys, ents, _ := rmInternal(rm)
	got := map[int]int64{}
	for _, e := range ents {
		got[e.k] = e.v
		if e.idx < 0 || e.idx >= len(keys) || keys[e.idx] != e.k {
			f.fail("at quiescence entry %d has keyIndex %d but keys=%v", e.k, e.idx, keys)
		}
	}
	if len(keys) != len(ents) {
		f.fail("at quiescence len(keys)=%d but %d entries", len(keys), len(ents))
	}
	if !eqKV(refContents(got), refContents(want)) {
		f.fail("at quiescence the map is %v, the surviving writes are %v", refContents(got), refContents(want))
	}
	if rm.Size() != len(want) {
		f.fail("at quiescence Size() = %d, %d entries expected", rm.Size(), len(want))
	}
	return f
}

// ---- PriorityQueue: value = priority<<40 | worker<<32 | seq

func pqVal(p int64, w int, seq int64) int64 { return p<<40 | val(w, seq) }
func pqPrio(v int64) int64                  { return v >> 40 }

func freePQ(r *vx.Rng, d time.Duration) *freeRun {
	np, nc := 2, 1+r.Intn(2)
	f := &freeRun{name: "priorityqueue", config: fmt.Sprintf("ascending, %d producers (Push + own removal handles), %d consumers (Pop/PopUntil/Peek)", np, nc)}
	q := priorityqueue.New[int64, prio]()
	pushed := make([][]int64, np)
	handled := make([][]int64, np) // elements whose removal handle was called (they may or may not have been popped before)
	popped := make([][]int64, nc)
	seeds := make([]*vx.Rng, np+nc)
	for i := range seeds {
		seeds[i] = r.Fork()
	}
	var bodies []func(*atomic.Bool)
	for p := 0; p < np; p++ {
		p := p
		bodies = append(bodies, func(stop *atomic.Bool) {
			rr := seeds[p]
			type hnd struct {
				v int64
				f func()
			}
			var hs []hnd
			for seq := int64(0); !stop.Load() && seq < freeMaxOps; seq++ {
				v := pqVal(int64(rr.Intn(8)), p, seq)
				h := q.Push(v, prio{p: pqPrio(v), tag: int(seq % 3)})
				pushed[p] = append(pushed[p], v)
				if seq%4 == 0 {
					hs = append(hs, hnd{v, h})
				}
				if len(hs) > 8 {
					x := hs[0]
					hs = hs[1:]
					x.f()
					handled[p] = append(handled[p], x.v)
					if seq%8 == 0 {
						x.f() // idempotent
					}
				}
				if seq%128 == 0 {
					for q.Size() > 4096 && !stop.Load() {
						runtime.Gosched()
					}
				}
			}
		})
	}
	for c := 0; c < nc; c++ {
		c := c
		bodies = append(bodies, func(stop *atomic.Bool) {
			rr := seeds[np+c]
			for n := 0; !stop.Load() && n < freeMaxOps; n++ {
				switch k := rr.Intn(10); {
				case k < 6:
					if v, ok := q.Pop(); ok {
						popped[c] = append(popped[c], v)
					} else {
						runtime.Gosched()
					}
				case k < 9:
					lim := int64(rr.Intn(8))
					vs := q.PopUntil(prio{p: lim, tag: 5})
					for i, v := range vs {
						if pqPrio(v) > lim || i > 0 && pqPrio(vs[i-1]) > pqPrio(v) {
							f.fail("consumer %d: PopUntil(%d) returned priorities out of order or above the limit: element %d has priority %d", c, lim, i, pqPrio(v))
							break
						}
					}
					popped[c] = append(popped[c], vs...)
				default:
					q.Peek()
					q.IsEmpty()
				}
			}
		})
	}
	if !f.workers(d, bodies...) {
		return f
	}
	// quiescence: index fields = positions, PopAll sorted
	hv := fld(reflect.ValueOf(q), "heap")
	for i := 0; i < hv.Len(); i++ {
		if idx := deref(hv.Index(i)).FieldByName("index").Int(); idx != int64(i) {
			f.fail("at quiescence the element at heap position %d has index %d", i, idx)
			break
		}
	}
	if q.Size() != hv.Len() {
		f.fail("at quiescence Size() = %d, heap has %d", q.Size(), hv.Len())
	}
	drained := q.PopAll()
	if !sort.SliceIsSorted(drained, func(i, j int) bool { return pqPrio(drained[i]) < pqPrio(drained[j]) }) {
		f.fail("at quiescence PopAll is not sorted by priority")
	}
	var in, out []int64
	optional := map[int64]bool{}
	for p := range pushed {
		in = append(in, pushed[p]...)
		for _, v := range handled[p] {
			optional[v] = true
		}
	}
	for c := range popped {
		out = append(out, popped[c]...)
	}
	out = append(out, drained...)
	f.ops.Store(int64(len(in) + len(out)))
	f.conserve("priority queue (popped + drained; elements whose handle was used may be missing)", in, out, optional)
	return f
}

// ---- driver

var freeFamilies = []struct {
	name string
	run  func(*vx.Rng, time.Duration) *freeRun
}{{"stack", freeStack}, {"queue", freeQueue}, {"ringbuffer", freeRing}, {"shrinkingmap", freeSMap}, {"randommap", freeRMap}, {"priorityqueue", freePQ}}

type freeResult struct {
	Name   string   `json:"name"`
	Config string   `json:"config"`
	Ops    int64    `json:"ops"`
	Fails  []string `json:"fails"`
}

// Every family runs in a child process of its own: unsynchronised map access makes the Go runtime abort the process
// ("fatal error: concurrent map writes" cannot be recovered), and that must become a reported outcome of that family.
func freeMain(args []string) {
	fs := flag.NewFlagSet("free", flag.ExitOnError)
	ms := fs.Int("ms", 200, "running time of every family in milliseconds")
	rounds := fs.Int("rounds", 1, "")
	seed := fs.Uint64("seed", 1, "")
	_ = fs.String("out", "", "unused: this family has no Coq cases")
	stats := fs.String("stats", "stats.json", "")
	child := fs.String("child", "", "internal: run this one family and write its result to --stats")
	_ = fs.Parse(args)
	if runtime.GOMAXPROCS(0) < 2 {
		runtime.GOMAXPROCS(2)
	}
	d := time.Duration(*ms) * time.Millisecond
	if *child != "" {
		for _, fam := range freeFamilies {
			if fam.name == *child {
				res := freeResult{Name: fam.name, Config: "(panicked while draining / inspecting the container at quiescence)"}
				func() {
					defer func() {
						if p := recover(); p != nil {
							res.Fails = append(res.Fails, fmt.Sprintf("after the goroutines had stopped, draining / inspecting the container panicked (corrupted state): %v", p))
						}
					}()
					f := fam.run(vx.NewRng(*seed), d)
					res = freeResult{f.name, f.config, f.ops.Load(), f.fails}
				}()
				b, _ := json.Marshal(res)
				if err := os.WriteFile(*stats, b, 0o644); err != nil {
					vx.Die("%v", err)
				}
				return
			}
		}
		vx.Die("unknown family %q", *child)
	}
	r := vx.NewRng(*seed ^ 0xf4ee)
	st := vx.NewStats("free-running concurrent use of the goroutine-safe containers (2-4 goroutines, fixed time, >= 2 cores), judged by conservation laws that " +
		"hold for every schedule of atomic methods; non-trivial = the run performed >= 1000 element operations")
	st.Count(fmt.Sprintf("free:GOMAXPROCS=%d", runtime.GOMAXPROCS(0)))
	for i := 0; i < *rounds; i++ {
		for _, fam := range freeFamilies {
			cseed := r.U64() >> 1
			tmp := fmt.Sprintf("%s.%s.%d.json", *stats, fam.name, i)
			_ = os.Remove(tmp)
			ctx, cancel := context.WithTimeout(context.Background(), d+90*time.Second)
			cmd := exec.CommandContext(ctx, os.Args[0], "free", "--child", fam.name, "--ms", fmt.Sprint(*ms), "--seed", fmt.Sprint(cseed), "--stats", tmp)
			var stderr bytes.Buffer
			cmd.Stderr = &stderr
			err := cmd.Run()
			cancel()
			var res freeResult
			b, rerr := os.ReadFile(tmp)
			_ = os.Remove(tmp)
			if err != nil || rerr != nil || json.Unmarshal(b, &res) != nil {
				msg := stderr.String()
				if len(msg) > 1500 {
					msg = msg[:1500]
				}
				res = freeResult{Name: fam.name, Config: "(the family's process did not finish)",
					Fails: []string{fmt.Sprintf("the process running this family died or hung (%v); the Go runtime said: %s", err, msg)}}
			}
			st.Count("free:" + res.Name)
			st.Case(fmt.Sprintf("free %s %s %d", res.Name, res.Config, i), res.Ops >= 1000)
			st.Hist["free-ops:"+res.Name] += int(res.Ops)
			if len(res.Fails) > 0 {
				st.Fail(map[string]any{"sig": "", "kind": "free-running concurrent use: a conservation law of atomic methods is violated", "container": res.Name,
					"config": res.Config, "ms": *ms, "gen_seed": *seed, "family_seed": cseed, "why": res.Fails,
					"replay_note": fmt.Sprintf("schedule-dependent: re-run `hx-c12a free --child %s --seed %d --ms %d` a few times; the -race build reports the unsynchronised access directly", res.Name, cseed, *ms)})
			}
		}
	}
	if err := st.Write(*stats); err != nil {
		vx.Die("%v", err)
	}
}
