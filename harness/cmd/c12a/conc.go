// Forced interleavings on the thread-safe containers of this part (round 2).
//
// The C12 theorems are about sequential histories; the containers promise that every method is atomic. This family
// ties that reading to the code for the check-then-act methods: a first call ("gate") is parked while it holds the
// container's lock - inside the callback the harness supplies (GetOrCreate's constructor, Compute's update function,
// Delete's condition), or, for containers without callbacks, by the harness holding the container's own mutex like a
// method in progress would - further calls are started one after the other, each once the previous one has returned or
// is parked in a sync wait state (runtime.Stack), then the gate is released. sync.RWMutex admits all queued readers
// together, so optimistic "look up under the read lock, then take the write lock" code runs its read phases side by side.
//
// Oracle (independent of the schedule actually obtained, so a busy machine cannot produce a false alarm): the results of
// all calls, the number of callback invocations, what the callbacks were shown, and the final contents must be those
// of SOME sequential order of the same calls that respects returned-before-started. For ShrinkingMap the sequential
// reference is a plain Go map; for the other containers it is a fresh instance of the container driven sequentially
// (sequential behaviour is what the lockstep correspondence and the theorems cover). Everything runs under watchdogs.
package main

import (
	"fmt"
	"reflect"
	"runtime"
	"sort"
	"strconv"
	"strings"
	"sync"
	"sync/atomic"
	"time"
	"unsafe"

	"github.com/iotaledger/hive.go/ds/priorityqueue"
	"github.com/iotaledger/hive.go/ds/queue"
	"github.com/iotaledger/hive.go/ds/randommap"
	"github.com/iotaledger/hive.go/ds/ringbuffer"
	"github.com/iotaledger/hive.go/ds/shrinkingmap"
	"github.com/iotaledger/hive.go/ds/stack"

	"verif/harness/vx"
)

// ---- goroutine identity and wait state (runtime.Stack; no hook, no timing)

func goid() int64 {
	var buf [64]byte
	n := runtime.Stack(buf[:], false)
	s := strings.TrimPrefix(string(buf[:n]), "goroutine ")
	if i := strings.IndexByte(s, ' '); i > 0 {
		if id, err := strconv.ParseInt(s[:i], 10, 64); err == nil {
			return id
		}
	}
	return -1
}

// gstate returns the scheduler state of goroutine id ("running", "runnable", "sync.RWMutex.RLock", ...; "gone").
func gstate(id int64) string {
	buf := make([]byte, 1<<16)
	for {
		n := runtime.Stack(buf, true)
		if n < len(buf) {
			buf = buf[:n]
			break
		}
		buf = make([]byte, 2*len(buf))
	}
	s := string(buf)
	tag := fmt.Sprintf("goroutine %d [", id)
	i := strings.Index(s, "\n"+tag)
	if strings.HasPrefix(s, tag) {
		i = -1
	} else if i < 0 {
		return "gone"
	}
	s = s[i+1+len(tag):]
	if j := strings.IndexAny(s, ",]"); j >= 0 {
		return s[:j]
	}
	return "?"
}

func parkedState(state string) bool {
	return strings.HasPrefix(state, "sync.") || strings.HasPrefix(state, "semacquire")
}

// ---- scenario description

type cOp struct {
	M    string `json:"m"`
	K    int    `json:"k"`
	V    int64  `json:"v,omitempty"`
	Cond bool   `json:"cond,omitempty"`
}

func (o cOp) String() string {
	switch o.M {
	case "GetOrCreate", "Set", "Compute", "Push":
		return fmt.Sprintf("%s(%d,%d)", o.M, o.K, o.V)
	case "Delete?":
		return fmt.Sprintf("Delete(%d, func() bool { return %v })", o.K, o.Cond)
	case "Offer", "ForceOffer", "Add", "SPush":
		return fmt.Sprintf("%s(%d)", o.M, o.V)
	case "Size", "Pop", "Peek", "PopAll", "Poll", "Clear", "ToSlice", "Keys", "IsEmpty":
		return o.M + "()"
	}
	return fmt.Sprintf("%s(%d)", o.M, o.K)
}

type concScenario struct {
	Container string `json:"container"`
	Config    string `json:"config"`
	Pre       []cOp  `json:"sequential_prefix"`
	// Gate: "callback" = GateOp's callback parks while the method holds the lock; "Lock"/"RLock" = the harness holds the
	// container's own mutex in that mode (a writer / reader in progress)
	Gate    string `json:"gate"`
	GateOp  *cOp   `json:"gate_op,omitempty"`
	Callers []cOp  `json:"callers"` // started in this order while the gate is parked
}

func (s *concScenario) key() string {
	return fmt.Sprintf("%s %s %v %s %v %v", s.Container, s.Config, s.Pre, s.Gate, s.GateOp, s.Callers)
}

// cTarget is one container instance: exec runs one call (park, when not nil, is invoked inside the call's callback),
// contents lists the final contents (may drain the container: it is called once, at the end).
type cTarget interface {
	exec(op cOp, park func()) string
	contents() string
}

type cCall struct {
	op         cOp
	res        string
	start, end int64
	gid        int64
	state      string // what the harness saw when it went on: "returned" or the wait state
	done       chan struct{}
}

// ---- ShrinkingMap: implementation and plain-map reference

type smTarget struct {
	m *shrinkingmap.ShrinkingMap[int, int64]
}

func fmtMap(m map[int]int64) string {
	c := refContents(m)
	return fmt.Sprint(c)
}

func (t smTarget) exec(op cOp, park func()) string {
	calls := 0
	cb := func() {
		calls++
		if park != nil {
			park()
		}
	}
	switch op.M {
	case "GetOrCreate":
		v, created := t.m.GetOrCreate(op.K, func() int64 { cb(); return op.V })
		return fmt.Sprintf("(%d,%v) after %d constructor call(s)", v, created, calls)
	case "Compute":
		seen := ""
		v := t.m.Compute(op.K, func(cur int64, ex bool) int64 {
			cb()
			seen += fmt.Sprintf("(%d,%v)", cur, ex)
			if ex {
				return cur + op.V
			}
			return op.V
		})
		return fmt.Sprintf("%d after %d callback call(s) showing %s", v, calls, seen)
	case "Delete?":
		d := t.m.Delete(op.K, func() bool { cb(); return op.Cond })
		return fmt.Sprintf("%v after %d condition call(s)", d, calls)
	case "Delete":
		return fmt.Sprint(t.m.Delete(op.K))
	case "DeleteAndReturn":
		v, ok := t.m.DeleteAndReturn(op.K)
		return fmt.Sprintf("(%d,%v)", v, ok)
	case "Set":
		return fmt.Sprint(t.m.Set(op.K, op.V))
	case "Get":
		v, ok := t.m.Get(op.K)
		return fmt.Sprintf("(%d,%v)", v, ok)
	case "Has":
		return fmt.Sprint(t.m.Has(op.K))
	case "Size":
		return fmt.Sprint(t.m.Size())
	}
	panic("smTarget: " + op.M)
}
func (t smTarget) contents() string { return fmtMap(t.m.AsMap()) }

type smRefTarget struct{ m map[int]int64 }

func (t smRefTarget) exec(op cOp, _ func()) string {
	cur, ex := t.m[op.K]
	switch op.M {
	case "GetOrCreate":
		if ex {
			return fmt.Sprintf("(%d,%v) after %d constructor call(s)", cur, false, 0)
		}
		t.m[op.K] = op.V
		return fmt.Sprintf("(%d,%v) after %d constructor call(s)", op.V, true, 1)
	case "Compute":
		nv := op.V
		if ex {
			nv = cur + op.V
		}
		t.m[op.K] = nv
		return fmt.Sprintf("%d after %d callback call(s) showing (%d,%v)", nv, 1, cur, ex)
	case "Delete?":
		if op.Cond {
			delete(t.m, op.K)
		}
		return fmt.Sprintf("%v after %d condition call(s)", op.Cond && ex, 1)
	case "Delete":
		delete(t.m, op.K)
		return fmt.Sprint(ex)
	case "DeleteAndReturn":
		delete(t.m, op.K)
		return fmt.Sprintf("(%d,%v)", cur, ex)
	case "Set":
		t.m[op.K] = op.V
		return fmt.Sprint(!ex)
	case "Get":
		return fmt.Sprintf("(%d,%v)", cur, ex)
	case "Has":
		return fmt.Sprint(ex)
	case "Size":
		return fmt.Sprint(len(t.m))
	}
	panic("smRefTarget: " + op.M)
}
func (t smRefTarget) contents() string { return fmtMap(t.m) }

// ---- containers without callbacks (the sequential reference is a fresh instance driven sequentially)

type stackTarget struct{ s stack.Stack[int64] }

func (t stackTarget) exec(op cOp, _ func()) string {
	switch op.M {
	case "SPush":
		t.s.Push(op.V)
		return ""
	case "Pop":
		v, ok := t.s.Pop()
		return fmt.Sprintf("(%d,%v)", v, ok)
	case "Peek":
		v, ok := t.s.Peek()
		return fmt.Sprintf("(%d,%v)", v, ok)
	case "Size":
		return fmt.Sprint(t.s.Size())
	case "IsEmpty":
		return fmt.Sprint(t.s.IsEmpty())
	case "Clear":
		t.s.Clear()
		return ""
	}
	panic("stackTarget: " + op.M)
}
func (t stackTarget) contents() string { return fmt.Sprint(stackContents(t.s, true)) }

type queueTarget struct{ q *queue.Queue[int64] }

func (t queueTarget) exec(op cOp, _ func()) string {
	switch op.M {
	case "Offer":
		return fmt.Sprint(t.q.Offer(op.V))
	case "ForceOffer":
		v, ok := t.q.ForceOffer(op.V)
		return fmt.Sprintf("(%d,%v)", v, ok)
	case "Poll":
		v, ok := t.q.Poll()
		return fmt.Sprintf("(%d,%v)", v, ok)
	case "Size":
		return fmt.Sprint(t.q.Size())
	}
	panic("queueTarget: " + op.M)
}
func (t queueTarget) contents() string {
	var c []int64
	for i := 0; i < 64; i++ {
		v, ok := t.q.Poll()
		if !ok {
			break
		}
		c = append(c, v)
	}
	return fmt.Sprint(c)
}

type pqTarget struct {
	q       *priorityqueue.PriorityQueue[int64, prio]
	handles *sync.Map // element value -> removal closure
}

func (t pqTarget) exec(op cOp, _ func()) string {
	switch op.M {
	case "Push": // K = priority, V = element
		t.handles.Store(op.V, t.q.Push(op.V, prio{p: int64(op.K), tag: int(op.V) % 3}))
		return ""
	case "Remove": // handle of the element K pushed by the sequential prefix
		if f, ok := t.handles.Load(int64(op.K)); ok {
			f.(func())()
		}
		return ""
	case "Pop":
		v, ok := t.q.Pop()
		return fmt.Sprintf("(%d,%v)", v, ok)
	case "Peek":
		v, ok := t.q.Peek()
		return fmt.Sprintf("(%d,%v)", v, ok)
	case "PopUntil":
		return fmt.Sprint(t.q.PopUntil(prio{p: int64(op.K), tag: 7}))
	case "PopAll":
		return fmt.Sprint(t.q.PopAll())
	case "Size":
		return fmt.Sprint(t.q.Size())
	}
	panic("pqTarget: " + op.M)
}
func (t pqTarget) contents() string { return fmt.Sprint(t.q.PopAll()) }

type rmTarget struct {
	m *randommap.RandomMap[int, int64]
}

func (t rmTarget) exec(op cOp, _ func()) string {
	switch op.M {
	case "Set":
		t.m.Set(op.K, op.V)
		return ""
	case "Delete":
		v, ok := t.m.Delete(op.K)
		return fmt.Sprintf("(%d,%v)", v, ok)
	case "Get":
		v, ok := t.m.Get(op.K)
		return fmt.Sprintf("(%d,%v)", v, ok)
	case "Has":
		return fmt.Sprint(t.m.Has(op.K))
	case "Size":
		return fmt.Sprint(t.m.Size())
	case "Keys":
		ks := t.m.Keys()
		sort.Ints(ks)
		return fmt.Sprint(ks)
	}
	panic("rmTarget: " + op.M)
}
func (t rmTarget) contents() string {
	m := map[int]int64{}
	t.m.ForEach(func(k int, v int64) bool { m[k] = v; return true })
	ks := t.m.Keys()
	sort.Ints(ks)
	return fmt.Sprint(refContents(m), " keys ", ks)
}

type ringTarget struct{ r *ringbuffer.RingBuffer[int64] }

func (t ringTarget) exec(op cOp, _ func()) string {
	switch op.M {
	case "Add":
		return fmt.Sprint(t.r.Add(op.V))
	case "ToSlice":
		return fmt.Sprint(t.r.ToSlice())
	}
	panic("ringTarget: " + op.M)
}
func (t ringTarget) contents() string { return fmt.Sprint(t.r.ToSlice()) }

// mutexOf returns the container's own lock (unexported field "mutex") so that the harness can hold it the way a method
// in progress would. readers=true: the RLocker of an RWMutex.
func mutexOf(container any, readers bool) sync.Locker {
	f := fld(reflect.ValueOf(container), "mutex")
	if !f.IsValid() {
		return nil
	}
	if f.Kind() == reflect.Ptr {
		f = f.Elem()
	}
	p := reflect.NewAt(f.Type(), unsafe.Pointer(f.UnsafeAddr())).Interface()
	switch m := p.(type) {
	case *sync.RWMutex:
		if readers {
			return m.RLocker()
		}
		return m
	case *sync.Mutex:
		return m
	}
	return nil
}

// ---- building targets

func concTargets(sc *concScenario) (impl, ref func() cTarget, lockOf func(cTarget) any) {
	switch sc.Container {
	case "shrinkingmap":
		var o smOpts
		for _, c := range smOptsAll {
			if c.coq() == sc.Config {
				o = c
			}
		}
		return func() cTarget { return smTarget{shrinkingmap.New[int, int64](o.goOpts()...)} },
			func() cTarget { return smRefTarget{map[int]int64{}} },
			func(t cTarget) any { return t.(smTarget).m }
	case "stack":
		mk := func() cTarget { return stackTarget{stack.New[int64](true)} }
		return mk, mk, func(t cTarget) any { return t.(stackTarget).s }
	case "queue":
		capacity, _ := strconv.Atoi(sc.Config)
		mk := func() cTarget { return queueTarget{queue.New[int64](capacity)} }
		return mk, mk, func(t cTarget) any { return t.(queueTarget).q }
	case "priorityqueue":
		mk := func() cTarget { return pqTarget{priorityqueue.New[int64, prio](), &sync.Map{}} }
		return mk, mk, func(t cTarget) any { return t.(pqTarget).q }
	case "randommap":
		mk := func() cTarget { return rmTarget{randommap.New[int, int64]()} }
		return mk, mk, func(t cTarget) any { return t.(rmTarget).m }
	case "ringbuffer":
		capacity, _ := strconv.Atoi(sc.Config)
		mk := func() cTarget { return ringTarget{ringbuffer.NewRingBuffer[int64](capacity)} }
		return mk, mk, func(t cTarget) any { return t.(ringTarget).r }
	}
	panic("concTargets: " + sc.Container)
}

// ---- running one scenario

const (
	concSettle   = 3 * time.Second  // per started call: wait until it returned or is parked (else go on: schedule not forced)
	concWatchdog = 20 * time.Second // all calls must have returned this long after the release
)

type concOutcome struct {
	calls     []*cCall
	final     string
	hung      []string
	unsettled int
	parked    int
	gateHeld  bool
}

func safeExec(t cTarget, op cOp, park func()) (res string) {
	defer func() {
		if p := recover(); p != nil {
			res = fmt.Sprintf("panic: %v", p)
		}
	}()
	return t.exec(op, park)
}

func runConcScenario(sc *concScenario) (out concOutcome) {
	mkImpl, _, lockOf := concTargets(sc)
	t := mkImpl()
	for _, op := range sc.Pre {
		safeExec(t, op, nil)
	}
	var clock atomic.Int64
	launch := func(op cOp, park func()) *cCall {
		c := &cCall{op: op, done: make(chan struct{})}
		ready := make(chan struct{})
		go func() {
			c.gid = goid()
			c.start = clock.Add(1)
			close(ready)
			c.res = safeExec(t, op, park)
			c.end = clock.Add(1)
			close(c.done)
		}()
		<-ready
		return c
	}
	settle := func(c *cCall) {
		deadline := time.Now().Add(concSettle)
		sleep := 20 * time.Microsecond
		for {
			select {
			case <-c.done:
				c.state = "returned"
				return
			default:
			}
			if s := gstate(c.gid); parkedState(s) {
				c.state = s
				out.parked++
				return
			}
			if time.Now().After(deadline) {
				c.state = "unsettled"
				out.unsettled++
				return
			}
			time.Sleep(sleep)
			if sleep < time.Millisecond {
				sleep *= 2
			}
		}
	}

	release := func() {}
	switch sc.Gate {
	case "callback":
		entered, rel := make(chan struct{}), make(chan struct{})
		var once sync.Once
		g := launch(*sc.GateOp, func() { once.Do(func() { close(entered) }); <-rel })
		select {
		case <-entered:
			out.gateHeld = true
			g.state = "parked in its callback"
		case <-g.done: // the call did not need its callback (e.g. GetOrCreate of an existing key)
			g.state = "returned"
		case <-time.After(concSettle):
			g.state = "unsettled"
			out.unsettled++
		}
		out.calls = append(out.calls, g)
		release = func() { close(rel) }
	case "Lock", "RLock":
		if l := mutexOf(lockOf(t), sc.Gate == "RLock"); l != nil {
			l.Lock()
			out.gateHeld = true
			release = l.Unlock
		}
	}
	for _, op := range sc.Callers {
		c := launch(op, nil)
		settle(c)
		out.calls = append(out.calls, c)
	}
	release()
	watchdog := time.After(concWatchdog)
	for _, c := range out.calls {
		select {
		case <-c.done:
		case <-watchdog:
			out.hung = append(out.hung, c.op.String())
			watchdog = time.After(time.Millisecond)
		}
	}
	if len(out.hung) == 0 {
		out.final = t.contents()
	}
	return out
}

// explain searches a sequential order of the calls (respecting returned-before-started) on the reference that gives
// every call its observed result and ends with the observed contents.
func explain(sc *concScenario, out *concOutcome) (order []int, ok bool) {
	_, mkRef, _ := concTargets(sc)
	n := len(out.calls)
	perm := make([]int, 0, n)
	used := make([]bool, n)
	var rec func() bool
	try := func() bool {
		t := mkRef()
		for _, op := range sc.Pre {
			safeExec(t, op, nil)
		}
		for _, i := range perm {
			if safeExec(t, out.calls[i].op, nil) != out.calls[i].res {
				return false
			}
		}
		return t.contents() == out.final
	}
	rec = func() bool {
		if len(perm) == n {
			return try()
		}
		for i := 0; i < n; i++ {
			if used[i] {
				continue
			}
			// i may come next only if no unused call returned before i started
			okNext := true
			for j := 0; j < n; j++ {
				if j != i && !used[j] && out.calls[j].end < out.calls[i].start {
					okNext = false
				}
			}
			if !okNext {
				continue
			}
			used[i] = true
			perm = append(perm, i)
			if rec() {
				return true
			}
			perm = perm[:len(perm)-1]
			used[i] = false
		}
		return false
	}
	if rec() {
		return append([]int{}, perm...), true
	}
	return nil, false
}

// ---- generators

func smConcOps(r *vx.Rng, hot int, n int, next *int64) []cOp {
	var ops []cOp
	for i := 0; i < n; i++ {
		*next++
		k := hot
		if r.Chance(1, 4) {
			k = r.Intn(2)
		}
		switch c := r.Intn(100); {
		case c < 50:
			ops = append(ops, cOp{M: "GetOrCreate", K: k, V: *next})
		case c < 62:
			ops = append(ops, cOp{M: "Compute", K: k, V: int64(1 + r.Intn(3))})
		case c < 70:
			ops = append(ops, cOp{M: "Set", K: k, V: *next})
		case c < 76:
			ops = append(ops, cOp{M: "Delete?", K: k, Cond: r.Bool()})
		case c < 82:
			ops = append(ops, cOp{M: "Delete", K: k})
		case c < 88:
			ops = append(ops, cOp{M: "DeleteAndReturn", K: k})
		case c < 93:
			ops = append(ops, cOp{M: "Get", K: k})
		case c < 97:
			ops = append(ops, cOp{M: "Has", K: k})
		default:
			ops = append(ops, cOp{M: "Size"})
		}
	}
	return ops
}

func concDirected() []*concScenario {
	var res []*concScenario
	def := smOptsAll[0].coq()
	// several GetOrCreate calls for one missing key queued behind a writer that sits in each kind of callback
	for _, gate := range []cOp{{M: "Delete?", K: 2, Cond: false}, {M: "Compute", K: 2, V: 1}, {M: "GetOrCreate", K: 2, V: 50},
		{M: "GetOrCreate", K: 0, V: 50}, {M: "Compute", K: 0, V: 1}, {M: "Delete?", K: 0, Cond: true}} {
		for n := 2; n <= 4; n++ {
			g := gate
			sc := &concScenario{Container: "shrinkingmap", Config: def, Pre: []cOp{{M: "Set", K: 1, V: 9}}, Gate: "callback", GateOp: &g}
			for i := 0; i < n; i++ {
				sc.Callers = append(sc.Callers, cOp{M: "GetOrCreate", K: 0, V: int64(101 + i)})
			}
			res = append(res, sc)
		}
	}
	// Compute / Delete? / Set / GetOrCreate on one key, all queued
	g := cOp{M: "Delete?", K: 2, Cond: false}
	res = append(res, &concScenario{Container: "shrinkingmap", Config: smOptsAll[1].coq(), Pre: []cOp{{M: "Set", K: 0, V: 5}}, Gate: "callback", GateOp: &g,
		Callers: []cOp{{M: "Compute", K: 0, V: 1}, {M: "Compute", K: 0, V: 2}, {M: "Delete?", K: 0, Cond: true}, {M: "GetOrCreate", K: 0, V: 77}}})
	return res
}

func concRandom(r *vx.Rng, i int) *concScenario {
	next := int64(100)
	switch i % 8 {
	case 0, 1, 2, 3: // ShrinkingMap: a callback holds the lock
		sc := &concScenario{Container: "shrinkingmap", Config: vx.Pick(r, smOptsAll).coq(), Gate: "callback"}
		hot := r.Intn(2)
		for k := 0; k < 3; k++ {
			if r.Chance(1, 3) {
				next++
				sc.Pre = append(sc.Pre, cOp{M: "Set", K: k, V: next})
			}
		}
		g := cOp{K: r.Intn(3), V: 50}
		switch r.Intn(3) {
		case 0:
			g.M = "GetOrCreate"
			filtered := sc.Pre[:0:0]
			for _, p := range sc.Pre { // the gate key must be missing or the constructor does not run
				if p.K != g.K {
					filtered = append(filtered, p)
				}
			}
			sc.Pre = filtered
		case 1:
			g.M, g.V = "Compute", int64(1+r.Intn(3))
		default:
			g.M, g.Cond = "Delete?", r.Bool()
		}
		sc.GateOp = &g
		sc.Callers = smConcOps(r, hot, 2+r.Intn(3), &next)
		return sc
	case 4: // ShrinkingMap behind the harness holding the mutex
		sc := &concScenario{Container: "shrinkingmap", Config: vx.Pick(r, smOptsAll).coq(), Gate: vx.Pick(r, []string{"Lock", "Lock", "RLock"})}
		if r.Bool() {
			sc.Pre = []cOp{{M: "Set", K: r.Intn(2), V: 7}}
		}
		sc.Callers = smConcOps(r, r.Intn(2), 2+r.Intn(3), &next)
		return sc
	case 5:
		sc := &concScenario{Container: "priorityqueue", Config: "ascending, keys with ignored tag", Gate: vx.Pick(r, []string{"Lock", "Lock", "RLock"})}
		np := r.Intn(4)
		for e := 0; e < np; e++ {
			sc.Pre = append(sc.Pre, cOp{M: "Push", K: r.Intn(4), V: int64(e)})
		}
		for j, n := 0, 2+r.Intn(3); j < n; j++ {
			next++
			switch c := r.Intn(100); {
			case c < 30:
				sc.Callers = append(sc.Callers, cOp{M: "Push", K: r.Intn(4), V: next})
			case c < 45 && np > 0:
				sc.Callers = append(sc.Callers, cOp{M: "Remove", K: r.Intn(np)})
			case c < 65:
				sc.Callers = append(sc.Callers, cOp{M: "Pop"})
			case c < 75:
				sc.Callers = append(sc.Callers, cOp{M: "Peek"})
			case c < 88:
				sc.Callers = append(sc.Callers, cOp{M: "PopUntil", K: r.Intn(4)})
			case c < 94:
				sc.Callers = append(sc.Callers, cOp{M: "PopAll"})
			default:
				sc.Callers = append(sc.Callers, cOp{M: "Size"})
			}
		}
		return sc
	case 6:
		if r.Bool() {
			sc := &concScenario{Container: "queue", Config: strconv.Itoa(1 + r.Intn(3)), Gate: "Lock"}
			for e, np := 0, r.Intn(3); e < np; e++ {
				sc.Pre = append(sc.Pre, cOp{M: "Offer", V: int64(e + 1)})
			}
			for j, n := 0, 2+r.Intn(3); j < n; j++ {
				next++
				sc.Callers = append(sc.Callers, vx.Pick(r, []cOp{{M: "Offer", V: next}, {M: "ForceOffer", V: next}, {M: "Poll"}, {M: "Poll"}, {M: "Size"}}))
			}
			return sc
		}
		sc := &concScenario{Container: "ringbuffer", Config: strconv.Itoa(1 + r.Intn(3)), Gate: vx.Pick(r, []string{"Lock", "RLock"})}
		for j, n := 0, 2+r.Intn(3); j < n; j++ {
			next++
			sc.Callers = append(sc.Callers, vx.Pick(r, []cOp{{M: "Add", V: next}, {M: "Add", V: next}, {M: "ToSlice"}}))
		}
		return sc
	default:
		if r.Bool() {
			sc := &concScenario{Container: "stack", Config: "threadsafe", Gate: vx.Pick(r, []string{"Lock", "Lock", "RLock"})}
			for e, np := 0, r.Intn(3); e < np; e++ {
				sc.Pre = append(sc.Pre, cOp{M: "SPush", V: int64(e + 1)})
			}
			for j, n := 0, 2+r.Intn(3); j < n; j++ {
				next++
				sc.Callers = append(sc.Callers, vx.Pick(r, []cOp{{M: "SPush", V: next}, {M: "SPush", V: next}, {M: "Pop"}, {M: "Pop"}, {M: "Peek"}, {M: "Size"}, {M: "Clear"}, {M: "IsEmpty"}}))
			}
			return sc
		}
		sc := &concScenario{Container: "randommap", Config: "default", Gate: vx.Pick(r, []string{"Lock", "Lock", "RLock"})}
		for k := 0; k < 3; k++ {
			if r.Bool() {
				next++
				sc.Pre = append(sc.Pre, cOp{M: "Set", K: k, V: next})
			}
		}
		for j, n := 0, 2+r.Intn(3); j < n; j++ {
			next++
			k := r.Intn(3)
			sc.Callers = append(sc.Callers, vx.Pick(r, []cOp{{M: "Set", K: k, V: next}, {M: "Delete", K: k}, {M: "Delete", K: k}, {M: "Get", K: k}, {M: "Has", K: k}, {M: "Size"}, {M: "Keys"}}))
		}
		return sc
	}
}

// concFamily runs the directed and n random scenarios and reports every unexplained outcome as an oracle failure.
func concFamily(r *vx.Rng, st *vx.Stats, n int) {
	scs := concDirected()
	for i := 0; i < n; i++ {
		scs = append(scs, concRandom(r.Fork(), i))
	}
	hangs := 0
	for _, sc := range scs {
		out := runConcScenario(sc)
		st.Count("conc:" + sc.Container + " gate=" + sc.Gate)
		st.Count(fmt.Sprintf("conc:calls-parked-at-release=%d", out.parked))
		if out.unsettled > 0 {
			st.Count("conc:unsettled-call (schedule not forced)")
		}
		if !out.gateHeld {
			st.Count("conc:gate-not-held")
		}
		for _, c := range out.calls {
			if parkedState(c.state) {
				st.Count("conc:wait-state " + c.state)
			}
		}
		st.Case("conc "+sc.key(), out.gateHeld && out.parked >= 2)
		describe := func() []string {
			var d []string
			for _, c := range out.calls {
				d = append(d, fmt.Sprintf("%s -> %s   [when the harness went on: %s; logical start %d end %d]", c.op, c.res, c.state, c.start, c.end))
			}
			return d
		}
		if len(out.hung) > 0 {
			st.Fail(map[string]any{"sig": "", "kind": "forced interleaving: calls did not return within the watchdog", "scenario": sc, "hung": out.hung, "calls": describe()})
			if hangs++; hangs >= 2 {
				return
			}
			continue
		}
		if _, ok := explain(sc, &out); !ok {
			st.Fail(map[string]any{"sig": "", "kind": "forced interleaving: no sequential order of the calls explains the results (methods are not atomic)",
				"scenario": sc, "calls": describe(), "final_contents": out.final})
		}
	}
}
