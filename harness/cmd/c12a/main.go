// C12a harness: lockstep random operation histories on ShrinkingMap, RandomMap, PriorityQueue (+ timed.PriorityQueue),
// Queue, RingBuffer and Stack. Every return value and the reflected internal state after every operation are
// written as Coq terms (cases for Verif.C12a_Containers.Corr); a Go-side reference (plain map / sorted multiset /
// slices) judges every output independently of the Coq model.
package main

import (
	"flag"
	"fmt"
	"math/rand"
	"os"
	"reflect"
	"sort"
	"strings"
	"sync"
	"time"

	"github.com/iotaledger/hive.go/ds/priorityqueue"
	"github.com/iotaledger/hive.go/ds/queue"
	"github.com/iotaledger/hive.go/ds/randommap"
	"github.com/iotaledger/hive.go/ds/ringbuffer"
	"github.com/iotaledger/hive.go/ds/shrinkingmap"
	"github.com/iotaledger/hive.go/ds/stack"
	"github.com/iotaledger/hive.go/runtime/timed"

	"verif/harness/vx"
)

// ---------- reflection helpers (read-only access to unexported fields) ----------

func deref(v reflect.Value) reflect.Value {
	for v.Kind() == reflect.Ptr || v.Kind() == reflect.Interface {
		v = v.Elem()
	}
	return v
}
func fld(v reflect.Value, name string) reflect.Value { return deref(v).FieldByName(name) }

// ---------- Coq printing helpers ----------

func zs(xs []int64) string  { return vx.ListOf(xs, vx.Z) }
func ns(xs []int) string    { return vx.ListOf(xs, vx.Nat) }
func optZ(v int64, ok bool) string { return vx.Opt(ok, vx.Z(v)) }

type kv struct {
	k int
	v int64
}

func kvs(xs []kv) string {
	return vx.ListOf(xs, func(x kv) string { return vx.Pair(vx.Nat(x.k), vx.Z(x.v)) })
}
func sortKV(xs []kv)       { sort.Slice(xs, func(i, j int) bool { return xs[i].k < xs[j].k }) }
func sortZ(xs []int64)     { sort.Slice(xs, func(i, j int) bool { return xs[i] < xs[j] }) }
func paren(s string) string { return "(" + s + ")" }

type history struct {
	kind  string // smap rmap heap queue ring stack
	conf  string // Coq term(s) of the configuration
	evs   []string
	obs   []string
	nontr bool
	fails []string
	// detail: Go-level rendering of the arguments that the Coq event abstracts from (time.Time representation of an
	// instant, the non-compared tag of a priority); part of the replay description of the history
	detail []string
}

func (h *history) add(ev, ob string) { h.evs = append(h.evs, ev); h.obs = append(h.obs, ob) }
func (h *history) fail(f string, a ...any) {
	h.fails = append(h.fails, fmt.Sprintf("operation %d (the one after %q): ", len(h.evs)+1, last(h.evs))+fmt.Sprintf(f, a...))
}

// guard turns a panic of the implementation into a reported failure of the history run so far.
func (h *history) guard() {
	if p := recover(); p != nil {
		h.fails = append(h.fails, fmt.Sprintf("the implementation panicked in the operation after op %d (%s): %v", len(h.evs), last(h.evs), p))
	}
}

func last(xs []string) string {
	if len(xs) == 0 {
		return ""
	}
	return xs[len(xs)-1]
}

func (h *history) coq() string {
	ctor := map[string]string{"smap": "CSMap", "rmap": "CRMap", "heap": "CHeap", "queue": "CQueue", "ring": "CRing", "stack": "CStack"}[h.kind]
	return fmt.Sprintf("%s %s %s %s", ctor, h.conf, vx.List(h.evs), vx.List(h.obs))
}

// ---------- option settings ----------

type smOpts struct {
	def        bool
	rnum, rden int64
	cnt        int64
}

var smOptsAll = func() []smOpts {
	res := []smOpts{{def: true, rnum: 10, rden: 1, cnt: 100}}
	for _, r := range [][2]int64{{0, 1}, {1, 2}, {1, 1}, {2, 1}, {3, 2}} {
		for _, c := range []int64{0, 1, 2, 3, 5} {
			res = append(res, smOpts{rnum: r[0], rden: r[1], cnt: c})
		}
	}
	return res
}()

func (o smOpts) goOpts() []shrinkingmap.Option {
	if o.def {
		return nil
	}
	return []shrinkingmap.Option{
		shrinkingmap.WithShrinkingThresholdRatio(float32(o.rnum) / float32(o.rden)),
		shrinkingmap.WithShrinkingThresholdCount(int(o.cnt)),
	}
}
func (o smOpts) coq() string {
	return fmt.Sprintf("(SMap.mkOpts %s %s %s)", vx.Z(o.rnum), vx.Z(o.rden), vx.Z(o.cnt))
}

// ---------- ShrinkingMap ----------

const universe = 5

func smContents(sm *shrinkingmap.ShrinkingMap[int, int64]) []kv {
	var c []kv
	for k, v := range sm.AsMap() {
		c = append(c, kv{k, v})
	}
	sortKV(c)
	return c
}

func refContents(ref map[int]int64) []kv {
	var c []kv
	for k, v := range ref {
		c = append(c, kv{k, v})
	}
	sortKV(c)
	return c
}

func eqKV(a, b []kv) bool {
	if len(a) != len(b) {
		return false
	}
	for i := range a {
		if a[i] != b[i] {
			return false
		}
	}
	return true
}

func runSMap(r *vx.Rng, o smOpts, n int, st *vx.Stats) (ret *history) {
	h := &history{kind: "smap", conf: o.coq()}
	ret = h
	defer h.guard()
	sm := shrinkingmap.New[int, int64](o.goOpts()...)
	ref := map[int]int64{}
	next := int64(100)
	prevDeleted := int64(0)
	for i := 0; i < n; i++ {
		k := r.Intn(universe)
		next++
		v := next
		var ev, out string
		cleared := false
		c := r.Intn(100)
		if len(ref) < 3 && r.Bool() {
			c = 0 // keep the map populated so that deletions (and shrinking) happen
		}
		switch {
		case c < 22:
			created := sm.Set(k, v)
			ev, out = fmt.Sprintf("ESet %s %s", vx.Nat(k), vx.Z(v)), "OBool "+vx.Bool(created)
			_, ex := ref[k]
			ref[k] = v
			if created == ex {
				h.fail("Set created=%v, key existed=%v", created, ex)
			}
		case c < 27:
			got, ok := sm.Get(k)
			ev, out = "EGet "+vx.Nat(k), "OGet "+optZ(got, ok)
			if rv, rok := ref[k]; rok != ok || (ok && rv != got) {
				h.fail("Get = %v,%v want %v,%v", got, ok, rv, rok)
			}
		case c < 32:
			got, created := sm.GetOrCreate(k, func() int64 { return v })
			ev, out = fmt.Sprintf("EGetOrCreate %s %s", vx.Nat(k), vx.Z(v)), fmt.Sprintf("OVal %s %s", vx.Z(got), vx.Bool(created))
			rv, rok := ref[k]
			if !rok {
				ref[k] = v
				rv = v
			}
			if created == rok || got != rv {
				h.fail("GetOrCreate = %v,%v want %v,%v", got, created, rv, !rok)
			}
		case c < 37:
			d := int64(1 + r.Intn(3))
			got := sm.Compute(k, func(cur int64, exists bool) int64 {
				if exists {
					return cur + d
				}
				return d
			})
			ev, out = fmt.Sprintf("ECompute %s (addf %s)", vx.Nat(k), vx.Z(d)), "OGet "+optZ(got, true)
			if rv, rok := ref[k]; rok {
				ref[k] = rv + d
			} else {
				ref[k] = d
			}
			if got != ref[k] {
				h.fail("Compute = %v want %v", got, ref[k])
			}
		case c < 40:
			has := sm.Has(k)
			ev, out = "EHas "+vx.Nat(k), "OBool "+vx.Bool(has)
			if _, rok := ref[k]; rok != has {
				h.fail("Has = %v", has)
			}
		case c < 43:
			var ks []int
			sm.ForEachKey(func(k int) bool { ks = append(ks, k); return true })
			sort.Ints(ks)
			ev, out = "EForEachKey", "OKeys "+ns(ks)
			if len(ks) != len(ref) {
				h.fail("ForEachKey visited %d of %d", len(ks), len(ref))
			}
		case c < 46:
			var c2 []kv
			sm.ForEach(func(k int, v int64) bool { c2 = append(c2, kv{k, v}); return true })
			sortKV(c2)
			ev, out = "EForEach", "OKV "+kvs(c2)
			if !eqKV(c2, refContents(ref)) {
				h.fail("ForEach visited %v", c2)
			}
		case c < 48:
			ks := sm.Keys()
			sort.Ints(ks)
			ev, out = "EKeys", "OKeys "+ns(ks)
		case c < 50:
			vs := sm.Values()
			sortZ(vs)
			ev, out = "EValues", "OVals "+zs(vs)
		case c < 52:
			ev, out = "EAsMap", "OKV "+kvs(smContents(sm))
		case c < 55:
			lim := 1 + r.Intn(3)
			calls := 0
			if r.Bool() {
				sm.ForEachKey(func(int) bool { calls++; return calls < lim })
				ev = "EForEachKeyAbort " + vx.Nat(lim)
			} else {
				sm.ForEach(func(int, int64) bool { calls++; return calls < lim })
				ev = "EForEachAbort " + vx.Nat(lim)
			}
			out = "ONat " + vx.Nat(calls)
		case c < 62:
			pk, pv, ok := sm.Pop()
			ev = "EPop " + vx.Nat(pk)
			if ok {
				out = "OPop " + vx.Opt(true, vx.Pair(vx.Nat(pk), vx.Z(pv)))
				if rv, rok := ref[pk]; !rok || rv != pv {
					h.fail("Pop returned %v,%v which is not an entry", pk, pv)
				}
				delete(ref, pk)
			} else {
				out = "OPop None"
				if len(ref) != 0 {
					h.fail("Pop found nothing in a map of %d", len(ref))
				}
			}
		case c < 65:
			sz := sm.Size()
			ev, out = "ESize", "ONat "+vx.Nat(sz)
			if sz != len(ref) {
				h.fail("Size = %d want %d", sz, len(ref))
			}
		case c < 67:
			ev, out = "EIsEmpty", "OBool "+vx.Bool(sm.IsEmpty())
		case c < 75:
			got, ok := sm.DeleteAndReturn(k)
			ev, out = "EDeleteAndReturn "+vx.Nat(k), "OGet "+optZ(got, ok)
			if rv, rok := ref[k]; rok != ok || (ok && rv != got) {
				h.fail("DeleteAndReturn = %v,%v want %v,%v", got, ok, rv, rok)
			}
			delete(ref, k)
		case c < 95:
			var del bool
			_, rok := ref[k]
			switch r.Intn(5) {
			case 0:
				del = sm.Delete(k, func() bool { return false })
				ev = "EDelete " + vx.Nat(k) + " (Some false)"
				rok = false
			case 1:
				del = sm.Delete(k, func() bool { return true })
				ev = "EDelete " + vx.Nat(k) + " (Some true)"
				delete(ref, k)
			default:
				del = sm.Delete(k)
				ev = "EDelete " + vx.Nat(k) + " None"
				delete(ref, k)
			}
			out = "OBool " + vx.Bool(del)
			if del != rok {
				h.fail("Delete = %v want %v", del, rok)
			}
		case c < 97:
			sm.Clear()
			ref = map[int]int64{}
			ev, out = "EClear", "OUnit"
			cleared = true
		default:
			sm.Shrink()
			ev, out = "EShrink", "OUnit"
			cleared = true
		}
		deleted := fld(reflect.ValueOf(sm), "deletedKeys").Int()
		if deleted < prevDeleted && !cleared {
			h.nontr = true // the map shrank by itself
			st.Count("smap:auto-shrink")
		}
		prevDeleted = deleted
		cont := smContents(sm)
		h.add(ev, fmt.Sprintf("(%s, %s, %s)", out, vx.Z(deleted), kvs(cont)))
		if !eqKV(cont, refContents(ref)) {
			h.fail("contents %v differ from the plain map %v", cont, refContents(ref))
		}
	}
	return h
}

// ---------- RandomMap ----------

type rmEntry struct {
	k   int
	v   int64
	idx int
}

func rmInternal(rm *randommap.RandomMap[int, int64]) (keys []int, ents []rmEntry, deleted int64) {
	kv := fld(reflect.ValueOf(rm), "keys")
	for i := 0; i < kv.Len(); i++ {
		keys = append(keys, int(kv.Index(i).Int()))
	}
	raw := fld(reflect.ValueOf(rm), "rawMap")
	it := fld(raw, "m").MapRange()
	for it.Next() {
		e := deref(it.Value())
		ents = append(ents, rmEntry{int(it.Key().Int()), e.FieldByName("value").Int(), int(e.FieldByName("keyIndex").Int())})
	}
	sort.Slice(ents, func(i, j int) bool { return ents[i].k < ents[j].k })
	return keys, ents, fld(raw, "deletedKeys").Int()
}

func runRMap(r *vx.Rng, o smOpts, n int, st *vx.Stats) (ret *history) {
	h := &history{kind: "rmap", conf: o.coq()}
	ret = h
	defer h.guard()
	rm := randommap.New[int, int64](o.goOpts()...)
	ref := map[int]int64{}
	next := int64(100)
	swapDelete, picked := false, false
	for i := 0; i < n; i++ {
		k := r.Intn(universe)
		next++
		v := next
		var ev, out string
		isMember := func(val int64) bool {
			for _, rv := range ref {
				if rv == val {
					return true
				}
			}
			return false
		}
		c := r.Intn(100)
		if len(ref) < 3 && r.Bool() {
			c = 0
		}
		switch {
		case c < 30:
			rm.Set(k, v)
			ref[k] = v
			ev, out = fmt.Sprintf("RSet %s %s", vx.Nat(k), vx.Z(v)), "ROUnit"
		case c < 35:
			got, ok := rm.Get(k)
			ev, out = "RGet "+vx.Nat(k), "ROGet "+optZ(got, ok)
			if rv, rok := ref[k]; rok != ok || (ok && rv != got) {
				h.fail("Get = %v,%v want %v,%v", got, ok, rv, rok)
			}
		case c < 38:
			has := rm.Has(k)
			ev, out = "RHas "+vx.Nat(k), "ROBool "+vx.Bool(has)
			if _, rok := ref[k]; rok != has {
				h.fail("Has = %v", has)
			}
		case c < 58:
			keysBefore, _, _ := rmInternal(rm)
			got, ok := rm.Delete(k)
			ev = "RDelete " + vx.Nat(k)
			rv, rok := ref[k]
			if ok {
				out = "RODel (Some " + vx.Pair(vx.Z(got), "true") + ")"
			} else if rok {
				out = "RODel (Some " + vx.Pair(vx.Z(got), "false") + ")"
			} else {
				out = "RODel None"
			}
			if rok != ok || (ok && rv != got) {
				h.fail("Delete = %v,%v want %v,%v", got, ok, rv, rok)
			}
			if rok && len(keysBefore) > 1 && keysBefore[len(keysBefore)-1] != k {
				swapDelete = true
			}
			delete(ref, k)
		case c < 61:
			sz := rm.Size()
			ev, out = "RSize", "RONat "+vx.Nat(sz)
			if sz != len(ref) {
				h.fail("Size = %d want %d", sz, len(ref))
			}
		case c < 65:
			var c2 []kv
			rm.ForEach(func(k int, v int64) bool { c2 = append(c2, kv{k, v}); return true })
			sortKV(c2)
			ev, out = "RForEach", "ROKV "+kvs(c2)
			if !eqKV(c2, refContents(ref)) {
				h.fail("ForEach visited %v want %v", c2, refContents(ref))
			}
		case c < 67:
			lim := 1 + r.Intn(3)
			calls := 0
			rm.ForEach(func(int, int64) bool { calls++; return calls < lim })
			ev, out = "RForEachAbort "+vx.Nat(lim), "RONat "+vx.Nat(calls)
		case c < 75:
			// the PRNG oracle: re-seed math/rand, predict what Intn(size) returns, re-seed, call
			seed := int64(r.Intn(1 << 30))
			idx := 0
			if len(ref) > 0 {
				rand.Seed(seed)
				idx = rand.Intn(len(ref))
			}
			rand.Seed(seed)
			got, ok := rm.RandomKey()
			ev = "RRandomKey " + vx.Nat(idx)
			out = "ROKey " + vx.Opt(ok, vx.Nat(got))
			if _, rok := ref[got]; ok != (len(ref) > 0) || (ok && !rok) {
				h.fail("RandomKey = %v,%v is not a member of %v", got, ok, refContents(ref))
			}
			picked = picked || ok
		case c < 82:
			seed := int64(r.Intn(1 << 30))
			idx := 0
			if len(ref) > 0 {
				rand.Seed(seed)
				idx = rand.Intn(len(ref))
			}
			rand.Seed(seed)
			got, ok := rm.RandomEntry()
			ev = "RRandomEntry " + vx.Nat(idx)
			out = "ROGet " + optZ(got, ok)
			if ok != (len(ref) > 0) || (ok && !isMember(got)) {
				h.fail("RandomEntry = %v,%v is not a member of %v", got, ok, refContents(ref))
			}
			picked = picked || ok
		case c < 94:
			count := r.Intn(universe+3) - 1
			seed := int64(r.Intn(1 << 30))
			rand.Seed(seed)
			perm := rand.Perm(len(ref))
			rand.Seed(seed)
			got := rm.RandomUniqueEntries(count)
			ev = fmt.Sprintf("RRandomUniqueEntries %s %s", paren(vx.Z(int64(count))), ns(perm))
			want := count
			if want < 0 {
				want = 0
			}
			if want > len(ref) {
				want = len(ref)
			}
			seen := map[int64]bool{}
			for _, g := range got {
				if seen[g] || !isMember(g) {
					h.fail("RandomUniqueEntries(%d) = %v: repeated or non-member value", count, got)
				}
				seen[g] = true
			}
			if len(got) != want {
				h.fail("RandomUniqueEntries(%d) returned %d entries of %d, want %d", count, len(got), len(ref), want)
			}
			if count >= 1 && len(ref) <= count {
				g2 := append([]int64{}, got...)
				sortZ(g2)
				out = "ROValsSet " + zs(g2)
			} else {
				out = "ROValsSeq " + zs(got)
				picked = picked || len(got) > 0
			}
		case c < 97:
			ks := rm.Keys()
			ev, out = "RKeys", "ROKeys "+ns(ks)
			ks2 := append([]int{}, ks...)
			sort.Ints(ks2)
			rk := refContents(ref)
			if len(ks2) != len(rk) {
				h.fail("Keys = %v", ks)
			} else {
				for j := range rk {
					if rk[j].k != ks2[j] {
						h.fail("Keys = %v want the keys of %v", ks, rk)
						break
					}
				}
			}
		default:
			vs := rm.Values()
			sortZ(vs)
			ev, out = "RValues", "ROValsSet "+zs(vs)
		}
		keys, ents, deleted := rmInternal(rm)
		// representation invariant, judged on the real object: dense keys with exact back-indices
		if len(keys) != len(ents) || len(ents) != len(ref) {
			h.fail("len(keys)=%d, %d entries, plain map has %d", len(keys), len(ents), len(ref))
		}
		for _, e := range ents {
			if e.idx < 0 || e.idx >= len(keys) || keys[e.idx] != e.k {
				h.fail("entry %d has keyIndex %d but keys=%v", e.k, e.idx, keys)
			}
			if rv, ok := ref[e.k]; !ok || rv != e.v {
				h.fail("entry %d=%d not in the plain map", e.k, e.v)
			}
		}
		h.add(ev, fmt.Sprintf("(%s, %s, %s, %s)", out, ns(keys),
			vx.ListOf(ents, func(e rmEntry) string { return vx.Pair(vx.Nat(e.k), vx.Pair(vx.Z(e.v), vx.Nat(e.idx))) }), vx.Z(deleted)))
	}
	h.nontr = swapDelete && picked
	return h
}

// ---------- PriorityQueue ----------

type prio struct {
	p    int64
	mode int // 0 ascending, 1 descending, 2 ascending on p/2 (distinct priorities that tie)
	// tag takes no part in the comparison: two priorities with equal p and different tags are equal for the
	// comparator but not identical as Go values (== is false)
	tag int
}

func cmp64(a, b int64) int {
	switch {
	case a < b:
		return -1
	case a > b:
		return 1
	}
	return 0
}

func floorDiv2(a int64) int64 { return a >> 1 }

func (a prio) CompareTo(b prio) int {
	switch a.mode {
	case 1:
		return cmp64(b.p, a.p)
	case 2:
		return cmp64(floorDiv2(a.p), floorDiv2(b.p))
	}
	return cmp64(a.p, b.p)
}

type pqIface interface {
	push(v int64, p int64, repr int) int // returns handle number or -1
	remove(id int)
	Peek() (int64, bool)
	Pop() (int64, bool)
	popUntil(p int64, repr int) []int64
	PopAll() []int64
	Size() int
	IsEmpty() bool
	heap() reflect.Value
	nrepr() int
	reprName(repr int) string
}

type dsPQ struct {
	*priorityqueue.PriorityQueue[int64, prio]
	mode    int
	handles []func()
}

func (q *dsPQ) push(v, p int64, repr int) int {
	q.handles = append(q.handles, q.PriorityQueue.Push(v, prio{p, q.mode, repr}))
	return len(q.handles) - 1
}
func (q *dsPQ) remove(id int) { q.handles[id]() }
func (q *dsPQ) popUntil(p int64, repr int) []int64 {
	return q.PriorityQueue.PopUntil(prio{p, q.mode, repr})
}
func (q *dsPQ) heap() reflect.Value      { return fld(reflect.ValueOf(q.PriorityQueue), "heap") }
func (q *dsPQ) nrepr() int               { return 3 }
func (q *dsPQ) reprName(repr int) string { return fmt.Sprintf("tag=%d", repr) }

// timedPQ: the abstract priority p denotes the instant base + p*unit. Every key and every PopUntil bound is rendered
// in one of several time.Time representations of that instant (the comparators must order INSTANTS, i.e. behave like
// Before/After/Equal, whatever the wall/monotonic encoding and the *Location of the two values).
type timedPQ struct {
	timed.PriorityQueue[int64]
	base time.Time // time.Now(): carries a monotonic clock reading, local zone
	unit time.Duration
}

var (
	zoneA = time.FixedZone("A+1", 3600)
	zoneB = time.FixedZone("B+1", 3600) // same offset, distinct *Location
	zoneC = time.FixedZone("C-9:30", -(9*3600 + 1800))
)

// Only a value derived from time.Now() by Add carries a monotonic reading (UTC/In/Local/Round(0)/Truncate strip it);
// time.Time{wall, ext, loc} of the renderings differ in the wall/ext encoding and/or in the *Location.
var timeReprNames = []string{
	"base.Add(d): wall+monotonic reading, Local",
	"Round(0): monotonic reading stripped, Local",
	"UTC(): wall only, nil *Location",
	"In(FixedZone A +1h)",
	"In(FixedZone B +1h): same offset as A, other *Location",
	"time.Unix(0, UnixNano()): rebuilt from Unix nanoseconds, Local",
	"time.Unix(sec, nsec).In(FixedZone C -9:30)",
}

var timeUnits = []time.Duration{time.Nanosecond, time.Microsecond, 999 * time.Millisecond, time.Second, time.Hour, 366 * 24 * time.Hour}

func (q *timedPQ) instant(p int64, repr int) time.Time {
	ref := q.base.Add(time.Duration(p) * q.unit)
	t := ref
	switch repr {
	case 1:
		t = ref.Round(0)
	case 2:
		t = ref.UTC()
	case 3:
		t = ref.In(zoneA)
	case 4:
		t = ref.In(zoneB)
	case 5:
		t = time.Unix(0, ref.UnixNano())
	case 6:
		t = time.Unix(ref.Unix(), int64(ref.Nanosecond())).In(zoneC)
	}
	if !t.Equal(ref) || t.UnixNano() != ref.UnixNano() {
		vx.Die("harness bug: representation %d of %v is another instant: %v", repr, ref, t)
	}
	return t
}

func (q *timedPQ) push(v, p int64, repr int) int {
	q.PriorityQueue.Push(v, q.instant(p, repr))
	return -1
}
func (q *timedPQ) remove(int) {}
func (q *timedPQ) popUntil(p int64, repr int) []int64 {
	return q.PriorityQueue.PopUntil(q.instant(p, repr))
}
func (q *timedPQ) heap() reflect.Value {
	inner := deref(reflect.ValueOf(q.PriorityQueue)).Field(0) // embedded *priorityqueue.PriorityQueue
	return fld(inner, "heap")
}
func (q *timedPQ) nrepr() int               { return len(timeReprNames) }
func (q *timedPQ) reprName(repr int) string { return timeReprNames[repr] }

func heapSlice(hv reflect.Value) string {
	items := make([]string, hv.Len())
	for i := range items {
		e := deref(hv.Index(i))
		items[i] = vx.Pair(vx.Z(e.FieldByName("Value").Int()), vx.Z(e.FieldByName("index").Int()))
	}
	return vx.List(items)
}

type refElem struct {
	id   int64
	p    int64
	repr int
}

// heapOp is one step of a heap history; P is the abstract priority, Repr selects the Go rendering of the key / bound
// (time.Time representation for the timed queue, the non-compared tag for the ds queue).
type heapOp struct {
	K    string `json:"k"` // push remove peek pop popuntil popall size isempty
	P    int64  `json:"p,omitempty"`
	Repr int    `json:"repr,omitempty"`
	ID   int    `json:"id,omitempty"`
}

func randomHeapOp(r *vx.Rng, useTimed bool, live int, pushes int64, nrepr int) heapOp {
	switch c := r.Intn(100); {
	case c < 40 || live == 0 && c < 60:
		return heapOp{K: "push", P: int64(r.Intn(6)), Repr: r.Intn(nrepr)}
	case c < 58 && !useTimed && pushes > 0:
		return heapOp{K: "remove", ID: r.Intn(int(pushes))}
	case c < 64:
		return heapOp{K: "peek"}
	case c < 80:
		return heapOp{K: "pop"}
	case c < 88:
		return heapOp{K: "popuntil", P: int64(r.Intn(7)) - 1, Repr: r.Intn(nrepr)}
	case c < 92:
		return heapOp{K: "popall"}
	case c < 96:
		return heapOp{K: "size"}
	}
	return heapOp{K: "isempty"}
}

// heapDirected: for every ordered pair of renderings (ra, rb), keys pushed in ra and a PopUntil bound that is exactly
// equal to a key but rendered in rb; also two equal keys in different renderings. One short history per pair.
func heapDirected(nrepr int) [][]heapOp {
	var res [][]heapOp
	for ra := 0; ra < nrepr; ra++ {
		for d := 1; d < nrepr; d++ {
			rb := (ra + d) % nrepr
			res = append(res, []heapOp{{K: "push", P: 1, Repr: ra}, {K: "push", P: 2, Repr: ra}, {K: "push", P: 2, Repr: rb},
				{K: "push", P: 3, Repr: ra}, {K: "popuntil", P: 2, Repr: rb}, {K: "popall"}})
		}
	}
	return res
}

// runHeap: values are the push numbers (= the model's ids), so every output identifies one element.
// script == nil: n random operations.
func runHeap(r *vx.Rng, mode int, useTimed bool, n int, script []heapOp, st *vx.Stats) (ret *history) {
	h := &history{kind: "heap", conf: []string{"CmpAsc", "CmpDesc", "CmpHalf"}[mode]}
	ret = h
	defer h.guard()
	var q pqIface
	variant := "ds"
	if useTimed {
		tq := &timedPQ{PriorityQueue: timed.NewPriorityQueue[int64](mode == 0), base: time.Now(), unit: vx.Pick(r, timeUnits)}
		q = tq
		variant = fmt.Sprintf("timed.PriorityQueue ascending=%v; priority p = instant time.Now()+p*%v", mode == 0, tq.unit)
		st.Count("heap:timed-unit=" + tq.unit.String())
	} else {
		q = &dsPQ{PriorityQueue: priorityqueue.New[int64, prio](), mode: mode}
		variant = "ds/priorityqueue with comparator " + h.conf + "; keys carry a tag the comparator ignores"
	}
	h.detail = append(h.detail, variant)
	if script != nil {
		n = len(script)
	}
	var ref []refElem // live elements
	c3 := func(a, b int64) int { return prio{p: a, mode: mode}.CompareTo(prio{p: b, mode: mode}) }
	isMin := func(id int64) bool {
		var p int64
		found := false
		for _, e := range ref {
			if e.id == id {
				p, found = e.p, true
			}
		}
		if !found {
			return false
		}
		for _, e := range ref {
			if c3(e.p, p) < 0 {
				return false
			}
		}
		return true
	}
	drop := func(id int64) {
		for i, e := range ref {
			if e.id == id {
				ref = append(ref[:i:i], ref[i+1:]...)
				return
			}
		}
	}
	elemOf := func(id int64) *refElem {
		for i := range ref {
			if ref[i].id == id {
				return &ref[i]
			}
		}
		return nil
	}
	prioOf := func(id int64) int64 {
		if e := elemOf(id); e != nil {
			return e.p
		}
		return -999
	}
	pushes := int64(0)
	removedLive, bigPop, crossTie, crossBound := false, false, false, false
	for i := 0; i < n; i++ {
		var o heapOp
		if script != nil {
			o = script[i]
		} else {
			o = randomHeapOp(r, useTimed, len(ref), pushes, q.nrepr())
		}
		var ev, out, det string
		switch o.K {
		case "push":
			for _, e := range ref {
				if c3(e.p, o.P) == 0 && e.repr != o.Repr {
					crossTie = true // a live key that compares equal but is not the identical Go value
				}
			}
			q.push(pushes, o.P, o.Repr)
			ref = append(ref, refElem{pushes, o.P, o.Repr})
			ev, out = fmt.Sprintf("HPush %s %s", vx.Z(o.P), vx.Z(pushes)), "HOUnit"
			det = "key as " + q.reprName(o.Repr)
			pushes++
		case "remove":
			id := int64(o.ID)
			live := prioOf(id) != -999
			before := q.Size()
			q.remove(int(id))
			ev, out = "HRemove "+vx.Nat(int(id)), "HOUnit"
			if live {
				drop(id)
				removedLive = true
				if q.Size() != before-1 {
					h.fail("remove handle of live element %d changed the size from %d to %d", id, before, q.Size())
				}
			} else if q.Size() != before {
				h.fail("remove handle of removed element %d changed the size from %d to %d", id, before, q.Size())
			}
		case "peek":
			got, ok := q.Peek()
			ev, out = "HPeek", "HOVal "+optZ(got, ok)
			if ok != (len(ref) > 0) || (ok && !isMin(got)) {
				h.fail("Peek = %v,%v is not a minimum of %v", got, ok, ref)
			}
		case "pop":
			got, ok := q.Pop()
			ev, out = "HPop", "HOVal "+optZ(got, ok)
			if ok != (len(ref) > 0) || (ok && !isMin(got)) {
				h.fail("Pop = %v,%v is not a minimum of %v", got, ok, ref)
			}
			if len(ref) >= 3 {
				bigPop = true
			}
			drop(got)
		case "popuntil":
			p := o.P
			for _, e := range ref {
				if c3(e.p, p) == 0 && e.repr != o.Repr {
					crossBound = true // the bound is exactly equal to a live key, in another rendering
				}
			}
			got := q.popUntil(p, o.Repr)
			ev, out = "HPopUntil "+paren(vx.Z(p)), "HOVals "+zs(got)
			det = "bound as " + q.reprName(o.Repr)
			for j, g := range got {
				if !isMin(g) || c3(prioOf(g), p) > 0 {
					h.fail("PopUntil(%d as %s) = %v: element %d (#%d) out of order or above the limit; live {id p repr} %v", p, q.reprName(o.Repr), got, g, j, ref)
				}
				drop(g)
			}
			for _, e := range ref {
				if c3(e.p, p) <= 0 {
					h.fail("PopUntil(%d as %s) = %v left element %d (priority %d, key as %s) behind", p, q.reprName(o.Repr), got, e.id, e.p, q.reprName(e.repr))
				}
			}
		case "popall":
			got := q.PopAll()
			ev, out = "HPopAll", "HOVals "+zs(got)
			if len(got) != len(ref) {
				h.fail("PopAll returned %d of %d", len(got), len(ref))
			}
			for _, g := range got {
				if !isMin(g) {
					h.fail("PopAll = %v: element %d out of order", got, g)
				}
				drop(g)
			}
		case "size":
			sz := q.Size()
			ev, out = "HSize", "HONat "+vx.Nat(sz)
			if sz != len(ref) {
				h.fail("Size = %d want %d", sz, len(ref))
			}
		default:
			ev, out = "HIsEmpty", "HOBool "+vx.Bool(q.IsEmpty())
		}
		h.add(ev, fmt.Sprintf("(%s, %s)", out, heapSlice(q.heap())))
		if det != "" {
			h.detail = append(h.detail, fmt.Sprintf("op %d %s: %s", len(h.evs), ev, det))
		}
		if q.Size() != len(ref) {
			h.fail("size %d, reference has %d", q.Size(), len(ref))
		}
	}
	if crossTie {
		st.Count("heap:equal-keys-in-different-renderings")
	}
	if crossBound {
		st.Count("heap:bound-equal-to-key-in-another-rendering")
	}
	h.nontr = bigPop && (useTimed || removedLive)
	return h
}

// ---------- Queue ----------

func ints(v reflect.Value) []int64 {
	res := make([]int64, v.Len())
	for i := range res {
		res[i] = v.Index(i).Int()
	}
	return res
}

func runQueue(r *vx.Rng, capacity, n int, st *vx.Stats) (ret *history) {
	h := &history{kind: "queue", conf: vx.Nat(capacity)}
	ret = h
	defer h.guard()
	q := queue.New[int64](capacity)
	var ref []int64
	next := int64(0)
	wraps := 0
	for i := 0; i < n; i++ {
		next++
		var ev, out string
		switch c := r.Intn(100); {
		case c < 5:
			ev, out = "QSize", "QONat "+vx.Nat(q.Size())
			if q.Size() != len(ref) {
				h.fail("Size = %d want %d", q.Size(), len(ref))
			}
		case c < 8:
			ev, out = "QCapacity", "QONat "+vx.Nat(q.Capacity())
		case c < 35:
			ev = "QForceOffer " + vx.Z(next)
			func() {
				defer func() {
					if recover() != nil {
						out = "QOPanic"
						if capacity != 0 {
							h.fail("ForceOffer panicked with capacity %d", capacity)
						}
					}
				}()
				got, ok := q.ForceOffer(next)
				out = "QOOpt " + optZ(got, ok)
				if len(ref) == capacity {
					if !ok || got != ref[0] {
						h.fail("ForceOffer on a full queue evicted %v,%v want %v", got, ok, ref[0])
					}
					ref = ref[1:]
				} else if ok {
					h.fail("ForceOffer evicted %v from a queue that was not full", got)
				}
				ref = append(ref, next)
			}()
		case c < 65:
			ok := q.Offer(next)
			ev, out = "QOffer "+vx.Z(next), "QOBool "+vx.Bool(ok)
			if ok != (len(ref) < capacity) {
				h.fail("Offer = %v with %d of %d", ok, len(ref), capacity)
			}
			if ok {
				ref = append(ref, next)
			}
		default:
			got, ok := q.Poll()
			ev, out = "QPoll", "QOOpt "+optZ(got, ok)
			if ok != (len(ref) > 0) || (ok && got != ref[0]) {
				h.fail("Poll = %v,%v want head of %v", got, ok, ref)
			}
			if ok {
				ref = ref[1:]
			}
		}
		qv := reflect.ValueOf(q)
		wr := int(fld(qv, "write").Int())
		if wr == 0 && (strings.HasPrefix(ev, "QOffer") || strings.HasPrefix(ev, "QForce")) && !strings.HasSuffix(out, "false") && out != "QOPanic" {
			wraps++
		}
		h.add(ev, fmt.Sprintf("(%s, (%s, %s, %s, %s))", out, zs(ints(fld(qv, "ringBuffer"))), vx.Nat(int(fld(qv, "read").Int())), vx.Nat(wr), vx.Nat(int(fld(qv, "size").Int()))))
	}
	h.nontr = wraps >= 2
	return h
}

// ---------- RingBuffer ----------

func runRing(r *vx.Rng, capacity, n int, st *vx.Stats) (ret *history) {
	h := &history{kind: "ring", conf: vx.Nat(capacity)}
	ret = h
	defer h.guard()
	rb := ringbuffer.NewRingBuffer[int64](capacity)
	var ref []int64 // newest first
	next := int64(0)
	adds := 0
	for i := 0; i < n; i++ {
		next++
		var ev, out string
		if r.Intn(100) < 65 {
			ev = "RBAdd " + vx.Z(next)
			func() {
				defer func() {
					if recover() != nil {
						out = "RBOPanic"
						if capacity != 0 {
							h.fail("Add panicked with capacity %d", capacity)
						}
					}
				}()
				out = "RBOBool " + vx.Bool(rb.Add(next))
				ref = append([]int64{next}, ref...)
				if len(ref) > capacity {
					ref = ref[:capacity]
				}
				adds++
			}()
		} else {
			got := rb.ToSlice()
			ev, out = "RBToSlice", "RBOList "+zs(got)
			if fmt.Sprint(got) != fmt.Sprint(ref) {
				h.fail("ToSlice = %v want %v", got, ref)
			}
		}
		rv := reflect.ValueOf(rb)
		h.add(ev, fmt.Sprintf("(%s, (%s, %s, %s))", out, zs(ints(fld(rv, "buffer"))), vx.Nat(int(fld(rv, "pos").Int())), vx.Nat(int(fld(rv, "size").Int()))))
	}
	h.nontr = capacity > 0 && adds >= 2*capacity
	return h
}

// ---------- Stack ----------

func stackContents(s stack.Stack[int64], threadSafe bool) []int64 {
	v := reflect.ValueOf(s)
	if threadSafe {
		v = fld(v, "stack")
	}
	return ints(deref(v))
}

func runStack(r *vx.Rng, threadSafe bool, n int, st *vx.Stats) (ret *history) {
	h := &history{kind: "stack", conf: vx.Bool(threadSafe)}
	ret = h
	defer h.guard()
	var s stack.Stack[int64]
	switch {
	case threadSafe:
		s = stack.New[int64](true)
	case r.Bool():
		s = stack.New[int64](false)
	default:
		s = stack.New[int64]()
	}
	var ref []int64
	next := int64(0)
	pp := 0
	for i := 0; i < n; i++ {
		next++
		var ev, out string
		switch c := r.Intn(100); {
		case c < 40:
			s.Push(next)
			ref = append(ref, next)
			ev, out = "SPush "+vx.Z(next), "SOUnit"
			pp++
		case c < 70:
			got, ok := s.Pop()
			ev, out = "SPop", "SOOpt "+optZ(got, ok)
			if ok != (len(ref) > 0) || (ok && got != ref[len(ref)-1]) {
				h.fail("Pop = %v,%v want top of %v", got, ok, ref)
			}
			if ok {
				ref = ref[:len(ref)-1]
				pp++
			}
		case c < 82:
			got, ok := s.Peek()
			ev, out = "SPeek", "SOOpt "+optZ(got, ok)
			if ok != (len(ref) > 0) || (ok && got != ref[len(ref)-1]) {
				h.fail("Peek = %v,%v want top of %v", got, ok, ref)
			}
		case c < 86:
			s.Clear()
			ref = nil
			ev, out = "SClear", "SOUnit"
		case c < 94:
			ev, out = "SSize", "SONat "+vx.Nat(s.Size())
			if s.Size() != len(ref) {
				h.fail("Size = %d want %d", s.Size(), len(ref))
			}
		default:
			ev, out = "SIsEmpty", "SOBool "+vx.Bool(s.IsEmpty())
			if s.IsEmpty() != (len(ref) == 0) {
				h.fail("IsEmpty = %v with %d elements", s.IsEmpty(), len(ref))
			}
		}
		h.add(ev, fmt.Sprintf("(%s, %s)", out, zs(stackContents(s, threadSafe))))
	}
	h.nontr = pp >= 4
	return h
}

// concurrent smoke test of the thread-safe stack: g goroutines push disjoint values, then everything is popped;
// the popped multiset must be exactly what was pushed (a lost update or a missing lock shows up as a difference).
func stackConc(r *vx.Rng, st *vx.Stats, runs int) {
	for i := 0; i < runs; i++ {
		s := stack.New[int64](true)
		g, per := 2+r.Intn(3), 200
		done := make(chan struct{})
		go func() {
			var wg sync.WaitGroup
			for j := 0; j < g; j++ {
				wg.Add(1)
				go func(j int) {
					defer wg.Done()
					for k := 0; k < per; k++ {
						s.Push(int64(j*per + k))
						if k%7 == 0 {
							s.Peek()
							s.Size()
						}
					}
				}(j)
			}
			wg.Wait()
			close(done)
		}()
		select {
		case <-done:
		case <-time.After(20 * time.Second):
			st.Fail(map[string]any{"sig": "", "kind": "threadsafe stack: concurrent pushes hung"})
			return
		}
		seen := map[int64]bool{}
		for {
			v, ok := s.Pop()
			if !ok {
				break
			}
			seen[v] = true
		}
		st.Count("stack:conc-runs")
		if len(seen) != g*per {
			st.Fail(map[string]any{"sig": "", "kind": "threadsafe stack: concurrent pushes lost", "distinct": len(seen), "expected": g * per})
		}
	}
}

// ---------- driver ----------

func emit(cf *vx.CasesFile, st *vx.Stats, h *history, seed uint64, idx int) {
	cf.Add(h.coq())
	st.Count("kind:" + h.kind)
	if h.nontr {
		st.Count("nontrivial:" + h.kind)
	}
	for _, e := range h.evs {
		st.Count(h.kind + ":" + strings.SplitN(e, " ", 2)[0])
	}
	st.Case(h.kind+" "+h.conf+" "+strings.Join(h.evs, ";"), h.nontr)
	desc := map[string]any{"container": h.kind, "config": h.conf, "history": h.evs, "gen_seed": seed, "gen_index": idx}
	if len(h.detail) > 0 {
		desc["detail"] = h.detail
	}
	st.CaseIndex = append(st.CaseIndex, desc)
	if idx%97 == 0 {
		st.Sample(map[string]any{"container": h.kind, "config": h.conf, "history": h.evs, "observed": h.obs}, 6)
	}
	if len(h.fails) > 0 {
		f := h.fails
		if len(f) > 3 {
			f = f[:3]
		}
		fd := map[string]any{"sig": "", "container": h.kind, "config": h.conf, "history": h.evs, "why": f, "gen_seed": seed, "gen_index": idx}
		if len(h.detail) > 0 {
			fd["detail"] = h.detail
		}
		st.Fail(fd)
	}
}

func main() {
	if len(os.Args) >= 2 && os.Args[1] == "free" {
		freeMain(os.Args[2:])
		return
	}
	if len(os.Args) < 2 || os.Args[1] != "hist" {
		vx.Die("usage: hx-c12a hist --n N --len L --seed S --out cases.v --stats stats.json | hx-c12a free --ms MS --seed S --stats stats.json")
	}
	fs := flag.NewFlagSet("hist", flag.ExitOnError)
	n := fs.Int("n", 360, "")
	maxLen := fs.Int("len", 30, "")
	seed := fs.Uint64("seed", 1, "")
	out := fs.String("out", "cases.v", "")
	stats := fs.String("stats", "stats.json", "")
	conc := fs.Int("conc", 160, "number of random forced-interleaving scenarios (after the directed ones)")
	_ = fs.Parse(os.Args[2:])
	r := vx.NewRng(*seed)
	st := vx.NewStats("lockstep random histories on ShrinkingMap / RandomMap (options: default + ratio {0,1/2,1,3/2,2} x count {0,1,2,3,5}), " +
		"PriorityQueue (ascending, descending, tie-heavy comparator; ds and timed variants), Queue and RingBuffer (capacity 0..5), Stack (simple, threadsafe); " +
		"keys 0..4, priorities 0..5; distinct = distinct (container, config, history); non-trivial = smap: the map shrank by itself; rmap: a non-last key was deleted and a random pick succeeded; " +
		"heap: a pop with >= 3 elements and (ds variant) a live handle removed; queue: the write index wrapped twice; ring: >= 2*capacity adds; stack: >= 4 pushes/pops; " +
		"timed keys/bounds = instants time.Now()+p*unit rendered in 7 time.Time representations, ds keys carry an ignored tag, directed (ra,rb) pair histories first; " +
		"conc (Go-side only, no Coq case): forced interleavings behind a call parked in its callback / the held mutex, non-trivial = gate held and >= 2 calls parked at release")
	cf := &vx.CasesFile{
		Header: "From Coq Require Import ZArith List.\nFrom Verif.C12a_Containers Require Import SMap RMap Heap Ring Corr.\nImport ListNotations.\n",
		Type:   "case",
		Footer: "Definition M := Eval vm_compute in mismatches cases.\nPrint M.\n",
	}
	// directed histories first: keys / bounds that denote the same priority in different Go renderings
	nd := 0
	for mode := 0; mode < 2; mode++ {
		for _, sc := range heapDirected(len(timeReprNames)) {
			nd++
			emit(cf, st, runHeap(r.Fork(), mode, true, 0, sc, st), *seed, -nd)
		}
	}
	for mode := 0; mode < 3; mode++ {
		for _, sc := range heapDirected(3) {
			nd++
			emit(cf, st, runHeap(r.Fork(), mode, false, 0, sc, st), *seed, -nd)
		}
	}
	st.Count(fmt.Sprintf("directed-histories=%d", nd))
	for i := 0; cf.Len() < *n+nd; i++ {
		g := r.Fork()
		ln := 5 + g.Intn(*maxLen)
		var h *history
		switch i % 12 {
		case 0, 1, 2:
			h = runSMap(g, smOptsAll[(i/12*3+i%12)%len(smOptsAll)], ln, st)
		case 3, 4, 5:
			h = runRMap(g, smOptsAll[(i/12*3+i%12-3)%len(smOptsAll)], ln, st)
		case 6, 7:
			h = runHeap(g, (i/12*2+i%12-6)%3, false, ln, nil, st)
		case 8:
			h = runHeap(g, (i/12)%2, true, ln, nil, st)
		case 9:
			h = runQueue(g, (i/12)%6, ln, st)
		case 10:
			h = runRing(g, (i/12)%6, ln, st)
		default:
			h = runStack(g, (i/12)%2 == 0, ln, st)
		}
		emit(cf, st, h, *seed, i)
	}
	stackConc(r.Fork(), st, 5)
	concFamily(r.Fork(), st, *conc)
	if err := cf.Write(*out); err != nil {
		vx.Die("%v", err)
	}
	if err := st.Write(*stats); err != nil {
		vx.Die("%v", err)
	}
}
