package main

// API family: every exported method of reactive.Variable / Set that changes the value or (un)registers a callback.
//
//	writers     : Set, Compute, DefaultTo, Init (chained to the constructor AND on a live variable), ToggleValue and its
//	              reset closure, InheritFrom (the source's updates become writes of the inheriting variable)
//	subscribers : OnUpdate, OnUpdateOnce (with / without condition), OnUpdateWithContext (context used inside the
//	              callback, after it, and after it was cancelled), WithValue, WithNonEmptyValue, LogUpdates,
//	              Set.WithElements (with / without condition)
//
// aseq  : sequential scripts; what each variant's user-visible callbacks record is compared with the model's
//
//	observation function applied to the underlying subscription's log (VApi / SApi cases), and judged by a
//	Go-side oracle (chain, last reported = final, at most one user call, contexts well bracketed, active
//	context = final value, active elements = contents).
//
// afree : free-running goroutines; the global change order is recorded inside the TRANSFORMATION function (it runs
//
//	under the value mutex for every write path, whichever method performs the write), so a write that does
//	not notify is a change no subscriber log contains.
import (
	"context"
	"fmt"
	"log/slog"
	"os"
	"os/exec"
	"runtime"
	"strconv"
	"sync"
	"sync/atomic"
	"time"

	"github.com/iotaledger/hive.go/ds"
	"github.com/iotaledger/hive.go/ds/reactive"
	"github.com/iotaledger/hive.go/serializer/v2/serix"

	"verif/harness/vx"
)

const (
	tagUser     = 1000
	tagSetup    = 2000
	tagTeardown = 3000
	tagLogged   = 5000
)

// ---- conditions ----

func cnd2(c string, a uint64) func(p, n uint64) bool {
	switch c {
	case "all":
		return func(_, _ uint64) bool { return true }
	case "ge":
		return func(_, n uint64) bool { return n >= a }
	case "nz":
		return func(_, n uint64) bool { return n != 0 }
	case "pnz":
		return func(p, _ uint64) bool { return p != 0 }
	}
	panic("bad condition " + c)
}

func cnd1(c string, a uint64) func(n uint64) bool {
	f := cnd2(c, a)
	return func(n uint64) bool { return f(0, n) }
}

func coqCnd(c string, a uint64) string {
	switch c {
	case "all":
		return "CAll"
	case "ge":
		return fmt.Sprintf("(CNewGe %s)", vx.N(a))
	case "nz":
		return "CNewNz"
	case "pnz":
		return "CPrevNz"
	}
	panic("bad condition " + c)
}

func (o op) coqView() string {
	switch o.V {
	case "", "plain":
		return "VwPlain"
	case "once":
		if o.Cond == "" {
			return "(VwOnce None)"
		}
		return fmt.Sprintf("(VwOnce (Some %s))", coqCnd(o.Cond, o.CA))
	case "ctx":
		return fmt.Sprintf("(VwCtx %s)", coqCnd(o.Cond, o.CA))
	case "with":
		return fmt.Sprintf("(VwWith %s)", coqCnd(o.Cond, o.CA))
	case "log":
		return "VwLog"
	}
	panic("bad view " + o.V)
}

func (o op) coqSView() string {
	if o.V == "withel" {
		return fmt.Sprintf("(SwWith %s)", vx.N(o.CA))
	}
	return "SwPlain"
}

// expected S/T trace of the WithValue discipline from a subscription's log (Go-side oracle)
func ctxTrace(cond func(uint64) bool, log []pair, fin bool) (tr []pair, active *uint64) {
	for _, d := range log {
		if active != nil {
			tr = append(tr, pair{tagTeardown, *active})
			active = nil
		}
		if cond(d[1]) {
			n := d[1]
			tr = append(tr, pair{tagSetup, n})
			active = &n
		}
	}
	if fin && active != nil {
		tr = append(tr, pair{tagTeardown, *active})
		active = nil
	}
	return tr, active
}

func stOnly(ev []pair) (out []pair) {
	for _, e := range ev {
		if e[0] == tagSetup || e[0] == tagTeardown {
			out = append(out, e)
		}
	}
	return out
}

func pairsEq(a, b []pair) bool {
	if len(a) != len(b) {
		return false
	}
	for i := range a {
		if a[i] != b[i] {
			return false
		}
	}
	return true
}

// bracketed: S a, T a, S b, T b, ... ; returns the value whose context is still active
func bracketed(ev []pair) (ok bool, active *uint64) {
	for _, e := range ev {
		switch e[0] {
		case tagSetup:
			if active != nil {
				return false, nil
			}
			v := e[1]
			active = &v
		case tagTeardown:
			if active == nil || *active != e[1] {
				return false, nil
			}
			active = nil
		}
	}
	return true, active
}

// ---- fake VariableLogReceiver (LogUpdates) ----

type fakeLogger struct{ rec func(uint64) }

func (f *fakeLogger) OnLogLevelActive(_ slog.Level, setup func() (shutdown func())) (unsubscribe func()) {
	return setup() // the level is active from the start; deactivation = the returned function
}

func (f *fakeLogger) LogAttrs(_ string, _ slog.Level, args ...slog.Attr) {
	for _, a := range args {
		if a.Key == "set" {
			s := a.Value.String()
			if s == "nil" {
				f.rec(0)
				continue
			}
			n, err := strconv.ParseUint(s, 10, 64)
			if err != nil {
				n = 99
			}
			f.rec(n)
		}
	}
}

// ---------------------------------------------------------------------------------------------------------------
// sequential API scripts: Variable

type apiObs struct {
	obs    [][]pair
	rets   []pair
	final  uint64
	coqOps []string
	fails  []string
	unsubd []bool
	subbed []bool
}

func maxTr(cur, n uint64) uint64 {
	if cur > n {
		return cur
	}
	return n
}

func runVarApi(kind string, ops []op, ncb int) *apiObs {
	o := &apiObs{obs: make([][]pair, ncb), unsubd: make([]bool, ncb), subbed: make([]bool, ncb)}
	unsubs := make([]func(), ncb)
	afterUnsub := make([]func(), ncb) // probes run after an unsubscribe returned
	var pending []func()              // withinContext calls postponed until the current call has returned
	var v reactive.Variable[uint64]
	mk := func() reactive.Variable[uint64] {
		if kind == "max" {
			return reactive.NewVariable[uint64](maxTr)
		}
		return reactive.NewVariable[uint64]()
	}
	start := 0
	if len(ops) > 0 && ops[0].K == "vinit" { // the documented use: chained with the constructor
		nv := mk()
		v = nv.Init(ops[0].A)
		if v != nv {
			o.fails = append(o.fails, "Init does not return the variable it was called on")
		}
		o.rets = append(o.rets, pair{0, 0})
		o.coqOps = append(o.coqOps, ops[0].coqV())
		start = 1
	} else {
		v = mk()
	}
	src := reactive.NewVariable[uint64]()
	var srcVal uint64
	var unInherit func()
	inherited := false
	var reset func()
	fail := func(f string, a ...any) { o.fails = append(o.fails, fmt.Sprintf(f, a...)) }
	for _, x := range ops[start:] {
		prev := v.Get()
		write := func() {
			o.rets = append(o.rets, pair{prev, 0})
			o.coqOps = append(o.coqOps, x.coqV())
		}
		switch x.K {
		case "vset":
			if got := v.Set(x.A); got != prev {
				fail("Set returned %d, the previous value was %d", got, prev)
			}
			write()
		case "vaddmod":
			if got := v.Compute(vfun(x)); got != prev {
				fail("Compute returned %d, the previous value was %d", got, prev)
			}
			write()
		case "vdefault":
			nv, upd := v.DefaultTo(x.A)
			if upd != (prev == 0) || nv != v.Get() {
				fail("DefaultTo(%d) on %d returned (%d,%v), value now %d", x.A, prev, nv, upd, v.Get())
			}
			write()
		case "vinit":
			if got := v.Init(x.A); got != v {
				fail("Init does not return the variable it was called on")
			}
			write()
		case "vtoggle":
			reset = v.ToggleValue(x.A)
			write()
		case "vreset":
			if reset != nil {
				reset()
				write()
			}
		case "inherit":
			if !inherited {
				unInherit = v.InheritFrom(src)
				inherited = true
				o.rets = append(o.rets, pair{prev, 0})
				o.coqOps = append(o.coqOps, fmt.Sprintf("Write (VInh %s)", vx.N(srcVal)))
			}
		case "srcset":
			src.Set(x.A)
			if inherited && x.A != srcVal {
				o.rets = append(o.rets, pair{prev, 0})
				o.coqOps = append(o.coqOps, fmt.Sprintf("Write (VInh %s)", vx.N(x.A)))
			}
			srcVal = x.A
		case "uninherit":
			if inherited {
				unInherit()
				inherited = false
			}
		case "sub":
			c := x.C
			o.subbed[c] = true
			o.coqOps = append(o.coqOps, x.coqV())
			rec := func(d pair) { o.obs[c] = append(o.obs[c], d) }
			setupFor := func(n uint64) func() func() {
				return func() func() {
					rec(pair{tagSetup, n})
					return func() { rec(pair{tagTeardown, n}) }
				}
			}
			switch x.V {
			case "", "plain":
				unsubs[c] = v.OnUpdate(func(p, n uint64) { rec(pair{p, n}) }, x.Trig)
			case "once":
				users := 0
				user := func(p, n uint64) {
					if users++; users > 1 {
						fail("OnUpdateOnce callback %d invoked %d times", c, users)
					}
					rec(pair{tagUser + p, n})
				}
				if x.Cond == "" {
					unsubs[c] = v.OnUpdateOnce(user)
				} else {
					f := cnd2(x.Cond, x.CA)
					unsubs[c] = v.OnUpdateOnce(user, func(p, n uint64) bool { rec(pair{p, n}); return f(p, n) })
				}
			case "ctx":
				f := cnd1(x.Cond, x.CA)
				var lastWc func(func() func())
				stale := func(when string) {
					if lastWc != nil {
						lastWc(func() func() {
							fail("callback %d: withinContext ran its subscription although its context was already cancelled (%s)", c, when)
							return nil
						})
					}
				}
				pol := x.Pol
				unsubs[c] = v.OnUpdateWithContext(func(p, n uint64, wc func(func() func())) {
					stale("a newer update arrived")
					rec(pair{p, n})
					lastWc = wc
					if f(n) {
						if pol == "after" { // the context stays usable until the next update: use it once the call has returned
							pending = append(pending, func() { wc(setupFor(n)) })
						} else {
							wc(setupFor(n))
						}
					}
				}, x.Trig)
				afterUnsub[c] = func() { stale("unsubscribed") }
			case "with":
				switch x.Cond {
				case "all":
					unsubs[c] = v.WithValue(func(n uint64) func() { return setupFor(n)() })
				case "nz":
					unsubs[c] = v.WithNonEmptyValue(func(n uint64) func() { return setupFor(n)() })
				default:
					unsubs[c] = v.WithValue(func(n uint64) func() { return setupFor(n)() }, cnd1(x.Cond, x.CA))
				}
			case "log":
				lg := &fakeLogger{rec: func(n uint64) { rec(pair{tagLogged, n}) }}
				unsubs[c] = v.LogUpdates(lg, slog.LevelInfo, "v", func(n uint64) string { return strconv.FormatUint(n, 10) })
			}
		case "unsub":
			unsubs[x.C]()
			o.unsubd[x.C] = true
			o.coqOps = append(o.coqOps, x.coqV())
			if afterUnsub[x.C] != nil {
				afterUnsub[x.C]()
			}
		}
		for _, p := range pending {
			p()
		}
		pending = pending[:0]
	}
	o.final = v.Get()
	return o
}

// judgeVarApi: Go-side oracle on a sequential API script (independent of the Coq model).
func judgeVarApi(ops []op, o *apiObs) (fails []string) {
	fails = append(fails, o.fails...)
	views := map[int]op{}
	for _, x := range ops {
		if x.K == "sub" {
			views[x.C] = x
		}
	}
	for c, ev := range o.obs {
		if !o.subbed[c] {
			continue
		}
		w := views[c]
		switch w.V {
		case "", "plain", "ctx":
			var l []pair
			for _, e := range ev {
				if e[0] < tagUser {
					l = append(l, e)
				}
			}
			for i := 1; i < len(l); i++ {
				if l[i][0] != l[i-1][1] {
					fails = append(fails, fmt.Sprintf("callback %d: previous value %d of invocation %d is not the new value %d of the preceding one (log %v)", c, l[i][0], i, l[i-1][1], l))
				}
			}
			if !o.unsubd[c] {
				last := uint64(0)
				if len(l) > 0 {
					last = l[len(l)-1][1]
				}
				if last != o.final {
					fails = append(fails, fmt.Sprintf("callback %d (never unsubscribed): last reported value %d, final value %d (log %v)", c, last, o.final, l))
				}
			}
			if w.V == "ctx" {
				want, _ := ctxTrace(cnd1(w.Cond, w.CA), l, o.unsubd[c])
				if got := stOnly(ev); !pairsEq(got, want) {
					fails = append(fails, fmt.Sprintf("callback %d: contexts %v, expected %v from its log %v", c, got, want, l))
				}
			}
		case "with":
			ok, active := bracketed(ev)
			if !ok {
				fails = append(fails, fmt.Sprintf("WithValue %d: setups / teardowns are not bracketed: %v", c, ev))
			}
			f := cnd1(w.Cond, w.CA)
			switch {
			case o.unsubd[c] && active != nil:
				fails = append(fails, fmt.Sprintf("WithValue %d: a setup is still active after the teardown: %v", c, ev))
			case !o.unsubd[c] && f(o.final) && (active == nil || *active != o.final):
				fails = append(fails, fmt.Sprintf("WithValue %d: the active setup is not for the final value %d: %v", c, o.final, ev))
			case !o.unsubd[c] && !f(o.final) && active != nil:
				fails = append(fails, fmt.Sprintf("WithValue %d: a setup is active although the final value %d does not satisfy the condition: %v", c, o.final, ev))
			}
		case "log":
			if !o.unsubd[c] && len(ev) > 0 && ev[len(ev)-1][1] != o.final {
				fails = append(fails, fmt.Sprintf("LogUpdates %d: last logged value %d, final value %d", c, ev[len(ev)-1][1], o.final))
			}
		}
	}
	return fails
}

func genApiVarScript(r *vx.Rng, n int) (ops []op, ncb int) {
	const maxCb = 4
	var live []int
	toggled, inherited := false, false
	if r.Bool() {
		ops = append(ops, op{K: "vinit", A: uint64(r.Intn(4))}) // NewVariable().Init(x)
	}
	val := func() uint64 { return uint64(r.Intn(4)) }
	for len(ops) < n {
		switch x := r.Intn(24); {
		case x < 6 && ncb < maxCb:
			o := op{K: "sub", C: ncb, Trig: r.Chance(1, 3)}
			switch r.Intn(9) {
			case 0, 1:
				o.V = "plain"
			case 2:
				o.V, o.Trig = "once", false
			case 3:
				o.V, o.Trig = "once", false
				o.Cond = vx.Pick(r, []string{"all", "ge", "nz", "pnz"})
				o.CA = uint64(1 + r.Intn(3))
			case 4, 5:
				o.V = "ctx"
				o.Cond = vx.Pick(r, []string{"all", "ge", "nz"})
				o.CA = uint64(1 + r.Intn(3))
				o.Pol = vx.Pick(r, []string{"in", "after"})
			case 6, 7:
				o.V, o.Trig = "with", true
				o.Cond = vx.Pick(r, []string{"all", "all", "ge", "nz"})
				o.CA = uint64(1 + r.Intn(3))
			default:
				o.V, o.Trig = "log", false
			}
			ops = append(ops, o)
			live = append(live, ncb)
			ncb++
		case x < 9 && len(live) > 0:
			ops = append(ops, op{K: "unsub", C: vx.Pick(r, live)})
		case x < 13:
			ops = append(ops, op{K: "vinit", A: val()}) // Init on a live variable
		case x < 15:
			ops = append(ops, op{K: "vtoggle", A: val()})
			toggled = true
		case x < 16 && toggled:
			ops = append(ops, op{K: "vreset"})
		case x < 17 && !inherited:
			ops = append(ops, op{K: "inherit"})
			inherited = true
		case x < 19 && inherited:
			ops = append(ops, op{K: "srcset", A: val()})
		case x < 20 && inherited:
			ops = append(ops, op{K: "uninherit"})
			inherited = false
		case x < 21:
			ops = append(ops, op{K: "srcset", A: val()})
		default:
			ops = append(ops, genVarWrite(r, false))
		}
	}
	return ops, ncb
}

func emitVarApi(cf *vx.CasesFile, st *vx.Stats, kind string, ops []op, ncb int, tag string) {
	o := runVarApi(kind, ops, ncb)
	tr := "TId"
	if kind != "var" {
		tr = "TMax"
	}
	views := make([]string, ncb)
	for i := range views {
		views[i] = "VwPlain"
	}
	for _, x := range ops {
		if x.K == "sub" {
			views[x.C] = x.coqView()
		}
	}
	rets := make([]string, len(o.rets))
	for i, r := range o.rets {
		rets[i] = vx.N(r[0])
	}
	cf.Add(fmt.Sprintf("VApi %s %s %s %s %s %s", tr, vx.List(o.coqOps), vx.List(views),
		vx.ListOf(o.obs, coqPairs), vx.List(rets), vx.N(o.final)))
	nontrivial := false
	for _, x := range ops {
		st.Count("aseq:" + x.K)
		if x.K == "sub" {
			st.Count("aseq:view=" + x.V)
		}
	}
	for _, l := range o.obs {
		if len(l) >= 2 {
			nontrivial = true
		}
	}
	st.Case("aseq|"+kind+"|"+fmt.Sprint(ops), nontrivial)
	st.CaseIndex = append(st.CaseIndex, map[string]any{"mode": "aseq:" + kind, "tag": tag, "script": ops})
	st.Sample(map[string]any{"mode": "aseq:" + kind, "script": o.coqOps, "views": views, "obs": fmt.Sprint(o.obs), "final": o.final}, 2)
	if fails := judgeVarApi(ops, o); len(fails) > 0 {
		st.Fail(map[string]any{"sig": "", "kind": "sequential API script on a reactive Variable (" + kind + ")", "why": fails,
			"script": ops, "observed": o.obs, "final": o.final})
	}
}

// ---------------------------------------------------------------------------------------------------------------
// sequential API scripts: Set (WithElements)

func mergeEv(ev []pair) (out []pair) {
	for _, e := range ev {
		if e[1] == 0 {
			continue
		}
		if n := len(out); n > 0 && out[n-1][0] == e[0] {
			out[n-1][1] |= e[1]
		} else {
			out = append(out, e)
		}
	}
	return out
}

// activeElems: per element S,T,S,T,...; returns the mask of the elements whose setup is active
func activeElems(ev []pair) (ok bool, active uint64) {
	ok = true
	for _, e := range ev {
		switch e[0] {
		case tagSetup:
			if active&e[1] != 0 {
				ok = false
			}
			active |= e[1]
		case tagTeardown:
			if active&e[1] != e[1] {
				ok = false
			}
			active &^= e[1]
		}
	}
	return ok, active
}

func withElements[E elem](s reactive.ReadableSet[E], cm uint64, rec func(pair)) func() {
	setup := func(e E) func() {
		rec(pair{tagSetup, 1 << uint(e)})
		return func() { rec(pair{tagTeardown, 1 << uint(e)}) }
	}
	if cm == 1<<universe-1 {
		return s.WithElements(setup)
	}
	return s.WithElements(setup, func(e E) bool { return cm&(1<<uint(e)) != 0 })
}

func emitSetApi(cf *vx.CasesFile, st *vx.Stats, s0 uint64, ops []op, ncb int, tag string) {
	obs := make([][]pair, ncb)
	raw := make([][]pair, ncb)
	unsubd := make([]bool, ncb)
	unsubs := make([]func(), ncb)
	views := make([]string, ncb)
	vop := make([]op, ncb)
	for i := range views {
		views[i] = "SwPlain"
	}
	var rets []pair
	var fails []string
	var coqOps []string
	s := reactive.NewSet[uint64](elemsOfE[uint64](s0)...) // uint64 elements: Decode needs an element type serix can encode
	for _, x := range ops {
		switch x.K {
		case "sub":
			c := x.C
			views[c], vop[c] = x.coqSView(), x
			if x.V == "withel" {
				unsubs[c] = withElements[uint64](s, x.CA, func(d pair) { raw[c] = append(raw[c], d) })
			} else {
				unsubs[c] = s.OnUpdate(func(m ds.SetMutations[uint64]) { raw[c] = append(raw[c], mutPairE(m)) }, x.Trig)
			}
		case "unsub":
			unsubs[x.C]()
			unsubd[x.C] = true
		case "decode": // a writer: AddAll(decoded elements); the applied mutation is not returned (sequential: known)
			before := maskOfE[uint64](s)
			if why := decodeInto(s, x.A); why != "" {
				fails = append(fails, why)
			}
			rets = append(rets, pair{x.A &^ before, 0})
		case "decodebad":
			if why := decodeBad(s, x.A); why != "" {
				fails = append(fails, why)
			}
			continue // not an operation of the model: nothing happens
		default:
			rets = append(rets, doSetWriteE(s, x))
		}
		coqOps = append(coqOps, x.coqS())
	}
	final := maskOfE[uint64](s)
	for c := range raw {
		if vop[c].V == "withel" {
			obs[c] = mergeEv(raw[c])
			ok, active := activeElems(raw[c])
			want := final & vop[c].CA
			if unsubd[c] {
				want = 0
			}
			if !ok || active != want {
				fails = append(fails, fmt.Sprintf("WithElements %d (condition mask %d, torn down %v): per-element setups/teardowns alternate: %v; active elements %d, contents %d: %v",
					c, vop[c].CA, unsubd[c], ok, active, final, raw[c]))
			}
		} else {
			obs[c] = raw[c]
			if vop[c].K == "sub" && !unsubd[c] {
				var acc uint64
				for _, d := range raw[c] {
					acc = (acc | d[0]) &^ d[1]
				}
				if acc != final {
					fails = append(fails, fmt.Sprintf("callback %d: folding the reported mutations gives %d, contents %d", c, acc, final))
				}
			}
		}
	}
	cf.Add(fmt.Sprintf("SApi %s %s %s %s %s %s", vx.N(s0), vx.List(coqOps), vx.List(views),
		vx.ListOf(obs, coqPairs), coqPairs(rets), vx.N(final)))
	nontrivial := false
	for _, x := range ops {
		st.Count("aseq-set:" + x.K)
		if x.K == "sub" {
			st.Count("aseq-set:view=" + x.V)
		}
	}
	for _, l := range obs {
		if len(l) >= 2 {
			nontrivial = true
		}
	}
	st.Case("aseq-set|"+fmt.Sprint(s0, ops), nontrivial)
	st.CaseIndex = append(st.CaseIndex, map[string]any{"mode": "aseq:set", "tag": tag, "s0": s0, "script": ops})
	st.Sample(map[string]any{"mode": "aseq:set", "views": views, "obs": fmt.Sprint(obs), "final": final}, 2)
	if len(fails) > 0 {
		st.Fail(map[string]any{"sig": "", "kind": "sequential API script on a reactive Set", "why": fails, "s0": s0, "script": ops, "observed": raw, "final": final})
	}
}

func genApiSetScript(r *vx.Rng, n int) (ops []op, ncb int) {
	ops, ncb = genScript(r, n, func() op {
		switch r.Intn(8) {
		case 0:
			return op{K: "decode", A: r.U64() & (1<<universe - 1) & r.U64()} // Decode on a (usually live) set
		case 1:
			if r.Chance(1, 3) {
				return op{K: "decodebad", A: r.U64() & (1<<universe - 1)}
			}
		}
		return genSetWrite(r)
	})
	for i := range ops {
		if ops[i].K == "sub" && r.Chance(2, 3) {
			ops[i].V, ops[i].Trig = "withel", false
			ops[i].CA = 1<<universe - 1
			if r.Bool() {
				ops[i].CA = r.U64() & (1<<universe - 1)
			}
		}
	}
	return ops, ncb
}

var serixAPI = serix.NewAPI()

// decodeInto: s.Decode(encoding of the elements in mask); "" when the bytesRead / err contract holds.
func decodeInto[E elem](s reactive.Set[E], mask uint64) string {
	enc, err := setOfE[E](mask).Encode(serixAPI)
	if err != nil {
		return fmt.Sprintf("Encode of the set with mask %d failed: %v", mask, err)
	}
	if n, err := s.Decode(serixAPI, enc); err != nil || n != len(enc) {
		return fmt.Sprintf("Decode(encoding of mask %d, %d bytes) returned (%d, %v)", mask, len(enc), n, err)
	}
	return ""
}

// decodeBad: Decode of a truncated encoding must fail and change nothing.
func decodeBad[E elem](s reactive.Set[E], mask uint64) string {
	enc, err := setOfE[E](mask | 1).Encode(serixAPI)
	if err != nil || len(enc) < 2 {
		return fmt.Sprintf("Encode failed: %v", err)
	}
	before := maskOfE[E](s)
	if _, err := s.Decode(serixAPI, enc[:len(enc)-1]); err == nil {
		return "Decode of a truncated encoding returned no error"
	}
	if after := maskOfE[E](s); after != before {
		return fmt.Sprintf("a failed Decode changed the contents from %d to %d", before, after)
	}
	return ""
}

// The teardown function returned by Set.WithElements keeps the per-element teardown functions in an unprotected map:
// before fix 3c10e7a two goroutines calling it at the same time (two racing unsubscribers of one subscription, which
// OnUpdate's unsubscribe tolerates) killed the process with "fatal error: concurrent map writes" or called a nil
// function.  Regression: run in a child process, a crash there is a failure with this input.
// welRaceChild runs in a child process (the fatal error cannot be recovered): NewSet(0..5).WithElements(setup), then
// the teardown from three goroutines at once, up to 3000 times.
func welRaceChild() {
	for i := 0; i < 3000; i++ {
		s := reactive.NewSet[int](0, 1, 2, 3, 4, 5)
		td := s.WithElements(func(int) func() { return func() { runtime.Gosched() } })
		var wg sync.WaitGroup
		start := make(chan struct{})
		for k := 0; k < 3; k++ {
			wg.Add(1)
			go func() { defer wg.Done(); <-start; td() }()
		}
		close(start)
		wg.Wait()
	}
}

func directedWelRace(st *vx.Stats) {
	ctx, cancel := context.WithTimeout(context.Background(), 20*time.Second)
	defer cancel()
	out, err := exec.CommandContext(ctx, os.Args[0], "welrace").CombinedOutput()
	switch {
	case err == nil:
		st.Count("aseq-set:withelements-double-teardown-survived")
	default:
		st.Fail(map[string]any{"sig": "", "kind": "Set.WithElements: s=NewSet(0..5); td=s.WithElements(setup); three goroutines call td() at once",
			"why": fmt.Sprintf("the process died: %v: %.400s", err, out)})
	}
}

func directedApi(cf *vx.CasesFile, st *vx.Stats) {
	directedWelRace(st)
	// Decode on a live set (regression for fix a05beeb): {0,1} with subscribers, Decode(enc{1,2}), a failing Decode, Decode(enc{})
	emitSetApi(cf, st, 3, []op{{K: "sub", C: 0}, {K: "sub", C: 1, V: "withel", CA: 63}, {K: "decode", A: 6}, {K: "decodebad", A: 8}, {K: "decode"}, {K: "decode", A: 6}, {K: "delete", B: 2}, {K: "decode", A: 2}}, 2, "directed-decode-live")
	// Init chained to the constructor, then Init / Set alternating on the live variable
	emitVarApi(cf, st, "var", []op{{K: "vinit", A: 1}, {K: "sub", C: 0, V: "plain"}, {K: "vset", A: 2}, {K: "vinit", A: 3}, {K: "vset", A: 1}, {K: "vinit", A: 2}}, 1, "directed-init-live")
	// every variant registered, then Init / ToggleValue / reset / inherited writes
	emitVarApi(cf, st, "var", []op{
		{K: "sub", C: 0, V: "once"}, {K: "sub", C: 1, V: "ctx", Cond: "nz", Pol: "after", Trig: true}, {K: "sub", C: 2, V: "with", Cond: "all", Trig: true},
		{K: "sub", C: 3, V: "log"}, {K: "vinit", A: 2}, {K: "vtoggle", A: 3}, {K: "vreset"}, {K: "inherit"}, {K: "srcset", A: 1}, {K: "vinit", A: 3},
		{K: "srcset", A: 2}, {K: "uninherit"}, {K: "srcset", A: 3}, {K: "unsub", C: 1}, {K: "vinit", A: 0}}, 4, "directed-variants")
	emitVarApi(cf, st, "max", []op{{K: "vinit", A: 2}, {K: "sub", C: 0, V: "once", Cond: "ge", CA: 3}, {K: "sub", C: 1, V: "with", Cond: "nz", Trig: true}, {K: "vinit", A: 1}, {K: "vinit", A: 3}, {K: "vset", A: 0}, {K: "unsub", C: 1}}, 2, "directed-max-init")
	emitSetApi(cf, st, 3, []op{{K: "sub", C: 0, V: "withel", CA: 5}, {K: "sub", C: 1, V: "withel", CA: 63}, {K: "apply", A: 4, B: 1}, {K: "replace", A: 9}, {K: "unsub", C: 0}, {K: "add", A: 4}, {K: "unsub", C: 0}}, 2, "directed-withelements")
}

// ---------------------------------------------------------------------------------------------------------------
// free-running API runs

// variant-specific part of a subscription record
type variantRec struct {
	Variant  string `json:"variant,omitempty"` // once oncecond ctx with
	Cond     string `json:"cond,omitempty"`
	CA       uint64 `json:"ca,omitempty"`
	Events   []pair `json:"events,omitempty"` // setup / teardown (/ user-call) events
	StaleRan bool   `json:"stale_ran,omitempty"`
}

func judgeVariant(i int, s *subRec, final uint64) (fails []string) {
	unsubscribed := atomic.LoadInt32(&s.unsubRet) != 0
	switch s.Variant {
	case "once", "oncecond":
		if len(s.Events) > 1 {
			fails = append(fails, fmt.Sprintf("subscriber %d: OnUpdateOnce callback invoked %d times: %v", i, len(s.Events), s.Events))
		}
		if s.Variant == "oncecond" {
			f := cnd2(s.Cond, s.CA)
			for k, d := range s.Log {
				if f(d[0], d[1]) != (k == len(s.Log)-1 && len(s.Events) > 0) {
					fails = append(fails, fmt.Sprintf("subscriber %d: OnUpdateOnce condition calls %v / callback %v: the callback must get the first accepted change and the condition must not be asked again", i, s.Log, s.Events))
					break
				}
			}
			if len(s.Events) == 1 && (len(s.Log) == 0 || s.Events[0] != pair{tagUser + s.Log[len(s.Log)-1][0], s.Log[len(s.Log)-1][1]}) {
				fails = append(fails, fmt.Sprintf("subscriber %d: OnUpdateOnce callback got %v, the accepted change was the last of %v", i, s.Events, s.Log))
			}
		}
	case "withel":
		ok, active := activeElems(s.Events)
		want := final & s.CA
		if unsubscribed {
			want = 0
		}
		if !ok || active != want {
			fails = append(fails, fmt.Sprintf("subscriber %d: WithElements (condition mask %d, torn down %v): per-element setups/teardowns alternate: %v; active elements %d, contents %d: %v",
				i, s.CA, unsubscribed, ok, active, final, s.Events))
		}
	case "ctx", "with":
		if s.StaleRan {
			fails = append(fails, fmt.Sprintf("subscriber %d: withinContext ran a subscription after its context had been cancelled", i))
		}
		if s.Variant == "with" && s.Cond != "all" {
			ok, active := bracketed(s.Events)
			f := cnd1(s.Cond, s.CA)
			switch {
			case !ok:
				fails = append(fails, fmt.Sprintf("subscriber %d: WithValue setups/teardowns not bracketed: %v", i, s.Events))
			case unsubscribed && active != nil:
				fails = append(fails, fmt.Sprintf("subscriber %d: WithValue setup still active after teardown: %v", i, s.Events))
			case !unsubscribed && f(final) != (active != nil), !unsubscribed && active != nil && *active != final:
				fails = append(fails, fmt.Sprintf("subscriber %d: WithValue active setup does not match the final value %d: %v", i, final, s.Events))
			}
		} else {
			want, _ := ctxTrace(cnd1(s.Cond, s.CA), s.Log, unsubscribed)
			if !pairsEq(s.Events, want) {
				fails = append(fails, fmt.Sprintf("subscriber %d (%s): contexts %v, expected %v from its log %v (unsubscribed %v)", i, s.Variant, s.Events, want, s.Log, unsubscribed))
			}
		}
	}
	return fails
}

// registerVariant subscribes sr to v in the way its Variant says; the (prev,new) sequence goes through sr.enter.
func registerVariant(v reactive.Variable[uint64], sr *subRec, rc *vx.Rng, cb func(pair), trig bool) func() {
	ev := func(d pair) {
		sr.mu.Lock()
		sr.Events = append(sr.Events, d)
		sr.mu.Unlock()
	}
	setupFor := func(n uint64) func() func() {
		return func() func() {
			ev(pair{tagSetup, n})
			return func() { ev(pair{tagTeardown, n}) }
		}
	}
	switch sr.Variant {
	case "once":
		return v.OnUpdateOnce(func(p, n uint64) { ev(pair{tagUser + p, n}); cb(pair{p, n}) })
	case "oncecond":
		f := cnd2(sr.Cond, sr.CA)
		return v.OnUpdateOnce(func(p, n uint64) { ev(pair{tagUser + p, n}) }, func(p, n uint64) bool { cb(pair{p, n}); return f(p, n) })
	case "ctx":
		f := cnd1(sr.Cond, sr.CA)
		var lastWc func(func() func())
		return v.OnUpdateWithContext(func(p, n uint64, wc func(func() func())) {
			if lastWc != nil {
				lastWc(func() func() { sr.StaleRan = true; return nil })
			}
			lastWc = wc
			if f(n) {
				wc(setupFor(n))
			}
			cb(pair{p, n})
		}, trig)
	case "with":
		var prev uint64
		setup := func(n uint64) func() {
			td := setupFor(n)()
			if sr.Cond == "all" { // every value is set up: the sequence of setups is the sequence of new values
				cb(pair{prev, n})
				prev = n
			}
			return td
		}
		switch sr.Cond {
		case "all":
			return v.WithValue(setup)
		case "nz":
			return v.WithNonEmptyValue(setup)
		default:
			return v.WithValue(setup, cnd1(sr.Cond, sr.CA))
		}
	}
	return v.OnUpdate(func(p, n uint64) { cb(pair{p, n}) }, trig)
}

func freeVarApi(r *vx.Rng) *freeRun {
	fr := &freeRun{Kind: "var-api"}
	var gmu sync.Mutex
	base := func(_, n uint64) uint64 { return n }
	if r.Intn(3) == 2 {
		fr.Kind = "varmax-api"
		base = maxTr
	}
	// the transformation function runs under the value mutex on every write path: its record is the order of changes
	v := reactive.NewVariable[uint64](func(cur, n uint64) uint64 {
		t := base(cur, n)
		if t != cur {
			gmu.Lock()
			fr.G = append(fr.G, pair{cur, t})
			gmu.Unlock()
		}
		return t
	})
	if r.Bool() {
		v = v.Init(uint64(r.Intn(4))) // chained to the constructor
	}
	nw := 1 + r.Intn(3)
	ns := 1 + r.Intn(4)
	fr.Writers = nw
	var wg sync.WaitGroup
	for j := 0; j < nw; j++ {
		rw := r.Fork()
		nops := 4 + rw.Intn(12)
		wg.Add(1)
		go func() {
			defer wg.Done()
			var reset func()
			for k := 0; k < nops; k++ {
				a := uint64(rw.Intn(4))
				switch x := rw.Intn(10); {
				case x < 3:
					v.Init(a)
				case x < 5:
					v.Set(a)
				case x < 6:
					m := uint64(2 + rw.Intn(4))
					if fr.Kind == "varmax-api" {
						m = 1 << 30
					}
					v.Compute(func(c uint64) uint64 { return (c + 1 + a) % m })
				case x < 7:
					v.DefaultTo(a + 1)
				case x < 9 || reset == nil:
					reset = v.ToggleValue(a)
				default:
					reset()
				}
				dally(rw, 6)
			}
		}()
	}
	if r.Bool() { // InheritFrom: the source's writer becomes a writer of v
		rw := r.Fork()
		src := reactive.NewVariable[uint64]()
		fr.Writers++
		wg.Add(1)
		go func() {
			defer wg.Done()
			dally(rw, 30)
			un := v.InheritFrom(src)
			n := 3 + rw.Intn(8)
			for k := 0; k < n; k++ {
				src.Set(uint64(rw.Intn(4)))
				if k == n/2 && rw.Chance(1, 3) {
					v.Init(uint64(rw.Intn(4))) // Init after InheritFrom was set up
				}
				dally(rw, 6)
			}
			if rw.Bool() {
				un()
			}
		}()
	}
	fr.Subs = launchSubs(r, &wg, ns, func(_ int, sr *subRec, rc *vx.Rng, cb func(pair), trig bool) func() {
		return registerVariant(v, sr, rc, cb, trig)
	}, func(i int, sr *subRec, rr *vx.Rng) {
		switch rr.Intn(8) {
		case 0, 1:
		case 2:
			sr.Variant, sr.Trig = "once", false
		case 3:
			sr.Variant, sr.Trig = "oncecond", false
			sr.Cond, sr.CA = vx.Pick(rr, []string{"ge", "nz", "pnz"}), uint64(1+rr.Intn(3))
		case 4, 5:
			sr.Variant = "ctx"
			sr.Cond, sr.CA = vx.Pick(rr, []string{"all", "ge", "nz"}), uint64(1+rr.Intn(3))
		default:
			sr.Variant, sr.Trig = "with", true
			sr.Cond, sr.CA = vx.Pick(rr, []string{"all", "all", "ge", "nz"}), uint64(1+rr.Intn(3))
		}
	})
	if !wait(&wg, 20*time.Second) {
		fr.Hang = true
		return fr
	}
	fr.Final = v.Get()
	return fr
}

// fixupVariants: after the run, what the Coq / shape judgement is told about a variant subscription.
func fixupVariants(fr *freeRun) {
	for _, s := range fr.Subs {
		switch s.Variant {
		case "once", "oncecond":
			// the log ends with the accepted change (the subscription then removes itself): complete only when never triggered
			if len(s.Events) > 0 {
				s.Complete = false
			}
		case "with":
			if s.Cond != "all" {
				s.NoLog = true
			}
		case "withel":
			s.NoLog = true
		}
	}
}
