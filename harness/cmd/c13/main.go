// C13 harness: reactive Variable / Event / Set subscriptions.
//
//	seq  : sequential scripts (Set/Compute/DefaultTo/Trigger | Apply/Add/AddAll/Delete/DeleteAll/Compute/Replace,
//	       OnUpdate/OnTrigger, unsubscribe) on one goroutine; per-subscriber callback logs, return values and the
//	       final value are written as VSeq/SSeq cases and compared with the model run of the same script.
//	free : 2..6 goroutines (writers, subscribers, unsubscribers) race on one object; every subscriber log is judged
//	       against the recorded global change order by a Go-side oracle (shape, exactly-once, order, completeness,
//	       no overlapping callbacks of one subscription, no callback after unsubscribe returned) and, as VFree/SFree
//	       cases, by the Coq predicates.
//	aseq / afree (api.go): the whole exported API.  dseq / dfree (wired.go): a DerivedSet that inherits from its sources and is
//	       written directly, the result of SubtractReactive - the inheritance machinery as one more writer of the set.
package main

import (
	"flag"
	"fmt"
	"os"
	"runtime"
	"sort"
	"strings"
	"sync"
	"sync/atomic"
	"time"

	"github.com/iotaledger/hive.go/ds"
	"github.com/iotaledger/hive.go/ds/reactive"

	"verif/harness/vx"
)

const universe = 6 // set elements 0..5

type pair [2]uint64

func coqPair(p pair) string { return vx.Pair(vx.N(p[0]), vx.N(p[1])) }
func coqPairs(l []pair) string {
	return vx.ListOf(l, coqPair)
}

// elem: the element types the set scripts run on (int in the round-1 families; uint64 in the API family, because
// Set.Decode needs an element type serix can encode)
type elem interface{ ~int | ~uint64 }

func maskOfE[E elem](s ds.ReadableSet[E]) (m uint64) {
	if s == nil {
		return 0
	}
	s.Range(func(e E) { m |= 1 << uint(e) })
	return m
}
func setOfE[E elem](m uint64) ds.Set[E] {
	s := ds.NewSet[E]()
	for e := 0; e < 64; e++ {
		if m&(1<<uint(e)) != 0 {
			s.Add(E(e))
		}
	}
	return s
}
func elemsOfE[E elem](m uint64) (es []E) {
	for e := 0; e < 64; e++ {
		if m&(1<<uint(e)) != 0 {
			es = append(es, E(e))
		}
	}
	return es
}
func mutOfE[E elem](a, d uint64) ds.SetMutations[E] {
	return ds.NewSetMutations[E]().WithAddedElements(setOfE[E](a)).WithDeletedElements(setOfE[E](d))
}
func mutPairE[E elem](m ds.SetMutations[E]) pair {
	return pair{maskOfE(m.AddedElements()), maskOfE(m.DeletedElements())}
}

func maskOf(s ds.ReadableSet[int]) uint64    { return maskOfE(s) }
func setOf(m uint64) ds.Set[int]             { return setOfE[int](m) }
func elemsOf(m uint64) []int                 { return elemsOfE[int](m) }
func mutOf(a, d uint64) ds.SetMutations[int] { return mutOfE[int](a, d) }
func mutPair(m ds.SetMutations[int]) pair    { return mutPairE(m) }

// ---------------------------------------------------------------------------------------------------------------
// script operations (shared by seq generation, execution and Coq printing)

type op struct {
	K    string `json:"k"`              // vset vaddmod vdefault trigger | apply add addall delete deleteall compute replace | sub unsub
	A    uint64 `json:"a,omitempty"`    // value / added mask / element / k
	B    uint64 `json:"b,omitempty"`    // deleted mask / modulus
	F    string `json:"f,omitempty"`    // compute factory: const toggle keep
	C    int    `json:"c,omitempty"`    // callback name
	Trig bool   `json:"trig,omitempty"` // triggerWithInitialZeroValue
	// API family (api.go): subscription variant of a "sub" (plain once ctx with log | withel), its condition
	// (all ge nz pnz; "" = none), the condition's argument / element mask, and when a ctx callback uses its context (in after)
	V    string `json:"v,omitempty"`
	Cond string `json:"cond,omitempty"`
	CA   uint64 `json:"ca,omitempty"`
	Pol  string `json:"pol,omitempty"`
}

func (o op) coqV() string {
	switch o.K {
	case "vset", "trigger":
		return fmt.Sprintf("Write (VSet %s)", vx.N(o.A))
	case "vaddmod":
		return fmt.Sprintf("Write (VAddMod %s %s)", vx.N(o.A), vx.N(o.B))
	case "vdefault":
		return fmt.Sprintf("Write (VDefault %s)", vx.N(o.A))
	case "vinit":
		return fmt.Sprintf("Write (VInit %s)", vx.N(o.A))
	case "vtoggle":
		return fmt.Sprintf("Write (VToggle %s)", vx.N(o.A))
	case "vreset":
		return "Write VReset"
	case "sub":
		return fmt.Sprintf("Subscribe %d %s", o.C, vx.Bool(o.Trig))
	case "unsub":
		return fmt.Sprintf("Unsub %d", o.C)
	}
	panic("bad variable op " + o.K)
}

func (o op) coqS() string {
	switch o.K {
	case "apply":
		return fmt.Sprintf("Write (OApply %s)", coqPair(pair{o.A, o.B}))
	case "add", "addall":
		return fmt.Sprintf("Write (OApply %s)", coqPair(pair{o.A, 0}))
	case "delete", "deleteall":
		return fmt.Sprintf("Write (OApply %s)", coqPair(pair{0, o.B}))
	case "compute":
		switch o.F {
		case "const":
			return fmt.Sprintf("Write (OCompute (FConst %s))", coqPair(pair{o.A, o.B}))
		case "toggle":
			return fmt.Sprintf("Write (OCompute (FToggle %s))", vx.N(o.A))
		case "keep":
			return fmt.Sprintf("Write (OCompute (FKeep %s))", vx.N(o.A))
		}
	case "replace":
		return fmt.Sprintf("Write (OReplace %s)", vx.N(o.A))
	case "decode":
		return fmt.Sprintf("Write (ODecode %s)", vx.N(o.A))
	case "sub":
		return fmt.Sprintf("Subscribe %d %s", o.C, vx.Bool(o.Trig))
	case "unsub":
		return fmt.Sprintf("Unsub %d", o.C)
	}
	panic("bad set op " + o.K)
}

func vfun(o op) func(uint64) uint64 {
	switch o.K {
	case "vset", "trigger":
		return func(uint64) uint64 { return o.A }
	case "vaddmod":
		return func(x uint64) uint64 { return (x + o.A) % o.B }
	case "vdefault":
		return func(x uint64) uint64 {
			if x == 0 {
				return o.A
			}
			return x
		}
	}
	panic("bad")
}

func factoryE[E elem](o op) func(s ds.ReadableSet[E]) ds.SetMutations[E] {
	switch o.F {
	case "const":
		return func(ds.ReadableSet[E]) ds.SetMutations[E] { return mutOfE[E](o.A, o.B) }
	case "toggle":
		return func(s ds.ReadableSet[E]) ds.SetMutations[E] {
			if s.Has(E(o.A)) {
				return mutOfE[E](0, 1<<o.A)
			}
			return mutOfE[E](1<<o.A, 0)
		}
	case "keep":
		return func(s ds.ReadableSet[E]) ds.SetMutations[E] { return mutOfE[E](0, maskOfE(s)&^o.A) }
	}
	panic("bad factory")
}

// doSetWriteE performs one set write op; ret is the observable return value as (added, deleted) masks.
func doSetWriteE[E elem](s reactive.Set[E], o op) pair {
	switch o.K {
	case "apply":
		return mutPairE(s.Apply(mutOfE[E](o.A, o.B)))
	case "add":
		if s.Add(elemsOfE[E](o.A)[0]) {
			return pair{o.A, 0}
		}
		return pair{0, 0}
	case "addall":
		return pair{maskOfE[E](s.AddAll(setOfE[E](o.A))), 0}
	case "delete":
		if s.Delete(elemsOfE[E](o.B)[0]) {
			return pair{0, o.B}
		}
		return pair{0, 0}
	case "deleteall":
		return pair{0, maskOfE[E](s.DeleteAll(setOfE[E](o.B)))}
	case "compute":
		return mutPairE(s.Compute(factoryE[E](o)))
	case "replace":
		return pair{0, maskOfE[E](s.Replace(setOfE[E](o.A)))}
	}
	panic("bad set write " + o.K)
}

func doSetWrite(s reactive.Set[int], o op) pair { return doSetWriteE(s, o) }

// ---------------------------------------------------------------------------------------------------------------
// sequential scripts

func genSetWrite(r *vx.Rng) op {
	m := func() uint64 {
		switch r.Intn(4) {
		case 0:
			return 0
		case 1:
			return 1 << uint(r.Intn(universe))
		default:
			return r.U64() & (1<<universe - 1) & r.U64()
		}
	}
	switch r.Intn(10) {
	case 0, 1, 2:
		return op{K: "apply", A: m(), B: m()}
	case 3:
		return op{K: "add", A: 1 << uint(r.Intn(universe))}
	case 4:
		return op{K: "delete", B: 1 << uint(r.Intn(universe))}
	case 5:
		if r.Bool() {
			return op{K: "addall", A: m()}
		}
		return op{K: "deleteall", B: m()}
	case 6, 7:
		switch r.Intn(3) {
		case 0:
			return op{K: "compute", F: "const", A: m(), B: m()}
		case 1:
			return op{K: "compute", F: "toggle", A: uint64(r.Intn(universe))}
		default:
			return op{K: "compute", F: "keep", A: r.U64() & (1<<universe - 1)}
		}
	default:
		return op{K: "replace", A: r.U64() & (1<<universe - 1) & (r.U64() | r.U64())}
	}
}

func genVarWrite(r *vx.Rng, event bool) op {
	if event {
		if r.Chance(1, 4) {
			return op{K: "vset", A: 0} // Set(false) on an event: swallowed by the transformation
		}
		return op{K: "trigger", A: 1}
	}
	switch r.Intn(6) {
	case 0:
		return op{K: "vaddmod", A: uint64(1 + r.Intn(3)), B: uint64(2 + r.Intn(3))}
	case 1:
		return op{K: "vdefault", A: uint64(r.Intn(4))}
	default:
		return op{K: "vset", A: uint64(r.Intn(4))}
	}
}

func genScript(r *vx.Rng, n int, write func() op) (ops []op, ncb int) {
	const maxCb = 4
	var live []int // subscribed at least once (unsubscribe handle exists)
	for len(ops) < n {
		switch x := r.Intn(20); {
		case x < 6 && ncb < maxCb:
			ops = append(ops, op{K: "sub", C: ncb, Trig: r.Chance(1, 3)})
			live = append(live, ncb)
			ncb++
		case x < 10 && len(live) > 0:
			ops = append(ops, op{K: "unsub", C: vx.Pick(r, live)}) // may repeat: unsubscribe twice
		default:
			ops = append(ops, write())
		}
	}
	return ops, ncb
}

type seqObs struct {
	logs  [][]pair
	rets  []pair // variable: (ret,0)
	final uint64
}

// runVarScript: kind "var" (identity transformation), "max" (transformation max), "event" (reactive.Event).
func runVarScript(kind string, ops []op, ncb int) seqObs {
	o := seqObs{logs: make([][]pair, ncb)}
	unsubs := make([]func(), ncb)
	if kind == "event" {
		e := reactive.NewEvent()
		for _, x := range ops {
			switch x.K {
			case "trigger":
				first := e.Trigger()
				o.rets = append(o.rets, pair{b2u(!first), 0}) // Trigger returns !previous
			case "vset":
				o.rets = append(o.rets, pair{b2u(e.Set(x.A != 0)), 0})
			case "sub":
				c := x.C
				unsubs[c] = e.OnTrigger(func() { o.logs[c] = append(o.logs[c], pair{0, 1}) })
			case "unsub":
				unsubs[x.C]()
			}
		}
		o.final = b2u(e.Get())
		if e.WasTriggered() != e.Get() {
			o.final = 99
		}
		return o
	}
	var v reactive.Variable[uint64]
	if kind == "max" {
		v = reactive.NewVariable[uint64](func(cur, n uint64) uint64 {
			if cur > n {
				return cur
			}
			return n
		})
	} else {
		v = reactive.NewVariable[uint64]()
	}
	for _, x := range ops {
		switch x.K {
		case "vset":
			o.rets = append(o.rets, pair{v.Set(x.A), 0})
		case "vaddmod":
			o.rets = append(o.rets, pair{v.Compute(vfun(x)), 0})
		case "vdefault":
			prev := v.Get()
			nv, upd := v.DefaultTo(x.A)
			if upd != (prev == 0) || nv != v.Get() {
				prev = 98 // DefaultTo's own results are inconsistent: make the case disagree
			}
			o.rets = append(o.rets, pair{prev, 0})
		case "sub":
			c := x.C
			unsubs[c] = v.OnUpdate(func(p, n uint64) { o.logs[c] = append(o.logs[c], pair{p, n}) }, x.Trig)
		case "unsub":
			unsubs[x.C]()
		}
	}
	o.final = v.Get()
	return o
}

func b2u(b bool) uint64 {
	if b {
		return 1
	}
	return 0
}

func runSetScript(s0 uint64, ops []op, ncb int) seqObs {
	o := seqObs{logs: make([][]pair, ncb)}
	unsubs := make([]func(), ncb)
	s := reactive.NewSet[int](elemsOf(s0)...)
	for _, x := range ops {
		switch x.K {
		case "sub":
			c := x.C
			unsubs[c] = s.OnUpdate(func(m ds.SetMutations[int]) { o.logs[c] = append(o.logs[c], mutPair(m)) }, x.Trig)
		case "unsub":
			unsubs[x.C]()
		default:
			o.rets = append(o.rets, doSetWrite(s, x))
		}
	}
	o.final = maskOf(s)
	return o
}

func nontrivialSeq(ops []op, o seqObs) bool {
	for _, l := range o.logs {
		if len(l) >= 2 {
			return true
		}
	}
	return false
}

func emitVarSeq(cf *vx.CasesFile, st *vx.Stats, kind string, ops []op, ncb int, tag string) {
	o := runVarScript(kind, ops, ncb)
	tr := "TId"
	if kind != "var" {
		tr = "TMax"
	}
	rets := make([]string, len(o.rets))
	for i, r := range o.rets {
		rets[i] = vx.N(r[0])
	}
	cf.Add(fmt.Sprintf("VSeq %s %s %d %s %s %s", tr, vx.ListOf(ops, op.coqV), ncb,
		vx.ListOf(o.logs, coqPairs), vx.List(rets), vx.N(o.final)))
	finishSeq(st, "vseq:"+kind, ops, o, tag, func(o op) string { return o.coqV() })
	// Go-side oracle on the sequential run: chain + fold
	for c, l := range o.logs {
		for i := 1; i < len(l); i++ {
			if l[i][0] != l[i-1][1] {
				st.Fail(map[string]any{"sig": "", "kind": "seq variable: prev != new of predecessor", "script": ops, "cb": c, "log": l})
			}
		}
	}
}

func emitSetSeq(cf *vx.CasesFile, st *vx.Stats, s0 uint64, ops []op, ncb int, tag string) {
	o := runSetScript(s0, ops, ncb)
	cf.Add(fmt.Sprintf("SSeq %s %s %d %s %s %s", vx.N(s0), vx.ListOf(ops, op.coqS), ncb,
		vx.ListOf(o.logs, coqPairs), coqPairs(o.rets), vx.N(o.final)))
	finishSeq(st, "sseq", ops, o, tag, func(o op) string { return o.coqS() })
	// Go-side oracle: a subscriber that was never unsubscribed reproduces the contents by folding
	unsubbed := map[int]bool{}
	for _, x := range ops {
		if x.K == "unsub" {
			unsubbed[x.C] = true
		}
	}
	for c, l := range o.logs {
		if unsubbed[c] {
			continue
		}
		subscribed := false
		for _, x := range ops {
			if x.K == "sub" && x.C == c {
				subscribed = true
			}
		}
		if !subscribed {
			continue
		}
		var acc uint64
		for _, d := range l {
			acc = (acc | d[0]) &^ d[1]
		}
		if acc != o.final {
			st.Fail(map[string]any{"sig": "", "kind": "seq set: folding the reported mutations does not reproduce the contents",
				"s0": s0, "script": ops, "cb": c, "log": l, "folded": acc, "final": o.final})
		}
	}
}

func finishSeq(st *vx.Stats, fam string, ops []op, o seqObs, tag string, pr func(op) string) {
	parts := make([]string, len(ops))
	for i, x := range ops {
		parts[i] = pr(x)
		st.Count(fam + ":" + x.K)
	}
	st.Case(fam+"|"+strings.Join(parts, ";"), nontrivialSeq(ops, o))
	st.CaseIndex = append(st.CaseIndex, map[string]any{"mode": fam, "tag": tag, "script": ops})
	st.Sample(map[string]any{"mode": fam, "script": parts, "logs": fmt.Sprint(o.logs), "final": o.final}, 2)
}

func directedSeq(cf *vx.CasesFile, st *vx.Stats) {
	// D13 regression: {1,2} -> Replace {2,3} must be reported as added {3}, deleted {1}
	emitSetSeq(cf, st, 6, []op{{K: "sub", C: 0}, {K: "replace", A: 12}, {K: "sub", C: 1, Trig: true}, {K: "replace", A: 12}, {K: "replace", A: 0}}, 2, "directed-D13")
	// Apply with an element both added and deleted; empty applied mutations are not delivered, empty Compute/Replace are
	emitSetSeq(cf, st, 1, []op{{K: "sub", C: 0, Trig: true}, {K: "apply", A: 2, B: 2}, {K: "apply", A: 1, B: 0}, {K: "compute", F: "const", A: 1}, {K: "replace", A: 1}, {K: "apply"}}, 1, "directed-empty")
	// subscribing to an empty set with and without the zero-value trigger
	emitSetSeq(cf, st, 0, []op{{K: "sub", C: 0}, {K: "sub", C: 1, Trig: true}, {K: "add", A: 4}, {K: "unsub", C: 0}, {K: "unsub", C: 0}, {K: "delete", B: 4}}, 2, "directed-zero")
	emitVarSeq(cf, st, "var", []op{{K: "sub", C: 0}, {K: "sub", C: 1, Trig: true}, {K: "vset", A: 2}, {K: "vset", A: 2}, {K: "unsub", C: 1}, {K: "vset", A: 0}, {K: "sub", C: 2}, {K: "vdefault", A: 3}, {K: "unsub", C: 1}}, 3, "directed-var")
	emitVarSeq(cf, st, "event", []op{{K: "sub", C: 0}, {K: "vset", A: 0}, {K: "trigger", A: 1}, {K: "trigger", A: 1}, {K: "sub", C: 1}, {K: "vset", A: 0}}, 2, "directed-event")
	emitVarSeq(cf, st, "max", []op{{K: "sub", C: 0}, {K: "vset", A: 2}, {K: "vset", A: 1}, {K: "vset", A: 3}}, 1, "directed-max")
}

// ---------------------------------------------------------------------------------------------------------------
// free-running runs

type subRec struct {
	Trig     bool   `json:"trig"`
	Complete bool   `json:"complete"` // unsubscribe never called
	Log      []pair `json:"log"`
	variantRec
	NoLog bool `json:"-"` // the variant exposes no (prev,new) sequence: judged by judgeVariant only

	mu           sync.Mutex
	in           int32
	unsubRet     int32
	overlap      int32
	late         int32
	runningAfter int32
}

func (s *subRec) enter(r *vx.Rng, d pair) {
	if atomic.AddInt32(&s.in, 1) > 1 {
		atomic.StoreInt32(&s.overlap, 1)
	}
	if atomic.LoadInt32(&s.unsubRet) != 0 {
		atomic.StoreInt32(&s.late, 1)
	}
	s.mu.Lock()
	s.Log = append(s.Log, d)
	y := r.Intn(4)
	nap := r.Chance(1, 8)
	s.mu.Unlock()
	for i := 0; i < y; i++ {
		runtime.Gosched()
	}
	if nap {
		time.Sleep(20 * time.Microsecond)
	}
	if atomic.LoadInt32(&s.unsubRet) != 0 {
		atomic.StoreInt32(&s.runningAfter, 1)
	}
	atomic.AddInt32(&s.in, -1)
}

func dally(r *vx.Rng, max int) {
	n := r.Intn(max + 1)
	for i := 0; i < n; i++ {
		runtime.Gosched()
	}
	if r.Chance(1, 6) {
		time.Sleep(time.Duration(r.Intn(60)) * time.Microsecond)
	}
}

type freeRun struct {
	Kind    string    `json:"kind"`
	S0      uint64    `json:"s0"`
	G       []pair    `json:"G"`
	Final   uint64    `json:"final"`
	Subs    []*subRec `json:"subs"`
	Writers int       `json:"writers"`
	Returns []pair    `json:"-"`
	Hang    bool      `json:"hang,omitempty"`
	Decodes int       `json:"decodes,omitempty"` // Set.Decode calls (writers whose applied mutation is not returned)
	Loose   bool      `json:"loose,omitempty"`   // wired runs: any number of notified changes is caused by writers that return nothing to the harness (the inheritance machinery)
	Extra   []string  `json:"extra,omitempty"`   // failures noticed by the goroutines themselves
}

// launchSubs starts ns subscriber goroutines (+ unsubscribers); onUpdate registers a callback on the object.
func launchSubs(r *vx.Rng, wg *sync.WaitGroup, ns int, onUpdate func(i int, sr *subRec, rc *vx.Rng, cb func(pair), trig bool) func(), configure func(i int, sr *subRec, rr *vx.Rng)) []*subRec {
	subs := make([]*subRec, ns)
	for i := range subs {
		sr := &subRec{Trig: r.Chance(1, 3), Complete: true}
		subs[i] = sr
		mode := r.Intn(5) // 0,1: never unsubscribe; 2: self; 3: other goroutine; 4: two goroutines race on the same handle
		if mode >= 2 {
			sr.Complete = false
		}
		rs, ru1, ru2, rc := r.Fork(), r.Fork(), r.Fork(), r.Fork()
		if configure != nil {
			configure(i, sr, r.Fork())
		}
		wg.Add(1)
		go func() {
			defer wg.Done()
			dally(rs, 120)
			unsub := onUpdate(i, sr, rc, func(d pair) { sr.enter(rc, d) }, sr.Trig)
			finish := func(rr *vx.Rng) {
				dally(rr, 60)
				unsub()
				atomic.StoreInt32(&sr.unsubRet, 1)
			}
			switch mode {
			case 2:
				finish(ru1)
			case 3, 4:
				for k := 3; k <= mode; k++ {
					rr := ru1
					if k == 4 {
						rr = ru2
					}
					wg.Add(1)
					go func() { defer wg.Done(); finish(rr) }()
				}
			}
		}()
	}
	return subs
}

func wait(wg *sync.WaitGroup, d time.Duration) bool {
	done := make(chan struct{})
	go func() { wg.Wait(); close(done) }()
	select {
	case <-done:
		return true
	case <-time.After(d):
		return false
	}
}

func freeVar(r *vx.Rng) *freeRun {
	fr := &freeRun{Kind: "var"}
	kind := r.Intn(3) // 0,1 identity; 2 max-transformation
	var v reactive.Variable[uint64]
	tr := func(cur, n uint64) uint64 { return n }
	if kind == 2 {
		fr.Kind = "varmax"
		tr = func(cur, n uint64) uint64 {
			if cur > n {
				return cur
			}
			return n
		}
		v = reactive.NewVariable[uint64](tr)
	} else {
		v = reactive.NewVariable[uint64]()
	}
	var gmu sync.Mutex
	nw := 1 + r.Intn(3)
	ns := 1 + r.Intn(4)
	fr.Writers = nw
	var wg sync.WaitGroup
	for j := 0; j < nw; j++ {
		rw := r.Fork()
		nops := 4 + rw.Intn(14)
		wg.Add(1)
		go func() {
			defer wg.Done()
			for k := 0; k < nops; k++ {
				var f func(uint64) uint64
				switch rw.Intn(3) {
				case 0:
					a := uint64(rw.Intn(4))
					f = func(uint64) uint64 { return a }
				case 1:
					a, m := uint64(1+rw.Intn(3)), uint64(2+rw.Intn(4))
					if kind == 2 {
						m = 1 << 30
					}
					f = func(x uint64) uint64 { return (x + a) % m }
				default:
					a := uint64(1 + rw.Intn(3))
					f = func(x uint64) uint64 {
						if x == 0 {
							return a
						}
						return x
					}
				}
				// the compute function runs under the value mutex: the order of these records is the order of changes
				v.Compute(func(cur uint64) uint64 {
					n := f(cur)
					if t := tr(cur, n); t != cur {
						gmu.Lock()
						fr.G = append(fr.G, pair{cur, t})
						gmu.Unlock()
					}
					return n
				})
				dally(rw, 6)
			}
		}()
	}
	fr.Subs = launchSubs(r, &wg, ns, func(_ int, _ *subRec, _ *vx.Rng, cb func(pair), trig bool) func() {
		return v.OnUpdate(func(p, n uint64) { cb(pair{p, n}) }, trig)
	}, nil)
	if !wait(&wg, 20*time.Second) {
		fr.Hang = true
		return fr
	}
	fr.Final = v.Get()
	return fr
}

// freeSet: the round-1 family runs on Set[int]; the API family on Set[uint64] (Decode needs a serix element type)
func freeSet(r *vx.Rng, api bool) *freeRun {
	if api {
		return freeSetE[uint64](r, true)
	}
	return freeSetE[int](r, false)
}

func freeSetE[E elem](r *vx.Rng, api bool) *freeRun {
	fr := &freeRun{Kind: "set", S0: r.U64() & (1<<universe - 1) & r.U64()}
	if api {
		fr.Kind = "set-api"
	}
	s := reactive.NewSet[E](elemsOfE[E](fr.S0)...)
	// the permanent first subscriber: its log (after the initial state) is the global change order
	perm := &subRec{Trig: true, Complete: true}
	rp := r.Fork()
	s.OnUpdate(func(m ds.SetMutations[E]) { perm.enter(rp, mutPairE(m)) }, true)
	nw := 1 + r.Intn(3)
	ns := 1 + r.Intn(3)
	fr.Writers = nw
	var rmu sync.Mutex
	var wg sync.WaitGroup
	for j := 0; j < nw; j++ {
		rw := r.Fork()
		nops := 4 + rw.Intn(12)
		wg.Add(1)
		go func() {
			defer wg.Done()
			for k := 0; k < nops; k++ {
				if api && rw.Chance(1, 6) { // Decode on the live set: a writer whose applied mutation is not returned
					m := rw.U64() & (1<<universe - 1) & rw.U64()
					why := decodeInto(s, m)
					rmu.Lock()
					fr.Decodes++
					if why != "" {
						fr.Extra = append(fr.Extra, why)
					}
					rmu.Unlock()
					dally(rw, 6)
					continue
				}
				o := genSetWrite(rw)
				ret := doSetWriteE(s, o)
				rmu.Lock()
				// what the call says it changed; "" for the calls that do not notify
				switch {
				case o.K == "compute":
					fr.Returns = append(fr.Returns, ret)
				case o.K == "replace":
					fr.Returns = append(fr.Returns, pair{^uint64(0), ret[1]}) // added part not returned
				case ret != pair{}:
					fr.Returns = append(fr.Returns, ret)
				}
				rmu.Unlock()
				dally(rw, 6)
			}
		}()
	}
	var configure func(i int, sr *subRec, rr *vx.Rng)
	if api {
		configure = func(_ int, sr *subRec, rr *vx.Rng) {
			if rr.Chance(2, 3) {
				sr.Variant, sr.Trig, sr.CA = "withel", false, 1<<universe-1
				if rr.Bool() {
					sr.CA = rr.U64() & (1<<universe - 1)
				}
			}
		}
	}
	subs := launchSubs(r, &wg, ns, func(_ int, sr *subRec, _ *vx.Rng, cb func(pair), trig bool) func() {
		if sr.Variant == "withel" {
			return withElements[E](s, sr.CA, func(d pair) {
				sr.mu.Lock()
				sr.Events = append(sr.Events, d)
				sr.mu.Unlock()
			})
		}
		return s.OnUpdate(func(m ds.SetMutations[E]) { cb(mutPairE(m)) }, trig)
	}, configure)
	if !wait(&wg, 20*time.Second) {
		fr.Hang = true
		return fr
	}
	fr.Final = maskOfE[E](s)
	fr.Subs = append([]*subRec{perm}, subs...)
	if len(perm.Log) > 0 {
		fr.G = append([]pair{}, perm.Log[1:]...)
	}
	return fr
}

// ---- Go-side oracle (independent of the Coq model) ----

type sem struct {
	apply   func(s uint64, d pair) uint64
	initD   func(s uint64) pair
	nonzero func(s uint64) bool
	legal   func(s uint64, d pair) bool
}

var varSem = sem{
	apply:   func(_ uint64, d pair) uint64 { return d[1] },
	initD:   func(s uint64) pair { return pair{0, s} },
	nonzero: func(s uint64) bool { return s != 0 },
	legal:   func(s uint64, d pair) bool { return d[0] == s && d[1] != s },
}
var setSem = sem{
	apply:   func(s uint64, d pair) uint64 { return (s | d[0]) &^ d[1] },
	initD:   func(s uint64) pair { return pair{s, 0} },
	nonzero: func(s uint64) bool { return s != 0 },
	legal:   func(s uint64, d pair) bool { return d[0]&s == 0 && d[1]&^(s|d[0]) == 0 },
}

// shapeAt: does log = [initial state after k changes]? ++ changes k.. (all of them when complete) hold?
func shapeAt(m sem, s0 uint64, G []pair, trig, complete bool, log []pair, k int) bool {
	vk := s0
	for _, d := range G[:k] {
		vk = m.apply(vk, d)
	}
	rest := log
	if m.nonzero(vk) || trig {
		if len(log) == 0 || log[0] != m.initD(vk) {
			return false
		}
		rest = log[1:]
	} else if vk != 0 {
		return false
	}
	tl := G[k:]
	if len(rest) > len(tl) || (complete && len(rest) != len(tl)) {
		return false
	}
	for i := range rest {
		if rest[i] != tl[i] {
			return false
		}
	}
	return true
}

func judgeFree(m sem, fr *freeRun) (fails []string, midstream int) {
	if fr.Hang {
		return []string{"hang: some call did not return within 20s"}, 0
	}
	fails = append(fails, fr.Extra...)
	cur := fr.S0
	for i, d := range fr.G {
		if !m.legal(cur, d) {
			fails = append(fails, fmt.Sprintf("change %d %v is not the true difference from %d", i, d, cur))
		}
		cur = m.apply(cur, d)
	}
	if cur != fr.Final {
		fails = append(fails, fmt.Sprintf("folding the global change sequence gives %d, final value is %d", cur, fr.Final))
	}
	fixupVariants(fr)
	for i, s := range fr.Subs {
		fails = append(fails, judgeVariant(i, s, fr.Final)...)
		if s.NoLog {
			continue
		}
		found := -1
		for k := 0; k <= len(fr.G); k++ {
			if shapeAt(m, fr.S0, fr.G, s.Trig, s.Complete, s.Log, k) {
				found = k
				break
			}
		}
		if found < 0 {
			fails = append(fails, fmt.Sprintf("subscriber %d (trig=%v complete=%v): log %v is not [state at subscription] ++ a contiguous%s run of the change sequence", i, s.Trig, s.Complete, s.Log, map[bool]string{true: ", complete", false: ""}[s.Complete]))
		} else if found > 0 && found < len(fr.G) {
			midstream++
		}
		if s.Complete {
			var acc uint64
			for _, d := range s.Log {
				acc = m.apply(acc, d)
			}
			if acc != fr.Final {
				fails = append(fails, fmt.Sprintf("subscriber %d: fold of its log = %d, final value = %d", i, acc, fr.Final))
			}
		}
		if s.overlap != 0 {
			fails = append(fails, fmt.Sprintf("subscriber %d: two callbacks of one subscription overlapped", i))
		}
		if s.late != 0 {
			fails = append(fails, fmt.Sprintf("subscriber %d: a callback started after its unsubscribe had returned", i))
		}
		if s.runningAfter != 0 {
			fails = append(fails, fmt.Sprintf("subscriber %d: a callback was still running when its unsubscribe returned", i))
		}
	}
	if strings.HasPrefix(fr.Kind, "set") {
		// the writers' return values are the same multiset as the notified changes
		a := append([]pair{}, fr.G...)
		b := append([]pair{}, fr.Returns...)
		// Replace does not return the added part (marked ^0): only its deleted part is compared
		key := func(p pair, full bool) string {
			if full {
				return fmt.Sprintf("%d/%d", p[0], p[1])
			}
			return fmt.Sprintf("*/%d", p[1])
		}
		cnt := map[string]int{}
		cntDel := map[uint64]int{}
		for _, g := range a {
			cnt[key(g, true)]++
			cntDel[g[1]]++
		}
		okRet := len(a) >= len(b) && (fr.Loose || len(a)-len(b) <= fr.Decodes) // a Decode notifies at most once and returns no mutation
		for _, x := range b {
			if x[0] == ^uint64(0) {
				cntDel[x[1]]--
				if cntDel[x[1]] < 0 {
					okRet = false
				}
				continue
			}
			cnt[key(x, true)]--
			cntDel[x[1]]--
			if cnt[key(x, true)] < 0 {
				okRet = false
			}
		}
		if !okRet {
			fails = append(fails, fmt.Sprintf("the writers' returned mutations %v are not the notified changes %v", b, a))
		}
	}
	return fails, midstream
}

func emitFree(cf *vx.CasesFile, st *vx.Stats, fr *freeRun, seed uint64, idx int) {
	isSet := strings.HasPrefix(fr.Kind, "set")
	m := varSem
	if isSet {
		m = setSem
	}
	fails, mid := judgeFree(m, fr)
	st.Count("free:" + fr.Kind)
	st.Count(fmt.Sprintf("free:writers=%d", fr.Writers))
	st.Count(fmt.Sprintf("free:subs=%d", len(fr.Subs)))
	if mid > 0 {
		st.Count("free:runs-with-midstream-subscription")
	}
	if fr.Decodes > 0 {
		st.Hist["free:set-decode-calls"] += fr.Decodes
	}
	unsub := 0
	for _, s := range fr.Subs {
		if !s.Complete {
			unsub++
			if len(s.Log) > 0 {
				st.Count("free:unsubscribed-with-nonempty-log")
			}
		}
	}
	st.Case(fmt.Sprintf("free|%d|%d", seed, idx), mid > 0 && len(fr.G) >= 3)
	desc := map[string]any{"mode": "free", "run": fr, "note": "free-running: replay by seed (schedule is not reproducible)", "seed": seed, "index": idx}
	st.CaseIndex = append(st.CaseIndex, desc)
	if len(fails) > 0 {
		st.Fail(map[string]any{"sig": "", "kind": "free-running " + fr.Kind, "why": fails, "run": fr, "seed": seed, "index": idx})
	}
	if fr.Hang {
		return
	}
	var logged []*subRec
	for _, s := range fr.Subs {
		if !s.NoLog {
			logged = append(logged, s)
		}
		if s.Variant != "" {
			st.Count("free:variant=" + s.Variant)
		}
	}
	subs := vx.ListOf(logged, func(s *subRec) string {
		return fmt.Sprintf("(%s, %s, %s)", vx.Bool(s.Trig), vx.Bool(s.Complete), coqPairs(s.Log))
	})
	if isSet {
		cf.Add(fmt.Sprintf("SFree %s %s %s %s", vx.N(fr.S0), coqPairs(fr.G), vx.N(fr.Final), subs))
	} else {
		cf.Add(fmt.Sprintf("VFree %s %s %s", coqPairs(fr.G), vx.N(fr.Final), subs))
	}
	if idx < 2 {
		st.Sample(map[string]any{"mode": "free " + fr.Kind, "G": fmt.Sprint(fr.G), "subs": len(fr.Subs), "midstream": mid}, 4)
	}
}

// ---------------------------------------------------------------------------------------------------------------

func main() {
	if len(os.Args) >= 2 && os.Args[1] == "welrace" {
		welRaceChild()
		return
	}
	if len(os.Args) < 2 || os.Args[1] != "all" {
		vx.Die("usage: hx-c13 all --nseq N --nfree M --seed S --out cases.v --stats stats.json")
	}
	fs := flag.NewFlagSet("all", flag.ExitOnError)
	nseq := fs.Int("nseq", 300, "sequential scripts")
	nfree := fs.Int("nfree", 300, "free-running runs")
	nstorm := fs.Int("nstorm", 6, "storm runs (tight writers vs subscribe/unsubscribe loops)")
	napi := fs.Int("napi", 200, "sequential scripts over the whole exported API (Init, ToggleValue, InheritFrom, OnUpdateOnce, OnUpdateWithContext, WithValue, LogUpdates, WithElements)")
	nfreeapi := fs.Int("nfreeapi", 150, "free-running runs over the whole exported API")
	nwired := fs.Int("nwired", 0, "sequential scripts over wired sets: a DerivedSet that inherits from its sources AND is written directly / the result of SubtractReactive (wired.go)")
	nfreewired := fs.Int("nfreewired", 0, "free-running runs over the same wired sets")
	maxLen := fs.Int("len", 24, "")
	seed := fs.Uint64("seed", 1, "")
	out := fs.String("out", "cases.v", "")
	stats := fs.String("stats", "stats.json", "")
	_ = fs.Parse(os.Args[2:])
	r := vx.NewRng(*seed)
	st := vx.NewStats("seq: random scripts (<=4 callbacks, values 0..3 / 6 set elements; Set,Compute,DefaultTo,Trigger | Apply,Add,AddAll,Delete,DeleteAll,Compute,Replace; OnUpdate with/without zero trigger; unsubscribe, also twice), distinct = distinct scripts, non-trivial = some subscriber saw >= 2 callbacks. free: 1-3 writers, 1-4 subscribers, 0-2 unsubscribers per subscription racing, callbacks yield; distinct by (seed,index), non-trivial = some subscription landed strictly inside the change sequence of >= 3 changes. dseq (wired.go): scripts over a DerivedSet with 1-3 sources (InheritFrom, un-inherit, source writes AND direct writes, 4 elements) / the result of SubtractReactive; non-trivial = a subscriber was told >= 2 mutations, at least one caused by the inheritance machinery, and the script also writes the target directly")
	cf := &vx.CasesFile{
		Header: "From Coq Require Import NArith List.\nFrom Verif.C13_Reactive Require Import Model Api Corr.\nImport ListNotations.\n",
		Type:   "case",
		Footer: "Definition M := Eval vm_compute in mismatches cases.\nPrint M.\n",
	}
	directedSeq(cf, st)
	for i := 0; cf.Len() < *nseq; i++ {
		rr := r.Fork()
		n := 3 + rr.Intn(*maxLen)
		switch i % 5 {
		case 0, 1:
			ops, ncb := genScript(rr, n, func() op { return genVarWrite(rr, false) })
			emitVarSeq(cf, st, vx.Pick(rr, []string{"var", "var", "max"}), ops, ncb, "random")
		case 2:
			ops, ncb := genScript(rr, n/2+2, func() op { return genVarWrite(rr, true) })
			for k := range ops {
				ops[k].Trig = false // OnTrigger has no zero-value trigger
			}
			emitVarSeq(cf, st, "event", ops, ncb, "random")
		default:
			ops, ncb := genScript(rr, n, func() op { return genSetWrite(rr) })
			emitSetSeq(cf, st, rr.U64()&(1<<universe-1)&rr.U64(), ops, ncb, "random")
		}
	}
	hung := false
	for i := 0; i < *nfree; i++ {
		var fr *freeRun
		if i%2 == 0 {
			fr = freeVar(r.Fork())
		} else {
			fr = freeSet(r.Fork(), false)
		}
		emitFree(cf, st, fr, *seed, i)
		if fr.Hang {
			hung = true
			break // goroutines of the hung run are still alive: stop here, the failure is recorded
		}
	}
	// the API family (api.go) comes after the round-1 families so that their case indices and random streams are unchanged
	rst := r.Fork() // storm stream: drawn first, as in round 1
	ra := r.Fork()
	if *napi > 0 {
		directedApi(cf, st)
	}
	for i, n0 := 0, cf.Len(); cf.Len() < n0+*napi; i++ {
		rr := ra.Fork()
		n := 4 + rr.Intn(*maxLen)
		if i%4 == 3 {
			ops, ncb := genApiSetScript(rr, n)
			emitSetApi(cf, st, rr.U64()&(1<<universe-1)&rr.U64(), ops, ncb, "random")
		} else {
			ops, ncb := genApiVarScript(rr, n)
			emitVarApi(cf, st, vx.Pick(rr, []string{"var", "var", "max"}), ops, ncb, "random")
		}
	}
	for i := 0; i < *nfreeapi && !hung; i++ {
		var fr *freeRun
		if i%3 == 2 {
			fr = freeSet(ra.Fork(), true)
		} else {
			fr = freeVarApi(ra.Fork())
		}
		emitFree(cf, st, fr, *seed, *nfree+i)
		if fr.Hang {
			break
		}
	}
	// the wired family (wired.go) comes last: the case indices and random streams of the older families are unchanged
	rw := r.Fork()
	wiredSeq(rw, cf, st, *nwired, *maxLen)
	for i := 0; i < *nfreewired && !hung; i++ {
		fr := freeWired(rw.Fork())
		emitFree(cf, st, fr, *seed, *nfree+*nfreeapi+i)
		if fr.Hang {
			hung = true
			break
		}
	}
	storms(rst, st, *nstorm)
	keys := make([]string, 0)
	for k := range st.Hist {
		keys = append(keys, k)
	}
	sort.Strings(keys)
	if err := cf.Write(*out); err != nil {
		vx.Die("%v", err)
	}
	if err := st.Write(*stats); err != nil {
		vx.Die("%v", err)
	}
}
