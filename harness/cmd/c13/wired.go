// C13 harness, wired family: a Set whose WRITER is the inheritance machinery.
//
//	dseq  : sequential scripts over several wired sets - the target is a reactive.DerivedSet that inherits from 1-3 sources
//	        (InheritFrom with 1-2 sources per call, several handles, un-inherit, also twice) AND is written directly
//	        (Add/AddAll/Delete/DeleteAll/Apply/Compute/Replace), or the result of source0.SubtractReactive(others...) that is
//	        also written directly; the target has folding subscribers (OnUpdate +- zero trigger, WithElements +- condition,
//	        unsubscribe).  Go oracle after EVERY step: each mutation a subscriber was told is the true difference of the
//	        contents at that step (added elements were absent, deleted ones present), the fold of every live subscriber
//	        equals ToSlice(), WithElements setups/teardowns alternate per element and the active ones are contents ∩ condition.
//	        The same script is a DApi case: Api.wired_program turns it into the writer program of the target
//	        (Write (KInherit net) per inherited mutation) and the model run must reproduce logs, return values, contents.
//	dfree : the same objects with racing goroutines (source writers, direct writers, an inherit/un-inherit goroutine,
//	        subscribers with racing unsubscribers); judged like the free-running Set runs (SFree).
package main

import (
	"fmt"
	"strings"
	"sync"
	"time"

	"github.com/iotaledger/hive.go/ds"
	"github.com/iotaledger/hive.go/ds/reactive"

	"verif/harness/vx"
)

const wuni = 4 // elements 0..3: direct and inherited writes collide on the same element all the time

type wop struct {
	W    string `json:"w"`              // src dir inherit uninherit
	I    int    `json:"i,omitempty"`    // source index (src)
	H    int    `json:"h,omitempty"`    // handle (inherit / uninherit)
	Srcs []int  `json:"srcs,omitempty"` // sources of an InheritFrom call
	Op   *op    `json:"op,omitempty"`   // src: the write; dir: write / sub / unsub
}

func sopxTerm(o op) string {
	return strings.TrimSuffix(strings.TrimPrefix(o.coqS(), "Write ("), ")")
}

func (w wop) coq() string {
	switch w.W {
	case "src":
		return fmt.Sprintf("WSrc %d (%s)", w.I, sopxTerm(*w.Op))
	case "dir":
		return fmt.Sprintf("WDir (%s)", w.Op.coqS())
	case "inherit":
		return fmt.Sprintf("WInherit %d %s", w.H, vx.ListOf(w.Srcs, func(i int) string { return fmt.Sprint(i) }))
	case "uninherit":
		return fmt.Sprintf("WUninherit %d", w.H)
	}
	panic("bad wired op " + w.W)
}

func (w wop) key() string {
	if w.Op != nil {
		return w.W + ":" + w.Op.K
	}
	return w.W
}

func genWiredWrite(r *vx.Rng) *op {
	m := func() uint64 {
		switch r.Intn(4) {
		case 0:
			return 0
		case 1, 2:
			return 1 << uint(r.Intn(wuni))
		default:
			return r.U64() & (1<<wuni - 1)
		}
	}
	var o op
	switch r.Intn(12) {
	case 0, 1:
		o = op{K: "apply", A: m(), B: m()}
	case 2, 3, 4:
		o = op{K: "add", A: 1 << uint(r.Intn(wuni))}
	case 5, 6, 7:
		o = op{K: "delete", B: 1 << uint(r.Intn(wuni))}
	case 8:
		if r.Bool() {
			o = op{K: "addall", A: m()}
		} else {
			o = op{K: "deleteall", B: m()}
		}
	case 9, 10:
		switch r.Intn(3) {
		case 0:
			o = op{K: "compute", F: "const", A: m(), B: m()}
		case 1:
			o = op{K: "compute", F: "toggle", A: uint64(r.Intn(wuni))}
		default:
			o = op{K: "compute", F: "keep", A: r.U64() & (1<<wuni - 1)}
		}
	default:
		o = op{K: "replace", A: r.U64() & (1<<wuni - 1) & (r.U64() | r.U64())}
	}
	return &o
}

// genWired: kind "derived" | "subtract"; nsrc sources.
func genWired(r *vx.Rng, kind string, nsrc, n int) (ops []wop, ncb int) {
	const maxCb, maxH = 4, 3
	var live []int
	var handles []int // created handles (an un-inherit may repeat)
	nh := 0
	early := r.Chance(3, 4) // mostly a subscriber from the start: it then sees the whole history
	for len(ops) < n {
		x := r.Intn(40)
		if early && len(ops) == r.Intn(2) {
			x = 0
			early = false
		}
		switch {
		case x < 5 && ncb < maxCb:
			o := op{K: "sub", C: ncb, Trig: r.Chance(1, 3)}
			if r.Chance(1, 3) {
				o.V, o.Trig, o.CA = "withel", false, 1<<universe-1
				if r.Bool() {
					o.CA = r.U64() & (1<<wuni - 1)
				}
			}
			ops = append(ops, wop{W: "dir", Op: &o})
			live = append(live, ncb)
			ncb++
		case x < 8 && len(live) > 0:
			ops = append(ops, wop{W: "dir", Op: &op{K: "unsub", C: vx.Pick(r, live)}})
		case x < 13 && kind == "derived" && nh < maxH:
			srcs := []int{r.Intn(nsrc)}
			if r.Chance(1, 3) {
				srcs = append(srcs, r.Intn(nsrc)) // may be the same source twice
			}
			ops = append(ops, wop{W: "inherit", H: nh, Srcs: srcs})
			handles = append(handles, nh)
			nh++
		case x < 16 && kind == "derived" && len(handles) > 0:
			k := r.Intn(len(handles))
			ops = append(ops, wop{W: "uninherit", H: handles[k]})
			if !r.Chance(1, 8) { // mostly once per handle
				handles = append(handles[:k], handles[k+1:]...)
			}
		case x < 29:
			ops = append(ops, wop{W: "src", I: r.Intn(nsrc), Op: genWiredWrite(r)})
		default:
			ops = append(ops, wop{W: "dir", Op: genWiredWrite(r)})
		}
	}
	return ops, ncb
}

type wiredObs struct {
	raw      [][]pair
	rets     []pair
	final    uint64
	srcFinal []uint64
	fails    []string
	inhCalls int // mutations the target's subscribers were told that no direct call caused
}

// runWired executes the script on real objects; the oracle runs after every step.
func runWired(kind string, s0s []uint64, ops []wop, ncb int) *wiredObs {
	o := &wiredObs{raw: make([][]pair, ncb)}
	srcs := make([]reactive.Set[int], len(s0s))
	for i, m := range s0s {
		srcs[i] = reactive.NewSet[int](elemsOf(m)...)
	}
	var target reactive.Set[int]
	var derived reactive.DerivedSet[int]
	if kind == "derived" {
		derived = reactive.NewDerivedSet[int]()
		target = derived
	} else {
		others := make([]reactive.ReadableSet[int], 0, len(srcs)-1)
		for _, s := range srcs[1:] {
			others = append(others, s)
		}
		target = srcs[0].SubtractReactive(others...)
	}
	unsubs := make([]func(), ncb)
	subOp := make([]*op, ncb)
	unsubd := make([]bool, ncb)
	seen := make([]int, ncb)      // entries of raw[c] already judged
	fold := make([]uint64, ncb)   // plain subscribers: fold of the reported mutations
	active := make([]uint64, ncb) // WithElements: elements whose setup is active
	handles := map[int]func(){}
	fail := func(step int, w wop, f string, a ...any) {
		o.fails = append(o.fails, fmt.Sprintf("step %d (%s): ", step, w.coq())+fmt.Sprintf(f, a...))
	}
	for step, w := range ops {
		unsubdBefore := append([]bool{}, unsubd...)
		switch w.W {
		case "src":
			doSetWrite(srcs[w.I], *w.Op)
		case "inherit":
			ss := make([]reactive.ReadableSet[int], len(w.Srcs))
			for k, i := range w.Srcs {
				ss[k] = srcs[i]
			}
			handles[w.H] = derived.InheritFrom(ss...)
		case "uninherit":
			handles[w.H]()
		case "dir":
			x := *w.Op
			switch x.K {
			case "sub":
				c := x.C
				subOp[c] = w.Op
				if x.V == "withel" {
					unsubs[c] = withElements[int](target, x.CA, func(d pair) { o.raw[c] = append(o.raw[c], d) })
				} else {
					unsubs[c] = target.OnUpdate(func(m ds.SetMutations[int]) { o.raw[c] = append(o.raw[c], mutPair(m)) }, x.Trig)
				}
			case "unsub":
				unsubs[x.C]()
				unsubd[x.C] = true
			default:
				o.rets = append(o.rets, doSetWrite(target, x))
			}
		}
		// ---- oracle: what every subscriber was told during this step against the contents after it ----
		contents := maskOf(target)
		for c := 0; c < ncb; c++ {
			if subOp[c] == nil {
				continue
			}
			fresh := o.raw[c][seen[c]:]
			seen[c] = len(o.raw[c])
			if w.W != "dir" {
				o.inhCalls += len(fresh)
			}
			if subOp[c].V == "withel" {
				for _, e := range fresh {
					switch e[0] {
					case tagSetup:
						if active[c]&e[1] != 0 {
							fail(step, w, "WithElements %d: setup of element mask %d that is already set up (active %d)", c, e[1], active[c])
						}
						active[c] |= e[1]
					case tagTeardown:
						if active[c]&e[1] != e[1] {
							fail(step, w, "WithElements %d: teardown of element mask %d that is not set up (active %d)", c, e[1], active[c])
						}
						active[c] &^= e[1]
					}
				}
				want := contents & subOp[c].CA
				if unsubd[c] {
					want = 0
				}
				if active[c] != want {
					fail(step, w, "WithElements %d (condition mask %d, torn down %v): active elements %d, contents %d", c, subOp[c].CA, unsubd[c], active[c], contents)
				}
				continue
			}
			for _, d := range fresh {
				if !setSem.legal(fold[c], d) {
					fail(step, w, "subscriber %d was told %v which is not a true difference of the contents %d it has been told so far (a change that did not happen)", c, d, fold[c])
				}
				fold[c] = setSem.apply(fold[c], d)
			}
			if !unsubd[c] && fold[c] != contents {
				fail(step, w, "subscriber %d: folding the reported mutations gives %d, contents %d", c, fold[c], contents)
			}
			if unsubdBefore[c] && len(fresh) > 0 {
				fail(step, w, "subscriber %d was called after its unsubscribe returned: %v", c, fresh)
			}
		}
	}
	o.final = maskOf(target)
	for _, s := range srcs {
		o.srcFinal = append(o.srcFinal, maskOf(s))
	}
	return o
}

func emitWired(cf *vx.CasesFile, st *vx.Stats, kind string, s0s []uint64, ops []wop, ncb int, tag string) {
	o := runWired(kind, s0s, ops, ncb)
	views := make([]string, ncb)
	obs := make([][]pair, ncb)
	for i := range views {
		views[i] = "SwPlain"
	}
	for _, w := range ops {
		if w.W == "dir" && w.Op.K == "sub" {
			views[w.Op.C] = w.Op.coqSView()
		}
	}
	for c := range obs {
		if strings.Contains(views[c], "SwWith") {
			obs[c] = mergeEv(o.raw[c])
		} else {
			obs[c] = o.raw[c]
		}
	}
	k := "WDerived"
	if kind == "subtract" {
		k = fmt.Sprintf("(WSubtract %d)", len(s0s)-1)
	}
	cf.Add(fmt.Sprintf("DApi %s %s %s %s %s %s %s %s", k, vx.ListOf(s0s, vx.N), vx.ListOf(ops, wop.coq), vx.List(views),
		vx.ListOf(obs, coqPairs), coqPairs(o.rets), vx.N(o.final), vx.ListOf(o.srcFinal, vx.N)))
	nontrivial, directW, srcW := false, 0, 0
	for _, w := range ops {
		st.Count("dseq-" + kind + ":" + w.key())
		if w.W == "dir" && w.Op.K != "sub" && w.Op.K != "unsub" {
			directW++
		}
		if w.W == "src" {
			srcW++
		}
	}
	// non-trivial: some subscriber was told >= 2 mutations, at least one of them caused by the inheritance machinery,
	// and the script also writes the target directly
	for _, l := range o.raw {
		if len(l) >= 2 && o.inhCalls > 0 && directW > 0 {
			nontrivial = true
		}
	}
	if o.inhCalls > 0 {
		st.Count("dseq-" + kind + ":scripts-with-inherited-notifications")
	}
	st.Case("dseq-"+kind+"|"+fmt.Sprint(s0s, vx.ListOf(ops, wop.coq)), nontrivial)
	st.CaseIndex = append(st.CaseIndex, map[string]any{"mode": "dseq:" + kind, "tag": tag, "sources": s0s, "script": ops})
	st.Sample(map[string]any{"mode": "dseq:" + kind, "sources": s0s, "script": vx.ListOf(ops, wop.coq), "obs": fmt.Sprint(obs), "final": o.final}, 2)
	if len(o.fails) > 0 {
		what := "sequential script on a DerivedSet that inherits from its sources and is written directly"
		if kind == "subtract" {
			what = "sequential script on the result of SubtractReactive that is also written directly"
		}
		st.Fail(map[string]any{"sig": "", "kind": what, "why": o.fails, "sources": s0s, "script": ops,
			"script_coq": vx.ListOf(ops, wop.coq), "observed": o.raw, "final": o.final})
	}
}

func directedWired(cf *vx.CasesFile, st *vx.Stats) {
	w := func(k string, a, b uint64) *op { return &op{K: k, A: a, B: b} }
	sub := func(c int) wop { return wop{W: "dir", Op: &op{K: "sub", C: c}} }
	// direct Add(x) then the source adds x; direct Delete(x) while the source provides x, then the source deletes x
	emitWired(cf, st, "derived", []uint64{0}, []wop{{W: "inherit", H: 0, Srcs: []int{0}}, sub(0),
		{W: "dir", Op: &op{K: "sub", C: 1, V: "withel", CA: 1<<universe - 1}},
		{W: "dir", Op: w("add", 1, 0)}, {W: "src", I: 0, Op: w("add", 1, 0)}, {W: "dir", Op: w("delete", 0, 1)},
		{W: "src", I: 0, Op: w("delete", 0, 1)}, {W: "src", I: 0, Op: w("add", 2, 0)}}, 2, "directed-direct-and-inherited")
	// two sources providing the same element, a direct Replace in between, un-inherit one after the other (and twice)
	emitWired(cf, st, "derived", []uint64{3, 2}, []wop{{W: "dir", Op: &op{K: "sub", C: 0, Trig: true}}, {W: "inherit", H: 0, Srcs: []int{0, 1}},
		{W: "src", I: 1, Op: w("apply", 4, 2)}, {W: "inherit", H: 1, Srcs: []int{1}}, {W: "dir", Op: w("delete", 0, 4)}, {W: "uninherit", H: 0},
		{W: "dir", Op: w("replace", 1, 0)}, {W: "uninherit", H: 1}, {W: "dir", Op: w("add", 4, 0)}, {W: "uninherit", H: 1}}, 1, "directed-two-sources")
	// un-inherit of elements that were also added directly / already deleted directly
	emitWired(cf, st, "derived", []uint64{5}, []wop{sub(0), {W: "dir", Op: w("addall", 3, 0)}, {W: "inherit", H: 0, Srcs: []int{0}},
		{W: "dir", Op: w("delete", 0, 4)}, {W: "src", I: 0, Op: w("replace", 6, 0)}, {W: "uninherit", H: 0}}, 1, "directed-uninherit")
	// SubtractReactive: {0,1} minus {1}; direct writes of the result interleaved with writes of both operands
	emitWired(cf, st, "subtract", []uint64{3, 2}, []wop{sub(0), {W: "src", I: 1, Op: w("apply", 1, 2)}, {W: "dir", Op: w("add", 1, 0)},
		{W: "src", I: 1, Op: w("delete", 0, 1)}, {W: "dir", Op: w("delete", 0, 2)}, {W: "src", I: 0, Op: w("delete", 0, 2)},
		{W: "src", I: 0, Op: w("add", 4, 0)}}, 1, "directed-subtract")
}

func wiredSeq(r *vx.Rng, cf *vx.CasesFile, st *vx.Stats, n, maxLen int) {
	if n <= 0 {
		return
	}
	directedWired(cf, st)
	for i, n0 := 0, cf.Len(); cf.Len() < n0+n; i++ {
		rr := r.Fork()
		kind := "derived"
		if i%4 == 3 {
			kind = "subtract"
		}
		nsrc := 1 + rr.Intn(2)
		if rr.Chance(1, 6) {
			nsrc = 3
		}
		if kind == "subtract" && nsrc == 1 && rr.Bool() {
			nsrc = 2
		}
		s0s := make([]uint64, nsrc)
		for k := range s0s {
			if rr.Bool() {
				s0s[k] = rr.U64() & (1<<wuni - 1) & rr.U64()
			}
		}
		ops, ncb := genWired(rr, kind, nsrc, 5+rr.Intn(maxLen))
		emitWired(cf, st, kind, s0s, ops, ncb, "random")
	}
}

// ---------------------------------------------------------------------------------------------------------------
// free-running wired runs: the permanent first subscriber of the TARGET gives the global change order (as in freeSet)

func freeWired(r *vx.Rng) *freeRun {
	kind := "derived"
	if r.Chance(1, 4) {
		kind = "subtract"
	}
	fr := &freeRun{Kind: "set-" + kind, Loose: true}
	nsrc := 1 + r.Intn(2)
	if kind == "subtract" {
		nsrc = 2
	}
	srcs := make([]reactive.Set[int], nsrc)
	for i := range srcs {
		srcs[i] = reactive.NewSet[int](elemsOf(r.U64() & (1<<wuni - 1) & r.U64())...)
	}
	var target reactive.Set[int]
	var derived reactive.DerivedSet[int]
	if kind == "derived" {
		derived = reactive.NewDerivedSet[int]()
		target = derived
	} else {
		target = srcs[0].SubtractReactive(srcs[1])
	}
	fr.S0 = maskOf(target)
	perm := &subRec{Trig: true, Complete: true}
	rp := r.Fork()
	target.OnUpdate(func(m ds.SetMutations[int]) { perm.enter(rp, mutPair(m)) }, true)
	var rmu sync.Mutex
	var wg sync.WaitGroup
	// source writers
	for j := 0; j < nsrc; j++ {
		rw, s := r.Fork(), srcs[j]
		nops := 4 + rw.Intn(10)
		wg.Add(1)
		go func() {
			defer wg.Done()
			for k := 0; k < nops; k++ {
				doSetWrite(s, *genWiredWrite(rw))
				dally(rw, 6)
			}
		}()
	}
	// direct writers of the target
	nw := 1 + r.Intn(2)
	fr.Writers = nw + nsrc
	for j := 0; j < nw; j++ {
		rw := r.Fork()
		nops := 4 + rw.Intn(10)
		wg.Add(1)
		go func() {
			defer wg.Done()
			for k := 0; k < nops; k++ {
				o := *genWiredWrite(rw)
				ret := doSetWrite(target, o)
				rmu.Lock()
				switch {
				case o.K == "compute":
					fr.Returns = append(fr.Returns, ret)
				case o.K == "replace":
					fr.Returns = append(fr.Returns, pair{^uint64(0), ret[1]})
				case ret != pair{}:
					fr.Returns = append(fr.Returns, ret)
				}
				rmu.Unlock()
				dally(rw, 6)
			}
		}()
	}
	// InheritFrom / un-inherit while everybody writes
	if kind == "derived" {
		ri := r.Fork()
		rounds := 1 + ri.Intn(3)
		wg.Add(1)
		go func() {
			defer wg.Done()
			for k := 0; k < rounds; k++ {
				ss := []reactive.ReadableSet[int]{srcs[ri.Intn(nsrc)]}
				if ri.Chance(1, 3) {
					ss = append(ss, srcs[ri.Intn(nsrc)])
				}
				un := derived.InheritFrom(ss...)
				dally(ri, 40)
				if k < rounds-1 || ri.Bool() {
					un()
				}
				dally(ri, 10)
			}
		}()
	}
	subs := launchSubs(r, &wg, 1+r.Intn(3), func(_ int, _ *subRec, _ *vx.Rng, cb func(pair), trig bool) func() {
		return target.OnUpdate(func(m ds.SetMutations[int]) { cb(mutPair(m)) }, trig)
	}, nil)
	if !wait(&wg, 20*time.Second) {
		fr.Hang = true
		return fr
	}
	fr.Final = maskOf(target)
	fr.Subs = append([]*subRec{perm}, subs...)
	if len(perm.Log) > 0 {
		fr.G = append([]pair{}, perm.Log[1:]...)
	}
	return fr
}
