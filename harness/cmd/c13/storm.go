package main

// Storm mode: tight writers against goroutines that subscribe and unsubscribe in a loop, so that the
// few-instruction windows around registration (value read / PushBack / LockExecution / unlock) are hit by chance.
// Judged by the Go-side oracle only (the logs are too many for the Coq side).

import (
	"fmt"
	"runtime"
	"sync"
	"sync/atomic"
	"time"

	"github.com/iotaledger/hive.go/ds"
	"github.com/iotaledger/hive.go/ds/reactive"

	"verif/harness/vx"
)

type lightSub struct {
	trig     bool
	log      []pair
	in       int32
	unsubRet int32
	bad      int32 // 1 overlap, 2 late
}

func (s *lightSub) enter(d pair) {
	if atomic.AddInt32(&s.in, 1) > 1 {
		atomic.StoreInt32(&s.bad, 1)
	}
	if atomic.LoadInt32(&s.unsubRet) != 0 {
		atomic.StoreInt32(&s.bad, 2)
	}
	s.log = append(s.log, d)
	atomic.AddInt32(&s.in, -1)
}

func cycleSubs(r *vx.Rng, stop *int32, wg *sync.WaitGroup, n, max int, onUpdate func(cb func(pair), trig bool) func()) [][]*lightSub {
	out := make([][]*lightSub, n)
	for i := 0; i < n; i++ {
		rr := r.Fork()
		wg.Add(1)
		go func(i int) {
			defer wg.Done()
			for atomic.LoadInt32(stop) == 0 && len(out[i]) < max {
				s := &lightSub{trig: rr.Chance(1, 3), log: make([]pair, 0, 4)}
				unsub := onUpdate(s.enter, s.trig)
				for k := rr.Intn(3); k > 0; k-- {
					runtime.Gosched()
				}
				unsub()
				atomic.StoreInt32(&s.unsubRet, 1)
				out[i] = append(out[i], s)
			}
		}(i)
	}
	return out
}

func flagFails(all [][]*lightSub) (fails []string) {
	for _, l := range all {
		for _, s := range l {
			switch atomic.LoadInt32(&s.bad) {
			case 1:
				fails = append(fails, "two callbacks of one subscription overlapped")
			case 2:
				fails = append(fails, "a callback started after its unsubscribe had returned")
			}
			if len(fails) > 3 {
				return fails
			}
		}
	}
	return fails
}

// stormVar: the value is a counter (each change is +1), so every log is self-describing.
func stormVar(r *vx.Rng, d time.Duration) (fails []string, nsubs int) {
	v := reactive.NewVariable[uint64]()
	var stop int32
	var wg sync.WaitGroup
	var permNext uint64
	var permBad int32
	first := true
	v.OnUpdate(func(p, n uint64) {
		if first {
			first = false
			if p != 0 || n != 0 {
				atomic.StoreInt32(&permBad, 1)
			}
			return
		}
		if p != permNext || n != p+1 {
			atomic.StoreInt32(&permBad, 1)
		}
		permNext = n
	}, true)
	for j := 1 + r.Intn(2); j > 0; j-- {
		wg.Add(1)
		go func() {
			defer wg.Done()
			for atomic.LoadInt32(&stop) == 0 {
				v.Compute(func(x uint64) uint64 { return x + 1 })
			}
		}()
	}
	all := cycleSubs(r, &stop, &wg, 2+r.Intn(2), 4000, func(cb func(pair), trig bool) func() {
		return v.OnUpdate(func(p, n uint64) { cb(pair{p, n}) }, trig)
	})
	time.Sleep(d)
	atomic.StoreInt32(&stop, 1)
	if !wait(&wg, 20*time.Second) {
		return []string{"storm: hang"}, 0
	}
	if permBad != 0 || permNext != v.Get() {
		fails = append(fails, fmt.Sprintf("permanent subscriber: log is not the complete change sequence (saw up to %d, final %d)", permNext, v.Get()))
	}
	fails = append(fails, flagFails(all)...)
	for _, l := range all {
		for _, s := range l {
			nsubs++
			for i, e := range s.log {
				// first entry: the state at subscription (0,k), or - subscribed at 0 without trigger - the change (0,1);
				// a first entry (k,k+1) with k > 0 is a change delivered without the state at subscription before it
				ok := e[0] == 0
				if i > 0 {
					ok = e[0] == s.log[i-1][1] && e[1] == e[0]+1
				}
				if !ok {
					if len(fails) < 4 {
						fails = append(fails, fmt.Sprintf("storm subscriber (trig=%v): log %v is not [state at subscription] ++ consecutive changes", s.trig, s.log))
					}
					break
				}
			}
		}
	}
	return fails, nsubs
}

func stormSet(r *vx.Rng, maxOps int) (fails []string, nsubs int) {
	s0 := r.U64() & (1<<universe - 1)
	s := reactive.NewSet[int](elemsOf(s0)...)
	var G []pair
	first := true
	s.OnUpdate(func(m ds.SetMutations[int]) {
		if first {
			first = false
			return
		}
		G = append(G, mutPair(m))
	}, true)
	var stop int32
	var wg, wwg sync.WaitGroup
	nw := 1 + r.Intn(2)
	for j := 0; j < nw; j++ {
		rw := r.Fork()
		wg.Add(1)
		wwg.Add(1)
		go func() {
			defer wg.Done()
			defer wwg.Done()
			for k := 0; k < maxOps/nw; k++ {
				doSetWrite(s, genSetWrite(rw))
			}
		}()
	}
	all := cycleSubs(r, &stop, &wg, 2+r.Intn(2), 3000, func(cb func(pair), trig bool) func() {
		return s.OnUpdate(func(m ds.SetMutations[int]) { cb(mutPair(m)) }, trig)
	})
	wwg.Wait()
	atomic.StoreInt32(&stop, 1)
	if !wait(&wg, 20*time.Second) {
		return []string{"storm: hang"}, 0
	}
	states := make([]uint64, len(G)+1)
	states[0] = s0
	for i, d := range G {
		if !setSem.legal(states[i], d) && len(fails) < 3 {
			fails = append(fails, fmt.Sprintf("storm: change %d %v is not the true difference from %d", i, d, states[i]))
		}
		states[i+1] = setSem.apply(states[i], d)
	}
	if states[len(G)] != maskOf(s) {
		fails = append(fails, "storm: folding the permanent subscriber's log does not give the final contents")
	}
	fails = append(fails, flagFails(all)...)
	for _, l := range all {
		for _, sb := range l {
			nsubs++
			if len(sb.log) == 0 {
				continue // subscribed to an empty set without the zero-value trigger and saw no change
			}
			found := false
			for k := 0; k <= len(G) && !found; k++ {
				rest := sb.log
				if states[k] != 0 || sb.trig {
					if rest[0] != (pair{states[k], 0}) {
						continue
					}
					rest = rest[1:]
				}
				if len(rest) > len(G)-k {
					continue
				}
				ok := true
				for i := range rest {
					if rest[i] != G[k+i] {
						ok = false
						break
					}
				}
				found = ok
			}
			if !found && len(fails) < 4 {
				fails = append(fails, fmt.Sprintf("storm subscriber (trig=%v): log %v is not [state at subscription] ++ a contiguous run of the change sequence", sb.trig, sb.log))
			}
		}
	}
	return fails, nsubs
}

func storms(r *vx.Rng, st *vx.Stats, n int) {
	for i := 0; i < n; i++ {
		var fails []string
		var ns int
		kind := "var"
		if i%2 == 0 {
			fails, ns = stormVar(r.Fork(), 150*time.Millisecond)
		} else {
			kind = "set"
			fails, ns = stormSet(r.Fork(), 12000)
		}
		st.Count("storm:" + kind)
		st.Hist["storm:subscriptions"] += ns
		if len(fails) > 0 {
			st.Fail(map[string]any{"sig": "", "kind": "storm " + kind, "why": fails})
		}
	}
}
